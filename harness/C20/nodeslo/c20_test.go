//go:build verif

package nodeslo

// C20 monitor: NodeSLO settings are layered  default < cluster < first matching node entry.
// See /verif/DESIGN.md section 4, C20.
//
// What is executed: the real SLOCfgHandlerForConfigMapEvent (syncNodeSLOSpecIfChanged -> syncConfig)
// fed sequences of slo-controller ConfigMaps, then the real NodeSLOReconciler.getNodeSLOSpec for a few
// nodes after every update.
//
// Oracle (independent of util.MergeCfg / the JSON overlay): every layer (cluster strategy, each node
// entry) of the section text that was put into the ConfigMap is decoded ALONE into a fresh typed
// strategy value and flattened by reflection into  leaf path -> value ; the expected leaves of a node
// are  default leaves, overridden by the cluster leaves, overridden by the leaves of the FIRST entry
// whose selector matches (own selector matcher). The delivered strategy is flattened the same way and
// compared leaf by leaf in both directions (a delivered leaf nobody that applies to the node has set
// is a leak). Absent key => defaults only. Unparseable text => the section's effective layers stay
// those of the last parseable update, and the delivered section must equal the one delivered before.
//
// Causal rules of the generator (in-domain inputs only):
//   * one ConfigMap object (koordinator-system/slo-controller-config), versions delivered in order;
//   * every value respects the `validate:` range tags of the API types (the handler itself has no
//     validity gate, the optional webhook has); lower/upper pairs use disjoint ranges so that every
//     merged combination is valid too;
//   * selectors are syntactically valid; nil selector (documented: matches nothing) and empty selector
//     (documented: matches everything) are used; overlapping selectors are in the property's domain;
//   * no explicit JSON null, no explicit zero totalNetworkBandwidth, no empty-string section value
//     (each of these makes "is the field set?" ambiguous); the node bandwidth annotation is not set.

import (
	"context"
	"encoding/json"
	"fmt"
	"math"
	"math/big"
	"reflect"
	"sort"
	"strings"
	"testing"

	corev1 "k8s.io/api/core/v1"
	"k8s.io/apimachinery/pkg/api/resource"
	metav1 "k8s.io/apimachinery/pkg/apis/meta/v1"
	"k8s.io/apimachinery/pkg/runtime"
	"k8s.io/apimachinery/pkg/types"
	"k8s.io/apimachinery/pkg/util/intstr"
	"k8s.io/client-go/tools/record"
	"k8s.io/client-go/util/workqueue"
	"k8s.io/klog/v2"
	ctrl "sigs.k8s.io/controller-runtime"
	"sigs.k8s.io/controller-runtime/pkg/client"
	"sigs.k8s.io/controller-runtime/pkg/client/fake"
	"sigs.k8s.io/controller-runtime/pkg/event"
	"sigs.k8s.io/controller-runtime/pkg/reconcile"

	"github.com/koordinator-sh/koordinator/apis/configuration"
	apiext "github.com/koordinator-sh/koordinator/apis/extension"
	slov1alpha1 "github.com/koordinator-sh/koordinator/apis/slo/v1alpha1"
	"github.com/koordinator-sh/koordinator/pkg/util/sloconfig"
	kit "github.com/koordinator-sh/koordinator/pkg/verifkit"
)

func init() {
	klog.SetOutput(c20Discard{})
	klog.LogToStderr(false)
}

type c20Discard struct{}

func (c20Discard) Write(p []byte) (int, error) { return len(p), nil }

// ---------------------------------------------------------------------------------------------
// sections

type c20Section struct {
	name   string       // short name used in signatures and counters
	key    string       // ConfigMap key
	typ    reflect.Type // strategy struct type (nil for the whole-value host-application section)
	cfgTyp reflect.Type // typed envelope, used only for the generator's self check (parses / does not parse)
	def    func() any
	get    func(spec *slov1alpha1.NodeSLOSpec) any
	wrong  []c20KV // wrong-typed members for the "malformed: wrong type" shape
}

type c20KV struct {
	k string
	v any
}

var c20Sections = []*c20Section{
	{name: "threshold", key: configuration.ResourceThresholdConfigKey,
		typ: reflect.TypeOf(slov1alpha1.ResourceThresholdStrategy{}), cfgTyp: reflect.TypeOf(configuration.ResourceThresholdCfg{}),
		def: func() any { return sloconfig.DefaultResourceThresholdStrategy() },
		get: func(s *slov1alpha1.NodeSLOSpec) any { return s.ResourceUsedThresholdWithBE },
		wrong: []c20KV{{"enable", "yes"}, {"cpuSuppressThresholdPercent", "sixty"}, {"cpuEvictPolicy", 5},
			{"cpuSuppressThresholdPercent", json.Number("60.5")}, {"cpuEvictTimeWindowSeconds", json.Number("92233720368547758080")}, {"evictEnabledPriorityThreshold", json.Number("2147483648")}}},
	{name: "qos", key: configuration.ResourceQOSConfigKey,
		typ: reflect.TypeOf(slov1alpha1.ResourceQOSStrategy{}), cfgTyp: reflect.TypeOf(configuration.ResourceQOSCfg{}),
		// the controller's built-in default for resource QoS is "nothing set" (the per-class defaults are applied by the node agent)
		def: func() any { return &slov1alpha1.ResourceQOSStrategy{} },
		get: func(s *slov1alpha1.NodeSLOSpec) any { return s.ResourceQOSStrategy },
		wrong: []c20KV{{"lsClass", 7}, {"beClass", map[string]any{"cpuQOS": map[string]any{"enable": 3}}}, {"policies", "x"},
			{"lsClass", map[string]any{"cpuQOS": map[string]any{"groupIdentity": json.Number("1.5")}}}, {"beClass", map[string]any{"networkQOS": map[string]any{"ingressLimit": true}}},
			{"cgroupRoot", map[string]any{"blkioQOS": map[string]any{"blocks": map[string]any{"name": "x"}}}}}},
	{name: "cpuburst", key: configuration.CPUBurstConfigKey,
		typ: reflect.TypeOf(slov1alpha1.CPUBurstStrategy{}), cfgTyp: reflect.TypeOf(configuration.CPUBurstCfg{}),
		def:   func() any { return sloconfig.DefaultCPUBurstStrategy() },
		get:   func(s *slov1alpha1.NodeSLOSpec) any { return s.CPUBurstStrategy },
		wrong: []c20KV{{"cpuBurstPercent", "x"}, {"policy", 5}, {"sharePoolThresholdPercent", true}, {"cfsQuotaBurstPercent", json.Number("1e30")}, {"cpuBurstPercent", json.Number("1000.25")}}},
	{name: "system", key: configuration.SystemConfigKey,
		typ: reflect.TypeOf(slov1alpha1.SystemStrategy{}), cfgTyp: reflect.TypeOf(configuration.SystemCfg{}),
		def: func() any { return sloconfig.DefaultSystemStrategy() },
		get: func(s *slov1alpha1.NodeSLOSpec) any { return s.SystemStrategy },
		wrong: []c20KV{{"minFreeKbytesFactor", true}, {"schedFeatures", []any{1}}, {"watermarkScaleFactor", "9"},
			{"totalNetworkBandwidth", "a lot"}, {"totalNetworkBandwidth", true}, {"schedFeatures", map[string]any{"ID_BOOK_CPU": "on"}}, {"minFreeKbytesFactor", json.Number("0.5")}}},
	{name: "hostapp", key: configuration.HostApplicationConfigKey,
		cfgTyp: reflect.TypeOf(configuration.HostApplicationCfg{}),
		get:    func(s *slov1alpha1.NodeSLOSpec) any { return s.HostApplications }},
}

var (
	c20TypIntOrStr = reflect.TypeOf(intstr.IntOrString{})
	c20TypQuantity = reflect.TypeOf(resource.Quantity{})
)

// ---------------------------------------------------------------------------------------------
// reflection: flatten a typed strategy into leaf path -> canonical value

type c20Leaves map[string]string

func c20JSONName(sf reflect.StructField) (name string, inline bool, skip bool) {
	tag := sf.Tag.Get("json")
	if tag == "-" {
		return "", false, true
	}
	parts := strings.Split(tag, ",")
	name = parts[0]
	for _, p := range parts[1:] {
		if p == "inline" {
			inline = true
		}
	}
	if name == "" {
		if sf.Anonymous || inline {
			return "", true, false
		}
		name = sf.Name
	}
	return name, false, false
}

// c20Flatten walks v. A leaf is: a non-nil pointer to a scalar / IntOrString, a non-empty string, a
// non-zero Quantity, a non-zero non-pointer scalar, one key of a map, and for slices the pseudo leaf
// "#len" plus the leaves of the elements. Empty structs / nil pointers contribute nothing: the
// statement is about field values, not about whether an intermediate object exists.
func c20Flatten(v reflect.Value, path string, out c20Leaves) {
	switch v.Kind() {
	case reflect.Ptr:
		if v.IsNil() {
			return
		}
		e := v.Elem()
		if e.Type() == c20TypIntOrStr {
			ios := e.Interface().(intstr.IntOrString)
			out[path] = fmt.Sprintf("ios%d:%s", ios.Type, ios.String())
			return
		}
		switch e.Kind() {
		case reflect.Struct:
			c20Flatten(e, path, out)
		case reflect.Bool, reflect.Int, reflect.Int32, reflect.Int64, reflect.String, reflect.Float64:
			out[path] = fmt.Sprint(e.Interface())
		default:
			panic("c20Flatten: unhandled pointer elem kind " + e.Kind().String() + " at " + path)
		}
	case reflect.Struct:
		if v.Type() == c20TypQuantity {
			q := v.Interface().(resource.Quantity)
			if !q.IsZero() {
				out[path] = c20QuantityCanon(q)
			}
			return
		}
		t := v.Type()
		for i := 0; i < t.NumField(); i++ {
			name, inline, skip := c20JSONName(t.Field(i))
			if skip {
				continue
			}
			p := path
			if !inline {
				if p != "" {
					p += "."
				}
				p += name
			}
			c20Flatten(v.Field(i), p, out)
		}
	case reflect.String:
		if v.String() != "" {
			out[path] = v.String()
		}
	case reflect.Bool, reflect.Int, reflect.Int32, reflect.Int64, reflect.Float64:
		if !v.IsZero() {
			out[path] = fmt.Sprint(v.Interface())
		}
	case reflect.Map:
		keys := v.MapKeys()
		for _, k := range keys {
			out[path+"{"+fmt.Sprint(k.Interface())+"}"] = fmt.Sprint(v.MapIndex(k).Interface())
		}
	case reflect.Slice:
		if v.Len() > 0 {
			out[path+"#len"] = fmt.Sprint(v.Len())
		}
		for i := 0; i < v.Len(); i++ {
			c20Flatten(v.Index(i), fmt.Sprintf("%s[%d]", path, i), out)
		}
	default:
		panic("c20Flatten: unhandled kind " + v.Kind().String() + " at " + path)
	}
}

// c20QuantityCanon: exact rational value, independent of the textual form (1000M == 1G == 1e9).
func c20QuantityCanon(q resource.Quantity) string {
	d := q.AsDec()
	v := new(big.Rat).SetInt(d.UnscaledBig())
	sc := int64(d.Scale())
	if sc < 0 {
		v.Mul(v, new(big.Rat).SetInt(new(big.Int).Exp(big.NewInt(10), big.NewInt(-sc), nil)))
	} else if sc > 0 {
		v.Quo(v, new(big.Rat).SetInt(new(big.Int).Exp(big.NewInt(10), big.NewInt(sc), nil)))
	}
	return "q:" + v.RatString()
}

// c20Generic decodes JSON into generic values keeping numbers literally (no float64 rounding of 64-bit integers).
func c20Generic(b []byte, into any) error {
	d := json.NewDecoder(strings.NewReader(string(b)))
	d.UseNumber()
	return d.Decode(into)
}

// c20QuantityText renders n (mega-units mostly; 10%: kilo-, plain or milli-units, i.e. values below 1M) in one of the
// textual forms resource.Quantity accepts. n >= 1: zero is never produced.
func c20QuantityText(r *kit.Rand, n int64) string {
	switch r.Weighted(48, 8, 8, 8, 8, 8, 2, 4, 4, 2) {
	case 7: // small magnitudes are legal quantities too: below one mega-unit ...
		return fmt.Sprintf("%dk", n)
	case 8: // ... a plain small integer ...
		return fmt.Sprintf("%d", n)
	case 9: // ... or a fractional value
		return fmt.Sprintf("%dm", n)
	case 1:
		return fmt.Sprintf("%dk", n*1000)
	case 2:
		return fmt.Sprintf("%d", n*1000000)
	case 3:
		return fmt.Sprintf("%dMi", n)
	case 4:
		return fmt.Sprintf("%d.5M", n)
	case 5:
		return fmt.Sprintf("%de6", n)
	case 6:
		return fmt.Sprintf("%dG", n)
	}
	return fmt.Sprintf("%dM", n)
}

func c20FlattenAny(x any) c20Leaves {
	out := c20Leaves{}
	v := reflect.ValueOf(x)
	if !v.IsValid() {
		return out
	}
	c20Flatten(v, "", out)
	return out
}

// container root of a leaf path: the part before the first '[', '{' or '#'; "" if the leaf is a plain field.
func c20ContainerRoot(path string) string {
	if i := strings.IndexAny(path, "[{#"); i >= 0 {
		return path[:i]
	}
	return ""
}

// leaf name for signatures: last path segment without indexes / map keys.
func c20LeafName(path string) string {
	s := path
	if i := strings.LastIndex(s, "."); i >= 0 {
		s = s[i+1:]
	}
	if i := strings.IndexAny(s, "[{"); i >= 0 {
		rest := s[i:]
		s = s[:i]
		if strings.HasPrefix(rest, "{") {
			s += "{}"
		}
	}
	return s
}

func c20SortedKeys(m c20Leaves) []string {
	ks := make([]string, 0, len(m))
	for k := range m {
		ks = append(ks, k)
	}
	sort.Strings(ks)
	return ks
}

// ---------------------------------------------------------------------------------------------
// own selector matcher (Kubernetes label selector semantics; nil selects nothing, empty selects all)

func c20Match(sel *metav1.LabelSelector, lbl map[string]string) bool {
	if sel == nil {
		return false
	}
	for k, v := range sel.MatchLabels {
		if got, ok := lbl[k]; !ok || got != v {
			return false
		}
	}
	for _, e := range sel.MatchExpressions {
		got, has := lbl[e.Key]
		in := false
		for _, v := range e.Values {
			if has && v == got {
				in = true
			}
		}
		switch e.Operator {
		case metav1.LabelSelectorOpIn:
			if !in {
				return false
			}
		case metav1.LabelSelectorOpNotIn:
			if in {
				return false
			}
		case metav1.LabelSelectorOpExists:
			if !has {
				return false
			}
		case metav1.LabelSelectorOpDoesNotExist:
			if has {
				return false
			}
		default:
			panic("c20Match: generator produced an unknown operator")
		}
	}
	return true
}

// ---------------------------------------------------------------------------------------------
// generator of typed strategy values (random subset of leaves, per-layer sentinel values)

// integer ranges by JSON name, taken from the validate tags / kubebuilder markers of the API types.
// lower/upper pairs (gtfield/ltfield) get disjoint ranges.
var c20IntRange = map[string][2]int64{
	"groupIdentity": {-1, 2}, "schedIdle": {0, 1},
	"minLimitPercent": {0, 100}, "lowLimitPercent": {0, 100}, "throttlingPercent": {0, 100}, "wmarkRatio": {0, 100},
	"wmarkScalePermill": {1, 1000}, "wmarkMinAdj": {-25, 50}, "priorityEnable": {0, 1}, "priority": {0, 12}, "oomKillGroup": {0, 1},
	"pageCacheLimitPercent": {0, 100}, "pageCacheLimitSize": {0, 1 << 30},
	"readIOPS": {0, 100000}, "writeIOPS": {0, 100000}, "readBPS": {0, 1 << 30}, "writeBPS": {0, 1 << 30}, "ioWeightPercent": {1, 100},
	"readLatency": {0, 100000}, "writeLatency": {0, 100000}, "readLatencyPercent": {0, 100}, "writeLatencyPercent": {0, 100},
	"modelReadBPS": {1, 1 << 30}, "modelWriteBPS": {1, 1 << 30}, "modelReadSeqIOPS": {1, 100000}, "modelWriteSeqIOPS": {1, 100000},
	"modelReadRandIOPS": {1, 100000}, "modelWriteRandIOPS": {1, 100000},
	"catRangeStartPercent": {0, 39}, "catRangeEndPercent": {50, 99}, "mbaPercent": {0, 100},
	"cpuSuppressThresholdPercent": {0, 100}, "cpuSuppressMinPercent": {0, 100},
	"memoryEvictLowerPercent": {0, 39}, "memoryEvictThresholdPercent": {50, 99},
	"memoryAllocatableEvictLowerPercent": {50, 99}, "memoryAllocatableEvictThresholdPercent": {100, 199},
	"cpuEvictBESatisfactionLowerPercent": {0, 39}, "cpuEvictBESatisfactionUpperPercent": {50, 99},
	"cpuEvictBEUsageThresholdPercent": {0, 100}, "cpuEvictTimeWindowSeconds": {1, 3600},
	"cpuEvictLowerPercent": {0, 39}, "cpuEvictThresholdPercent": {50, 99},
	"cpuAllocatableEvictLowerPercent": {50, 99}, "cpuAllocatableEvictThresholdPercent": {100, 199},
	"evictEnabledPriorityThreshold": {0, 9999}, "allocatableEvictPriorityThreshold": {0, 7999},
	"cpuBurstPercent": {1, 10000}, "cfsQuotaBurstPercent": {100, 1099}, "cfsQuotaBurstPeriodSeconds": {-1, 3598}, "sharePoolThresholdPercent": {0, 100},
	"minFreeKbytesFactor": {1, 1000}, "watermarkScaleFactor": {1, 400}, "memcgReapBackGround": {0, 1},
	"schedGroupIdentityEnabled": {0, 1}, "schedIdleSaverWmark": {0, 100000}, "pageCacheLimitEnabled": {0, 1},
}

var c20Enum = map[string][]string{
	"cpuSuppressPolicy": {string(slov1alpha1.CPUSetPolicy), string(slov1alpha1.CPUCfsQuotaPolicy)},
	"cpuEvictPolicy":    {string(slov1alpha1.EvictByRealLimitPolicy), string(slov1alpha1.EvictByAllocatablePolicy)},
	"policy":            {string(slov1alpha1.CPUBurstNone), string(slov1alpha1.CPUBurstOnly), string(slov1alpha1.CFSQuotaBurstOnly), string(slov1alpha1.CPUBurstAuto)},
	"cpuPolicy":         {string(slov1alpha1.CPUQOSPolicyGroupIdentity), string(slov1alpha1.CPUQOSPolicyCoreSched)},
	"netQOSPolicy":      {string(slov1alpha1.NETQOSPolicyTC), string(slov1alpha1.NETQOSPolicyTerwayQos)},
	"type":              {string(slov1alpha1.BlockTypeDevice), string(slov1alpha1.BlockTypeVolumeGroup), string(slov1alpha1.BlockTypePodVolume)},
}

var c20SchedFeatureKeys = []string{"ID_BOOK_CPU", "ID_EXPELLER_SHARE_CORE", "ID_ABSOLUTE_EXPEL"}

// integer fields without an upper bound in the API (no max in the validate tag / kubebuilder marker)
var c20Unbounded = map[string]bool{
	"pageCacheLimitSize": true, "readIOPS": true, "writeIOPS": true, "readBPS": true, "writeBPS": true, "readLatency": true, "writeLatency": true,
	"modelReadBPS": true, "modelWriteBPS": true, "modelReadSeqIOPS": true, "modelWriteSeqIOPS": true, "modelReadRandIOPS": true, "modelWriteRandIOPS": true,
	"memoryAllocatableEvictThresholdPercent": true, "cpuAllocatableEvictThresholdPercent": true, "cpuEvictTimeWindowSeconds": true,
	"cfsQuotaBurstPercent": true, "cfsQuotaBurstPeriodSeconds": true, "minFreeKbytesFactor": true,
	"schedIdleSaverWmark": true, "schedGroupIdentityEnabled": true, "evictEnabledPriorityThreshold": true,
}

// integer fields without any validation: negative values are legal input too
var c20AnySign = map[string]bool{"schedIdleSaverWmark": true, "schedGroupIdentityEnabled": true, "evictEnabledPriorityThreshold": true}

type c20Gen struct {
	r         *kit.Rand
	layer     int // 0 = cluster, 1.. = node entry index+1  (selects the sentinel band: layer mod 5)
	leafPct   int
	structPct int
	seq       int
}

func (g *c20Gen) hit() bool { return g.r.Pct(g.leafPct) }

// band returns a value of [lo,hi] inside the band of this layer (5 bands) when the range is wide enough.
func (g *c20Gen) band(lo, hi int64) int64 {
	w := hi - lo + 1
	bw := w / 5
	if bw == 0 {
		return lo + g.r.Int63n(w)
	}
	b := g.layer % 5
	if g.r.Pct(7) { // ties: a value from another layer's band (equal values at different layers become possible)
		b = g.r.Intn(5)
	}
	return lo + int64(b)*bw + g.r.Int63n(bw)
}

func (g *c20Gen) intFor(name string, bits int) int64 {
	rg, ok := c20IntRange[name]
	if !ok {
		panic("c20Gen: no integer range for JSON field " + name)
	}
	switch {
	case g.r.Pct(8): // the ends of the legal range (0 / false-like values set explicitly at a layer)
		return rg[g.r.Intn(2)]
	case c20Unbounded[name] && g.r.Pct(6):
		if bits == 32 {
			return math.MaxInt32
		}
		return kit.Pick(g.r, []int64{math.MaxInt32 + 1, 1<<53 + 1, 1 << 62, math.MaxInt64})
	case c20AnySign[name] && g.r.Pct(6):
		if bits == 32 {
			return kit.Pick(g.r, []int64{-1, math.MinInt32})
		}
		return kit.Pick(g.r, []int64{-1, math.MinInt64})
	}
	return g.band(rg[0], rg[1])
}

func (g *c20Gen) strFor(name string, pointer bool) string {
	if name == "name" {
		g.seq++
		return fmt.Sprintf("L%d-blk%d", g.layer, g.seq)
	}
	e, ok := c20Enum[name]
	if !ok {
		panic("c20Gen: no enum for JSON field " + name)
	}
	switch {
	case g.r.Pct(5): // the types are plain strings: values outside the known constants are accepted by the controller
		return fmt.Sprintf("custom-L%d", g.layer)
	case pointer && g.r.Pct(3): // a pointer to "" is set (and survives the JSON round trip)
		return ""
	}
	return kit.Pick(g.r, e)
}

func (g *c20Gen) fill(v reflect.Value) {
	t := v.Type()
	for i := 0; i < t.NumField(); i++ {
		sf := t.Field(i)
		name, _, skip := c20JSONName(sf)
		if skip {
			continue
		}
		f := v.Field(i)
		switch f.Kind() {
		case reflect.Ptr:
			et := sf.Type.Elem()
			switch {
			case et == c20TypIntOrStr:
				if g.hit() {
					var x intstr.IntOrString
					if g.r.Bool() {
						x = intstr.FromInt32(int32(g.band(0, 100)))
					} else {
						x = intstr.FromString(fmt.Sprintf("%dM", g.band(1, 1000)))
					}
					f.Set(reflect.ValueOf(&x))
				}
			case et.Kind() == reflect.Struct:
				if g.r.Pct(g.structPct) {
					nv := reflect.New(et)
					g.fill(nv.Elem())
					f.Set(nv)
				}
			case et.Kind() == reflect.Bool:
				if g.hit() {
					nv := reflect.New(et)
					nv.Elem().SetBool(g.r.Bool())
					f.Set(nv)
				}
			case et.Kind() == reflect.Int64 || et.Kind() == reflect.Int32:
				if g.hit() {
					nv := reflect.New(et)
					bits := 64
					if et.Kind() == reflect.Int32 {
						bits = 32
					}
					nv.Elem().SetInt(g.intFor(name, bits))
					f.Set(nv)
				}
			case et.Kind() == reflect.String:
				if g.hit() {
					nv := reflect.New(et)
					nv.Elem().SetString(g.strFor(name, true))
					f.Set(nv)
				}
			default:
				panic("c20Gen: unhandled pointer field " + sf.Name)
			}
		case reflect.Struct:
			if sf.Type == c20TypQuantity {
				if g.hit() {
					f.Set(reflect.ValueOf(resource.MustParse(c20QuantityText(g.r, g.band(1, 1000)))))
				}
			} else {
				g.fill(f)
			}
		case reflect.String:
			if g.hit() {
				f.SetString(g.strFor(name, false))
			}
		case reflect.Map: // map[string]bool
			if g.hit() {
				m := reflect.MakeMap(sf.Type)
				for _, k := range c20SchedFeatureKeys {
					if g.r.Pct(50) {
						m.SetMapIndex(reflect.ValueOf(k), reflect.ValueOf(g.r.Bool()))
					}
				}
				if g.r.Pct(15) { // the kernel's feature list is open-ended
					m.SetMapIndex(reflect.ValueOf(fmt.Sprintf("CUSTOM_FEATURE_%d", g.r.Intn(3))), reflect.ValueOf(g.r.Bool()))
				}
				if m.Len() > 0 {
					f.Set(m)
				}
			}
		case reflect.Slice: // []*BlockCfg
			if g.hit() {
				n := g.r.Range(1, 2)
				if g.r.Pct(10) {
					n = g.r.Range(3, 5)
				}
				s := reflect.MakeSlice(sf.Type, 0, n)
				sub := *g
				if sub.leafPct < 35 {
					sub.leafPct = 35
				}
				for k := 0; k < n; k++ {
					nv := reflect.New(sf.Type.Elem().Elem())
					sub.fill(nv.Elem())
					s = reflect.Append(s, nv)
				}
				g.seq = sub.seq
				f.Set(s)
			}
		default:
			panic("c20Gen: unhandled field kind " + f.Kind().String() + " of " + sf.Name)
		}
	}
}

// genStrategyJSON builds one typed strategy and returns it as a generic JSON object. An unset
// totalNetworkBandwidth (non-pointer, not omittable by encoding/json) is removed so that the text
// does not mention fields the layer does not set.
func (g *c20Gen) genStrategyJSON(t reflect.Type) map[string]any {
	nv := reflect.New(t)
	g.fill(nv.Elem())
	b, err := json.Marshal(nv.Interface())
	if err != nil {
		panic("c20Gen: marshal typed strategy: " + err.Error())
	}
	m := map[string]any{}
	if err := c20Generic(b, &m); err != nil {
		panic("c20Gen: " + err.Error())
	}
	if q, ok := m["totalNetworkBandwidth"]; ok {
		if q == "0" {
			delete(m, "totalNetworkBandwidth")
		} else if qs, _ := q.(string); strings.Trim(qs, "0123456789") == "" && g.r.Pct(40) {
			m["totalNetworkBandwidth"] = json.Number(qs) // a quantity may be written as a bare JSON number
		}
	}
	if g.r.Pct(6) { // members this version does not know are ignored, not an error
		m["unknownFutureKnob"] = map[string]any{"x": 1}
	}
	return m
}

var (
	c20LabelKeys = []string{"pool", "zone", "tier"}
	c20LabelVals = []string{"a", "b", "c"}
)

const c20PrefixedKey = "node.kubernetes.io/instance-type"

func c20PickKey(r *kit.Rand) string {
	if r.Pct(10) {
		return c20PrefixedKey
	}
	return kit.Pick(r, c20LabelKeys)
}

func c20PickVal(r *kit.Rand) string {
	if r.Pct(6) {
		return "" // the empty string is a legal label value
	}
	return kit.Pick(r, c20LabelVals)
}

func c20GenLabels(r *kit.Rand, pct int) map[string]string {
	lbl := map[string]string{}
	for _, k := range c20LabelKeys {
		if r.Pct(pct) {
			lbl[k] = c20PickVal(r)
		}
	}
	if r.Pct(20) {
		lbl[c20PrefixedKey] = c20PickVal(r)
	}
	if r.Pct(8) { // many labels no selector mentions
		for i := 0; i < 10; i++ {
			lbl[fmt.Sprintf("example.com/unrelated-%d", i)] = kit.Pick(r, c20LabelVals)
		}
	}
	return lbl
}

func c20GenSelector(r *kit.Rand) *metav1.LabelSelector {
	sel := &metav1.LabelSelector{}
	switch r.Weighted(6, 8, 36, 12, 26, 12) {
	case 0:
		return nil // documented: a nil selector matches no node
	case 1:
		return sel // documented: an empty selector matches every node
	case 2:
		sel.MatchLabels = map[string]string{c20PickKey(r): c20PickVal(r)}
	case 3:
		p := r.Perm(len(c20LabelKeys))
		sel.MatchLabels = map[string]string{c20LabelKeys[p[0]]: c20PickVal(r), c20LabelKeys[p[1]]: c20PickVal(r)}
	case 4:
		sel.MatchExpressions = []metav1.LabelSelectorRequirement{c20GenExpr(r)}
		if r.Pct(20) {
			for n := r.Range(1, 2); n > 0; n-- {
				sel.MatchExpressions = append(sel.MatchExpressions, c20GenExpr(r))
			}
		}
	case 5:
		sel.MatchLabels = map[string]string{c20PickKey(r): c20PickVal(r)}
		sel.MatchExpressions = []metav1.LabelSelectorRequirement{c20GenExpr(r)}
	}
	return sel
}

func c20GenExpr(r *kit.Rand) metav1.LabelSelectorRequirement {
	e := metav1.LabelSelectorRequirement{Key: c20PickKey(r)}
	switch r.Intn(4) {
	case 0, 1:
		e.Operator = metav1.LabelSelectorOpIn
		if r.Intn(4) == 1 {
			e.Operator = metav1.LabelSelectorOpNotIn
		}
		p := r.Perm(len(c20LabelVals))
		n := r.Range(1, 3)
		for i := 0; i < n; i++ {
			e.Values = append(e.Values, c20LabelVals[p[i]])
		}
		if r.Pct(6) {
			e.Values = append(e.Values, "")
		}
		sort.Strings(e.Values)
	case 2:
		e.Operator = metav1.LabelSelectorOpExists
	case 3:
		e.Operator = metav1.LabelSelectorOpDoesNotExist
	}
	return e
}

func c20SelectorJSON(sel *metav1.LabelSelector) any {
	b, _ := json.Marshal(sel)
	var x any
	_ = c20Generic(b, &x)
	return x
}

func c20GenApps(r *kit.Rand, layer int, n int) []any {
	var out []any
	for i := 0; i < n; i++ {
		a := slov1alpha1.HostApplicationSpec{
			Name:     fmt.Sprintf("L%d-app%d", layer, i),
			Priority: kit.Pick(r, []apiext.PriorityClass{apiext.PriorityProd, apiext.PriorityMid, apiext.PriorityBatch, ""}),
			QoS:      kit.Pick(r, []apiext.QoSClass{apiext.QoSLS, apiext.QoSBE, apiext.QoSLSR, ""}),
		}
		if i > 0 && r.Pct(8) { // names are not required to be unique
			a.Name = fmt.Sprintf("L%d-app%d", layer, i-1)
		}
		if r.Pct(10) {
			a.Strategy = &slov1alpha1.HostApplicationStrategy{}
		}
		if r.Bool() {
			a.CgroupPath = &slov1alpha1.CgroupPath{
				Base:         kit.Pick(r, []slov1alpha1.CgroupBaseType{slov1alpha1.CgroupBaseTypeRoot, slov1alpha1.CgroupBaseTypeKubepods, slov1alpha1.CgroupBaseTypeKubeBurstable, ""}),
				ParentDir:    kit.Pick(r, []string{"", "host-latency-sensitive/", "host-best-effort/"}),
				RelativePath: fmt.Sprintf("L%d-app%d/", layer, i),
			}
		}
		b, _ := json.Marshal(a)
		var x any
		_ = c20Generic(b, &x)
		out = append(out, x)
	}
	return out
}

// c20GenValid returns a parseable section text. full: every leaf at the cluster layer.
func c20GenValid(r *kit.Rand, sec *c20Section, full bool) string {
	env := map[string]any{}
	nEntries := r.Intn(5)
	if r.Pct(6) { // "any number of node entries"
		nEntries = r.Range(5, 12)
	}
	few := func(lo, hi, rareHi int) int {
		if r.Pct(8) {
			return r.Range(hi+1, rareHi)
		}
		return r.Range(lo, hi)
	}
	entryName := func(e map[string]any, i int) {
		switch {
		case r.Pct(8): // the name is optional
		case i > 0 && r.Pct(8): // and not required to be unique here
			e["name"] = fmt.Sprintf("e%d", r.Intn(i))
		default:
			e["name"] = fmt.Sprintf("e%d", i)
		}
	}
	var prevSel []*metav1.LabelSelector
	genSel := func() *metav1.LabelSelector {
		// 25%: literally the selector of an earlier entry (two entries matching the same nodes, first wins)
		if len(prevSel) > 0 && r.Pct(25) {
			return kit.Pick(r, prevSel)
		}
		return c20GenSelector(r)
	}
	entryDensity := []int{5, 15, 40, 80}
	if sec.typ == nil { // host applications: whole-value lists
		if full || r.Pct(70) {
			if apps := c20GenApps(r, 0, few(1, 3, 8)); len(apps) > 0 {
				env["applications"] = apps
			}
		}
		var ents []any
		for i := 0; i < nEntries; i++ {
			e := map[string]any{}
			entryName(e, i)
			sel := genSel()
			prevSel = append(prevSel, sel)
			if sel != nil {
				e["nodeSelector"] = c20SelectorJSON(sel)
			}
			if r.Pct(85) {
				e["applications"] = c20GenApps(r, i+1, few(1, 2, 5))
			}
			ents = append(ents, e)
		}
		if ents != nil || r.Pct(10) {
			if ents == nil {
				ents = []any{}
			}
			env["nodeConfigs"] = ents
		}
	} else {
		if full || r.Pct(75) {
			g := &c20Gen{r: r, layer: 0, leafPct: kit.Pick(r, []int{8, 25, 60}), structPct: 55}
			if full {
				g.leafPct, g.structPct = 100, 100
			}
			env["clusterStrategy"] = g.genStrategyJSON(sec.typ)
		}
		var ents []any
		for i := 0; i < nEntries; i++ {
			e := map[string]any{}
			if r.Pct(90) {
				g := &c20Gen{r: r, layer: i + 1, leafPct: kit.Pick(r, entryDensity), structPct: 50}
				if full && r.Pct(30) {
					g.leafPct, g.structPct = 100, 100
				}
				e = g.genStrategyJSON(sec.typ)
			}
			entryName(e, i)
			sel := genSel()
			prevSel = append(prevSel, sel)
			if sel != nil {
				e["nodeSelector"] = c20SelectorJSON(sel)
			}
			ents = append(ents, e)
		}
		if ents != nil || r.Pct(10) {
			if ents == nil {
				ents = []any{}
			}
			env["nodeStrategies"] = ents
		}
	}
	if r.Pct(6) {
		env["futureSection"] = []any{1, "x"}
	}
	return c20Marshal(r, env)
}

func c20Marshal(r *kit.Rand, x any) string {
	var b []byte
	if r.Pct(25) {
		b, _ = json.MarshalIndent(x, "", "  ")
	} else {
		b, _ = json.Marshal(x)
	}
	return string(b)
}

// c20GenMalformed returns a text that cannot be parsed into the section's configuration.
func c20GenMalformed(r *kit.Rand, sec *c20Section) (text string, kind string) {
	valid := c20GenValid(r, sec, false)
	switch r.Weighted(34, 44, 12, 10) {
	case 0: // truncated JSON: a proper prefix of an object text is never a complete JSON value
		return valid[:r.Range(1, len(valid)-1)], "truncated"
	case 3: // a complete value followed by something else
		return valid + kit.Pick(r, []string{" x", "}", ",", "{}", "]"}), "trailing-garbage"
	case 1: // wrong type somewhere
		var env map[string]any
		_ = c20Generic([]byte(valid), &env)
		entKey, cluKey := "nodeStrategies", "clusterStrategy"
		if sec.typ == nil {
			entKey = "nodeConfigs"
		}
		ents, _ := env[entKey].([]any)
		switch w := r.Weighted(40, 30, 30); {
		case w == 0 && sec.typ != nil: // wrong-typed member in the cluster strategy
			clu, _ := env[cluKey].(map[string]any)
			if clu == nil {
				clu = map[string]any{}
			}
			kv := kit.Pick(r, sec.wrong)
			clu[kv.k] = kv.v
			env[cluKey] = clu
			return c20Marshal(r, env), "wrongtype-cluster"
		case w == 1 && len(ents) > 0: // wrong-typed member in a node entry
			e := ents[r.Intn(len(ents))].(map[string]any)
			if sec.typ != nil && r.Pct(70) {
				kv := kit.Pick(r, sec.wrong)
				e[kv.k] = kv.v
			} else {
				e["nodeSelector"] = "pool=a"
			}
			return c20Marshal(r, env), "wrongtype-entry"
		default: // wrong-typed envelope member
			if sec.typ == nil {
				kv := kit.Pick(r, []c20KV{{"applications", map[string]any{"a": 1}}, {"nodeConfigs", 3}, {"applications", []any{map[string]any{"name": 5}}}})
				env[kv.k] = kv.v
			} else {
				kv := kit.Pick(r, []c20KV{{"clusterStrategy", 5}, {"nodeStrategies", "x"}, {"nodeStrategies", map[string]any{"a": 1}}, {"clusterStrategy", []any{}}})
				env[kv.k] = kv.v
			}
			return c20Marshal(r, env), "wrongtype-envelope"
		}
	default:
		return kit.Pick(r, []string{"invalid_content", "[]", `"x"`, "{", `{"clusterStrategy":`, "7"}), "garbage"
	}
}

// ---------------------------------------------------------------------------------------------
// oracle: effective layers of a section

type c20Entry struct {
	name   string
	sel    *metav1.LabelSelector
	leaves c20Leaves // strategy sections
	apps   []string  // host applications: canonical JSON per application
}

type c20Eff struct {
	fromText bool // false: defaults only (absent key / nothing synced yet)
	nonEmpty bool // some layer sets something
	cluster  c20Leaves
	cluApps  []string
	entries  []c20Entry
}

func c20CanonApps(apps []slov1alpha1.HostApplicationSpec) []string {
	out := make([]string, 0, len(apps))
	for i := range apps {
		b, _ := json.Marshal(apps[i])
		out = append(out, string(b))
	}
	return out
}

// c20Parse decodes each layer of a parseable text ALONE (its own JSON round trip) and flattens it.
func c20Parse(sec *c20Section, text string) (*c20Eff, error) {
	eff := &c20Eff{fromText: true}
	if sec.typ == nil {
		var env struct {
			Applications []slov1alpha1.HostApplicationSpec `json:"applications"`
			NodeConfigs  []json.RawMessage                 `json:"nodeConfigs"`
		}
		if err := json.Unmarshal([]byte(text), &env); err != nil {
			return nil, err
		}
		eff.cluApps = c20CanonApps(env.Applications)
		eff.nonEmpty = len(eff.cluApps) > 0
		for _, raw := range env.NodeConfigs {
			var prof configuration.NodeCfgProfile
			var body struct {
				Applications []slov1alpha1.HostApplicationSpec `json:"applications"`
			}
			if err := json.Unmarshal(raw, &prof); err != nil {
				return nil, err
			}
			if err := json.Unmarshal(raw, &body); err != nil {
				return nil, err
			}
			e := c20Entry{name: prof.Name, sel: prof.NodeSelector, apps: c20CanonApps(body.Applications)}
			eff.nonEmpty = eff.nonEmpty || len(e.apps) > 0
			eff.entries = append(eff.entries, e)
		}
		return eff, nil
	}
	var env struct {
		ClusterStrategy json.RawMessage   `json:"clusterStrategy"`
		NodeStrategies  []json.RawMessage `json:"nodeStrategies"`
	}
	if err := json.Unmarshal([]byte(text), &env); err != nil {
		return nil, err
	}
	eff.cluster = c20Leaves{}
	if len(env.ClusterStrategy) > 0 && string(env.ClusterStrategy) != "null" {
		x := reflect.New(sec.typ)
		if err := json.Unmarshal(env.ClusterStrategy, x.Interface()); err != nil {
			return nil, err
		}
		eff.cluster = c20FlattenAny(x.Interface())
	}
	eff.nonEmpty = len(eff.cluster) > 0
	for _, raw := range env.NodeStrategies {
		var prof configuration.NodeCfgProfile
		if err := json.Unmarshal(raw, &prof); err != nil {
			return nil, err
		}
		x := reflect.New(sec.typ)
		if err := json.Unmarshal(raw, x.Interface()); err != nil {
			return nil, err
		}
		e := c20Entry{name: prof.Name, sel: prof.NodeSelector, leaves: c20FlattenAny(x.Interface())}
		eff.nonEmpty = eff.nonEmpty || len(e.leaves) > 0
		eff.entries = append(eff.entries, e)
	}
	return eff, nil
}

func c20EntryLeaves(e *c20Eff) []c20Leaves {
	var out []c20Leaves
	for i := range e.entries {
		out = append(out, e.entries[i].leaves)
	}
	return out
}

// matching entries of a node, in list order
func (e *c20Eff) matches(lbl map[string]string) []int {
	var out []int
	for i := range e.entries {
		if c20Match(e.entries[i].sel, lbl) {
			out = append(out, i)
		}
	}
	return out
}

type c20Want struct {
	must    c20Leaves
	mustSrc map[string]string // "entry" | "cluster" | "default"
	may     c20Leaves         // container members (slice elements / map keys) set only by a lower applicable layer: absent or this value
}

// c20Expect: three-layer merge in leaf space. layers are the applicable ones, lowest first.
// Plain fields: the highest layer that sets the leaf wins. Containers (the blocks list, the
// schedFeatures map): the statement does not say whether "field" means the container or its
// members, so only what both readings agree on is demanded: the members set by the highest layer
// that sets the container have that layer's values and the list has that layer's length; a member
// set only by a lower applicable layer may be absent (container replaced as a whole) or carry that
// lower layer's value (member-wise merge) and nothing else.
func c20Expect(names []string, layers []c20Leaves) c20Want {
	w := c20Want{must: c20Leaves{}, mustSrc: map[string]string{}, may: c20Leaves{}}
	top := map[string]int{}
	for li, l := range layers {
		for p := range l {
			if root := c20ContainerRoot(p); root != "" {
				top[root] = li
			}
		}
	}
	for li, l := range layers {
		for p, v := range l {
			root := c20ContainerRoot(p)
			if root == "" {
				w.must[p], w.mustSrc[p] = v, names[li]
			} else if top[root] == li {
				w.must[p], w.mustSrc[p] = v, names[li]
			}
		}
	}
	for li := len(layers) - 1; li >= 0; li-- {
		for p, v := range layers[li] {
			root := c20ContainerRoot(p)
			if root == "" || top[root] == li {
				continue
			}
			if _, ok := w.must[p]; ok {
				continue
			}
			if _, ok := w.may[p]; ok {
				continue // a higher (still lower than top) applicable layer already gave the alternative
			}
			if top[root] > li {
				w.may[p] = v
			}
		}
	}
	return w
}

// ---------------------------------------------------------------------------------------------
// the workload

// c20Obs is what one NodeSLOSpec (freshly computed, or read back from the API) delivers.
type c20Obs struct {
	secs map[string]c20Leaves
	apps []string
	ext  int
}

func c20Observe(spec *slov1alpha1.NodeSLOSpec) *c20Obs {
	o := &c20Obs{secs: map[string]c20Leaves{}}
	for _, sec := range c20Sections {
		if sec.typ == nil {
			o.apps = c20CanonApps(spec.HostApplications)
		} else {
			o.secs[sec.name] = c20FlattenAny(sec.get(spec))
		}
	}
	if spec.Extensions != nil {
		o.ext = len(spec.Extensions.Object)
	}
	return o
}

// diff returns "" when both observations deliver the same leaves, else the first difference.
func (o *c20Obs) diff(p *c20Obs) (section, desc string) {
	for _, sec := range c20Sections {
		if sec.typ == nil {
			if !c20SameApps(o.apps, p.apps) {
				return sec.name, fmt.Sprintf("host applications %v vs %v", o.apps, p.apps)
			}
			continue
		}
		a, b := o.secs[sec.name], p.secs[sec.name]
		for _, k := range c20SortedKeys(a) {
			if bv, ok := b[k]; !ok || bv != a[k] {
				return sec.name, fmt.Sprintf("leaf %s: %q vs %q (present=%v)", k, a[k], bv, ok)
			}
		}
		for _, k := range c20SortedKeys(b) {
			if _, ok := a[k]; !ok {
				return sec.name, fmt.Sprintf("leaf %s: absent vs %q", k, b[k])
			}
		}
	}
	return "", ""
}

// pureWithdrawal: o (now) delivers a strict subset of the leaves of p (before), all with unchanged
// values, i.e. the step only WITHDREW settings from this node.
func (o *c20Obs) pureWithdrawal(p *c20Obs) bool {
	fewer := false
	for name, a := range o.secs {
		b := p.secs[name]
		for k, v := range a {
			if bv, ok := b[k]; !ok || bv != v {
				return false
			}
		}
		if len(a) < len(b) {
			fewer = true
		}
	}
	if !c20SameApps(o.apps, p.apps) {
		if len(o.apps) != 0 {
			return false
		}
		fewer = true
	}
	return fewer
}

type c20Node struct {
	idx        int
	node       *corev1.Node // model copy handed to getNodeSLOSpec; same labels/annotations as the object in the fake API
	ann        string       // value of the node bandwidth annotation, "" when not annotated
	annLeaf    string       // the leaf value the annotation stands for
	annEver    map[string]bool
	prev       *c20Obs // computed after the previous step
	prevSpec   *slov1alpha1.NodeSLOSpec
	prevStored *c20Obs // stored NodeSLO.Spec after the previous step
	hasSLO     bool
	staleSLO   bool // the NodeSLO object exists from before this controller instance, with unrelated content
}

type c20SecState struct {
	eff       *c20Eff
	lastText  string
	lastState string // absent | empty | partial | full | malformed | withdrawn
	prevState string // state of the update before
	hasText   bool
}

var c20States = []string{"absent", "empty", "partial", "full", "malformed", "same"}

type c20Run struct {
	c            *kit.Case
	r            *kit.Rand
	defaults     map[string]c20Leaves
	st           map[string]*c20SecState
	nodes        []*c20Node
	step         int
	stepKind     string
	malformedNow map[string]bool
	h            *SLOCfgHandlerForConfigMapEvent
	rec          *NodeSLOReconciler
	cmInAPI      *corev1.ConfigMap // the slo-controller ConfigMap object as stored in the fake API (nil: does not exist)
	cmVersion    int
	enqueued     map[string]bool // nodes whose Reconcile is due after this step

	sawMalformedAfterGood, sawDecisiveFirstWins bool
}

func c20AnnValue(r *kit.Rand, idx int) string {
	// per-node sentinel band, disjoint from every band used inside the ConfigMap (1M..1000M)
	return c20QuantityText(r, int64(2000+1000*idx+r.Intn(1000)))
}

func (n *c20Node) setAnn(v string) {
	n.ann, n.annLeaf = v, ""
	if v != "" {
		n.annLeaf = c20QuantityCanon(resource.MustParse(v))
		n.annEver[n.annLeaf] = true
	}
}

// install: s.lastText / s.hasText / s.lastState have been set for this update; run the generator
// self check and move the oracle's effective layers.
func (x *c20Run) install(sec *c20Section) {
	c, s := x.c, x.st[sec.name]
	state := s.lastState
	c.Count("state_"+sec.name+"_"+state, 1)
	if !s.hasText {
		s.eff = &c20Eff{}
		c.Op("step %d %s state=absent", x.step, sec.name)
		return
	}
	typed := reflect.New(sec.cfgTyp)
	perr := json.Unmarshal([]byte(s.lastText), typed.Interface())
	if state == "malformed" {
		if perr == nil {
			c.Harness("generator: %s text meant to be malformed parses: %s", sec.name, s.lastText)
		}
		x.malformedNow[sec.name] = true
		if s.eff.nonEmpty {
			c.Count("malformed_after_good", 1)
			c.Count("malformed_after_good_"+sec.name, 1)
			x.sawMalformedAfterGood = true
		} else {
			c.Count("malformed_after_defaults", 1)
		}
		// effective layers stay as they are
	} else {
		if perr != nil {
			c.Harness("generator: %s text meant to be valid does not parse (%v): %s", sec.name, perr, s.lastText)
		}
		eff, err := c20Parse(sec, s.lastText)
		if err != nil {
			c.Harness("oracle cannot parse valid %s text (%v): %s", sec.name, err, s.lastText)
		}
		s.eff = eff
		c.Count("leaves_set_cluster_"+sec.name, len(eff.cluster)+len(eff.cluApps))
		for _, e := range eff.entries {
			c.Count("leaves_set_entry_"+sec.name, len(e.leaves)+len(e.apps))
		}
		c.Count("entries_"+sec.name, len(eff.entries))
		if len(eff.entries) >= 5 {
			c.Count("sections_with_5plus_entries", 1)
		}
		for _, e := range eff.entries {
			if v, ok := e.leaves["totalNetworkBandwidth"]; ok {
				if q, ok := new(big.Rat).SetString(strings.TrimPrefix(v, "q:")); ok && q.Cmp(big.NewRat(1000000, 1)) < 0 {
					c.Count("entry_bandwidth_below_1M", 1)
					if cv, ok := eff.cluster["totalNetworkBandwidth"]; ok && cv != v {
						c.Count("entry_bandwidth_below_1M_with_other_cluster_value", 1)
					}
				}
			}
		}
		for _, l := range append([]c20Leaves{eff.cluster}, c20EntryLeaves(eff)...) {
			for p, v := range l {
				switch {
				case strings.HasPrefix(v, "q:") || strings.HasPrefix(v, "ios"):
				case strings.HasPrefix(v, "-") && len(v) > 1 && !strings.HasSuffix(p, "groupIdentity") && !strings.HasSuffix(p, "wmarkMinAdj") && !strings.HasSuffix(p, "cfsQuotaBurstPeriodSeconds"):
					c.Count("negative_unvalidated_leaves_set", 1)
				case len(v) >= 16 && strings.Trim(v, "0123456789") == "":
					c.Count("int64_scale_integer_leaves_set", 1)
				case v == "":
					c.Count("empty_string_pointer_leaves_set", 1)
				case strings.HasPrefix(v, "custom-L"):
					c.Count("unknown_enum_leaves_set", 1)
				}
			}
		}
	}
	c.Op("step %d %s state=%s text=%s", x.step, sec.name, state, s.lastText)
}

// genUpdate: every section independently re-rolled.
func (x *c20Run) genUpdate() {
	r, c := x.r, x.c
	for _, sec := range c20Sections {
		s := x.st[sec.name]
		s.prevState = s.lastState
		state := c20States[r.Weighted(13, 8, 34, 10, 22, 13)]
		if state == "same" {
			if !s.hasText { // nothing to repeat
				s.lastState = "absent"
			}
			c.Count("state_"+sec.name+"_repeated", 1)
		} else {
			switch state {
			case "absent":
				s.hasText = false
			case "empty":
				forms := []string{"{}", "null", " { } "}
				if sec.typ != nil {
					forms = append(forms, `{"clusterStrategy":{}}`, `{"nodeStrategies":[]}`, `{"clusterStrategy":{},"nodeStrategies":[]}`)
				} else {
					forms = append(forms, `{"applications":[]}`, `{"nodeConfigs":[]}`)
				}
				s.lastText, s.hasText = kit.Pick(r, forms), true
			case "partial", "full":
				s.lastText, s.hasText = c20GenValid(r, sec, state == "full"), true
				if r.Pct(10) { // ConfigMap values written as YAML block scalars come with surrounding white space
					s.lastText = kit.Pick(r, []string{"\n", " ", "\n  "}) + s.lastText + kit.Pick(r, []string{"\n", "\n\n", " \t"})
				}
			case "malformed":
				var kind string
				s.lastText, kind = c20GenMalformed(r, sec)
				s.hasText = true
				c.Count("malformed_kind_"+kind, 1)
			}
			s.lastState = state
		}
		x.install(sec)
	}
}

// c20DropMembers deletes 1-3 members somewhere inside obj (never the keys in keep).
func c20DropMembers(r *kit.Rand, obj map[string]any, keep map[string]bool) bool {
	done := false
	for n := r.Range(1, 3); n > 0; n-- {
		if c20DropOne(r, obj, keep, 0) {
			done = true
		}
	}
	return done
}

func c20DropOne(r *kit.Rand, obj map[string]any, keep map[string]bool, depth int) bool {
	var keys []string
	for k := range obj {
		if !keep[k] {
			keys = append(keys, k)
		}
	}
	if len(keys) == 0 {
		return false
	}
	sort.Strings(keys)
	k := kit.Pick(r, keys)
	switch v := obj[k].(type) {
	case map[string]any:
		if len(v) > 0 && depth < 4 && r.Pct(65) && c20DropOne(r, v, nil, depth+1) {
			return true
		}
	case []any:
		if len(v) > 0 && r.Pct(60) {
			if e, ok := v[r.Intn(len(v))].(map[string]any); ok && r.Pct(50) && c20DropOne(r, e, nil, depth+1) {
				return true
			}
			if len(v) > 1 { // drop the last element
				obj[k] = v[:len(v)-1]
				return true
			}
		}
	}
	delete(obj, k)
	return true
}

// c20Withdraw derives from a parseable section text one that only takes settings away.
func c20Withdraw(r *kit.Rand, sec *c20Section, text string) (string, string, bool) {
	var env map[string]any
	if err := c20Generic([]byte(text), &env); err != nil || env == nil {
		return "", "", false
	}
	entKey, cluKey := "nodeStrategies", "clusterStrategy"
	if sec.typ == nil {
		entKey, cluKey = "nodeConfigs", "applications"
	}
	ents, _ := env[entKey].([]any)
	profile := map[string]bool{"name": true, "nodeSelector": true}
	for _, try := range r.Perm(4) {
		switch try {
		case 0: // a node entry is removed
			if len(ents) > 0 {
				i := r.Intn(len(ents))
				env[entKey] = append(append([]any{}, ents[:i]...), ents[i+1:]...)
				return c20Marshal(r, env), "remove-entry", true
			}
		case 1: // optional cluster-wide settings are dropped
			if sec.typ != nil {
				if clu, ok := env[cluKey].(map[string]any); ok && c20DropMembers(r, clu, nil) {
					return c20Marshal(r, env), "drop-cluster-members", true
				}
			} else if apps, ok := env[cluKey].([]any); ok && len(apps) > 0 {
				i := r.Intn(len(apps))
				env[cluKey] = append(append([]any{}, apps[:i]...), apps[i+1:]...)
				return c20Marshal(r, env), "drop-cluster-application", true
			}
		case 2: // settings of one node entry are dropped
			if len(ents) > 0 {
				e, _ := ents[r.Intn(len(ents))].(map[string]any)
				if e != nil && c20DropMembers(r, e, profile) {
					return c20Marshal(r, env), "drop-entry-members", true
				}
			}
		case 3: // the whole cluster-wide layer is removed
			if _, ok := env[cluKey]; ok {
				delete(env, cluKey)
				return c20Marshal(r, env), "remove-cluster-layer", true
			}
		}
	}
	return "", "", false
}

// genWithdraw: 1-2 sections lose settings (a member, an entry, the cluster layer, the whole key),
// every other section keeps its text. Returns false when no section has anything to withdraw.
func (x *c20Run) genWithdraw() bool {
	r, c := x.r, x.c
	var cand []*c20Section
	for _, sec := range c20Sections {
		s := x.st[sec.name]
		if s.hasText && s.lastState != "malformed" && s.eff.nonEmpty {
			cand = append(cand, sec)
		}
	}
	if len(cand) == 0 {
		return false
	}
	kit.Shuffle(r, cand)
	chosen := map[string]string{}
	for _, sec := range cand[:r.Range(1, min(2, len(cand)))] {
		s := x.st[sec.name]
		if r.Pct(20) {
			chosen[sec.name] = "remove-section"
			continue
		}
		if text, op, ok := c20Withdraw(r, sec, s.lastText); ok {
			chosen[sec.name] = op
			s.lastText = text
		}
	}
	if len(chosen) == 0 {
		return false
	}
	for _, sec := range c20Sections {
		s := x.st[sec.name]
		s.prevState = s.lastState
		if op, ok := chosen[sec.name]; ok {
			c.Count("withdraw_op_"+op, 1)
			if op == "remove-section" {
				s.hasText, s.lastState = false, "absent"
			} else {
				s.lastState = "withdrawn"
			}
		} else {
			if !s.hasText {
				s.lastState = "absent"
			}
			c.Count("state_"+sec.name+"_repeated", 1)
		}
		x.install(sec)
	}
	return true
}

// c20Queue stands in for the controller's work queue: it only records what the handler enqueues.
type c20Queue struct {
	workqueue.TypedRateLimitingInterface[reconcile.Request]
	names []string
}

func (q *c20Queue) Add(item reconcile.Request) { q.names = append(q.names, item.Name) }

// sync delivers the new ConfigMap version the way the controller gets it: the object is written to
// the API and the Create / Update event goes through the real event handler (name filter, "data
// unchanged" short cut, syncNodeSLOSpecIfChanged -> syncConfig, enqueue of every node when the
// merged configuration changed). how = "event" | "startup" (object in the API, no event: the first
// Reconcile loads it through IsCfgAvailable).
func (x *c20Run) sync(how string) {
	c := x.c
	data := map[string]string{}
	for _, sec := range c20Sections {
		if s := x.st[sec.name]; s.hasText {
			data[sec.key] = s.lastText
		}
	}
	if x.r.Pct(30) { // unrelated keys of the same ConfigMap
		data[configuration.ColocationConfigKey] = kit.Pick(x.r, []string{`{"enable":true}`, "invalid_content", "{}"})
	}
	x.cmVersion++
	cm := &corev1.ConfigMap{
		TypeMeta:   metav1.TypeMeta{Kind: "ConfigMap", APIVersion: "v1"},
		ObjectMeta: metav1.ObjectMeta{Name: sloconfig.SLOCtrlConfigMap, Namespace: sloconfig.ConfigNameSpace},
		Data:       data,
	}
	if len(data) == 0 && x.r.Bool() {
		cm.Data = nil
	}
	q := &c20Queue{}
	old := x.cmInAPI
	if old == nil {
		if err := x.rec.Client.Create(context.TODO(), cm); err != nil {
			c.Harness("fake API: create ConfigMap: %v", err)
		}
		if how == "event" {
			x.h.Create(context.TODO(), event.TypedCreateEvent[client.Object]{Object: cm.DeepCopy()}, q)
		}
	} else {
		cm.ResourceVersion = old.ResourceVersion
		if err := x.rec.Client.Update(context.TODO(), cm); err != nil {
			c.Harness("fake API: update ConfigMap: %v", err)
		}
		x.h.Update(context.TODO(), event.TypedUpdateEvent[client.Object]{ObjectOld: old.DeepCopy(), ObjectNew: cm.DeepCopy()}, q)
	}
	x.cmInAPI = cm
	for _, name := range q.names {
		x.enqueued[name] = true
	}
	c.Op("step %d ConfigMap v%d delivered (%s) -> %d nodes enqueued", x.step, x.cmVersion, how, len(q.names))
	c.Count("sync_calls", 1)
	switch {
	case how != "event":
		c.Count("cm_loaded_at_startup", 1)
	case len(q.names) > 0:
		c.Count("cm_events_enqueued_nodes", 1)
	default:
		c.Count("cm_events_without_enqueue", 1)
	}
}

// foreign: events of ConfigMaps that are not the slo-controller ConfigMap carry hostile content and must not matter.
func (x *c20Run) foreign() {
	r := x.r
	data := map[string]string{}
	for _, sec := range c20Sections {
		switch r.Intn(3) {
		case 0:
			data[sec.key] = c20GenValid(r, sec, r.Bool())
		case 1:
			data[sec.key] = "invalid_content"
		}
	}
	cm := &corev1.ConfigMap{ObjectMeta: metav1.ObjectMeta{Name: sloconfig.SLOCtrlConfigMap, Namespace: sloconfig.ConfigNameSpace}, Data: data}
	if r.Bool() {
		cm.Name = "slo-controller-config-backup"
	} else {
		cm.Namespace = "default"
	}
	q := &c20Queue{}
	if r.Bool() {
		x.h.Create(context.TODO(), event.TypedCreateEvent[client.Object]{Object: cm}, q)
	} else {
		x.h.Update(context.TODO(), event.TypedUpdateEvent[client.Object]{ObjectOld: &corev1.ConfigMap{ObjectMeta: cm.ObjectMeta}, ObjectNew: cm}, q)
	}
	for _, name := range q.names {
		x.enqueued[name] = true
	}
	x.c.Op("step %d event of another ConfigMap %s/%s with %d section keys", x.step, cm.Namespace, cm.Name, len(data))
}

// relabel: 1-2 nodes get other labels and/or another / no bandwidth annotation (Node update in the API).
func (x *c20Run) relabel() {
	r, c := x.r, x.c
	for _, ni := range r.Perm(len(x.nodes))[:r.Range(1, min(2, len(x.nodes)))] {
		n := x.nodes[ni]
		lbl := map[string]string{}
		for k, v := range n.node.Labels {
			lbl[k] = v
		}
		op := r.Intn(4)
		switch op {
		case 0: // add a label / change its value
			lbl[c20PickKey(r)] = c20PickVal(r)
		case 1: // remove a label
			delete(lbl, c20PickKey(r))
		case 2: // new label set
			lbl = c20GenLabels(r, 55)
		}
		if !reflect.DeepEqual(lbl, map[string]string(n.node.Labels)) && !(len(lbl) == 0 && len(n.node.Labels) == 0) {
			c.Count("node_relabels", 1)
		}
		if op == 3 || r.Pct(30) {
			switch {
			case n.ann == "":
				n.setAnn(c20AnnValue(r, n.idx))
			case r.Bool():
				n.setAnn("")
			default:
				n.setAnn(c20AnnValue(r, n.idx))
			}
			c.Count("node_annotation_changes", 1)
		}
		obj := &corev1.Node{}
		if err := x.rec.Client.Get(context.TODO(), types.NamespacedName{Name: n.node.Name}, obj); err != nil {
			c.Harness("fake API: get node: %v", err)
		}
		obj.Labels = lbl
		if n.ann != "" {
			obj.Annotations = map[string]string{apiext.AnnotationNodeBandwidth: n.ann}
		} else {
			obj.Annotations = nil
		}
		if err := x.rec.Client.Update(context.TODO(), obj); err != nil {
			c.Harness("fake API: update node: %v", err)
		}
		n.node = obj.DeepCopy()
		x.enqueued[n.node.Name] = true // the Node event is followed by a Reconcile of that node
		c.Op("step %d relabel node-%d labels=%v bandwidth-annotation=%q", x.step, ni, lbl, n.ann)
	}
}

// check compares one delivered spec (computed, or stored NodeSLO.Spec) with the oracle.
func (x *c20Run) check(n *c20Node, o *c20Obs, prev *c20Obs, stored bool) {
	c := x.c
	ni := n.idx
	for _, sec := range c20Sections {
		s := x.st[sec.name]
		m := s.eff.matches(n.node.Labels)
		if !stored {
			switch {
			case len(m) == 0:
				c.Count("node_matched_by_0_entries", 1)
			case len(m) == 1:
				c.Count("node_matched_by_1_entry", 1)
			default:
				c.Count("node_matched_by_2plus_entries", 1)
			}
		}
		phase := "layering"
		if x.malformedNow[sec.name] {
			phase = "after-malformed"
		}
		if stored {
			phase = "stored-" + phase
		}
		if sec.typ == nil {
			got := o.apps
			if x.malformedNow[sec.name] && prev != nil {
				c.Count("keep_old_comparisons", 1)
				if c20SameApps(got, prev.apps) {
					// unchanged by the unparseable update: correct; the layering of this value was decided at the previous step
					c.Count("sections_ok", 1)
					continue
				}
				c.Report("C20/hostapp/"+phase+"/changed", "step %d node-%d labels=%v: host applications changed by an update whose %s text cannot be parsed: before %v, after %v; text=%s",
					x.step, ni, n.node.Labels, sec.key, prev.apps, got, s.lastText)
			}
			var prevApps []string
			if prev != nil {
				prevApps = prev.apps
			}
			c20CheckApps(c, sec, s.eff, m, got, prevApps, phase, x.step, ni, n, &x.sawDecisiveFirstWins)
			continue
		}
		got := o.secs[sec.name]
		var prevLeaves c20Leaves
		if prev != nil {
			prevLeaves = prev.secs[sec.name]
		}
		// expected leaves
		names := []string{"default"}
		layers := []c20Leaves{x.defaults[sec.name]}
		if s.eff.fromText {
			names, layers = append(names, "cluster"), append(layers, s.eff.cluster)
			if len(m) > 0 {
				names, layers = append(names, "entry"), append(layers, s.eff.entries[m[0]].leaves)
			}
		}
		want := c20Expect(names, layers)
		if sec.name == "system" && n.ann != "" {
			// documented on getSystemConfigSpec: the node's bandwidth annotation takes higher priority
			// than the cluster strategy and the node strategy - for THIS node only
			want.must["totalNetworkBandwidth"], want.mustSrc["totalNetworkBandwidth"] = n.annLeaf, "annotation"
			c.Count("annotation_overrides_checked", 1)
		}
		if !stored && len(m) >= 2 && !reflect.DeepEqual(s.eff.entries[m[0]].leaves, s.eff.entries[m[1]].leaves) {
			c.Count("first_wins_decisive", 1)
			x.sawDecisiveFirstWins = true
		}
		srcMask := map[string]bool{}
		nMis := 0
		// An unparseable update that left the delivered section exactly as it was is correct by the
		// statement's last clause; whether that unchanged value is the right layering was already
		// decided (and reported) at the previous step.
		unchangedAfterMalformed := x.malformedNow[sec.name] && prev != nil && reflect.DeepEqual(got, prevLeaves)
		mismatch := func(path, wantSrc, wantVal string, gotVal string, present bool) {
			nMis++
			if nMis > 3 || unchangedAfterMalformed {
				return
			}
			cls := ""
			if present && path == "totalNetworkBandwidth" {
				for _, o := range x.nodes {
					if o != n && o.annEver[gotVal] {
						cls = "other-node-annotation"
					}
				}
				if cls == "" && n.annEver[gotVal] {
					cls = "own-withdrawn-annotation"
				}
			}
			if cls == "" {
				cls = c20Classify(s.eff, x.defaults[sec.name], m, path, gotVal, present, prevLeaves)
			}
			sig := fmt.Sprintf("C20/%s/%s/want-%s-got-%s/%s", sec.name, phase, wantSrc, cls, c20LeafName(path))
			first := "none"
			if len(m) > 0 {
				first = s.eff.entries[m[0]].name
			}
			c.Report(sig, "step %d (%s) node-%d labels=%v bandwidth-annotation=%q section %s leaf %q: want %s value %q, delivered %q (present=%v, looks like: %s); matching entries %v (first=%s); state=%s; effective text or last text=%s",
				x.step, x.stepKind, ni, n.node.Labels, n.ann, sec.key, path, wantSrc, wantVal, gotVal, present, cls, m, first, s.lastState, s.lastText)
		}
		for _, p := range c20SortedKeys(want.must) {
			c.Count("leaf_comparisons", 1)
			srcMask[want.mustSrc[p]] = true
			c.Count("expected_from_"+want.mustSrc[p], 1)
			gv, ok := got[p]
			if !ok || gv != want.must[p] {
				mismatch(p, want.mustSrc[p], want.must[p], gv, ok)
			}
		}
		for _, p := range c20SortedKeys(got) {
			if _, ok := want.must[p]; ok {
				continue
			}
			c.Count("leaf_comparisons", 1)
			if mv, ok := want.may[p]; ok && mv == got[p] {
				c.Count("container_member_kept_from_lower_layer", 1)
				continue
			}
			mismatch(p, "absent", "", got[p], true)
		}
		for p := range want.may {
			if _, ok := got[p]; !ok {
				c.Count("container_member_of_lower_layer_dropped", 1)
			}
		}
		// leak accounting: leaves set by entries that do not apply to this node
		for ei := range s.eff.entries {
			if len(m) > 0 && ei == m[0] {
				continue
			}
			c.Count("leak_probes", len(s.eff.entries[ei].leaves))
		}
		if nMis == 0 {
			c.Count("sections_ok", 1)
		}
		// literal keep-old check
		if x.malformedNow[sec.name] && prev != nil {
			c.Count("keep_old_comparisons", 1)
			if !unchangedAfterMalformed {
				c.Report("C20/"+sec.name+"/"+phase+"/changed", "step %d node-%d labels=%v: section %s delivered to the node changed by an update whose text cannot be parsed.\nbefore: %v\nafter:  %v\ntext=%s",
					x.step, ni, n.node.Labels, sec.key, c20Show(prevLeaves), c20Show(got), s.lastText)
			}
		}
		mc := len(m)
		if mc > 2 {
			mc = 2
		}
		c.Seen(sec.name, s.lastState, s.prevState, len(s.eff.entries), mc, srcMask["default"], srcMask["cluster"], srcMask["entry"], srcMask["annotation"], len(want.may) > 0, phase, x.stepKind)
	}
	// extensions: no extender is registered in this process, nothing may be delivered
	if len(globalNodeSLOMergedExtender) == 0 && o.ext != 0 {
		c.Report("C20/extensions/unexpected", "step %d node-%d: %d extensions delivered without any registered extender", x.step, ni, o.ext)
	}
}

func (x *c20Run) compute(n *c20Node) (*slov1alpha1.NodeSLOSpec, *c20Obs) {
	var old *slov1alpha1.NodeSLOSpec
	if n.prevSpec != nil && x.r.Bool() {
		old = n.prevSpec // Reconcile passes the existing NodeSLO spec when the object exists
	}
	spec, err := x.rec.getNodeSLOSpec(n.node, old)
	if err != nil || spec == nil {
		x.c.Fail("C20/spec/error", "getNodeSLOSpec(node-%d) after step %d returned spec=%v err=%v", n.idx, x.step, spec, err)
	}
	x.c.Count("specs_computed", 1)
	if n.ann != "" {
		x.c.Count("specs_computed_for_annotated_nodes", 1)
	}
	return spec, c20Observe(spec)
}

// recompute: nothing was changed since the spec of n was computed, only specs of other nodes were
// computed in between; the result must be the same.
func (x *c20Run) recompute(n *c20Node, first *c20Obs, after string) {
	_, o := x.compute(n)
	x.c.Count("aliasing_recomputations", 1)
	if sec, d := o.diff(first); d != "" {
		x.c.Report("C20/aliasing/"+sec+"/recomputed-spec-differs", "step %d (%s): the spec of node-%d (labels=%v bandwidth-annotation=%q) computed again %s, with no ConfigMap or Node change in between, differs: now vs first: %s",
			x.step, x.stepKind, n.idx, n.node.Labels, n.ann, after, d)
	}
}

func (x *c20Run) observe() {
	c, r := x.c, x.r
	nn := len(x.nodes)
	// Reconcile asks this first; when nothing was synced yet it loads the ConfigMap (or the defaults) itself
	if !x.rec.sloCfgCache.IsCfgAvailable() {
		c.Fail("C20/config/unavailable", "step %d: IsCfgAvailable() = false although the fake API answers", x.step)
	}
	// (A) specs computed directly, annotated and non-annotated nodes in mixed order
	specs, obs := make([]*slov1alpha1.NodeSLOSpec, nn), make([]*c20Obs, nn)
	order := r.Perm(nn)
	for pos, ni := range order {
		n := x.nodes[ni]
		specs[ni], obs[ni] = x.compute(n)
		x.check(n, obs[ni], n.prev, false)
		if pos > 0 && r.Pct(50) {
			e := order[r.Intn(pos)]
			x.recompute(x.nodes[e], obs[e], fmt.Sprintf("after computing node-%d", ni))
		}
	}
	reps := 1
	if x.stepKind == "noop" {
		reps = 2
	}
	for ; reps > 0; reps-- {
		for _, ni := range r.Perm(nn) {
			x.recompute(x.nodes[ni], obs[ni], "after computing every node")
		}
	}
	for ni, n := range x.nodes {
		// the object returned earlier must not have been written by later computations
		if sec, d := c20Observe(specs[ni]).diff(obs[ni]); d != "" {
			c.Report("C20/aliasing/"+sec+"/returned-spec-changed-by-later-computation", "step %d: the NodeSLOSpec object returned for node-%d was modified by computing other nodes' specs: now vs when returned: %s", x.step, ni, d)
		}
		if n.prev != nil && obs[ni].pureWithdrawal(n.prev) {
			c.Count("node_steps_pure_withdrawal", 1)
			c.Count("node_steps_pure_withdrawal_"+x.stepKind, 1)
		}
	}
	// (B) the write path. Reconcile runs for the nodes that are due: every node the ConfigMap handler
	// enqueued, relabelled nodes, nodes without a NodeSLO (Node create event / NodeSLO delete event),
	// and now and then any node (a spurious Reconcile is always possible). Afterwards the stored
	// NodeSLO of EVERY node is read back: also a node that was not reconciled must (still) have
	// exactly the expected spec.
	for _, ni := range r.Perm(nn) {
		n := x.nodes[ni]
		key := types.NamespacedName{Name: n.node.Name}
		if n.hasSLO && r.Pct(6) { // the NodeSLO object is deleted by somebody: Reconcile re-creates it
			if err := x.rec.Client.Delete(context.TODO(), &slov1alpha1.NodeSLO{ObjectMeta: metav1.ObjectMeta{Name: n.node.Name}}); err != nil {
				c.Harness("fake API: delete NodeSLO: %v", err)
			}
			n.hasSLO = false
			c.Op("step %d NodeSLO node-%d deleted", x.step, ni)
		}
		if !(x.enqueued[n.node.Name] || !n.hasSLO || r.Pct(15)) {
			c.Count("nodes_not_reconciled_after_step", 1)
			continue
		}
		res, err := x.rec.Reconcile(context.TODO(), ctrl.Request{NamespacedName: key})
		if err != nil || res.Requeue {
			c.Fail("C20/reconcile/error", "step %d Reconcile(node-%d) = %+v, %v", x.step, ni, res, err)
		}
		c.Count("reconciles", 1)
		switch {
		case !n.hasSLO:
			c.Count("reconciles_fresh_nodeslo", 1)
		case n.staleSLO:
			c.Count("reconciles_stale_foreign_nodeslo", 1)
		default:
			c.Count("reconciles_existing_nodeslo", 1)
		}
		n.hasSLO, n.staleSLO = true, false
	}
	x.enqueued = map[string]bool{}
	stored := make([]*c20Obs, nn)
	for _, ni := range r.Perm(nn) {
		n := x.nodes[ni]
		slo := &slov1alpha1.NodeSLO{}
		if err := x.rec.Client.Get(context.TODO(), types.NamespacedName{Name: n.node.Name}, slo); err != nil {
			c.Fail("C20/reconcile/nodeslo-missing", "step %d: no NodeSLO for node-%d after Reconcile: %v", x.step, ni, err)
		}
		stored[ni] = c20Observe(&slo.Spec)
		c.Count("stored_spec_comparisons", 1)
		x.check(n, stored[ni], n.prevStored, true)
	}
	for ni, n := range x.nodes {
		n.prev, n.prevSpec, n.prevStored = obs[ni], specs[ni], stored[ni]
	}
}

func TestVerifC20Layering(t *testing.T) {
	// only the two groups Reconcile touches: the fake API builds a REST mapper over the whole scheme per client
	sch := runtime.NewScheme()
	_ = corev1.AddToScheme(sch)
	_ = slov1alpha1.AddToScheme(sch)
	defaults := map[string]c20Leaves{}
	for _, sec := range c20Sections {
		if sec.typ != nil {
			defaults[sec.name] = c20FlattenAny(sec.def())
		}
	}
	kit.Run(t, kit.Config{Property: "C20", Unit: "layering", Quick: 1300, Thorough: 45000,
		Rule: "one case = 3-8 (5%: 9-16) steps over 3-5 (rarely 1-2 or 6-9) Node objects in a fake API (40% carry the node bandwidth annotation in any textual quantity form, per-node sentinel band; 25% already have a NodeSLO with unrelated content from an earlier controller instance); first configuration by Create event / loaded at startup through IsCfgAvailable / no ConfigMap at all; step kinds: ConfigMap update delivered through the real Create/Update event handler (written to the API first) with each of the five sections independently absent / {} / partial / full / malformed (truncated, trailing garbage, wrong type incl. fractional / overflowing numbers and bad quantities, garbage) / unchanged text; withdrawal-only update (a member, a node entry, the cluster layer or a whole section taken away, all other text unchanged); node relabel / annotation change; events of other ConfigMaps with hostile content; no change. After EVERY step: getNodeSLOSpec for every node in random order with interleaved and full re-computations (must be identical), then the real Reconcile for the nodes that are due (enqueued by the ConfigMap handler, relabelled, NodeSLO missing, 15% spurious) and the stored NodeSLO.Spec of EVERY node read back; computed and stored specs are both compared leaf by leaf with the reflection three-layer oracle. 0-4 (6%: 5-12) node entries per section, optional / duplicate entry names, selectors over 4 keys (one prefixed) x {a,b,c,empty string} (nil, empty, matchLabels, 1-3 expressions In/NotIn/Exists/DoesNotExist with 1-4 values, 25% literal duplicates of an earlier entry's selector); typed strategies with a random subset of leaves, per-layer sentinel bands with 7% ties, 8% range ends, 64-bit-scale and negative values where the API puts no bound, unknown enum strings, unknown JSON members, 1-5 blkio blocks, 1-8 host applications; distinct = (section, state, previous state, #entries, #matching entries class, sources of the expected leaves, computed/stored phase, step kind); non-trivial = the case had a malformed-after-good transition AND a node matched by >= 2 entries that differ"},
		func(c *kit.Case) {
			r := c.R
			x := &c20Run{c: c, r: r, defaults: defaults, st: map[string]*c20SecState{}}
			// nodes
			nNodes := r.Range(3, 5)
			switch r.Weighted(88, 6, 6) {
			case 1:
				nNodes = r.Range(1, 2)
			case 2:
				nNodes = r.Range(6, 9)
			}
			switch {
			case nNodes <= 2:
				c.Count("cases_with_1_2_nodes", 1)
			case nNodes >= 6:
				c.Count("cases_with_6plus_nodes", 1)
			}
			var objs []runtime.Object
			for i := 0; i < nNodes; i++ {
				var lbl map[string]string
				if !r.Pct(12) {
					lbl = c20GenLabels(r, 60)
					if r.Pct(30) {
						lbl["kubernetes.io/hostname"] = fmt.Sprintf("node-%d", i)
					}
				}
				n := &c20Node{idx: i, annEver: map[string]bool{}}
				obj := &corev1.Node{ObjectMeta: metav1.ObjectMeta{Name: fmt.Sprintf("node-%d", i), Labels: lbl}}
				if r.Pct(40) {
					n.setAnn(c20AnnValue(r, i))
					obj.Annotations = map[string]string{apiext.AnnotationNodeBandwidth: n.ann}
				}
				n.node = obj.DeepCopy()
				objs = append(objs, obj)
				if r.Pct(25) {
					// a NodeSLO left by an earlier controller instance under some other configuration: the
					// first Reconcile takes the update path and must leave exactly the expected spec
					g := &c20Gen{r: r, layer: 4, leafPct: kit.Pick(r, []int{30, 100}), structPct: 70}
					old := &slov1alpha1.NodeSLO{ObjectMeta: metav1.ObjectMeta{Name: obj.Name}}
					for _, sec := range c20Sections {
						if sec.typ == nil || !r.Pct(80) {
							continue
						}
						nv := reflect.New(sec.typ)
						g.fill(nv.Elem())
						switch v := nv.Interface().(type) {
						case *slov1alpha1.ResourceThresholdStrategy:
							old.Spec.ResourceUsedThresholdWithBE = v
						case *slov1alpha1.ResourceQOSStrategy:
							old.Spec.ResourceQOSStrategy = v
						case *slov1alpha1.CPUBurstStrategy:
							old.Spec.CPUBurstStrategy = v
						case *slov1alpha1.SystemStrategy:
							old.Spec.SystemStrategy = v
						}
					}
					if r.Bool() {
						old.Spec.HostApplications = []slov1alpha1.HostApplicationSpec{{Name: "left-over-app", QoS: apiext.QoSBE}}
					}
					objs = append(objs, old)
					n.hasSLO, n.staleSLO = true, true
					c.Count("nodes_with_stale_foreign_nodeslo", 1)
				}
				x.nodes = append(x.nodes, n)
				c.Op("node-%d labels=%v bandwidth-annotation=%q stale-NodeSLO=%v", i, lbl, n.ann, n.staleSLO)
			}
			x.enqueued = map[string]bool{}
			cl := fake.NewClientBuilder().WithScheme(sch).WithRuntimeObjects(objs...).Build()
			x.h = NewSLOCfgHandlerForConfigMapEvent(cl, DefaultSLOCfg(), &record.FakeRecorder{})
			x.rec = &NodeSLOReconciler{Client: cl, Scheme: sch, sloCfgCache: x.h}
			for _, sec := range c20Sections {
				x.st[sec.name] = &c20SecState{eff: &c20Eff{}, lastState: "absent"}
			}
			var sampleSteps []string

			nSteps := r.Range(3, 8)
			if r.Pct(5) { // "sequences of ConfigMap updates": also long ones
				nSteps = r.Range(9, 16)
				c.Count("cases_with_9plus_steps", 1)
			}
			// how the controller learns the first configuration: a Create event (usual), or no event at
			// all - the first Reconcile finds the cache unavailable and loads the ConfigMap from the API
			// ("startup"), or finds no ConfigMap there and falls back to the defaults ("startup-none")
			first := []string{"update", "startup", "startup-none"}[r.Weighted(76, 14, 10)]
			for x.step = 0; x.step < nSteps; x.step++ {
				x.malformedNow = map[string]bool{}
				x.stepKind = first
				if x.step > 0 {
					x.stepKind = []string{"update", "withdraw", "relabel", "noop", "foreign"}[r.Weighted(42, 23, 20, 10, 5)]
				}
				if x.stepKind == "withdraw" && !x.genWithdraw() {
					x.stepKind = "update"
				}
				switch x.stepKind {
				case "update":
					x.genUpdate()
					x.sync("event")
				case "startup":
					x.genUpdate()
					x.sync("startup")
				case "startup-none":
					for _, sec := range c20Sections {
						x.install(sec) // every section absent: the built-in defaults
					}
					c.Op("step 0: no slo-controller ConfigMap exists")
				case "withdraw":
					c.Count("withdrawal_only_updates", 1)
					x.sync("event")
				case "relabel":
					x.relabel()
				case "foreign":
					x.foreign()
				case "noop":
					c.Op("step %d nothing changes", x.step)
				}
				if x.step == 0 { // when the controller starts, the informer delivers a Create event for every Node
					for _, n := range x.nodes {
						x.enqueued[n.node.Name] = true
					}
				}
				c.Count("steps_"+x.stepKind, 1)
				if len(sampleSteps) < 8 {
					d := x.stepKind
					if x.stepKind == "update" || x.stepKind == "withdraw" || x.stepKind == "startup" {
						d += ":"
						for _, sec := range c20Sections {
							d += fmt.Sprintf(" %s=%s(%d)", sec.name, x.st[sec.name].lastState, len(x.st[sec.name].eff.entries))
						}
					}
					sampleSteps = append(sampleSteps, d)
				}
				x.observe()
			}
			if x.sawMalformedAfterGood && x.sawDecisiveFirstWins {
				c.NonTrivial()
			}
			if c.K < 2 {
				lb := []string{}
				for _, n := range x.nodes {
					lb = append(lb, fmt.Sprintf("%v ann=%q", n.node.Labels, n.ann))
				}
				c.Sample(map[string]any{"nodes": lb, "steps": sampleSteps})
			}
		})
}

func c20Show(l c20Leaves) string {
	var sb strings.Builder
	for _, k := range c20SortedKeys(l) {
		fmt.Fprintf(&sb, "%s=%s ", k, l[k])
	}
	return sb.String()
}

// c20Classify tells where a delivered value seems to come from (diagnostics / signature only).
func c20Classify(eff *c20Eff, def c20Leaves, m []int, path, val string, present bool, prev c20Leaves) string {
	if !present {
		return "absent"
	}
	matched := map[int]bool{}
	for _, i := range m {
		matched[i] = true
	}
	for i := range eff.entries {
		if v, ok := eff.entries[i].leaves[path]; ok && v == val {
			switch {
			case len(m) > 0 && i == m[0]:
				return "first-entry"
			case matched[i]:
				return "later-matching-entry"
			default:
				return "unselected-entry"
			}
		}
	}
	if v, ok := eff.cluster[path]; ok && v == val {
		return "cluster"
	}
	if v, ok := def[path]; ok && v == val {
		return "default"
	}
	if v, ok := prev[path]; ok && v == val {
		return "previous"
	}
	return "other"
}

// c20CheckApps: host applications are a whole-value section: first matching entry that has
// applications => exactly its list; no matching entry => exactly the cluster list. A matching
// entry WITHOUT applications is not decided by the statement's whole-value reading (empty list vs
// cluster fallback): both are accepted, nothing else is.
func c20CheckApps(c *kit.Case, sec *c20Section, eff *c20Eff, m []int, got, prevApps []string, phase string, step, ni int, n *c20Node, decisive *bool) {
	c.Count("leaf_comparisons", 1)
	fail := func(kind string, want []string) {
		src := "other"
		for i := range eff.entries {
			if len(eff.entries[i].apps) > 0 && reflect.DeepEqual(eff.entries[i].apps, got) {
				src = "unselected-or-later-entry"
			}
		}
		if len(got) == 0 {
			src = "empty"
		} else if reflect.DeepEqual(got, eff.cluApps) {
			src = "cluster"
		} else if src == "other" && prevApps != nil && c20SameApps(got, prevApps) {
			src = "previous"
		}
		c.Report(fmt.Sprintf("C20/hostapp/%s/want-%s-got-%s", phase, kind, src), "step %d node-%d labels=%v host applications: want (%s) %v, delivered %v; matching entries %v",
			step, ni, n.node.Labels, kind, want, got, m)
	}
	if !strings.HasPrefix(phase, "stored") && len(m) >= 2 && !reflect.DeepEqual(eff.entries[m[0]].apps, eff.entries[m[1]].apps) {
		c.Count("first_wins_decisive", 1)
		*decisive = true
	}
	switch {
	case len(m) == 0:
		c.Count("expected_from_cluster_hostapp", 1)
		if !c20SameApps(got, eff.cluApps) {
			fail("cluster", eff.cluApps)
		}
	case len(eff.entries[m[0]].apps) > 0:
		c.Count("expected_from_entry_hostapp", 1)
		if !c20SameApps(got, eff.entries[m[0]].apps) {
			fail("entry", eff.entries[m[0]].apps)
		}
	default:
		c.Count("hostapp_matching_entry_without_applications", 1)
		if len(got) == 0 {
			if len(eff.cluApps) > 0 {
				c.Count("converse_misses_hostapp_no_cluster_fallback", 1)
			}
		} else if !c20SameApps(got, eff.cluApps) {
			fail("empty-or-cluster", eff.cluApps)
		}
	}
	mc := len(m)
	if mc > 2 {
		mc = 2
	}
	c.Seen(sec.name, len(eff.entries), mc, len(eff.cluApps) > 0, len(got), phase)
}

func c20SameApps(a, b []string) bool {
	if len(a) != len(b) {
		return false
	}
	for i := range a {
		if a[i] != b[i] {
			return false
		}
	}
	return true
}
