//go:build verif

package core

// C02 (c): RefreshRuntime on multi-level quota trees, driven through the exported GroupQuotaManager
// API only (UpdateQuota, DeleteQuota, UpdateClusterTotalResource, OnPodAdd, OnPodDelete,
// RefreshRuntime, GetQuotaSummary).
//
// Causal / in-domain rules of the generator (what the admission webhook and the scheduler guarantee):
//   * a quota's parent exists and is a parent group when the quota is created or moved; a quota is
//     never moved below itself; trees stay at most 3 levels deep; the lend flag and the is-parent flag
//     of an existing quota never change; only groups without children are deleted; a deleted name may be
//     created again (as a new, empty group);
//   * min <= max per dimension, every quota declares the same dimensions (cpu, memory), the children's
//     mins sum to at most the parent's min (non-root parents) at every moment, nothing negative;
//   * pods are submitted to leaf groups only; a pod is added once and deleted at most once; the pods of
//     a deleted group are gone with it;
//   * the cluster total never goes negative and the manager has seen a node before quotas are
//     evaluated; nothing runs in the system/default groups, so the total handed to the root level is
//     the cluster total.
//
// Oracle, per level (parent p, its children as siblings, total = p's runtime as returned by
// RefreshRuntime(p), or the cluster total for the root): exactly the sibling oracle of c02_test.go with
//   request   = the limited request recomputed by the harness from the live pods and the configured
//               quotas (own pods + children's limited requests, raised to min when the group does not
//               lend, capped by max); the manager's own figure is only compared and counted
//   min       = the configured min. With min-scaling ON and only when the configured mins of the
//               level do NOT fit in the level's total (sum of configured mins > total) the summary's
//               AutoScaleMin is taken instead: the scaling formula uses floating point and is not part
//               of the statement, but scaling is only legitimate when the minimums do not fit. When
//               they fit (including sum == total exactly) every sibling is owed min(request, min).
//   guarantee = the summary's Guaranteed (non-zero only with the ElasticQuotaGuaranteeUsage gate)
//   weight    = the configured shared weight (the max when the annotation is absent or all zero)
//   lend      = the configured flag (forced off by the ElasticQuotaGuaranteeUsage gate)
// plus: two consecutive sweeps of RefreshRuntime over all groups in different orders return the same
// values (idempotence, order independence of refreshing), and after every epoch a fresh manager fed
// the FINAL quotas, pods and total in a different order returns the same values (pure function of the
// inputs; this is what exposes per-parent bookkeeping that went stale through a move or a delete).
// With min-scaling on, scaled mins are refreshed lazily along the refreshed path only (the package's own
// tests rely on this), so values are asserted after depth+1 stabilising sweeps; with min-scaling off the
// very first sweep after a change is asserted.
//
// Placement: the total a non-root parent divides is its own runtime, which the harness cannot set
// directly. place() moves the cluster total by bisection (the parent's runtime is monotone in it) until
// RefreshRuntime(parent) lands on the wanted boundary; this only steers the workload, every verdict is
// taken afterwards by the oracle above.

import (
	"encoding/json"
	"fmt"
	"math"
	"testing"

	corev1 "k8s.io/api/core/v1"
	"k8s.io/apimachinery/pkg/api/resource"
	metav1 "k8s.io/apimachinery/pkg/apis/meta/v1"
	"k8s.io/apimachinery/pkg/types"
	k8sfeature "k8s.io/apiserver/pkg/util/feature"
	"k8s.io/component-base/featuregate"

	"github.com/koordinator-sh/koordinator/apis/extension"
	"github.com/koordinator-sh/koordinator/apis/thirdparty/scheduler-plugins/pkg/apis/scheduling/v1alpha1"
	"github.com/koordinator-sh/koordinator/pkg/features"
	kit "github.com/koordinator-sh/koordinator/pkg/verifkit"
)

var c02Dims = []corev1.ResourceName{corev1.ResourceCPU, corev1.ResourceMemory}

const c02Root = extension.RootQuotaName

type c02Vec [2]int64 // [milli-cpu, memory bytes]

func c02Qty(d int, v int64) resource.Quantity {
	if d == 0 {
		return *resource.NewMilliQuantity(v, resource.DecimalSI)
	}
	return *resource.NewQuantity(v, resource.BinarySI)
}

func c02RL(v c02Vec) corev1.ResourceList {
	return corev1.ResourceList{corev1.ResourceCPU: c02Qty(0, v[0]), corev1.ResourceMemory: c02Qty(1, v[1])}
}

func c02Of(rl corev1.ResourceList) c02Vec {
	var v c02Vec
	if q, ok := rl[corev1.ResourceCPU]; ok {
		v[0] = q.MilliValue()
	}
	if q, ok := rl[corev1.ResourceMemory]; ok {
		v[1] = q.Value()
	}
	return v
}

type c02Group struct {
	name, parent   string
	isParent, lend bool
	min, max       c02Vec
	hasW           bool
	w              c02Vec
}

// weight the code is expected to use: the annotation unless absent or all zero, then the max
func (g *c02Group) effW() c02Vec {
	if !g.hasW || (g.w[0] == 0 && g.w[1] == 0) {
		return g.max
	}
	return g.w
}

type c02Pod struct {
	name, group string
	req         c02Vec
	node        string
	live        bool
}

type c02World struct {
	groups   map[string]*c02Group
	order    []string // existing groups in creation order
	deleted  []string // names free for re-creation
	pods     []*c02Pod
	total    c02Vec
	scale    bool
	gate     bool
	scenario bool
	vs       int
	nextID   int
	podID    int
}

func (w *c02World) kids(p string) []string {
	var out []string
	for _, n := range w.order {
		if w.groups[n].parent == p {
			out = append(out, n)
		}
	}
	return out
}

func (w *c02World) depthOf(n string) int {
	d := 0
	for n != c02Root {
		d++
		n = w.groups[n].parent
	}
	return d
}

func (w *c02World) height(n string) int {
	h := 0
	for _, k := range w.kids(n) {
		if x := w.height(k) + 1; x > h {
			h = x
		}
	}
	return h
}

func (w *c02World) maxDepth() int {
	m := 0
	for _, n := range w.order {
		if d := w.depthOf(n); d > m {
			m = d
		}
	}
	return m
}

func (w *c02World) inSubtree(n, top string) bool {
	for n != c02Root {
		if n == top {
			return true
		}
		n = w.groups[n].parent
	}
	return false
}

func (w *c02World) sumKidsMin(p string, d int, except string) int64 {
	var s int64
	for _, k := range w.kids(p) {
		if k != except {
			s += w.groups[k].min[d]
		}
	}
	return s
}

// room left for the min of a (new or moved) child of p; unlimited below the root
func (w *c02World) room(p string, d int, except string) int64 {
	if p == c02Root {
		return math.MaxInt64 / 64
	}
	return w.groups[p].min[d] - w.sumKidsMin(p, d, except)
}

func (w *c02World) leaves() []string {
	var out []string
	for _, n := range w.order {
		if !w.groups[n].isParent {
			out = append(out, n)
		}
	}
	return out
}

// modelReq recomputes, from the live pods and the configured quotas only (nothing is read from the
// manager), what every group asks of its parent: the children's request of a group is what its own
// pods ask plus the limited requests of its children; a group that does not lend asks for at least its
// min; nobody asks its parent for more than its max (the "limited request").
func (w *c02World) modelReq() (limited, child map[string]c02Vec) {
	self := map[string]c02Vec{}
	for _, p := range w.pods {
		if p.live {
			v := self[p.group]
			v[0] += p.req[0]
			v[1] += p.req[1]
			self[p.group] = v
		}
	}
	limited, child = map[string]c02Vec{}, map[string]c02Vec{}
	var rec func(n string) c02Vec
	rec = func(n string) c02Vec {
		g := w.groups[n]
		ch := self[n]
		for _, k := range w.kids(n) {
			l := rec(k)
			ch[0] += l[0]
			ch[1] += l[1]
		}
		child[n] = ch
		var lim c02Vec
		for d := 0; d < 2; d++ {
			req := ch[d]
			if !(g.lend && !w.gate) && req < g.min[d] {
				req = g.min[d]
			}
			lim[d] = c02Min64(req, g.max[d])
		}
		limited[n] = lim
		return lim
	}
	for _, n := range w.kids(c02Root) {
		rec(n)
	}
	return
}

func (w *c02World) remove(n string) {
	for i, x := range w.order {
		if x == n {
			w.order = append(w.order[:i:i], w.order[i+1:]...)
			break
		}
	}
	delete(w.groups, n)
	w.deleted = append(w.deleted, n)
}

func (g *c02Group) object() *v1alpha1.ElasticQuota {
	q := &v1alpha1.ElasticQuota{
		ObjectMeta: metav1.ObjectMeta{Name: g.name, Labels: map[string]string{}, Annotations: map[string]string{}},
		Spec:       v1alpha1.ElasticQuotaSpec{Max: c02RL(g.max), Min: c02RL(g.min)},
	}
	q.Labels[extension.LabelQuotaParent] = g.parent
	q.Labels[extension.LabelQuotaIsParent] = fmt.Sprint(g.isParent)
	q.Labels[extension.LabelAllowLentResource] = fmt.Sprint(g.lend)
	if g.hasW {
		b, _ := json.Marshal(c02RL(g.w))
		q.Annotations[extension.AnnotationSharedWeight] = string(b)
	}
	return q
}

func (g *c02Group) String() string {
	return fmt.Sprintf("%s parent=%s isParent=%v lend=%v min=%v max=%v weight=%v(%v)", g.name, g.parent, g.isParent, g.lend, g.min, g.max, g.w, g.hasW)
}

func (p *c02Pod) object() *corev1.Pod {
	return &corev1.Pod{
		ObjectMeta: metav1.ObjectMeta{Namespace: "ns", Name: p.name, UID: types.UID(p.name)},
		Spec: corev1.PodSpec{NodeName: p.node, Containers: []corev1.Container{{Name: "c",
			Resources: corev1.ResourceRequirements{Requests: c02RL(p.req)}}}},
	}
}

// c02HostileBytes: byte-scale memory amounts whose products exceed 2^53 (a min-scaling formula in
// float64 cannot reproduce them exactly) next to the usual round ones.
func c02HostileBytes(r *kit.Rand) int64 {
	switch r.Intn(8) {
	case 0:
		return kit.Pick(r, []int64{100e9, 150e9, 250e9, 300e9, 1e12 + 7})
	case 1:
		return int64(r.Range(1, 400))*1e9 + int64(r.Range(0, 999))
	case 2:
		return int64(r.Range(1, 256))<<30 + int64(r.Range(-1, 1))
	case 3:
		return int64(1)<<uint(r.Range(40, 46)) - int64(r.Range(1, 9))
	default:
		return (int64(1)<<uint(r.Range(37, 44)) + r.Int63n(int64(1)<<37)) | 1
	}
}

func c02TreeValue(r *kit.Rand, scale, d int) int64 {
	switch scale {
	case 0: // small: ties and rounding residues are frequent
		return int64(r.Range(0, 12))
	case 1: // realistic
		if d == 0 {
			return kit.Pick(r, []int64{0, 500, 1000, 1500, 4000, 16000, 64000, 96000, int64(r.Range(0, 200000))})
		}
		return kit.Pick(r, []int64{0, 1 << 30, 3 << 30, 16 << 30, 100 << 30, 1 << 40, int64(r.Range(0, 1<<20)) << 20, r.Int63n(1 << 41), c02HostileBytes(r)})
	case 3: // scenario: min-scaling boundaries with byte-scale memory and milli-cpu
		if d == 0 {
			return kit.Pick(r, []int64{1, 999, 1000, 64000, 100000, int64(r.Range(1, 10000000)), int64(r.Range(1, 300)) * 1000})
		}
		return c02HostileBytes(r)
	default: // large
		if d == 0 {
			return r.Int63n(1 << 40)
		}
		return kit.Pick(r, []int64{1 << 50, 1<<53 + 1, 1<<55 - 1, r.Int63n(1 << 56), r.Int63n(1 << 56)})
	}
}

func (w *c02World) newName() string {
	n := fmt.Sprintf("g%02d", w.nextID)
	w.nextID++
	return n
}

func (w *c02World) add(g *c02Group) {
	w.groups[g.name] = g
	w.order = append(w.order, g.name)
}

func c02GenWorld(r *kit.Rand) *c02World {
	w := &c02World{groups: map[string]*c02Group{}}
	if r.Pct(25) {
		w.scenario, w.scale, w.vs = true, true, 3
		c02GenScenario(r, w)
		return w
	}
	w.scale, w.gate = r.Pct(40), r.Pct(15)
	w.vs = r.Weighted(45, 40, 15)
	vs := w.vs
	var gen func(parent *c02Group, depth int, minBudget c02Vec)
	gen = func(parent *c02Group, depth int, minBudget c02Vec) {
		nch := r.Range(2, 4)
		if depth == 1 {
			nch = r.Range(2, 5)
		}
		var made []*c02Group
		for i := 0; i < nch; i++ {
			g := &c02Group{name: w.newName(), lend: r.Pct(70), parent: c02Root}
			if parent != nil {
				g.parent = parent.name
			}
			g.isParent = depth < 3 && r.Pct(map[int]int{1: 60, 2: 30}[depth])
			for d := 0; d < 2; d++ {
				g.max[d] = c02TreeValue(r, vs, d)
				mn := c02TreeValue(r, vs, d)
				switch r.Intn(5) {
				case 0:
					mn = 0
				case 1:
					mn = g.max[d]
				}
				if mn > g.max[d] {
					if r.Bool() {
						g.max[d], mn = mn, g.max[d]
					} else {
						mn = g.max[d]
					}
				}
				if parent != nil && mn > minBudget[d] {
					mn = minBudget[d]
				}
				g.min[d] = mn
				if parent != nil {
					minBudget[d] -= mn
				}
			}
			c02GenWeight(r, g, vs)
			w.add(g)
			made = append(made, g)
		}
		for _, g := range made {
			if g.isParent {
				gen(g, depth+1, g.min)
			}
		}
	}
	gen(nil, 1, c02Vec{})
	return w
}

// c02GenScenario builds the crafted min-scaling tree: two or three top-level parent groups whose
// children are leaves with byte-scale memory mins and milli-cpu mins, skewed weights, and requests at
// or above the mins, so that (a) a parent's total can be put exactly on the sum of its children's mins
// and (b) a child can be moved to / deleted from a parent while the old parent's total sits between the
// two min sums.
func c02GenScenario(r *kit.Rand, w *c02World) {
	const hugeMem, hugeCPU = int64(1) << 52, int64(1) << 36
	nTop := r.Range(2, 3)
	for i := 0; i < nTop; i++ {
		p := &c02Group{name: w.newName(), parent: c02Root, isParent: true, lend: r.Pct(65), max: c02Vec{hugeCPU, hugeMem}}
		w.add(p)
		nk := r.Range(2, 4)
		if i > 0 {
			nk = r.Range(0, 3)
		}
		heavy := r.Intn(nk + 1)
		var sum c02Vec
		for k := 0; k < nk; k++ {
			g := &c02Group{name: w.newName(), parent: p.name, lend: r.Pct(70)}
			for d := 0; d < 2; d++ {
				g.min[d] = c02TreeValue(r, 3, d)
				if r.Pct(8) {
					g.min[d] = 0
				}
				g.max[d] = kit.Pick(r, []int64{c02Vec{hugeCPU, hugeMem}[d], g.min[d] * 4, g.min[d] + c02TreeValue(r, 3, d)})
				sum[d] += g.min[d]
			}
			// skewed weights: a rounding unit that has to be shared goes to the heavy sibling
			switch r.Intn(4) {
			case 0: // default weight = max
			case 1:
				g.hasW, g.w = true, c02Vec{1, 1}
				if k == heavy {
					g.w = c02Vec{1 << 30, 1 << 40}
				}
			case 2:
				g.hasW, g.w = true, c02Vec{kit.Pick(r, c02Primes[:14]), kit.Pick(r, c02Primes[:14])}
			default:
				g.hasW, g.w = true, c02Vec{int64(r.Range(1, 1000)), r.Int63n(1<<40) + 1}
				if k == heavy {
					g.w = c02Vec{1 << 36, 1 << 52}
				}
			}
			w.add(g)
		}
		// workload bias: prefer memory mins for which a float64 "total*min/sum" at total == sum is not
		// exact (an implementation that scaled there would lose a unit); re-draw single mins a few times
		if kids := w.kids(p.name); len(kids) >= 2 {
			for try := 0; try < 30; try++ {
				bad := 0
				for _, k := range kids {
					if mn := w.groups[k].min[1]; mn > 0 && c02FloatInexact(sum[1], mn) {
						bad++
					}
				}
				if bad >= 2 || (bad == 1 && try >= 15) {
					break
				}
				g := w.groups[kit.Pick(r, kids)]
				sum[1] -= g.min[1]
				g.min[1] = c02HostileBytes(r)
				g.max[1] = kit.Pick(r, []int64{hugeMem, g.min[1] * 4})
				sum[1] += g.min[1]
			}
		}
		for d := 0; d < 2; d++ {
			slack := int64(0)
			if r.Pct(50) || i > 0 {
				slack = c02TreeValue(r, 3, d)
				if i > 0 && r.Pct(70) {
					slack += c02TreeValue(r, 3, d) + c02TreeValue(r, 3, d) // room to take a child in
				}
			}
			p.min[d] = sum[d] + slack
		}
	}
	if r.Pct(40) {
		g := &c02Group{name: w.newName(), parent: c02Root, lend: r.Pct(70)}
		for d := 0; d < 2; d++ {
			g.min[d] = c02TreeValue(r, 3, d)
			g.max[d] = g.min[d] * 3
		}
		w.add(g)
	}
}

func c02GenWeight(r *kit.Rand, g *c02Group, vs int) {
	g.hasW = r.Pct(55)
	if !g.hasW {
		return
	}
	for d := 0; d < 2; d++ {
		switch r.Intn(6) {
		case 0:
			g.w[d] = 0
		case 1:
			g.w[d] = 1
		case 2:
			g.w[d] = kit.Pick(r, c02Primes[:14])
		case 3:
			g.w[d] = g.max[d]
		case 4:
			g.w[d] = c02TreeValue(r, vs, d)
		default:
			g.w[d] = kit.Pick(r, []int64{1000, 1 << 30, 1 << 55})
		}
	}
}

func (w *c02World) genTotal(r *kit.Rand) c02Vec {
	var t c02Vec
	for d := 0; d < 2; d++ {
		var sumMin, sumMax int64
		for _, n := range w.kids(c02Root) {
			sumMin += w.groups[n].min[d]
			sumMax += c02Min64(w.groups[n].max[d], 1<<57)
		}
		switch r.Intn(8) {
		case 0:
			t[d] = 0
		case 1:
			t[d] = r.Int63n(sumMin + 1)
		case 2:
			t[d] = sumMin
		case 3:
			t[d] = sumMin + int64(r.Range(1, 7))
		case 4:
			t[d] = sumMin + r.Int63n(c02Max64(1, sumMax-sumMin)+1)
		case 5:
			t[d] = sumMax
		case 6:
			t[d] = sumMax + c02TreeValue(r, w.vs, d)
		default:
			t[d] = c02TreeValue(r, w.vs, d) + c02TreeValue(r, w.vs, d)
		}
	}
	return t
}

func (w *c02World) genPodReq(r *kit.Rand, g *c02Group) c02Vec {
	var v c02Vec
	for d := 0; d < 2; d++ {
		k := r.Intn(7)
		if w.scenario {
			k = kit.Pick(r, []int{2, 2, 3, 4, 4, 6, 1})
		}
		switch k {
		case 0:
			v[d] = 0
		case 1:
			v[d] = r.Int63n(g.min[d] + 1)
		case 2:
			v[d] = g.min[d]
		case 3:
			v[d] = g.min[d] + 1
		case 4:
			v[d] = g.min[d] + r.Int63n(c02Max64(1, g.max[d]-g.min[d])+1)
		case 5:
			v[d] = g.max[d] + int64(r.Range(0, 3))
		default:
			v[d] = c02TreeValue(r, w.vs, d)
		}
	}
	return v
}

// c02Mgr wraps a real manager and the cluster total applied to it.
type c02Mgr struct {
	gqm   *GroupQuotaManager
	total c02Vec
}

func c02NewMgr(w *c02World) *c02Mgr {
	big := c02RL(c02Vec{math.MaxInt64 / 5, math.MaxInt64 / 5})
	m := &c02Mgr{gqm: NewGroupQuotaManager("", w.scale, big, big)}
	// in-domain rule: the cluster total is built from node events, which carry every dimension with a
	// positive amount; a manager therefore never evaluates quotas with a total that lacks a dimension
	// (min-scaling iterates over the keys of the total and would silently skip an absent one).
	m.setTotal(c02Vec{1, 1})
	return m
}

// staleNoLend lists "group/dimension" for every non-lending group whose request held by the parent's
// runtime calculator differs from the group's public limited request min(Request, Max). Diagnosis
// only: it selects the signature of a violation that the output oracle found, it is never a verdict
// by itself.
func (m *c02Mgr) staleNoLend(w *c02World) []string {
	var out []string
	for _, n := range w.order {
		g := w.groups[n]
		if g.lend && !w.gate {
			continue
		}
		s, ok := m.gqm.GetQuotaSummary(n, false)
		calc := m.gqm.runtimeQuotaCalculatorMap[g.parent]
		if !ok || calc == nil {
			continue
		}
		for d := 0; d < 2; d++ {
			qt := calc.quotaTree[c02Dims[d]]
			if qt == nil {
				continue
			}
			if found, node := qt.find(n); found {
				if pub := c02Min64(c02Of(s.Request)[d], g.max[d]); node.request != pub {
					out = append(out, fmt.Sprintf("%s/%s: calculator request %d, public limited request %d", n, c02Dims[d], node.request, pub))
				}
			}
		}
	}
	return out
}

const c02SigStale = "C02/tree/nolend-request-stale-after-min-update"

func (m *c02Mgr) setTotal(t c02Vec) {
	delta := corev1.ResourceList{}
	for d := 0; d < 2; d++ {
		delta[c02Dims[d]] = c02Qty(d, t[d]-m.total[d])
	}
	m.gqm.UpdateClusterTotalResource(delta)
	m.total = t
}

// sweep refreshes every group in the given order and returns the runtimes RefreshRuntime reported.
func (m *c02Mgr) sweep(order []string) map[string]c02Vec {
	out := make(map[string]c02Vec, len(order))
	for _, n := range order {
		out[n] = c02Of(m.gqm.RefreshRuntime(n))
	}
	return out
}

func c02Shuffled(r *kit.Rand, xs []string) []string {
	out := append([]string(nil), xs...)
	kit.Shuffle(r, out)
	return out
}

func c02SetGate(c *kit.Case, on bool) {
	if err := k8sfeature.DefaultFeatureGate.(featuregate.MutableFeatureGate).Set(fmt.Sprintf("%s=%v", features.ElasticQuotaGuaranteeUsage, on)); err != nil {
		c.Harness("feature gate: %v", err)
	}
}

// ---------------------------------------------------------------------------------------------
// one case

type c02Env struct {
	c          *kit.Case
	r          *kit.Rand
	w          *c02World
	m          *c02Mgr
	st         c02Stats
	scr        c02Scratch
	nontrivial bool
}

func (e *c02Env) tag(name string) {
	e.c.Count(name, 1)
	if e.w.scale {
		e.c.Count(name+"_minscale", 1)
	}
}

func (e *c02Env) apply(g *c02Group, what string) {
	if err := e.m.gqm.UpdateQuota(g.object()); err != nil {
		e.c.Harness("UpdateQuota(%s): %v", g.name, err)
	}
	e.c.Op("%s %s", what, g)
}

func (e *c02Env) addPodTo(g *c02Group, req c02Vec) {
	w := e.w
	p := &c02Pod{name: fmt.Sprintf("p%03d", w.podID), group: g.name, req: req, live: true}
	w.podID++
	if e.r.Pct(50) {
		p.node = "n1"
	}
	w.pods = append(w.pods, p)
	e.m.gqm.OnPodAdd(p.group, p.object())
	e.c.Op("pod add %s -> %s req=%v node=%q", p.name, p.group, p.req, p.node)
	e.c.Count("op_pod_add", 1)
}

func (e *c02Env) addPod() {
	leaves := e.w.leaves()
	if len(leaves) == 0 {
		return
	}
	g := e.w.groups[kit.Pick(e.r, leaves)]
	e.addPodTo(g, e.w.genPodReq(e.r, g))
}

func (e *c02Env) setTotal(t c02Vec) {
	e.m.setTotal(t)
	e.w.total = t
}

// stabilise refreshes, top-down, every sibling on the path to p so that the (lazily updated) scaled
// mins on the path are current, and returns p's runtime.
func (e *c02Env) runtimeOf(p string) c02Vec {
	if e.w.scale {
		var path []string
		for n := p; n != c02Root; n = e.w.groups[n].parent {
			path = append([]string{n}, path...)
		}
		for _, a := range path {
			for _, s := range e.w.kids(e.w.groups[a].parent) {
				e.m.gqm.RefreshRuntime(s)
			}
		}
	}
	return c02Of(e.m.gqm.RefreshRuntime(p))
}

// place moves the cluster total in dimension d until the total divided among p's children (the
// cluster total for the root, p's runtime otherwise) lies in [lo,hi]. Workload steering only.
func (e *c02Env) place(p string, d int, lo, hi int64) bool {
	if lo < 0 || hi < lo {
		return false
	}
	t := e.m.total
	if p == c02Root {
		t[d] = lo
		if hi > lo {
			t[d] = lo + e.r.Int63n(hi-lo+1)
		}
		e.setTotal(t)
		e.c.Op("cluster total %v (placed: root divides %d in %s)", t, t[d], c02Dims[d])
		return true
	}
	probe := func(v int64) int64 {
		t[d] = v
		e.m.setTotal(t)
		return e.runtimeOf(p)[d]
	}
	a, b := int64(0), int64(1)<<59
	if probe(b) < lo {
		e.setTotal(e.w.total)
		return false
	}
	for a < b { // smallest cluster total with runtime(p) >= lo
		mid := a + (b-a)/2
		if probe(mid) >= lo {
			b = mid
		} else {
			a = mid + 1
		}
	}
	got := probe(a)
	if got < lo || got > hi {
		e.setTotal(e.w.total)
		return false
	}
	e.setTotal(t)
	e.c.Op("cluster total %v (placed by bisection: %s divides %d in %s)", t, p, got, c02Dims[d])
	return true
}

// wantAtLeast adds pods below p so that p's limited request reaches v in dimension d (otherwise p's
// runtime cannot be steered up to v). Best effort.
func (e *c02Env) wantAtLeast(p string, d int, v int64) {
	if p == c02Root {
		return
	}
	for try := 0; try < 3; try++ {
		s, ok := e.m.gqm.GetQuotaSummary(p, false)
		if !ok {
			return
		}
		have := c02Min64(c02Of(s.Request)[d], e.w.groups[p].max[d])
		if have >= v {
			return
		}
		var cands []string
		for _, n := range e.w.leaves() {
			if e.w.inSubtree(n, p) && n != p {
				cands = append(cands, n)
			}
		}
		if len(cands) == 0 {
			return
		}
		var req c02Vec
		req[d] = v - have
		e.addPodTo(e.w.groups[kit.Pick(e.r, cands)], req)
	}
}

func c02FloatInexact(total, min int64) bool {
	return int64(float64(total)*float64(min)/float64(total)) != min
}

// boundary puts the total of one parent exactly on (or one unit beside) the sum of its children's mins.
func (e *c02Env) boundary() {
	w, r := e.w, e.r
	cands := []string{}
	for _, n := range append([]string{c02Root}, w.order...) {
		if len(w.kids(n)) >= 2 {
			cands = append(cands, n)
		}
	}
	if len(cands) == 0 {
		return
	}
	p := kit.Pick(r, cands)
	d := r.Weighted(30, 70)
	sum := w.sumKidsMin(p, d, "")
	if sum == 0 {
		d = 1 - d
		sum = w.sumKidsMin(p, d, "")
	}
	delta := int64(r.Weighted(25, 50, 25) - 1)
	target := sum + delta
	e.wantAtLeast(p, d, target)
	if !e.place(p, d, target, target) {
		e.c.Count("boundary_placement_missed", 1)
		return
	}
	e.tag("boundary_total_at_sum_min_" + map[int64]string{-1: "minus1", 0: "exact", 1: "plus1"}[delta])
	if delta == 0 && sum >= 1<<40 {
		e.tag("boundary_total_at_sum_min_ge_2p40")
		for _, k := range w.kids(p) {
			if c02FloatInexact(sum, w.groups[k].min[d]) {
				e.tag("boundary_total_at_sum_min_float_inexact")
				break
			}
		}
	}
}

// afterDetach steers, with min-scaling on, the total of the old parent between the min sum of the
// remaining children and the sum including the detached child (or the new parent's total between its
// old and its new sum).
func (e *c02Env) afterDetach(oldParent, newParent string, oldMin, newMin c02Vec) {
	w, r := e.w, e.r
	if !w.scale {
		return
	}
	d := r.Weighted(30, 70)
	if oldMin[d] == 0 {
		d = 1 - d
	}
	if newParent != "" && newMin[d] > 0 && r.Pct(35) {
		// the new parent's side: its children's mins, now including the newcomer, no longer fit
		with := w.sumKidsMin(newParent, d, "")
		lo, hi := with-newMin[d], with-1
		e.wantAtLeast(newParent, d, hi)
		if e.place(newParent, d, lo, hi) {
			e.tag("new_parent_total_between_sums")
		} else {
			e.c.Count("between_sums_placement_missed", 1)
		}
		return
	}
	if oldMin[d] == 0 || len(w.kids(oldParent)) == 0 {
		return
	}
	rem := w.sumKidsMin(oldParent, d, "")
	lo, hi := rem, rem+oldMin[d]-1
	switch r.Intn(4) {
	case 0:
		hi = lo // exactly the remaining children's sum
	case 1:
		lo = hi
	}
	e.wantAtLeast(oldParent, d, hi)
	if e.place(oldParent, d, lo, hi) {
		e.tag("old_parent_total_between_sums")
	} else {
		e.c.Count("between_sums_placement_missed", 1)
	}
}

// reparent moves one group below another parent, alone or together with a min/max change.
func (e *c02Env) reparent() bool {
	w, r := e.w, e.r
	for _, i := range r.Perm(len(w.order)) {
		if e.reparentOne(w.groups[w.order[i]]) {
			return true
		}
	}
	return false
}

// moveNoLendParentThenGrow: a parent group that does not lend and whose children ask for less than
// its min is moved to another parent; afterwards a pod arrives in its subtree, so the group's request
// has to be rebuilt from what its children ask now.
func (e *c02Env) moveNoLendParentThenGrow() bool {
	w, r := e.w, e.r
	_, child := w.modelReq()
	var cands []string
	for _, n := range w.order {
		g := w.groups[n]
		if g.isParent && len(w.kids(n)) > 0 && !(g.lend && !w.gate) && (child[n][0] < g.min[0] || child[n][1] < g.min[1]) {
			cands = append(cands, n)
		}
	}
	kit.Shuffle(r, cands)
	for _, n := range cands {
		x := w.groups[n]
		if !e.reparentOne(x) {
			continue
		}
		var leaves []string
		for _, l := range w.leaves() {
			if l != n && w.inSubtree(l, n) {
				leaves = append(leaves, l)
			}
		}
		if len(leaves) == 0 {
			return true
		}
		for k, np := 0, r.Range(1, 2); k < np; k++ {
			var req c02Vec
			for d := 0; d < 2; d++ {
				gap := x.min[d] - child[n][d]
				switch {
				case gap <= 0:
					req[d] = int64(r.Range(0, 3))
				case r.Pct(50): // the children still ask for less than the min
					req[d] = 1 + r.Int63n(c02Max64(1, gap/2))
				default: // the children now ask for more than the min
					req[d] = gap + int64(r.Range(0, 5))
				}
			}
			e.addPodTo(w.groups[kit.Pick(r, leaves)], req)
		}
		e.tag("op_move_nolend_parent_then_grow")
		return true
	}
	return false
}

func (e *c02Env) reparentOne(x *c02Group) bool {
	w, r := e.w, e.r
	{
		h := w.height(x.name)
		var targets []string
		for _, t := range append([]string{c02Root}, w.order...) {
			if t == x.parent || t == x.name {
				continue
			}
			if t != c02Root && (!w.groups[t].isParent || w.inSubtree(t, x.name)) {
				continue
			}
			td := 0
			if t != c02Root {
				td = w.depthOf(t)
			}
			if td+1+h <= 3 {
				targets = append(targets, t)
			}
		}
		kit.Shuffle(r, targets)
		for _, t := range targets {
			combined := r.Pct(40)
			newMin := x.min
			fits := true
			for d := 0; d < 2; d++ {
				room := w.room(t, d, x.name)
				own := w.sumKidsMin(x.name, d, "")
				if newMin[d] > room {
					if room < own {
						fits = false
						break
					}
					combined = true
					newMin[d] = own + r.Int63n(room-own+1)
					if r.Bool() {
						newMin[d] = room
					}
				} else if combined && r.Bool() {
					hi := c02Min64(room, x.max[d])
					if hi >= own {
						newMin[d] = own + r.Int63n(hi-own+1)
					}
				}
			}
			if !fits {
				continue
			}
			old, oldMin := x.parent, x.min
			x.parent, x.min = t, newMin
			if combined && r.Bool() {
				for d := 0; d < 2; d++ {
					x.max[d] = x.min[d] + c02TreeValue(r, w.vs, d)
				}
			}
			what := "re-parent"
			if combined {
				what = "re-parent+update"
				e.tag("op_reparent_combined")
			}
			e.tag("op_reparent")
			e.apply(x, fmt.Sprintf("%s (from %s, min was %v)", what, old, oldMin))
			e.afterDetach(old, t, oldMin, x.min)
			return true
		}
	}
	return false
}

// deleteLeaf deletes a group without children (draining its pods first or not) and, often, creates
// it again under the same name.
func (e *c02Env) deleteLeaf() bool {
	w, r := e.w, e.r
	var cands []string
	for _, n := range w.order {
		if len(w.kids(n)) == 0 && len(w.kids(w.groups[n].parent)) >= 2 {
			cands = append(cands, n)
		}
	}
	if len(cands) == 0 {
		return false
	}
	x := w.groups[kit.Pick(r, cands)]
	drain := r.Bool()
	for _, p := range w.pods {
		if p.live && p.group == x.name {
			if drain {
				e.m.gqm.OnPodDelete(p.group, p.object())
				e.c.Op("pod delete %s from %s", p.name, p.group)
			}
			p.live = false
		}
	}
	if err := e.m.gqm.DeleteQuota(x.object()); err != nil {
		e.c.Harness("DeleteQuota(%s): %v", x.name, err)
	}
	e.c.Op("delete %s (pods drained first=%v)", x, drain)
	e.tag("op_delete")
	old, oldMin := x.parent, x.min
	w.remove(x.name)
	e.afterDetach(old, "", oldMin, c02Vec{})
	return true
}

func (e *c02Env) recreate() bool {
	w, r := e.w, e.r
	if len(w.deleted) == 0 {
		return false
	}
	i := r.Intn(len(w.deleted))
	name := w.deleted[i]
	cands := []string{c02Root}
	for _, n := range w.order {
		if w.groups[n].isParent && w.depthOf(n) < 3 {
			cands = append(cands, n, n)
		}
	}
	g := &c02Group{name: name, parent: kit.Pick(r, cands), lend: r.Pct(70)}
	g.isParent = w.depthOfParent(g.parent) < 2 && r.Pct(20)
	for d := 0; d < 2; d++ {
		g.min[d] = c02Min64(c02TreeValue(r, w.vs, d), w.room(g.parent, d, ""))
		if g.min[d] < 0 {
			g.min[d] = 0
		}
		g.max[d] = g.min[d] + c02TreeValue(r, w.vs, d)
	}
	c02GenWeight(r, g, w.vs)
	w.deleted = append(w.deleted[:i], w.deleted[i+1:]...)
	w.add(g)
	e.apply(g, "re-create")
	e.tag("op_recreate_same_name")
	if w.scale && !g.isParent && r.Pct(60) {
		e.addPodTo(g, w.genPodReq(r, g))
	}
	return true
}

func (w *c02World) depthOfParent(p string) int {
	if p == c02Root {
		return 0
	}
	return w.depthOf(p)
}

func (e *c02Env) updateFields() {
	w, r := e.w, e.r
	g := w.groups[kit.Pick(r, w.order)]
	switch r.Intn(3) {
	case 0: // min, within [sum of children mins, min(max, room below the parent)]
		for d := 0; d < 2; d++ {
			lo := w.sumKidsMin(g.name, d, "")
			hi := c02Min64(g.max[d], w.room(g.parent, d, g.name))
			if hi >= lo {
				g.min[d] = lo + r.Int63n(hi-lo+1)
				if r.Pct(25) {
					g.min[d] = hi
				}
			}
		}
		e.c.Count("op_min_change", 1)
	case 1: // max >= min
		for d := 0; d < 2; d++ {
			g.max[d] = g.min[d] + c02TreeValue(r, w.vs, d)
			if r.Pct(20) {
				g.max[d] = g.min[d]
			}
		}
		e.c.Count("op_max_change", 1)
	default:
		c02GenWeight(r, g, w.vs)
		e.c.Count("op_weight_change", 1)
	}
	e.apply(g, "update")
}

// buildFresh feeds a new manager the final quotas (parents first, siblings shuffled), pods and total.
func (e *c02Env) buildFresh() (*c02Mgr, []string) {
	w, r := e.w, e.r
	f := c02NewMgr(w)
	var forder []string
	var walk func(parent string)
	walk = func(parent string) {
		kids := w.kids(parent)
		kit.Shuffle(r, kids)
		forder = append(forder, kids...)
		for _, k := range kids {
			walk(k)
		}
	}
	walk(c02Root)
	totalFirst := r.Bool()
	if totalFirst {
		f.setTotal(w.total)
	}
	for _, n := range forder {
		if err := f.gqm.UpdateQuota(w.groups[n].object()); err != nil {
			e.c.Harness("fresh UpdateQuota(%s): %v", n, err)
		}
	}
	pods := append([]*c02Pod(nil), w.pods...)
	kit.Shuffle(r, pods)
	for _, p := range pods {
		if p.live {
			f.gqm.OnPodAdd(p.group, p.object())
		}
	}
	if !totalFirst {
		f.setTotal(w.total)
	}
	return f, forder
}

func (e *c02Env) check(where string, structural bool) {
	c, w, m, r := e.c, e.w, e.m, e.r
	all := w.order
	depth := w.maxDepth()
	if w.scale {
		for i := 0; i < depth; i++ {
			m.sweep(c02Shuffled(r, all))
		}
	}
	o1 := c02Shuffled(r, all)
	rt1 := m.sweep(o1)
	o2 := c02Shuffled(r, all)
	rt2 := m.sweep(o2)
	c.Count("refresh_sweeps_compared", 1)
	for _, n := range all {
		if rt1[n] != rt2[n] {
			sig := "C02/tree/refresh-not-idempotent"
			if w.scale {
				sig += "-minscale"
			}
			c.Fail(sig, "%s: RefreshRuntime(%s) returned %v in a sweep in order %v and %v in the next sweep in order %v, nothing changed in between", where, n, rt1[n], o1, rt2[n], o2)
		}
	}
	// immediate repetition on one group
	n := kit.Pick(r, all)
	a, b := c02Of(m.gqm.RefreshRuntime(n)), c02Of(m.gqm.RefreshRuntime(n))
	if a != b || a != rt1[n] {
		c.Fail("C02/tree/refresh-not-idempotent", "%s: RefreshRuntime(%s) twice in a row: %v then %v (sweep value %v)", where, n, a, b, rt1[n])
	}
	// per-level oracle
	sums := map[string]*QuotaInfoSummary{}
	for _, n := range all {
		s, ok := m.gqm.GetQuotaSummary(n, false)
		if !ok {
			c.Harness("no summary for %s", n)
		}
		sums[n] = s
		g := w.groups[n]
		if c02Of(s.Max) != g.max || c02Of(s.Min) != g.min || c02Of(s.SharedWeight) != g.effW() {
			c.Count("summary_differs_from_spec", 1)
		}
	}
	parents := []string{c02Root}
	for _, n := range all {
		if len(w.kids(n)) > 0 {
			parents = append(parents, n)
		}
	}
	// the requests the division is judged with come from the pods, not from the manager
	model, _ := w.modelReq()
	for _, p := range parents {
		kids := w.kids(p)
		total := m.total
		lvl := 1
		if p != c02Root {
			total = rt1[p]
			lvl = w.depthOf(p) + 1
		}
		for d := 0; d < 2; d++ {
			sibs := make([]c02Sib, len(kids))
			rt := make([]int64, len(kids))
			cfgSum := w.sumKidsMin(p, d, "")
			fit := cfgSum <= total[d]
			scaledSeen := false
			var acct []string
			for i, k := range kids {
				g, s := w.groups[k], sums[k]
				req := model[k][d]
				if pub := c02Min64(c02Of(s.Request)[d], g.max[d]); pub != req {
					// accounting (C01) rather than division: counted; the verdict is taken on the runtimes
					c.Count("converse_misses_manager_request_differs_from_pods", 1)
					acct = append(acct, fmt.Sprintf("%s: the manager's limited request is %d, its pods and children ask for %d", k, pub, req))
				}
				mn := g.min[d]
				if w.scale {
					am := c02Of(s.AutoScaleMin)[d]
					if am != mn {
						scaledSeen = true
						if fit {
							// the configured mins fit, yet the manager works with another min: counted;
							// the verdict is taken on the runtimes with the configured min
							c.Count("converse_misses_scaled_min_although_mins_fit", 1)
						} else {
							mn = am
						}
					}
				}
				sibs[i] = c02Sib{name: k, req: req, min: mn, guar: c02Of(s.Guaranteed)[d], w: g.effW()[d], lend: g.lend && !w.gate}
				rt[i] = rt1[k][d]
			}
			if scaledSeen {
				c.Count("levels_with_scaled_min", 1)
			}
			if w.scale && fit {
				c.Count("minscale_levels_mins_fit", 1)
				if cfgSum == total[d] && cfgSum > 0 {
					c.Count("minscale_levels_total_equals_sum_min", 1)
				}
			}
			sig, msg, o := c02Check("tree", sibs, total[d], rt, false, &e.st, &e.scr)
			if sig != "" {
				text := fmt.Sprintf("%s: children of %s, dimension %s, total (parent's runtime) %d, sum of configured mins %d: %s runtime=%v: %s", where, p, c02Dims[d], total[d], cfgSum, c02SibsString(sibs), rt, msg)
				var hit []string
				for _, line := range m.staleNoLend(w) {
					for _, k := range kids {
						if len(line) > len(k) && line[:len(k)+1] == k+"/" {
							hit = append(hit, line)
						}
					}
				}
				if len(hit) > 0 {
					c.Report(c02SigStale, "%s [relation violated: %s; the parent's runtime calculator divides with a request of a non-lending child that was not refreshed when its min was set: %v]", text, sig, hit)
					c.Count("levels_hit_by_stale_nolend_request", 1)
					continue
				}
				if len(acct) > 0 {
					// the division was fed a request that is not what the subtree's pods ask for
					sig += "-by-request-accounting"
					text += fmt.Sprintf(" [%v]", acct)
				}
				if w.scale {
					sig += "-minscale"
				}
				c.Fail(sig, "%s", text)
			}
			c.Count("levels_checked", 1)
			c.Count(fmt.Sprintf("levels_checked_depth%d", lvl), 1)
			if o.class == c02ClassPartial {
				e.nontrivial = true
				if lvl > 1 {
					c.Count("partial_divisions_below_top_level", 1)
				}
			}
			nComp, zeroW, nolend := c02Describe(sibs)
			c.Seen("tree", lvl, len(sibs), o.class, c02Min64(int64(o.rounds), 7), o.residual, nComp, zeroW, nolend, w.scale, w.gate, structural)
		}
	}
	// fresh instance fed the final inputs in another order
	f, forder := e.buildFresh()
	if w.scale {
		for i := 0; i < depth; i++ {
			f.sweep(c02Shuffled(r, forder))
		}
	}
	fresh := f.sweep(c02Shuffled(r, forder))
	c.Count("fresh_instance_comparisons", 1)
	if structural {
		e.tag("fresh_instance_comparisons_after_move_or_delete")
	}
	// The differential is about the division: it needs both managers to divide the same inputs. The
	// request and (with the guarantee gate) the guaranteed amount are accounting results, not part of
	// C02; when they differ between the two managers the comparison is skipped and counted.
	for _, n := range all {
		fs, ok := f.gqm.GetQuotaSummary(n, false)
		if !ok {
			c.Harness("fresh manager has no summary for %s", n)
		}
		if c02Of(fs.Request) != c02Of(sums[n].Request) {
			c.Count("fresh_skipped_request_accounting_differs", 1)
			return
		}
		if c02Of(fs.Guaranteed) != c02Of(sums[n].Guaranteed) {
			c.Count("fresh_skipped_guaranteed_accounting_differs", 1)
			return
		}
	}
	for _, n := range all {
		if fresh[n] != rt1[n] {
			sig := "C02/tree/fresh-instance-differs"
			if w.scale {
				sig += "-minscale"
			}
			text := fmt.Sprintf("%s: group %s: the manager that lived through the history reports runtime %v, a fresh manager fed the same final quotas (order %v), pods and cluster total %v reports %v", where, n, rt1[n], forder, w.total, fresh[n])
			if a, b := m.staleNoLend(w), f.staleNoLend(w); len(a)+len(b) > 0 {
				c.Report(c02SigStale, "%s [history dependence; stale requests of non-lending groups in the parent's calculator: lived %v, fresh %v]", text, a, b)
				c.Count("fresh_instance_hit_by_stale_nolend_request", 1)
				break
			}
			c.Fail(sig, "%s", text)
		}
	}
}

func TestVerifC02Tree(t *testing.T) {
	gate0 := k8sfeature.DefaultFeatureGate.Enabled(features.ElasticQuotaGuaranteeUsage)
	kit.Run(t, kit.Config{Property: "C02", Unit: "tree", Quick: 2500, Thorough: 50000,
		Rule: "75% random quota trees of depth 1-3 (2-5 top groups, 2-4 children per parent) created through UpdateQuota, values from a small (0..12, frequent ties/residues), realistic (incl. byte-scale amounts whose products exceed 2^53) or 2^56-scale pool, shared weights absent (=max) / zero in one dimension / primes / huge, 30% non-lending groups, 0-3 pods per leaf with requests placed around min and max, cluster total placed below/at/above the top-level min and max sums, min-scaling on in 40%, ElasticQuotaGuaranteeUsage gate on in 15%; 25% crafted min-scaling scenarios (2-3 top-level parents with leaf children, byte-scale memory and milli-cpu mins, skewed weights, requests at/above the mins). 2-4 epochs of changes: cluster total, pod add/delete, min/max/weight updates, re-parent (alone or with a min/max change; also 'move then grow': a non-lending parent group whose children ask for less than its min is moved and a pod then arrives in its subtree), delete of a childless group (pods drained or not) and re-creation under the same name; with min-scaling on a move/delete is followed by steering the old parent's total between the min sum of the remaining children and the sum including the detached child (or the new parent's total between its old and new sum), and 'boundary' steps put a parent's total exactly on / one unit beside the sum of its children's mins (non-root parents by bisection on the cluster total). After every epoch: refresh sweeps, the per-level sibling oracle and a fresh manager fed the final objects in another order. distinct = (depth of the level, siblings, outcome class, rounds, residual?, zero-weight competitor?, non-lending?, scaling, gate, after move/delete?); non-trivial = some level divided partially (pool shared but not every request met)"},
		func(c *kit.Case) {
			r := c.R
			e := &c02Env{c: c, r: r}
			defer e.st.flush(c)
			w := c02GenWorld(r)
			e.w = w
			c02SetGate(c, w.gate)
			defer c02SetGate(c, gate0)
			c.Op("min-scaling=%v guarantee-gate=%v scenario=%v value-scale=%d groups=%d", w.scale, w.gate, w.scenario, w.vs, len(w.order))
			e.m = c02NewMgr(w)
			if w.scenario && r.Pct(60) {
				e.setTotal(c02Vec{1 << 50, 1 << 58}) // ample
			} else {
				e.setTotal(w.genTotal(r))
			}
			c.Op("cluster total %v", e.m.total)
			for _, n := range w.order {
				e.apply(w.groups[n], "create")
			}
			if w.scenario {
				// every leaf asks for about its min or more
				for _, n := range w.leaves() {
					g := w.groups[n]
					e.addPodTo(g, w.genPodReq(r, g))
					if r.Pct(30) {
						e.addPodTo(g, w.genPodReq(r, g))
					}
				}
			} else {
				for i, np := 0, r.Range(0, 2*len(w.leaves())); i < np; i++ {
					e.addPod()
				}
			}
			e.check("after creation", false)
			epochs := r.Range(2, 4)
			for ep := 0; ep < epochs; ep++ {
				structural := false
				nops := r.Range(1, 4)
				if w.scenario {
					nops = r.Range(1, 2)
				}
				for i := 0; i < nops; i++ {
					weights := []int{24, 20, 12, 24, 8, 6, 4, 2, 12}
					if w.scenario {
						weights = []int{4, 6, 4, 8, 28, 14, 10, 26, 4}
					} else if w.scale {
						weights = []int{22, 18, 10, 22, 10, 7, 5, 6, 12}
					}
					switch r.Weighted(weights...) {
					case 0:
						e.setTotal(w.genTotal(r))
						c.Op("cluster total %v", e.m.total)
						c.Count("op_total_change", 1)
					case 1:
						e.addPod()
					case 2:
						var live []*c02Pod
						for _, p := range w.pods {
							if p.live {
								live = append(live, p)
							}
						}
						if len(live) == 0 {
							break
						}
						p := kit.Pick(r, live)
						e.m.gqm.OnPodDelete(p.group, p.object())
						p.live = false
						c.Op("pod delete %s from %s", p.name, p.group)
						c.Count("op_pod_delete", 1)
					case 3:
						e.updateFields()
					case 4:
						structural = e.reparent() || structural
					case 5:
						if e.deleteLeaf() {
							structural = true
							if r.Pct(50) {
								e.recreate()
							}
						}
					case 6:
						structural = e.recreate() || structural
					case 8:
						structural = e.moveNoLendParentThenGrow() || structural
					default:
						e.boundary()
					}
				}
				e.check(fmt.Sprintf("epoch %d", ep), structural)
			}
			if e.nontrivial {
				c.NonTrivial()
			}
			if w.scale {
				c.Count("cases_minscale_on", 1)
			} else {
				c.Count("cases_minscale_off", 1)
			}
			if w.scenario {
				c.Count("cases_minscale_scenario", 1)
			}
			if w.gate {
				c.Count("cases_guarantee_gate_on", 1)
			}
			if c.K < 2 {
				ops := c.Ops()
				if len(ops) > 14 {
					ops = ops[:14]
				}
				c.Sample(ops)
			}
		})
}
