//go:build verif

package core

// C02 (c): RefreshRuntime on multi-level quota trees, driven through the exported GroupQuotaManager
// API only (UpdateQuota, UpdateClusterTotalResource, OnPodAdd, OnPodDelete, RefreshRuntime,
// GetQuotaSummary).
//
// Causal / in-domain rules of the generator (what the admission webhook and the scheduler guarantee):
//   * a quota's parent exists and is a parent group when the quota is created; no re-parenting, no
//     deletion of quotas, no change of the lend flag / is-parent flag (those are C01/C15 territory);
//   * min <= max per dimension, every quota declares the same dimensions (cpu, memory), the children's
//     mins sum to at most the parent's min (non-root parents), nothing negative;
//   * pods are submitted to leaf groups only; a pod is added once and deleted at most once;
//   * the cluster total never goes negative; nothing runs in the system/default groups, so the total
//     handed to the root level is the cluster total.
//
// Oracle, per level (parent p, its children as siblings, total = p's runtime as returned by
// RefreshRuntime(p), or the cluster total for the root): exactly the sibling oracle of c02_test.go with
//   request   = min(Request, Max) of the child's summary (the "limited request"; its exactness is C01)
//   min       = the configured min (min-scaling off) or the summary's AutoScaleMin (min-scaling on: the
//               scaling itself uses floating point and is not part of the statement; the value it
//               produced is taken as the sibling's minimum)
//   guarantee = the summary's Guaranteed (non-zero only with the ElasticQuotaGuaranteeUsage gate)
//   weight    = the configured shared weight (the max when the annotation is absent or all zero)
//   lend      = the configured flag (forced off by the ElasticQuotaGuaranteeUsage gate)
// plus: two consecutive sweeps of RefreshRuntime over all groups in different orders return the same
// values (idempotence, order independence of refreshing), and a fresh manager fed the same final quotas
// and pods in a different order returns the same values (pure function of the inputs).
// With min-scaling on, scaled mins are refreshed lazily along the refreshed path only (the package's own
// tests rely on this), so values are asserted after depth+1 stabilising sweeps; with min-scaling off the
// very first sweep after a change is asserted.

import (
	"encoding/json"
	"fmt"
	"math"
	"testing"

	corev1 "k8s.io/api/core/v1"
	"k8s.io/apimachinery/pkg/api/resource"
	metav1 "k8s.io/apimachinery/pkg/apis/meta/v1"
	"k8s.io/apimachinery/pkg/types"
	k8sfeature "k8s.io/apiserver/pkg/util/feature"
	"k8s.io/component-base/featuregate"

	"github.com/koordinator-sh/koordinator/apis/extension"
	"github.com/koordinator-sh/koordinator/apis/thirdparty/scheduler-plugins/pkg/apis/scheduling/v1alpha1"
	"github.com/koordinator-sh/koordinator/pkg/features"
	kit "github.com/koordinator-sh/koordinator/pkg/verifkit"
)

var c02Dims = []corev1.ResourceName{corev1.ResourceCPU, corev1.ResourceMemory}

type c02Vec [2]int64 // [milli-cpu, memory bytes]

func c02Qty(d int, v int64) resource.Quantity {
	if d == 0 {
		return *resource.NewMilliQuantity(v, resource.DecimalSI)
	}
	return *resource.NewQuantity(v, resource.BinarySI)
}

func c02RL(v c02Vec) corev1.ResourceList {
	return corev1.ResourceList{corev1.ResourceCPU: c02Qty(0, v[0]), corev1.ResourceMemory: c02Qty(1, v[1])}
}

func c02Of(rl corev1.ResourceList) c02Vec {
	var v c02Vec
	if q, ok := rl[corev1.ResourceCPU]; ok {
		v[0] = q.MilliValue()
	}
	if q, ok := rl[corev1.ResourceMemory]; ok {
		v[1] = q.Value()
	}
	return v
}

type c02Group struct {
	name, parent   string
	isParent, lend bool
	min, max       c02Vec
	hasW           bool
	w              c02Vec
	depth          int
	children       []string
}

// weight the code is expected to use: the annotation unless absent or all zero, then the max
func (g *c02Group) effW() c02Vec {
	if !g.hasW || (g.w[0] == 0 && g.w[1] == 0) {
		return g.max
	}
	return g.w
}

type c02Pod struct {
	name, group string
	req         c02Vec
	node        string
	live        bool
}

type c02World struct {
	groups map[string]*c02Group
	order  []string // creation order (parents first)
	pods   []*c02Pod
	total  c02Vec
	scale  bool
	gate   bool
	depth  int
}

func (g *c02Group) object() *v1alpha1.ElasticQuota {
	q := &v1alpha1.ElasticQuota{
		ObjectMeta: metav1.ObjectMeta{Name: g.name, Labels: map[string]string{}, Annotations: map[string]string{}},
		Spec:       v1alpha1.ElasticQuotaSpec{Max: c02RL(g.max), Min: c02RL(g.min)},
	}
	q.Labels[extension.LabelQuotaParent] = g.parent
	q.Labels[extension.LabelQuotaIsParent] = fmt.Sprint(g.isParent)
	q.Labels[extension.LabelAllowLentResource] = fmt.Sprint(g.lend)
	if g.hasW {
		b, _ := json.Marshal(c02RL(g.w))
		q.Annotations[extension.AnnotationSharedWeight] = string(b)
	}
	return q
}

func (p *c02Pod) object() *corev1.Pod {
	return &corev1.Pod{
		ObjectMeta: metav1.ObjectMeta{Namespace: "ns", Name: p.name, UID: types.UID(p.name)},
		Spec: corev1.PodSpec{NodeName: p.node, Containers: []corev1.Container{{Name: "c",
			Resources: corev1.ResourceRequirements{Requests: c02RL(p.req)}}}},
	}
}

func c02TreeValue(r *kit.Rand, scale, d int) int64 {
	switch scale {
	case 0: // small: ties and rounding residues are frequent
		return int64(r.Range(0, 12))
	case 1: // realistic
		if d == 0 {
			return kit.Pick(r, []int64{0, 500, 1000, 1500, 4000, 16000, 64000, 96000, int64(r.Range(0, 200000))})
		}
		return kit.Pick(r, []int64{0, 1 << 30, 3 << 30, 16 << 30, 100 << 30, 1 << 40, int64(r.Range(0, 1<<20)) << 20, r.Int63n(1 << 41)})
	default: // large
		if d == 0 {
			return r.Int63n(1 << 40)
		}
		return kit.Pick(r, []int64{1 << 50, 1<<53 + 1, 1<<55 - 1, r.Int63n(1 << 56), r.Int63n(1 << 56)})
	}
}

func c02GenWorld(r *kit.Rand) (*c02World, int) {
	w := &c02World{groups: map[string]*c02Group{}, scale: r.Pct(40), gate: r.Pct(15)}
	vs := r.Weighted(45, 40, 15)
	id := 0
	var gen func(parent *c02Group, depth int, minBudget c02Vec)
	gen = func(parent *c02Group, depth int, minBudget c02Vec) {
		nch := r.Range(2, 4)
		if depth == 1 {
			nch = r.Range(2, 5)
		}
		var made []*c02Group
		for i := 0; i < nch; i++ {
			g := &c02Group{name: fmt.Sprintf("g%02d", id), depth: depth, lend: r.Pct(70)}
			id++
			if parent == nil {
				g.parent = extension.RootQuotaName
			} else {
				g.parent = parent.name
				parent.children = append(parent.children, g.name)
			}
			g.isParent = depth < 3 && r.Pct(map[int]int{1: 60, 2: 30}[depth])
			for d := 0; d < 2; d++ {
				g.max[d] = c02TreeValue(r, vs, d)
				mn := c02TreeValue(r, vs, d)
				switch r.Intn(5) {
				case 0:
					mn = 0
				case 1:
					mn = g.max[d]
				}
				if mn > g.max[d] {
					if r.Bool() {
						g.max[d], mn = mn, g.max[d]
					} else {
						mn = g.max[d]
					}
				}
				if parent != nil && mn > minBudget[d] {
					mn = minBudget[d]
				}
				g.min[d] = mn
				if parent != nil {
					minBudget[d] -= mn
				}
			}
			c02GenWeight(r, g, vs)
			w.groups[g.name] = g
			w.order = append(w.order, g.name)
			made = append(made, g)
			if depth > w.depth {
				w.depth = depth
			}
		}
		for _, g := range made {
			if g.isParent {
				gen(g, depth+1, g.min)
			}
		}
	}
	gen(nil, 1, c02Vec{})
	return w, vs
}

func c02GenWeight(r *kit.Rand, g *c02Group, vs int) {
	g.hasW = r.Pct(55)
	if !g.hasW {
		return
	}
	for d := 0; d < 2; d++ {
		switch r.Intn(6) {
		case 0:
			g.w[d] = 0
		case 1:
			g.w[d] = 1
		case 2:
			g.w[d] = kit.Pick(r, c02Primes[:14])
		case 3:
			g.w[d] = g.max[d]
		case 4:
			g.w[d] = c02TreeValue(r, vs, d)
		default:
			g.w[d] = kit.Pick(r, []int64{1000, 1 << 30, 1 << 55})
		}
	}
}

func (w *c02World) leaves() []string {
	var out []string
	for _, n := range w.order {
		if !w.groups[n].isParent {
			out = append(out, n)
		}
	}
	return out
}

// topLevelSums: sums used to place the cluster total around the interesting boundaries
func (w *c02World) genTotal(r *kit.Rand, vs int) c02Vec {
	var t c02Vec
	for d := 0; d < 2; d++ {
		var sumMin, sumMax int64
		for _, n := range w.order {
			g := w.groups[n]
			if g.depth == 1 {
				sumMin += g.min[d]
				sumMax += g.max[d]
			}
		}
		switch r.Intn(8) {
		case 0:
			t[d] = 0
		case 1:
			t[d] = r.Int63n(sumMin + 1)
		case 2:
			t[d] = sumMin
		case 3:
			t[d] = sumMin + int64(r.Range(1, 7))
		case 4:
			t[d] = sumMin + r.Int63n(c02Max64(1, sumMax-sumMin)+1)
		case 5:
			t[d] = sumMax
		case 6:
			t[d] = sumMax + c02TreeValue(r, vs, d)
		default:
			t[d] = c02TreeValue(r, vs, d) + c02TreeValue(r, vs, d)
		}
	}
	return t
}

func (w *c02World) genPodReq(r *kit.Rand, g *c02Group, vs int) c02Vec {
	var v c02Vec
	for d := 0; d < 2; d++ {
		switch r.Intn(7) {
		case 0:
			v[d] = 0
		case 1:
			v[d] = r.Int63n(g.min[d] + 1)
		case 2:
			v[d] = g.min[d]
		case 3:
			v[d] = g.min[d] + 1
		case 4:
			v[d] = g.min[d] + r.Int63n(c02Max64(1, g.max[d]-g.min[d])+1)
		case 5:
			v[d] = g.max[d] + int64(r.Range(0, 3))
		default:
			v[d] = c02TreeValue(r, vs, d)
		}
	}
	return v
}

// c02Mgr wraps a real manager and the bookkeeping of what has been applied to it.
type c02Mgr struct {
	gqm   *GroupQuotaManager
	total c02Vec
}

func c02NewMgr(w *c02World) *c02Mgr {
	big := c02RL(c02Vec{math.MaxInt64 / 5, math.MaxInt64 / 5})
	m := &c02Mgr{gqm: NewGroupQuotaManager("", w.scale, big, big)}
	// in-domain rule: the cluster total is built from node events, which carry every dimension with a
	// positive amount; a manager therefore never evaluates quotas with a total that lacks a dimension
	// (min-scaling iterates over the keys of the total and would silently skip an absent one).
	m.setTotal(c02Vec{1, 1})
	return m
}

// staleNoLend lists "group/dimension" for every non-lending group whose request held by the parent's
// runtime calculator differs from the group's public limited request min(Request, Max). Diagnosis
// only: it selects the signature of a violation that the output oracle found, it is never a verdict
// by itself.
func (m *c02Mgr) staleNoLend(w *c02World) []string {
	var out []string
	for _, n := range w.order {
		g := w.groups[n]
		if g.lend && !w.gate {
			continue
		}
		s, ok := m.gqm.GetQuotaSummary(n, false)
		calc := m.gqm.runtimeQuotaCalculatorMap[g.parent]
		if !ok || calc == nil {
			continue
		}
		for d := 0; d < 2; d++ {
			qt := calc.quotaTree[c02Dims[d]]
			if qt == nil {
				continue
			}
			if found, node := qt.find(n); found {
				if pub := c02Min64(c02Of(s.Request)[d], g.max[d]); node.request != pub {
					out = append(out, fmt.Sprintf("%s/%s: calculator request %d, public limited request %d", n, c02Dims[d], node.request, pub))
				}
			}
		}
	}
	return out
}

const c02SigStale = "C02/tree/nolend-request-stale-after-min-update"

func (m *c02Mgr) setTotal(t c02Vec) {
	delta := corev1.ResourceList{}
	for d := 0; d < 2; d++ {
		delta[c02Dims[d]] = c02Qty(d, t[d]-m.total[d])
	}
	m.gqm.UpdateClusterTotalResource(delta)
	m.total = t
}

// sweep refreshes every group in the given order and returns the runtimes RefreshRuntime reported.
func (m *c02Mgr) sweep(order []string) map[string]c02Vec {
	out := make(map[string]c02Vec, len(order))
	for _, n := range order {
		out[n] = c02Of(m.gqm.RefreshRuntime(n))
	}
	return out
}

func c02Shuffled(r *kit.Rand, xs []string) []string {
	out := append([]string(nil), xs...)
	kit.Shuffle(r, out)
	return out
}

func c02SetGate(c *kit.Case, on bool) {
	if err := k8sfeature.DefaultFeatureGate.(featuregate.MutableFeatureGate).Set(fmt.Sprintf("%s=%v", features.ElasticQuotaGuaranteeUsage, on)); err != nil {
		c.Harness("feature gate: %v", err)
	}
}

func TestVerifC02Tree(t *testing.T) {
	gate0 := k8sfeature.DefaultFeatureGate.Enabled(features.ElasticQuotaGuaranteeUsage)
	kit.Run(t, kit.Config{Property: "C02", Unit: "tree", Quick: 2500, Thorough: 60000,
		Rule: "quota trees of depth 1-3 (2-5 top groups, 2-4 children per parent, 4-25 groups) created through UpdateQuota, values from a small (0..12, frequent ties/residues), realistic or 2^56-scale pool, shared weights absent (=max) / zero in one dimension / primes / huge, 30% non-lending groups, 0-3 pods per leaf with requests placed around min and max, cluster total placed below/at/above the top-level min and max sums; min-scaling on in 40% of the cases, ElasticQuotaGuaranteeUsage gate on in 15%; 2-4 epochs of changes (cluster total, pod add/delete, min/max/weight updates) each followed by refresh sweeps and the per-level sibling oracle, finally a fresh manager fed the same inputs in another order; distinct = (depth of the level, siblings, outcome class, rounds, residual?, zero-weight competitor?, non-lending?, scaling, gate); non-trivial = some level divided partially (pool shared but not every request met)"},
		func(c *kit.Case) {
			r := c.R
			var st c02Stats
			var scr c02Scratch
			defer st.flush(c)
			w, vs := c02GenWorld(r)
			c02SetGate(c, w.gate)
			defer c02SetGate(c, gate0)
			c.Op("min-scaling=%v guarantee-gate=%v value-scale=%d groups=%d depth=%d", w.scale, w.gate, vs, len(w.order), w.depth)
			m := c02NewMgr(w)
			m.setTotal(w.genTotal(r, vs))
			w.total = m.total
			c.Op("cluster total %v", m.total)
			for _, n := range w.order {
				g := w.groups[n]
				if err := m.gqm.UpdateQuota(g.object()); err != nil {
					c.Harness("UpdateQuota(%s): %v", n, err)
				}
				c.Op("create %s parent=%s isParent=%v lend=%v min=%v max=%v weight=%v(%v)", g.name, g.parent, g.isParent, g.lend, g.min, g.max, g.w, g.hasW)
			}
			leaves := w.leaves()
			podID := 0
			addPod := func() {
				g := w.groups[kit.Pick(r, leaves)]
				p := &c02Pod{name: fmt.Sprintf("p%03d", podID), group: g.name, req: w.genPodReq(r, g, vs), live: true}
				podID++
				if r.Pct(50) {
					p.node = "n1"
				}
				w.pods = append(w.pods, p)
				m.gqm.OnPodAdd(p.group, p.object())
				c.Op("pod add %s -> %s req=%v node=%q", p.name, p.group, p.req, p.node)
				c.Count("op_pod_add", 1)
			}
			for i, np := 0, r.Range(0, 2*len(leaves)); i < np; i++ {
				addPod()
			}
			nontrivial := false
			check := func(where string) {
				all := w.order
				var rt1 map[string]c02Vec
				if w.scale {
					for i := 0; i < w.depth; i++ {
						m.sweep(c02Shuffled(r, all))
					}
				}
				o1 := c02Shuffled(r, all)
				rt1 = m.sweep(o1)
				o2 := c02Shuffled(r, all)
				rt2 := m.sweep(o2)
				c.Count("refresh_sweeps_compared", 1)
				for _, n := range all {
					if rt1[n] != rt2[n] {
						sig := "C02/tree/refresh-not-idempotent"
						if w.scale {
							sig += "-minscale"
						}
						c.Fail(sig, "%s: RefreshRuntime(%s) returned %v in a sweep in order %v and %v in the next sweep in order %v, nothing changed in between", where, n, rt1[n], o1, rt2[n], o2)
					}
				}
				// immediate repetition on one group
				n := kit.Pick(r, all)
				a, b := c02Of(m.gqm.RefreshRuntime(n)), c02Of(m.gqm.RefreshRuntime(n))
				if a != b || a != rt1[n] {
					c.Fail("C02/tree/refresh-not-idempotent", "%s: RefreshRuntime(%s) twice in a row: %v then %v (sweep value %v)", where, n, a, b, rt1[n])
				}
				// per-level oracle
				sums := map[string]*QuotaInfoSummary{}
				for _, n := range all {
					s, ok := m.gqm.GetQuotaSummary(n, false)
					if !ok {
						c.Harness("no summary for %s", n)
					}
					sums[n] = s
					g := w.groups[n]
					if c02Of(s.Max) != g.max || c02Of(s.Min) != g.min || c02Of(s.SharedWeight) != g.effW() {
						c.Count("summary_differs_from_spec", 1)
					}
				}
				parents := []string{extension.RootQuotaName}
				for _, n := range all {
					if len(w.groups[n].children) > 0 {
						parents = append(parents, n)
					}
				}
				for _, p := range parents {
					var kids []string
					total := m.total
					depth := 1
					if p == extension.RootQuotaName {
						for _, n := range all {
							if w.groups[n].depth == 1 {
								kids = append(kids, n)
							}
						}
					} else {
						kids = w.groups[p].children
						total = rt1[p]
						depth = w.groups[p].depth + 1
					}
					for d := 0; d < 2; d++ {
						sibs := make([]c02Sib, len(kids))
						rt := make([]int64, len(kids))
						scaled := false
						for i, k := range kids {
							g, s := w.groups[k], sums[k]
							req := c02Min64(c02Of(s.Request)[d], g.max[d])
							mn := g.min[d]
							if w.scale {
								mn = c02Of(s.AutoScaleMin)[d]
								if mn != g.min[d] {
									scaled = true
								}
							}
							sibs[i] = c02Sib{name: k, req: req, min: mn, guar: c02Of(s.Guaranteed)[d], w: g.effW()[d], lend: g.lend && !w.gate}
							rt[i] = rt1[k][d]
						}
						if scaled {
							c.Count("levels_with_scaled_min", 1)
						}
						sig, msg, o := c02Check("tree", sibs, total[d], rt, false, &st, &scr)
						if sig != "" {
							text := fmt.Sprintf("%s: children of %s, dimension %s, total (parent's runtime) %d: %s runtime=%v: %s", where, p, c02Dims[d], total[d], c02SibsString(sibs), rt, msg)
							// diagnosis: is a sibling of this level affected by the stale request of a non-lending group?
							var hit []string
							for _, line := range m.staleNoLend(w) {
								for _, k := range kids {
									if len(line) > len(k) && line[:len(k)+1] == k+"/" {
										hit = append(hit, line)
									}
								}
							}
							if len(hit) > 0 {
								c.Report(c02SigStale, "%s [relation violated: %s; the parent's runtime calculator divides with a request of a non-lending child that was not refreshed when its min was set: %v]", text, sig, hit)
								c.Count("levels_hit_by_stale_nolend_request", 1)
								continue
							}
							if w.scale {
								sig += "-minscale"
							}
							c.Fail(sig, "%s", text)
						}
						c.Count("levels_checked", 1)
						c.Count(fmt.Sprintf("levels_checked_depth%d", depth), 1)
						if o.class == c02ClassPartial {
							nontrivial = true
							if depth > 1 {
								c.Count("partial_divisions_below_top_level", 1)
							}
						}
						nComp, zeroW, nolend := c02Describe(sibs)
						c.Seen("tree", depth, len(sibs), o.class, c02Min64(int64(o.rounds), 7), o.residual, nComp, zeroW, nolend, w.scale, w.gate)
					}
				}
			}
			check("after creation")
			epochs := r.Range(2, 4)
			for e := 0; e < epochs; e++ {
				nops := r.Range(1, 4)
				for i := 0; i < nops; i++ {
					switch r.Weighted(30, 25, 15, 30) {
					case 0:
						m.setTotal(w.genTotal(r, vs))
						w.total = m.total
						c.Op("cluster total %v", m.total)
						c.Count("op_total_change", 1)
					case 1:
						addPod()
					case 2:
						var live []*c02Pod
						for _, p := range w.pods {
							if p.live {
								live = append(live, p)
							}
						}
						if len(live) == 0 {
							break
						}
						p := kit.Pick(r, live)
						m.gqm.OnPodDelete(p.group, p.object())
						p.live = false
						c.Op("pod delete %s from %s", p.name, p.group)
						c.Count("op_pod_delete", 1)
					default:
						g := w.groups[kit.Pick(r, w.order)]
						switch r.Intn(3) {
						case 0: // min, within [sum of children mins, min(max, parent's min - siblings' mins)]
							for d := 0; d < 2; d++ {
								var lo int64
								for _, k := range g.children {
									lo += w.groups[k].min[d]
								}
								hi := g.max[d]
								if g.parent != extension.RootQuotaName {
									p := w.groups[g.parent]
									room := p.min[d]
									for _, k := range p.children {
										if k != g.name {
											room -= w.groups[k].min[d]
										}
									}
									hi = c02Min64(hi, room)
								}
								if hi >= lo {
									g.min[d] = lo + r.Int63n(hi-lo+1)
									if r.Pct(25) {
										g.min[d] = hi
									}
								}
							}
							c.Count("op_min_change", 1)
						case 1: // max >= min
							for d := 0; d < 2; d++ {
								g.max[d] = g.min[d] + c02TreeValue(r, vs, d)
								if r.Pct(20) {
									g.max[d] = g.min[d]
								}
							}
							c.Count("op_max_change", 1)
						default:
							c02GenWeight(r, g, vs)
							c.Count("op_weight_change", 1)
						}
						if err := m.gqm.UpdateQuota(g.object()); err != nil {
							c.Harness("UpdateQuota(%s): %v", g.name, err)
						}
						c.Op("update %s min=%v max=%v weight=%v(%v)", g.name, g.min, g.max, g.w, g.hasW)
					}
				}
				check(fmt.Sprintf("epoch %d", e))
			}
			// fresh instance fed the final inputs in another order
			final := m.sweep(w.order)
			f := c02NewMgr(w)
			// creation order: parents before children, siblings shuffled
			var forder []string
			var walk func(parent string, d int)
			walk = func(parent string, d int) {
				var kids []string
				for _, n := range w.order {
					if w.groups[n].parent == parent {
						kids = append(kids, n)
					}
				}
				kit.Shuffle(r, kids)
				forder = append(forder, kids...)
				for _, k := range kids {
					walk(k, d+1)
				}
			}
			walk(extension.RootQuotaName, 1)
			totalFirst := r.Bool()
			if totalFirst {
				f.setTotal(w.total)
			}
			for _, n := range forder {
				if err := f.gqm.UpdateQuota(w.groups[n].object()); err != nil {
					c.Harness("fresh UpdateQuota(%s): %v", n, err)
				}
			}
			pods := append([]*c02Pod(nil), w.pods...)
			kit.Shuffle(r, pods)
			for _, p := range pods {
				if p.live {
					f.gqm.OnPodAdd(p.group, p.object())
				}
			}
			if !totalFirst {
				f.setTotal(w.total)
			}
			if w.scale {
				for i := 0; i < w.depth; i++ {
					f.sweep(c02Shuffled(r, forder))
				}
			}
			fresh := f.sweep(c02Shuffled(r, forder))
			c.Count("fresh_instance_comparisons", 1)
			for _, n := range w.order {
				if fresh[n] != final[n] {
					sig := "C02/tree/fresh-instance-differs"
					if w.scale {
						sig += "-minscale"
					}
					text := fmt.Sprintf("group %s: the manager that lived through the history reports runtime %v, a fresh manager fed the same quotas (order %v), pods and cluster total %v reports %v", n, final[n], forder, w.total, fresh[n])
					if a, b := m.staleNoLend(w), f.staleNoLend(w); len(a)+len(b) > 0 {
						c.Report(c02SigStale, "%s [history dependence; stale requests of non-lending groups in the parent's calculator: lived %v, fresh %v]", text, a, b)
						c.Count("fresh_instance_hit_by_stale_nolend_request", 1)
						break
					}
					c.Fail(sig, "%s", text)
				}
			}
			if nontrivial {
				c.NonTrivial()
			}
			if w.scale {
				c.Count("cases_minscale_on", 1)
			} else {
				c.Count("cases_minscale_off", 1)
			}
			if w.gate {
				c.Count("cases_guarantee_gate_on", 1)
			}
			if c.K < 2 {
				ops := c.Ops()
				if len(ops) > 14 {
					ops = ops[:14]
				}
				c.Sample(ops)
			}
		})
}
