//go:build verif

package core

// C02 monitors: runtime quota sharing among sibling quotas.
//
//   (a) small-exhaustive  the real quotaTree.redistribution on every sibling set of a small scope
//   (b) sampled           2-12 siblings, values up to 2^62, hostile weights, totals around every boundary
//   (c) tree              (c02_tree_test.go) RefreshRuntime on multi-level trees through GroupQuotaManager
//
// What the statement gives, per sibling i with m_i = max(min_i, guarantee_i) ("guaranteed minimum"):
//
//   bounds            min(req_i, m_i) <= rt_i <= max(req_i, m_i)
//   sum               if the minimum-phase amounts fit in the total, sum(rt) <= total
//   work conservation if they fit: every sibling with positive weight and req_i > m_i has rt_i = req_i,
//                     or sum(rt) == total exactly (no unit created or dropped)
//   zero weight       a sibling with shared weight 0 takes no part in the sharing: rt_i <= m_i
//   fairness          what a sibling gets above m_i is proportional to its weight as long as it is
//                     unsatisfied; a sibling that got satisfied received no more per weight than one that
//                     is still unsatisfied (both up to integer rounding, one unit per weight per round)
//   purity            same inputs => same outputs, whatever the insertion order / map iteration order /
//                     what the tree computed before
//
// What the statement does NOT fix and is therefore only counted:
//   * what a non-lending sibling whose request is below m_i gets (the code gives m_i; anything in
//     [req_i, m_i] satisfies the statement) -> counters nolend_below_min_gets_min / _gets_other. The
//     "minimum-phase amount" used in the *precondition* "the minimums fit" is the largest plausible one
//     (m_i for a non-lending sibling), i.e. the weakest assertion.
//   * what happens when the minimum-phase amounts do not fit (only the bounds are asserted there).
//
// NOT asserted: who receives an indivisible leftover unit among equally entitled siblings, and the
// apportionment method as such (largest remainder or any other). The statement only demands that no
// unit is created or dropped, proportionality, purity and order independence; every algorithm with
// these properties must pass. An independent round-based water-filling reference in math/big
// (largest remainder first, ties by quota name: the rule the code documents today) is still computed
// for every division, but only for the evidence (number of rounds, residue redistributed) and for the
// counter converse_misses_reference_tiebreak_or_method_differs; it is never a verdict. The reference
// takes the minimum-phase amounts of the non-competing siblings from the observed output, so it does
// not encode the non-lending rule either.
//
// Soundness of the fairness slack: in a round every participant is offered its exact share w*T/W
// rounded down or up (error < 1 unit), so for two siblings that took part in the same rounds
// |x_i*w_j - x_j*w_i| grows by at most w_i+w_j per round; a sharing round that is followed by another
// one saturates at least one participant, so there are at most k rounds for k competing siblings. A
// sibling that got satisfied stopped receiving, so it holds no more per weight than one that was
// offered a share in every round (one-sided, same slack). All products are exact (128-bit; the sampled
// unit cross-checks them against math/big).
//
// In-domain rules of the generators: all quantities >= 0; names unique; sum over siblings of
// max(request,min,guarantee) and sum of weights fit in int64 (real clusters are far below); total in
// [0, MaxInt64].

import (
	"fmt"
	"math"
	"math/big"
	"math/bits"
	"sort"
	"strings"
	"testing"

	"k8s.io/klog/v2"

	kit "github.com/koordinator-sh/koordinator/pkg/verifkit"
)

func init() {
	klog.SetOutput(c02Discard{})
	klog.LogToStderr(false)
}

type c02Discard struct{}

func (c02Discard) Write(p []byte) (int, error) { return len(p), nil }

// ---------------------------------------------------------------------------------------------
// sibling model

type c02Sib struct {
	name              string
	req, min, guar, w int64
	lend              bool
}

func (s *c02Sib) m() int64 {
	if s.guar > s.min {
		return s.guar
	}
	return s.min
}

// competes: after the minimum phase the sibling is still unsatisfied
func (s *c02Sib) competes() bool { return s.req > s.m() }

// floor is the minimum-phase amount used in the precondition "the minimums fit".
func (s *c02Sib) floor() int64 {
	m := s.m()
	if s.req > m {
		return m
	}
	if s.lend {
		return s.req
	}
	return m
}

func (s c02Sib) String() string {
	l := "lend"
	if !s.lend {
		l = "nolend"
	}
	return fmt.Sprintf("%s{req=%d min=%d guar=%d w=%d %s}", s.name, s.req, s.min, s.guar, s.w, l)
}

func c02SibsString(sibs []c02Sib) string {
	p := make([]string, len(sibs))
	for i := range sibs {
		p[i] = sibs[i].String()
	}
	return strings.Join(p, " ")
}

func c02Min64(a, b int64) int64 {
	if a < b {
		return a
	}
	return b
}

func c02Max64(a, b int64) int64 {
	if a > b {
		return a
	}
	return b
}

// c02Build inserts the siblings in the given order into a fresh real quotaTree.
func c02Build(sibs []c02Sib, order []int) *quotaTree {
	qt := NewQuotaTree()
	for _, i := range order {
		s := &sibs[i]
		qt.insert(s.name, s.w, s.req, s.min, s.guar, s.lend)
	}
	return qt
}

// c02Read copies the runtime quotas out of the tree (index = position in sibs).
func c02Read(qt *quotaTree, sibs []c02Sib, out []int64) bool {
	for i := range sibs {
		ok, n := qt.find(sibs[i].name)
		if !ok {
			return false
		}
		out[i] = n.runtimeQuota
	}
	return true
}

// ---------------------------------------------------------------------------------------------
// evidence accumulated locally (the kit's counters take a lock) and flushed once per case

type c02Stats struct {
	evals, belowFloor, belowFloorIsFloor, exactFloor, partial, saturated  int
	refCompared, refMultiRound, residualRounds, residualUnits, refDiffers int
	pairUnsat, pairSatUnsat, zeroWeightCompetitor, zeroWeightAll          int
	nolendMin, nolendOther, guarOverMin, sumChecksMinFit, sumChecksPhase1 int
	conservationExact, conservationSaturated, detCompares                 int
	classes                                                               map[uint32]struct{}
}

func (st *c02Stats) flush(c *kit.Case) {
	put := func(name string, v int) {
		if v != 0 {
			c.Count(name, v)
		}
	}
	put("inputs_below_floor", st.belowFloor)
	put("inputs_below_floor_rt_is_floor", st.belowFloorIsFloor)
	put("inputs_total_equals_floor", st.exactFloor)
	put("inputs_partial", st.partial)
	put("inputs_saturated", st.saturated)
	put("reference_comparisons", st.refCompared)
	put("converse_misses_reference_tiebreak_or_method_differs", st.refDiffers)
	put("reference_multi_round", st.refMultiRound)
	put("residual_rounds", st.residualRounds)
	put("residual_units_redistributed", st.residualUnits)
	put("fairness_pairs_both_unsatisfied", st.pairUnsat)
	put("fairness_pairs_satisfied_vs_unsatisfied", st.pairSatUnsat)
	put("zero_weight_competitors", st.zeroWeightCompetitor)
	put("inputs_all_competitors_zero_weight", st.zeroWeightAll)
	put("nolend_below_min_gets_min", st.nolendMin)
	put("nolend_below_min_gets_other", st.nolendOther)
	put("siblings_guarantee_over_min", st.guarOverMin)
	put("sum_checks_min_fit", st.sumChecksMinFit)
	put("sum_checks_phase1_fit_only", st.sumChecksPhase1)
	put("conservation_sum_equals_total", st.conservationExact)
	put("conservation_all_satisfied", st.conservationSaturated)
	put("determinism_comparisons", st.detCompares)
	for k := range st.classes {
		c.Seen("class", k)
	}
}

const (
	c02ClassBelow = iota
	c02ClassExact
	c02ClassPartial
	c02ClassSaturated
)

type c02Outcome struct {
	class      int
	rounds     int
	residual   bool
	refDiffers bool
}

// c02Exceeds reports a*wb - b*wa > k*(wa+wb) for non-negative operands, exactly (128 bit).
func c02Exceeds(a, wb, b, wa int64, k int) bool {
	h1, l1 := bits.Mul64(uint64(a), uint64(wb))
	h2, l2 := bits.Mul64(uint64(b), uint64(wa))
	lo, br := bits.Sub64(l1, l2, 0)
	hi, br2 := bits.Sub64(h1, h2, br)
	if br2 != 0 {
		return false // negative
	}
	sh, sl := bits.Mul64(uint64(wa)+uint64(wb), uint64(k))
	return hi > sh || (hi == sh && lo > sl)
}

// c02ExceedsBig is c02Exceeds in math/big (harness self-check of the 128-bit arithmetic).
func c02ExceedsBig(a, wb, b, wa int64, k int) bool {
	l := new(big.Int).Mul(big.NewInt(a), big.NewInt(wb))
	l.Sub(l, new(big.Int).Mul(big.NewInt(b), big.NewInt(wa)))
	r := new(big.Int).Add(big.NewInt(wa), big.NewInt(wb))
	r.Mul(r, big.NewInt(int64(k)))
	return l.Cmp(r) > 0
}

// ---------------------------------------------------------------------------------------------
// reference: round-based water filling with largest-remainder rounding, ties by name.
// base[i] is what sibling i holds after the minimum phase; only siblings with positive weight and
// request above base take part. Two implementations (math/big for any magnitude, int64 for the small
// scopes where every product fits); the sampled unit cross-checks them against each other.

type c02RefInfo struct {
	rounds        int
	residualUnits int64
	residualRnds  int
}

func c02RefBig(sibs []c02Sib, base []int64, total int64, out []int64) c02RefInfo {
	var info c02RefInfo
	pool := big.NewInt(total)
	rt := make([]*big.Int, len(sibs))
	var active []int
	for i := range sibs {
		rt[i] = big.NewInt(base[i])
		pool.Sub(pool, rt[i])
		if sibs[i].w > 0 && sibs[i].req > base[i] && sibs[i].competes() {
			active = append(active, i)
		}
	}
	type share struct {
		i    int
		q, r *big.Int
	}
	for pool.Sign() > 0 && len(active) > 0 {
		info.rounds++
		W := new(big.Int)
		for _, i := range active {
			W.Add(W, big.NewInt(sibs[i].w))
		}
		shares := make([]share, 0, len(active))
		left := new(big.Int).Set(pool)
		for _, i := range active {
			p := new(big.Int).Mul(big.NewInt(sibs[i].w), pool)
			q, r := new(big.Int).QuoRem(p, W, new(big.Int))
			shares = append(shares, share{i, q, r})
			left.Sub(left, q)
		}
		if left.Sign() > 0 {
			info.residualRnds++
			info.residualUnits += left.Int64()
			sort.Slice(shares, func(a, b int) bool {
				if c := shares[a].r.Cmp(shares[b].r); c != 0 {
					return c > 0
				}
				return sibs[shares[a].i].name < sibs[shares[b].i].name
			})
			for k := 0; int64(k) < left.Int64(); k++ {
				shares[k].q.Add(shares[k].q, big.NewInt(1))
			}
		}
		pool = new(big.Int)
		var next []int
		for _, sh := range shares {
			rt[sh.i].Add(rt[sh.i], sh.q)
			req := big.NewInt(sibs[sh.i].req)
			if rt[sh.i].Cmp(req) >= 0 {
				pool.Add(pool, new(big.Int).Sub(rt[sh.i], req))
				rt[sh.i].Set(req)
			} else {
				next = append(next, sh.i)
			}
		}
		sort.Ints(next)
		active = next
	}
	for i := range rt {
		out[i] = rt[i].Int64()
	}
	return info
}

type c02Share64 struct {
	i    int
	q, r int64
}

type c02Scratch struct {
	base, want, want2 []int64
	active, next      []int
	shares            []c02Share64
	comp              []int
}

func (s *c02Scratch) size(n int) {
	if cap(s.base) < n {
		s.base = make([]int64, n)
		s.want = make([]int64, n)
		s.want2 = make([]int64, n)
	}
	s.base, s.want, s.want2 = s.base[:n], s.want[:n], s.want2[:n]
}

// c02Ref64 is the same reference in plain int64; valid when weight*pool < 2^63.
func c02Ref64(sibs []c02Sib, base []int64, total int64, out []int64, scr *c02Scratch) c02RefInfo {
	var info c02RefInfo
	pool := total
	active := scr.active[:0]
	for i := range sibs {
		out[i] = base[i]
		pool -= base[i]
		if sibs[i].w > 0 && sibs[i].req > base[i] && sibs[i].competes() {
			active = append(active, i)
		}
	}
	next := scr.next[:0]
	for pool > 0 && len(active) > 0 {
		info.rounds++
		var W int64
		for _, i := range active {
			W += sibs[i].w
		}
		shares := scr.shares[:0]
		left := pool
		for _, i := range active {
			p := sibs[i].w * pool
			shares = append(shares, c02Share64{i, p / W, p % W})
			left -= p / W
		}
		if left > 0 {
			info.residualRnds++
			info.residualUnits += left
			// insertion sort (tiny slices): remainder descending, then name ascending
			for a := 1; a < len(shares); a++ {
				for b := a; b > 0; b-- {
					x, y := &shares[b-1], &shares[b]
					if y.r > x.r || (y.r == x.r && sibs[y.i].name < sibs[x.i].name) {
						*x, *y = *y, *x
					} else {
						break
					}
				}
			}
			for k := int64(0); k < left; k++ {
				shares[k].q++
			}
		}
		pool = 0
		next = next[:0]
		for _, sh := range shares {
			out[sh.i] += sh.q
			if out[sh.i] >= sibs[sh.i].req {
				pool += out[sh.i] - sibs[sh.i].req
				out[sh.i] = sibs[sh.i].req
			} else {
				next = append(next, sh.i)
			}
		}
		sort.Ints(next)
		active, next = append(active[:0], next...), next
		scr.shares = shares
	}
	scr.active, scr.next = active, next
	return info
}

// ---------------------------------------------------------------------------------------------
// the oracle for one division

// c02Check applies every assertion the statement gives to one observed division. It returns a
// non-empty signature on violation. area is "redistribution" or "tree". small selects the int64
// reference (caller guarantees every weight*total product fits).
func c02Check(area string, sibs []c02Sib, total int64, rt []int64, small bool, st *c02Stats, scr *c02Scratch) (sig, msg string, out c02Outcome) {
	n := len(sibs)
	scr.size(n)
	st.evals++
	var sumRt, sumFloor, sumM uint64
	allFloor := true
	for i := range sibs {
		s := &sibs[i]
		m := s.m()
		lo, hi := c02Min64(s.req, m), c02Max64(s.req, m)
		if rt[i] < lo {
			return "C02/" + area + "/below-guaranteed-minimum", fmt.Sprintf("%s gets %d, less than min(request %d, guaranteed minimum %d)", s.name, rt[i], s.req, m), out
		}
		if rt[i] > hi {
			return "C02/" + area + "/above-request-and-minimum", fmt.Sprintf("%s gets %d, more than max(request %d, guaranteed minimum %d)", s.name, rt[i], s.req, m), out
		}
		if s.w == 0 && rt[i] > m {
			return "C02/" + area + "/zero-weight-shares", fmt.Sprintf("%s has shared weight 0 but gets %d, above its guaranteed minimum %d", s.name, rt[i], m), out
		}
		f := s.floor()
		if rt[i] != f {
			allFloor = false
		}
		if !s.lend && s.req < m {
			if rt[i] == m {
				st.nolendMin++
			} else {
				st.nolendOther++
			}
		}
		if s.guar > s.min {
			st.guarOverMin++
		}
		sumRt += uint64(rt[i])
		sumFloor += uint64(f)
		sumM += uint64(m)
	}
	if sumFloor > uint64(total) {
		// the minimum-phase amounts do not fit: the statement only gives the bounds (checked above)
		st.belowFloor++
		if allFloor {
			st.belowFloorIsFloor++
		}
		out.class = c02ClassBelow
		return "", "", out
	}
	if sumRt > uint64(total) {
		if sumM <= uint64(total) {
			return "C02/" + area + "/sum-over-total", fmt.Sprintf("siblings get %d in total, the parent has %d (sum of guaranteed minimums %d fits)", sumRt, total, sumM), out
		}
		return "C02/" + area + "/sum-over-total-phase1", fmt.Sprintf("siblings get %d in total, the parent has %d (minimum-phase amounts %d fit, sum of guaranteed minimums %d does not)", sumRt, total, sumFloor, sumM), out
	}
	if sumM <= uint64(total) {
		st.sumChecksMinFit++
	} else {
		st.sumChecksPhase1++
	}
	// work conservation
	comp := scr.comp[:0]
	allSat := true
	zeroW := 0
	nCompAny := 0
	for i := range sibs {
		s := &sibs[i]
		if !s.competes() {
			continue
		}
		nCompAny++
		if s.w == 0 {
			zeroW++
			continue
		}
		comp = append(comp, i)
		if rt[i] != s.req {
			allSat = false
		}
	}
	scr.comp = comp
	st.zeroWeightCompetitor += zeroW
	if nCompAny > 0 && len(comp) == 0 {
		st.zeroWeightAll++
	}
	if !allSat && sumRt != uint64(total) {
		return "C02/" + area + "/units-dropped", fmt.Sprintf("siblings get %d in total although the parent has %d and a sibling with positive weight is still below its request", sumRt, total), out
	}
	if allSat {
		st.conservationSaturated++
	} else {
		st.conservationExact++
	}
	switch {
	case sumFloor == uint64(total):
		out.class = c02ClassExact
		st.exactFloor++
	case allSat:
		out.class = c02ClassSaturated
		st.saturated++
	default:
		out.class = c02ClassPartial
		st.partial++
	}
	// proportional fairness among the competing siblings (independent of the reference)
	k := len(comp)
	for a := 0; a < k; a++ {
		i := comp[a]
		gi := rt[i] - sibs[i].m()
		satI := rt[i] == sibs[i].req
		for b := a + 1; b < k; b++ {
			j := comp[b]
			gj := rt[j] - sibs[j].m()
			satJ := rt[j] == sibs[j].req
			switch {
			case !satI && !satJ:
				st.pairUnsat++
				if c02Exceeds(gi, sibs[j].w, gj, sibs[i].w, k) || c02Exceeds(gj, sibs[i].w, gi, sibs[j].w, k) {
					return "C02/" + area + "/unfair-unsatisfied-pair", fmt.Sprintf("%s (weight %d) gained %d and %s (weight %d) gained %d above their minimums, both still below their requests: not proportional within %d rounding units per weight", sibs[i].name, sibs[i].w, gi, sibs[j].name, sibs[j].w, gj, k), out
				}
			case satI && !satJ:
				st.pairSatUnsat++
				if c02Exceeds(gi, sibs[j].w, gj, sibs[i].w, k) {
					return "C02/" + area + "/unfair-satisfied-over-unsatisfied", fmt.Sprintf("%s (weight %d) was satisfied with a gain of %d while %s (weight %d) gained only %d and is still below its request", sibs[i].name, sibs[i].w, gi, sibs[j].name, sibs[j].w, gj), out
				}
			case !satI && satJ:
				st.pairSatUnsat++
				if c02Exceeds(gj, sibs[i].w, gi, sibs[j].w, k) {
					return "C02/" + area + "/unfair-satisfied-over-unsatisfied", fmt.Sprintf("%s (weight %d) was satisfied with a gain of %d while %s (weight %d) gained only %d and is still below its request", sibs[j].name, sibs[j].w, gj, sibs[i].name, sibs[i].w, gi), out
				}
			}
		}
	}
	// reference (evidence and counter only, never a verdict). Non-competing siblings keep what was observed.
	for i := range sibs {
		if sibs[i].competes() {
			scr.base[i] = sibs[i].m()
		} else {
			scr.base[i] = rt[i]
		}
	}
	var info c02RefInfo
	if small {
		info = c02Ref64(sibs, scr.base, total, scr.want, scr)
	} else {
		info = c02RefBig(sibs, scr.base, total, scr.want)
	}
	st.refCompared++
	if info.rounds > 1 {
		st.refMultiRound++
	}
	st.residualRounds += info.residualRnds
	st.residualUnits += int(c02Min64(info.residualUnits, 1<<30))
	out.rounds, out.residual = info.rounds, info.residualRnds > 0
	for i := range sibs {
		if scr.want[i] != rt[i] {
			// another tie-break or apportionment method than the reference's: not fixed by the statement
			st.refDiffers++
			out.refDiffers = true
			break
		}
	}
	return "", "", out
}

func (st *c02Stats) seen(n int, o c02Outcome, nComp int, zeroW, nolend bool) {
	if st.classes == nil {
		st.classes = map[uint32]struct{}{}
	}
	r := o.rounds
	if r > 7 {
		r = 7
	}
	k := uint32(n) | uint32(o.class)<<4 | uint32(r)<<6 | uint32(nComp&15)<<9
	if o.residual {
		k |= 1 << 13
	}
	if zeroW {
		k |= 1 << 14
	}
	if nolend {
		k |= 1 << 15
	}
	st.classes[k] = struct{}{}
}

func c02Describe(sibs []c02Sib) (nComp int, zeroW, nolend bool) {
	for i := range sibs {
		if sibs[i].competes() {
			nComp++
			if sibs[i].w == 0 {
				zeroW = true
			}
		}
		if !sibs[i].lend {
			nolend = true
		}
	}
	return
}

// ---------------------------------------------------------------------------------------------
// (a) exhaustive small scope on the real quotaTree.redistribution

var c02Vals = []int64{0, 1, 2, 3, 5}

const (
	c02PerSib   = 5 * 5 * 5 * 3 * 2 // request x min x guarantee x weight x lend
	c02MaxTotal = 12
)

func c02SibOf(s int, name string) c02Sib {
	return c02Sib{name: name, req: c02Vals[s%5], min: c02Vals[s/5%5], guar: c02Vals[s/25%5], w: int64(s / 125 % 3), lend: s/375 == 0}
}

// c02QuickSub is the per-sibling sub-space used for the 3-sibling part in the quick tier:
// request in {0,1,2,3,5}, min in {0,2,5}, guarantee in {0,3}, weight in {0,1,2}, both lend flags
// (180 descriptors per sibling; guarantee below, between and above the mins).
func c02QuickSub() []int {
	var out []int
	for s := 0; s < c02PerSib; s++ {
		x := c02SibOf(s, "")
		if (x.min == 0 || x.min == 2 || x.min == 5) && (x.guar == 0 || x.guar == 3) {
			out = append(out, s)
		}
	}
	return out
}

var c02Names3 = []string{"a", "b", "c"}

func TestVerifC02SmallExhaustive(t *testing.T) {
	thorough := kit.Tier() == "thorough"
	sub := c02QuickSub()
	third := sub
	if thorough {
		third = make([]int, c02PerSib)
		for i := range third {
			third[i] = i
		}
	}
	nThird := len(third)
	space := 1 + c02PerSib + nThird*nThird
	rule := "1-2 siblings: every (request,min,guarantee in {0,1,2,3,5}) x weight {0,1,2} x lend flag per sibling x total 0..12, complete; 3 siblings: "
	if thorough {
		rule += "the same complete space (750^3 sibling tuples x 13 totals)"
	} else {
		rule += "the documented sub-space min in {0,2,5}, guarantee in {0,3} per sibling (180^3 tuples x 13 totals); the complete 3-sibling space is the thorough tier"
	}
	rule += ". Executed on the real quotaTree.redistribution, every input on two trees built in opposite insertion order and re-used across totals; one kit case = one chunk (all last siblings x all totals for a fixed prefix); distinct = (siblings, outcome class below/at/partial/saturated, rounds, competitors, residual?, zero-weight competitor?, non-lending?); non-trivial = chunk containing a partial division"
	kit.Run(t, kit.Config{Property: "C02", Unit: "small-exhaustive", Quick: space, Thorough: space, Exhaustive: thorough, Rule: rule},
		func(c *kit.Case) {
			var st c02Stats
			var scr c02Scratch
			defer st.flush(c)
			k := c.K
			var prefix []int
			last := third
			switch {
			case k == 0:
				last = nil // 1 sibling: loop over all 750 below
			case k <= c02PerSib:
				prefix = []int{k - 1}
				last = nil
			default:
				k -= 1 + c02PerSib
				prefix = []int{third[k/nThird], third[k%nThird]}
			}
			if last == nil {
				last = make([]int, c02PerSib)
				for i := range last {
					last[i] = i
				}
			}
			n := len(prefix) + 1
			c.Op("chunk: %d siblings, prefix descriptors %v, last sibling over %d descriptors, totals 0..%d", n, prefix, len(last), c02MaxTotal)
			sibs := make([]c02Sib, n)
			for i, s := range prefix {
				sibs[i] = c02SibOf(s, c02Names3[i])
			}
			fwd, rev := make([]int, n), make([]int, n)
			for i := 0; i < n; i++ {
				fwd[i], rev[i] = i, n-1-i
			}
			rtA, rtB := make([]int64, n), make([]int64, n)
			evals := 0
			partial := false
			for _, s := range last {
				sibs[n-1] = c02SibOf(s, c02Names3[n-1])
				a, b := c02Build(sibs, fwd), c02Build(sibs, rev)
				nComp, zeroW, nolend := c02Describe(sibs)
				for total := int64(0); total <= c02MaxTotal; total++ {
					a.redistribution(total)
					b.redistribution(total)
					if !c02Read(a, sibs, rtA) || !c02Read(b, sibs, rtB) {
						c.Harness("sibling lost from the tree")
					}
					evals++
					st.detCompares++
					for i := range rtA {
						if rtA[i] != rtB[i] {
							c.Fail("C02/redistribution/order-dependent", "siblings %s total=%d: inserted a..c gives %v, inserted in reverse gives %v", c02SibsString(sibs), total, rtA, rtB)
						}
					}
					sig, msg, o := c02Check("redistribution", sibs, total, rtA, true, &st, &scr)
					if sig != "" {
						c.Fail(sig, "siblings %s total=%d runtime=%v: %s", c02SibsString(sibs), total, rtA, msg)
					}
					if o.class == c02ClassPartial {
						partial = true
					}
					st.seen(n, o, nComp, zeroW, nolend)
				}
			}
			c.Evals(evals - 1)
			if partial {
				c.NonTrivial()
			}
			if c.K == 1+17 || c.K == 1+c02PerSib+5 {
				c.Sample(map[string]any{"siblings": n, "prefix": c02SibsString(sibs[:n-1]), "last_sibling": "all descriptors of the tier", "totals": "0..12"})
			}
		})
}

// ---------------------------------------------------------------------------------------------
// (b) sampled large scope

var c02Primes = []int64{2, 3, 5, 7, 11, 13, 17, 19, 23, 29, 31, 37, 97, 101, 65537, 2147483647}

func c02GenValue(r *kit.Rand, scale int) int64 {
	switch scale {
	case 0: // tiny
		return int64(r.Range(0, 20))
	case 1: // milli-CPU
		switch r.Intn(6) {
		case 0:
			return 0
		case 1:
			return kit.Pick(r, []int64{1, 999, 1000, 1001})
		case 2:
			return int64(r.Range(0, 64)) * 1000
		case 3:
			return int64(r.Range(0, 64000))
		default:
			return int64(r.Range(0, 2000000))
		}
	case 2: // memory bytes
		switch r.Intn(6) {
		case 0:
			return 0
		case 1:
			return 1
		case 2:
			return int64(1) << uint(r.Range(20, 45))
		case 3:
			return int64(1)<<uint(r.Range(20, 45)) + int64(r.Range(-1, 1))
		case 4:
			return int64(r.Range(1, 512)) << 30
		default:
			return r.Int63n(1 << 45)
		}
	default: // 64-bit scale
		switch r.Intn(7) {
		case 0:
			return int64(1) << uint(r.Range(50, 62))
		case 1:
			return int64(1)<<uint(r.Range(50, 62)) - 1
		case 2:
			return 1 << 62
		case 3:
			return (1 << 53) + int64(r.Range(-1, 1))
		case 4:
			return 0
		default:
			return r.Int63n(1 << 62)
		}
	}
}

// c02GenSiblings draws one sibling set within the in-domain rules.
func c02GenSiblings(r *kit.Rand) (sibs []c02Sib, scale, wclass int) {
	n := r.Range(2, 12)
	scale = r.Weighted(30, 25, 25, 20)
	wclass = r.Weighted(20, 20, 15, 20, 25) // equal, primes, huge, like-max, mixed
	names := r.Perm(40)
	budget := int64(math.MaxInt64)
	wBudget := int64(math.MaxInt64)
	eqW := kit.Pick(r, []int64{1, 1, 7, 1000, 1 << 40, math.MaxInt64 / 16})
	allZero := r.Pct(4)
	sibs = make([]c02Sib, n)
	for i := range sibs {
		s := &sibs[i]
		sc := scale
		if r.Pct(5) {
			sc = r.Intn(4)
		}
		if r.Pct(50) {
			s.name = fmt.Sprintf("q%02d", names[i])
		} else {
			s.name = kit.Pick(r, []string{"a", "A", "team-", "z.", "q"}) + fmt.Sprint(names[i])
		}
		s.lend = r.Pct(75)
		s.min = c02GenValue(r, sc)
		if r.Pct(30) {
			switch r.Intn(4) {
			case 0:
				s.guar = s.min - 1
			case 1:
				s.guar = s.min
			case 2:
				s.guar = s.min + 1
			default:
				s.guar = c02GenValue(r, sc)
			}
		}
		if s.guar < 0 {
			s.guar = 0
		}
		m := s.m()
		switch r.Intn(8) {
		case 0:
			s.req = 0
		case 1:
			s.req = m - 1
		case 2:
			s.req = m
		case 3:
			s.req = m + 1
		case 4:
			s.req = m + int64(r.Range(1, 12))
		case 5:
			s.req = c02GenValue(r, sc)
		default:
			v := c02GenValue(r, sc)
			if v > math.MaxInt64-m {
				v = math.MaxInt64 - m
			}
			s.req = m + v
		}
		if s.req < 0 {
			s.req = 0
		}
		// in-domain: sum over siblings of max(req,min,guar) fits in int64
		top := c02Max64(s.req, m)
		if top > budget {
			s.req, s.min, s.guar = c02Min64(s.req, budget), c02Min64(s.min, budget), c02Min64(s.guar, budget)
			top = c02Max64(s.req, s.m())
		}
		budget -= top
		wc := wclass
		if wc == 4 {
			wc = r.Intn(4)
		}
		switch wc {
		case 0:
			s.w = eqW
		case 1:
			s.w = kit.Pick(r, c02Primes)
		case 2:
			s.w = r.Int63n(math.MaxInt64/int64(n)) | 1
		default:
			s.w = c02Max64(s.req, s.m()) // the default shared weight is the quota's max, which is >= min
			if r.Pct(30) {
				s.w = c02Max64(1, s.w/1000)
			}
		}
		if allZero || r.Pct(12) {
			s.w = 0
		}
		if s.w > wBudget {
			s.w = wBudget
		}
		wBudget -= s.w
	}
	return
}

func c02Totals(r *kit.Rand, sibs []c02Sib, k int) ([]int64, []int) {
	var sumFloor, demand, sumM uint64
	for i := range sibs {
		s := &sibs[i]
		f := uint64(s.floor())
		sumFloor += f
		sumM += uint64(s.m())
		if s.competes() && s.w > 0 {
			demand += uint64(s.req)
		} else {
			demand += f
		}
	}
	clamp := func(v uint64) int64 {
		if v > math.MaxInt64 {
			return math.MaxInt64
		}
		return int64(v)
	}
	between := func(lo, hi uint64) int64 { // random in [lo,hi]
		if hi <= lo {
			return clamp(lo)
		}
		return clamp(lo + r.Uint64()%(hi-lo+1))
	}
	var out []int64
	var cls []int
	for len(out) < k {
		cl := r.Intn(13)
		var v int64
		switch cl {
		case 0:
			v = 0
		case 1:
			v = between(0, sumFloor)
		case 2:
			v = clamp(sumFloor) - 1
		case 3:
			v = clamp(sumFloor)
		case 4:
			v = clamp(sumFloor + 1)
		case 5:
			v = between(sumFloor, demand)
		case 6:
			v = clamp(demand) - 1
		case 7:
			v = clamp(demand)
		case 8:
			v = clamp(demand + 1)
		case 9:
			v = between(demand, math.MaxInt64)
		case 10:
			v = clamp(sumFloor + uint64(r.Range(1, 3*len(sibs))))
		case 11:
			v = clamp(sumM)
		default:
			v = math.MaxInt64
		}
		if v < 0 {
			v = 0
		}
		out = append(out, v)
		cls = append(cls, cl)
	}
	return out, cls
}

func TestVerifC02Sampled(t *testing.T) {
	kit.Run(t, kit.Config{Property: "C02", Unit: "sampled", Quick: 20000, Thorough: 400000,
		Rule: "2-12 siblings with unique names; request/min/guarantee from a tiny, milli-CPU, memory-byte or 64-bit-scale (up to 2^62) pool with request placed at 0, m-1, m, m+1, m+small, far above; weights all equal / small and large primes / huge odd / like the quota max / mixed, 12% zero, 4% all zero; 75% lending; sums kept within int64 (in-domain rule); 5 totals per sibling set drawn from: 0, below / one under / at / one over the minimum-phase sum, between, one under / at / one over the total demand, far above, MaxInt64, sum of minimums, a few units over the minimum-phase sum. Every (set,total) is executed on 6 real quotaTrees built in different insertion orders, 3 passes each interleaved with the other totals, all 18 outputs must be identical; then the relations (the math/big reference only feeds counters). distinct = (siblings, outcome class, rounds, competitors, residual?, zero-weight competitor?, non-lending?, value scale, weight class, total class); non-trivial = a partial division with at least 2 rounds or a redistributed rounding residue"},
		func(c *kit.Case) {
			r := c.R
			var st c02Stats
			var scr c02Scratch
			defer st.flush(c)
			sibs, scale, wclass := c02GenSiblings(r)
			n := len(sibs)
			totals, tcls := c02Totals(r, sibs, 5)
			c.Op("siblings: %s", c02SibsString(sibs))
			c.Op("totals: %v", totals)
			const nTrees = 6
			trees := make([]*quotaTree, nTrees)
			for k := range trees {
				order := r.Perm(n)
				if k == 0 {
					for i := range order {
						order[i] = i
					}
				}
				trees[k] = c02Build(sibs, order)
			}
			first := make([][]int64, len(totals))
			got := make([]int64, n)
			for pass := 0; pass < 3; pass++ {
				for ti, total := range totals {
					for k, qt := range trees {
						qt.redistribution(total)
						if !c02Read(qt, sibs, got) {
							c.Harness("sibling lost from the tree")
						}
						if first[ti] == nil {
							first[ti] = append([]int64(nil), got...)
							continue
						}
						st.detCompares++
						for i := range got {
							if got[i] != first[ti][i] {
								c.Fail("C02/redistribution/order-dependent", "total=%d: first evaluation gave %v, tree #%d (other insertion order) pass %d gives %v", total, first[ti], k, pass, got)
							}
						}
					}
				}
			}
			// the inputs must not have been modified by the computation
			for _, qt := range trees {
				for i := range sibs {
					_, nd := qt.find(sibs[i].name)
					if nd.request != sibs[i].req || nd.min != sibs[i].min || nd.guarantee != sibs[i].guar || nd.sharedWeight != sibs[i].w || nd.allowLentResource != sibs[i].lend {
						c.Fail("C02/redistribution/inputs-modified", "node %s changed to %+v", sibs[i].String(), *nd)
					}
				}
			}
			nComp, zeroW, nolend := c02Describe(sibs)
			small := true
			for i := range sibs {
				if sibs[i].w > 1<<30 {
					small = false
				}
			}
			nontrivial := false
			for ti, total := range totals {
				rt := first[ti]
				c.Op("total=%d -> %v", total, rt)
				sig, msg, o := c02Check("redistribution", sibs, total, rt, false, &st, &scr)
				if sig != "" {
					c.Fail(sig, "siblings %s total=%d runtime=%v: %s", c02SibsString(sibs), total, rt, msg)
				}
				if o.class != c02ClassBelow && small && total <= 1<<30 {
					// harness self-check: the two reference implementations agree
					c02Ref64(sibs, scr.base, total, scr.want2, &scr)
					for i := range scr.want2 {
						if scr.want2[i] != scr.want[i] {
							c.Harness("int64 and math/big references disagree: %v vs %v on %s total=%d", scr.want2, scr.want, c02SibsString(sibs), total)
						}
					}
					c.Count("reference_self_checks", 1)
				}
				// harness self-check: the 128-bit fairness arithmetic agrees with math/big (also on pairs
				// and slacks the oracle did not need, so that both outcomes of the predicate are exercised)
				for a := 0; a < n && o.class != c02ClassBelow; a++ {
					for b := 0; b < n; b++ {
						if a == b || sibs[a].w == 0 || sibs[b].w == 0 || !sibs[a].competes() || !sibs[b].competes() {
							continue
						}
						ga, gb := rt[a]-sibs[a].m(), rt[b]-sibs[b].m()
						for _, k := range []int{0, 1, nComp} {
							if c02Exceeds(ga, sibs[b].w, gb, sibs[a].w, k) != c02ExceedsBig(ga, sibs[b].w, gb, sibs[a].w, k) {
								c.Harness("128-bit and math/big fairness predicates disagree on gains %d,%d weights %d,%d slack %d", ga, gb, sibs[a].w, sibs[b].w, k)
							}
							c.Count("fairness_arithmetic_self_checks", 1)
						}
					}
				}
				if o.refDiffers {
					c.Count("sampled_divisions_differing_from_reference", 1)
				}
				if o.class == c02ClassPartial && (o.rounds >= 2 || o.residual) {
					nontrivial = true
				}
				st.seen(n, o, nComp, zeroW, nolend)
				c.Seen(n, o.class, c02Min64(int64(o.rounds), 7), o.residual, zeroW, nolend, scale, wclass, tcls[ti])
				c.Count(fmt.Sprintf("total_class_%02d", tcls[ti]), 1)
			}
			c.Evals(len(totals) - 1)
			c.Count(fmt.Sprintf("scale_%d", scale), 1)
			if nontrivial {
				c.NonTrivial()
			}
			if c.K < 2 {
				c.Sample(map[string]any{"siblings": c02SibsString(sibs), "totals": totals, "runtime": first})
			}
		})
}
