//go:build verif

package deviceshare

// C19 monitor (unit "device-restart"): device allocations survive a scheduler restart.
// See /verif/DESIGN.md section 4, C19.
//
// What is executed. The "live" scheduler is the package's real Plugin (built once with the package's
// own test suite) on a fresh nodeDeviceCache per case. The inventory arrives through the real Device
// event handler (onDeviceAdd). Every allocation goes through the plugin's own scheduling-cycle methods
//     PreFilter -> Filter -> Reserve -> PreBind / PreBindReservation (= preBindObject: fillID from the
//     Device lister + SetDeviceAllocations) -> bind
// so the device-allocated annotation on the surviving objects is literally what the plugin persists.
// At the cut the surviving API objects are replayed into a FRESH nodeDeviceCache: Device objects first
// (onDeviceAdd), then reservations through the real ReservationToPodEventHandler + filter in front of
// the pod handler, then pods through onPodAdd / onPodUpdate / onPodDelete - the handler chain
// registerDeviceEventHandler / registerPodEventHandler install.
//
// Causal rules (what the real system can produce) - the same as in the nodenumaresource unit:
//   * assumed objects are pre-bound + bound, unreserved, or in flight at the cut; a crash may fall between
//     the PreBind patch and the bind (object survives with the annotation but without a node name);
//   * only BOUND objects survive as holders: in-flight objects are Unreserved in the live scheduler
//     before the comparison;
//   * bound objects get further versions that never touch the allocation annotation (metadata, status,
//     termination) and may be deleted; the live scheduler's informer echoes them in version order (pod
//     versions possibly compressed, reservation versions one by one), terminations and deletions are
//     flushed to the live scheduler before the comparison; a pod name is never re-used in one case;
//   * restart delivery: the informers LIST one consistent snapshot taken after the crash (each surviving
//     object once, in its latest version, arbitrary order within a kind, 20 % duplicate adds and 20 %
//     no-op updates of that version); in 75 % of the cases Devices before reservations before pods, in
//     25 % ("race") the Device add of some nodes among the pod / reservation adds, which the start-up
//     pipeline of this tree allows; API changes after the snapshot (touch,
//     terminate, delete) arrive as watch events after the object's add and are fed to the live instance
//     too. The inventory does not change during a case (inventory churn is C07's subject).
//
// Oracle: per node, live getNodeDeviceSummary() == replayed getNodeDeviceSummary() (total / free / used,
// summed and per device, and the per-pod allocate set) and the VF ledgers are equal; the replayed "used"
// of every device equals the sum of the allocations Reserve returned for the surviving bound objects; in
// particular nothing that was taken is free after the restart. Equality is semantic: quantities by Cmp,
// absent == zero, a pod with no non-zero amount in the allocate set == no entry.

import (
	"context"
	"encoding/json"
	"fmt"
	"sort"
	"strings"
	"sync"
	"testing"

	corev1 "k8s.io/api/core/v1"
	"k8s.io/apimachinery/pkg/api/resource"
	metav1 "k8s.io/apimachinery/pkg/apis/meta/v1"
	"k8s.io/apimachinery/pkg/types"
	"k8s.io/client-go/tools/cache"
	"k8s.io/klog/v2"
	fwktype "k8s.io/kube-scheduler/framework"
	"k8s.io/kubernetes/pkg/scheduler/framework"
	"k8s.io/utils/ptr"

	apiext "github.com/koordinator-sh/koordinator/apis/extension"
	schedulingv1alpha1 "github.com/koordinator-sh/koordinator/apis/scheduling/v1alpha1"
	schedulerconfig "github.com/koordinator-sh/koordinator/pkg/scheduler/apis/config"
	"github.com/koordinator-sh/koordinator/pkg/scheduler/frameworkext/topologymanager"
	"github.com/koordinator-sh/koordinator/pkg/util/bitmask"
	reservationutil "github.com/koordinator-sh/koordinator/pkg/util/reservation"
	kit "github.com/koordinator-sh/koordinator/pkg/verifkit"
)

func init() {
	klog.SetOutput(c19Discard{})
	klog.LogToStderr(false)
}

type c19Discard struct{}

func (c19Discard) Write(p []byte) (int, error) { return len(p), nil }

const (
	c19GPU  = schedulingv1alpha1.GPU
	c19RDMA = schedulingv1alpha1.RDMA
	c19FPGA = schedulingv1alpha1.FPGA
)

// ---------------------------------------------------------------------------------------------
// the plugin (built once per process with the package's own suite; every case installs a fresh cache)

var (
	c19Once sync.Once
	c19Pl   *Plugin
	c19PlM  *Plugin // the same plugin built with the MostAllocated scoring strategy
	c19Suit *pluginTestSuit
)

var c19NodeNames = []string{"n0", "n1", "n2"}

func c19Plugin(t *testing.T) (*Plugin, *pluginTestSuit) {
	c19Once.Do(func() {
		var nodes []*corev1.Node
		for _, n := range c19NodeNames {
			nodes = append(nodes, &corev1.Node{ObjectMeta: metav1.ObjectMeta{Name: n}})
		}
		suit := newPluginTestSuit(t, nodes)
		p, err := suit.proxyNew(context.TODO(), getDefaultArgs(), suit.Framework)
		if err != nil {
			t.Fatalf("cannot build the deviceshare plugin: %v", err)
		}
		c19Pl = p.(*Plugin)
		argsM := getDefaultArgs()
		argsM.ScoringStrategy.Type = schedulerconfig.MostAllocated
		pm, err := suit.proxyNew(context.TODO(), argsM, suit.Framework)
		if err != nil {
			t.Fatalf("cannot build the deviceshare plugin (MostAllocated): %v", err)
		}
		c19PlM = pm.(*Plugin)
		c19Suit = suit
	})
	return c19Pl, c19Suit
}

// ---------------------------------------------------------------------------------------------
// inventory

type c19Dev struct {
	typ   schedulingv1alpha1.DeviceType
	minor int32
	res   corev1.ResourceList
	numa  int32
	pcie  string
	vfs   int
}

type c19Node struct {
	name   string
	devs   []*c19Dev
	topo   bool
	vf     bool
	gpuMem int64
	cr     *schedulingv1alpha1.Device
}

func c19Q(v int64) resource.Quantity  { return *resource.NewQuantity(v, resource.DecimalSI) }
func c19QB(v int64) resource.Quantity { return *resource.NewQuantity(v, resource.BinarySI) }

var c19MemPool = []int64{16 << 30, 85198045184, 15843721216, 24 << 30, 1000003, 8 << 30}

func c19GenNode(r *kit.Rand, name string) *c19Node {
	n := &c19Node{name: name}
	n.topo = r.Pct(55)
	n.vf = n.topo && r.Pct(60)
	n.gpuMem = kit.Pick(r, c19MemPool)
	ngpu := kit.Pick(r, []int{0, 1, 2, 2, 3, 4, 4, 8, 8, 16})
	nrdma := kit.Pick(r, []int{0, 0, 1, 2, 2, 4, 8})
	nfpga := kit.Pick(r, []int{0, 0, 0, 1, 2, 4})
	stride := int32(kit.Pick(r, []int{1, 1, 1, 1, 2, 3})) // minors may have holes
	heteroMem := r.Pct(10)
	if ngpu+nrdma+nfpga == 0 {
		ngpu = 2
	}
	add := func(t schedulingv1alpha1.DeviceType, cnt int, firstMinor int32, res func() corev1.ResourceList) {
		half := (cnt + 1) / 2
		for i := 0; i < cnt; i++ {
			d := &c19Dev{typ: t, minor: firstMinor + int32(i)*stride, res: res()}
			d.numa = int32(i / half)
			d.pcie = fmt.Sprintf("%d-%d", d.numa, (i%half)/2)
			if t == c19RDMA && n.vf {
				d.vfs = r.Range(1, 3)
			}
			n.devs = append(n.devs, d)
		}
	}
	add(c19GPU, ngpu, int32(kit.Pick(r, []int{0, 0, 0, 0, 1, 4})), func() corev1.ResourceList {
		mem := n.gpuMem
		if heteroMem {
			mem = kit.Pick(r, c19MemPool) // GPUs of different sizes on one node
		}
		return corev1.ResourceList{apiext.ResourceGPUCore: c19Q(100), apiext.ResourceGPUMemoryRatio: c19Q(100), apiext.ResourceGPUMemory: c19QB(mem)}
	})
	add(c19RDMA, nrdma, int32(r.Range(0, 1)), func() corev1.ResourceList { return corev1.ResourceList{apiext.ResourceRDMA: c19Q(100)} })
	add(c19FPGA, nfpga, 0, func() corev1.ResourceList { return corev1.ResourceList{apiext.ResourceFPGA: c19Q(100)} })
	cr := &schedulingv1alpha1.Device{ObjectMeta: metav1.ObjectMeta{Name: name}}
	unhealthy := -1
	if r.Pct(10) && len(n.devs) > 1 {
		unhealthy = r.Intn(len(n.devs)) // reported unhealthy from the start: never handed out
	}
	for di, d := range n.devs {
		minor := d.minor
		info := schedulingv1alpha1.DeviceInfo{Type: d.typ, UUID: fmt.Sprintf("%s-%s-%d", name, d.typ, d.minor), Minor: &minor, Health: di != unhealthy, Resources: d.res.DeepCopy()}
		if n.topo {
			info.Topology = &schedulingv1alpha1.DeviceTopology{SocketID: d.numa, NodeID: d.numa, PCIEID: d.pcie, BusID: fmt.Sprintf("0000:%02x:00.0", 16+int(d.minor))}
		}
		if d.vfs > 0 {
			g := schedulingv1alpha1.VirtualFunctionGroup{Labels: map[string]string{"type": "general"}}
			for j := 0; j < d.vfs; j++ {
				g.VFs = append(g.VFs, schedulingv1alpha1.VirtualFunction{Minor: int32(j), BusID: fmt.Sprintf("0000:%02x:00.%d", 16+int(d.minor), j+2)})
			}
			info.VFGroups = []schedulingv1alpha1.VirtualFunctionGroup{g}
		}
		cr.Spec.Devices = append(cr.Spec.Devices, info)
	}
	n.cr = cr
	return n
}

func (n *c19Node) count(t schedulingv1alpha1.DeviceType) int {
	k := 0
	for _, d := range n.devs {
		if d.typ == t {
			k++
		}
	}
	return k
}

func (n *c19Node) describe() string {
	return fmt.Sprintf("%s gpu=%d(mem %d) rdma=%d fpga=%d topo=%v vf=%v", n.name, n.count(c19GPU), n.gpuMem, n.count(c19RDMA), n.count(c19FPGA), n.topo, n.vf)
}

// ---------------------------------------------------------------------------------------------
// requests

var c19PctPool = []int{1, 10, 25, 33, 34, 49, 50, 50, 51, 66, 75, 99, 100}

func c19Pct(r *kit.Rand) int64 {
	if r.Pct(70) {
		return int64(kit.Pick(r, c19PctPool))
	}
	return int64(r.Range(1, 100))
}

func c19GenRequest(r *kit.Rand, n *c19Node, pod *corev1.Pod) string {
	reqs := corev1.ResourceList{}
	class := ""
	var hints apiext.DeviceAllocateHints
	var joint *apiext.DeviceJointAllocate
	gpu := func() {
		cnt := int64(kit.Pick(r, []int{1, 1, 1, 2, 2, 3, 4}))
		switch r.Weighted(12, 6, 8, 14, 16, 6, 10, 10) {
		case 0:
			class += "nvidia-N"
			reqs[apiext.ResourceNvidiaGPU] = c19Q(cnt)
		case 1:
			class += "koordgpu-100N"
			reqs[apiext.ResourceGPU] = c19Q(100 * cnt)
		case 2:
			class += "core+ratio-100N"
			reqs[apiext.ResourceGPUCore] = c19Q(100 * cnt)
			reqs[apiext.ResourceGPUMemoryRatio] = c19Q(100 * cnt)
		case 3:
			class += "koordgpu-frac"
			reqs[apiext.ResourceGPU] = c19Q(c19Pct(r))
		case 4:
			class += "core+ratio-frac"
			reqs[apiext.ResourceGPUCore] = c19Q(c19Pct(r))
			reqs[apiext.ResourceGPUMemoryRatio] = c19Q(c19Pct(r))
		case 5:
			class += "ratio-frac"
			reqs[apiext.ResourceGPUMemoryRatio] = c19Q(c19Pct(r))
		case 6:
			m := n.gpuMem
			b := kit.Pick(r, []int64{m / 16, m / 8, m / 3, m / 2, m, 1, m / 100, m/100 + 1, m / 7})
			if b <= 0 {
				b = 1
			}
			class += "mem-bytes"
			reqs[apiext.ResourceGPUMemory] = c19QB(b)
			if r.Bool() {
				class += "+core"
				reqs[apiext.ResourceGPUCore] = c19Q(c19Pct(r))
			}
		case 7:
			nsh := int64(r.Range(2, 3))
			class += "shared-N"
			reqs[apiext.ResourceGPUShared] = c19Q(nsh)
			reqs[apiext.ResourceGPUCore] = c19Q(c19Pct(r) * nsh)
			reqs[apiext.ResourceGPUMemoryRatio] = c19Q(c19Pct(r) * nsh)
		}
	}
	other := func(t schedulingv1alpha1.DeviceType, name corev1.ResourceName) {
		if r.Pct(35) {
			class += string(t) + "-100N"
			reqs[name] = c19Q(100 * int64(r.Range(2, 3)))
			return
		}
		class += string(t) + "-frac"
		reqs[name] = c19Q(c19Pct(r))
	}
	vfHint := func() {
		if hints == nil {
			hints = apiext.DeviceAllocateHints{}
		}
		hints[c19RDMA] = &apiext.DeviceHint{VFSelector: &metav1.LabelSelector{MatchLabels: map[string]string{"type": "general"}}}
		class += "-vf"
	}
	hasGPU, hasRDMA, hasFPGA := n.count(c19GPU) > 0, n.count(c19RDMA) > 0, n.count(c19FPGA) > 0
	wg, wr, wf, wc, wj, wa, wn := 2, 1, 1, 0, 0, 0, 6
	if hasGPU {
		wg = 50
	}
	if hasRDMA {
		wr = 16
		wa = 5
	}
	if hasFPGA {
		wf = 8
	}
	if hasGPU && hasRDMA {
		wc = 10
		if n.topo {
			wj = 10
		}
	}
	switch r.Weighted(wg, wr, wf, wc, wj, wa, wn) {
	case 0:
		gpu()
		if n.topo && r.Pct(15) {
			scope := kit.Pick(r, []apiext.DeviceTopologyScope{apiext.DeviceTopologyScopePCIe, apiext.DeviceTopologyScopeNUMANode})
			hints = apiext.DeviceAllocateHints{c19GPU: &apiext.DeviceHint{RequiredTopologyScope: scope}}
			class += "-scope"
		}
	case 1:
		other(c19RDMA, apiext.ResourceRDMA)
		if n.vf && r.Pct(50) {
			vfHint()
		}
	case 2:
		other(c19FPGA, apiext.ResourceFPGA)
	case 3:
		gpu()
		class += "+"
		other(c19RDMA, apiext.ResourceRDMA)
		if n.vf && r.Pct(40) {
			vfHint()
		}
	case 4:
		class = "joint:"
		reqs[apiext.ResourceNvidiaGPU] = c19Q(int64(kit.Pick(r, []int{1, 2, 2, 4})))
		reqs[apiext.ResourceRDMA] = c19Q(c19Pct(r))
		joint = &apiext.DeviceJointAllocate{DeviceTypes: []schedulingv1alpha1.DeviceType{c19GPU, c19RDMA}}
		if r.Bool() {
			joint.RequiredScope = apiext.SamePCIeDeviceJointAllocateScope
			class += "samepcie"
		}
		if n.vf && r.Bool() {
			vfHint()
		}
	case 5:
		class = "rdma-applyforall"
		reqs[apiext.ResourceRDMA] = c19Q(c19Pct(r))
		hints = apiext.DeviceAllocateHints{c19RDMA: &apiext.DeviceHint{AllocateStrategy: apiext.ApplyForAllDeviceAllocateStrategy}}
	default:
		class = "no-device"
		reqs[corev1.ResourceCPU] = c19Q(1)
	}
	pod.Annotations = map[string]string{}
	if hints != nil {
		_ = apiext.SetDeviceAllocateHints(pod, hints)
	}
	if joint != nil {
		_ = apiext.SetDeviceJointAllocate(pod, joint)
	}
	pod.Spec.Containers = []corev1.Container{{Name: "main", Resources: corev1.ResourceRequirements{Requests: reqs, Limits: reqs.DeepCopy()}}}
	if q, ok := reqs[apiext.ResourceNvidiaGPU]; ok && q.Value() >= 2 && r.Pct(25) {
		// the whole GPUs asked for by two containers
		a := reqs.DeepCopy()
		a[apiext.ResourceNvidiaGPU] = c19Q(q.Value() - 1)
		b := corev1.ResourceList{apiext.ResourceNvidiaGPU: c19Q(1)}
		pod.Spec.Containers = []corev1.Container{{Name: "main", Resources: corev1.ResourceRequirements{Requests: a, Limits: a.DeepCopy()}}, {Name: "side", Resources: corev1.ResourceRequirements{Requests: b, Limits: b.DeepCopy()}}}
		class += "+2c"
	}
	if class == "no-device" && r.Pct(30) {
		reqs[apiext.ResourceNvidiaGPU] = c19Q(0) // a device resource named with amount zero
		class = "gpu-zero"
	}
	return class
}

// ---------------------------------------------------------------------------------------------
// objects

const (
	c19Idle = iota
	c19Rejected
	c19Assumed
	c19Patched
	c19Bound
	c19Terminated
	c19Deleted
	c19Unreserved
)

var c19StateNames = []string{"idle", "rejected", "assumed", "patched", "bound", "terminated", "deleted", "unreserved"}

type c19Obj struct {
	isRsv bool
	name  string
	uid   types.UID
	class string
	node  *c19Node
	state int

	pod   *corev1.Pod
	rsv   *schedulingv1alpha1.Reservation
	cs    *framework.CycleState
	alloc apiext.DeviceAllocations // what Reserve committed (harness copy); nil = nothing

	patched  interface{}
	versions []interface{}
	echoed   int

	beforeDev, afterDev bool // a bound version reached the restarted scheduler before / after its node's Device object
}

func (o *c19Obj) kind() string {
	if o.isRsv {
		return "rsv"
	}
	return "pod"
}
func (o *c19Obj) latest() interface{} { return o.versions[len(o.versions)-1] }
func (o *c19Obj) unassigned() interface{} {
	if o.isRsv {
		return o.rsv
	}
	return o.pod
}
func (o *c19Obj) holds() bool { return o.state == c19Bound && len(o.alloc) > 0 }

// podKey is the key of the object in the cache's allocate set (namespace/name of the (reserve) pod).
func (o *c19Obj) podKey() string { return o.pod.Namespace + "/" + o.pod.Name }

func c19NewObj(r *kit.Rand, seq int, n *c19Node) *c19Obj {
	o := &c19Obj{node: n}
	tmpl := &corev1.Pod{}
	o.class = c19GenRequest(r, n, tmpl)
	if r.Pct(15) {
		o.isRsv = true
		o.name = fmt.Sprintf("r%d", seq)
		o.uid = types.UID(fmt.Sprintf("uid-r%d", seq))
		o.rsv = &schedulingv1alpha1.Reservation{
			ObjectMeta: metav1.ObjectMeta{Name: o.name, UID: o.uid, ResourceVersion: "1"},
			Spec: schedulingv1alpha1.ReservationSpec{
				Template:     &corev1.PodTemplateSpec{ObjectMeta: tmpl.ObjectMeta, Spec: tmpl.Spec},
				Owners:       []schedulingv1alpha1.ReservationOwner{{LabelSelector: &metav1.LabelSelector{MatchLabels: map[string]string{"app": o.name}}}},
				TTL:          &metav1.Duration{Duration: 0},
				AllocateOnce: ptr.To(false),
			},
		}
		o.pod = reservationutil.NewReservePod(o.rsv)
		o.class = "rsv:" + o.class
		return o
	}
	o.name = fmt.Sprintf("p%d", seq)
	o.uid = types.UID(fmt.Sprintf("uid-p%d", seq))
	tmpl.Namespace, tmpl.Name, tmpl.UID, tmpl.ResourceVersion = kit.Pick(r, []string{"default", "default", "default", "default", "ns1"}), o.name, o.uid, "1"
	o.pod = tmpl
	return o
}

func c19ViaAPI(c *kit.Case, obj interface{}) interface{} {
	b, err := json.Marshal(obj)
	if err != nil {
		c.Harness("marshal object: %v", err)
	}
	switch obj.(type) {
	case *corev1.Pod:
		out := &corev1.Pod{}
		if err := json.Unmarshal(b, out); err != nil {
			c.Harness("unmarshal pod: %v", err)
		}
		return out
	case *schedulingv1alpha1.Reservation:
		out := &schedulingv1alpha1.Reservation{}
		if err := json.Unmarshal(b, out); err != nil {
			c.Harness("unmarshal reservation: %v", err)
		}
		return out
	}
	c.Harness("unexpected object %T", obj)
	return nil
}

func c19Meta(obj interface{}) *metav1.ObjectMeta {
	switch t := obj.(type) {
	case *corev1.Pod:
		return &t.ObjectMeta
	case *schedulingv1alpha1.Reservation:
		return &t.ObjectMeta
	}
	return nil
}

func c19Copy(obj interface{}) interface{} {
	switch t := obj.(type) {
	case *corev1.Pod:
		return t.DeepCopy()
	case *schedulingv1alpha1.Reservation:
		return t.DeepCopy()
	}
	return nil
}

func c19Touch(r *kit.Rand, obj interface{}) interface{} {
	out := c19Copy(obj)
	m := c19Meta(out)
	m.ResourceVersion += "1"
	if m.Labels == nil {
		m.Labels = map[string]string{}
	}
	m.Labels["touched"] = m.ResourceVersion
	if p, ok := out.(*corev1.Pod); ok && r.Bool() {
		p.Status.Phase = corev1.PodRunning
	}
	if r.Pct(12) && m.DeletionTimestamp == nil {
		ts := metav1.Unix(1700000000, 0) // terminating: still runs, still holds its devices
		m.DeletionTimestamp = &ts
	}
	return out
}

func c19Terminate(r *kit.Rand, obj interface{}) interface{} {
	out := c19Copy(obj)
	c19Meta(out).ResourceVersion += "9"
	switch t := out.(type) {
	case *corev1.Pod:
		t.Status.Phase = kit.Pick(r, []corev1.PodPhase{corev1.PodSucceeded, corev1.PodFailed})
	case *schedulingv1alpha1.Reservation:
		t.Status.Phase = kit.Pick(r, []schedulingv1alpha1.ReservationPhase{schedulingv1alpha1.ReservationSucceeded, schedulingv1alpha1.ReservationFailed})
	}
	return out
}

func c19RL(rl corev1.ResourceList) string {
	names := make([]string, 0, len(rl))
	for k := range rl {
		names = append(names, string(k))
	}
	sort.Strings(names)
	var sb strings.Builder
	sb.WriteString("{")
	for _, k := range names {
		q := rl[corev1.ResourceName(k)]
		fmt.Fprintf(&sb, "%s:%s ", k[strings.LastIndex(k, "/")+1:], q.String())
	}
	sb.WriteString("}")
	return sb.String()
}

func c19Allocs(a apiext.DeviceAllocations) string {
	if len(a) == 0 {
		return "<none>"
	}
	ts := make([]string, 0, len(a))
	for t := range a {
		ts = append(ts, string(t))
	}
	sort.Strings(ts)
	var sb strings.Builder
	for _, t := range ts {
		fmt.Fprintf(&sb, "%s[", t)
		for _, al := range a[schedulingv1alpha1.DeviceType(t)] {
			fmt.Fprintf(&sb, "#%d%s", al.Minor, c19RL(al.Resources))
			if al.Extension != nil {
				for _, vf := range al.Extension.VirtualFunctions {
					fmt.Fprintf(&sb, "vf:%s", vf.BusID)
				}
			}
			sb.WriteString(" ")
		}
		sb.WriteString("] ")
	}
	return sb.String()
}

func c19CopyAllocs(a apiext.DeviceAllocations) apiext.DeviceAllocations {
	if a == nil {
		return nil
	}
	out := apiext.DeviceAllocations{}
	for t, list := range a {
		for _, al := range list {
			cp := &apiext.DeviceAllocation{Minor: al.Minor, Resources: al.Resources.DeepCopy(), ID: al.ID}
			if al.Extension != nil {
				ext := *al.Extension
				ext.VirtualFunctions = append([]apiext.VirtualFunction(nil), al.Extension.VirtualFunctions...)
				cp.Extension = &ext
			}
			out[t] = append(out[t], cp)
		}
	}
	return out
}

// ---------------------------------------------------------------------------------------------
// observation and comparison

type c19Key struct {
	t     schedulingv1alpha1.DeviceType
	minor int
	r     corev1.ResourceName
}

func (k c19Key) String() string { return fmt.Sprintf("%s#%d/%s", k.t, k.minor, k.r) }

type c19PodKey struct {
	t     schedulingv1alpha1.DeviceType
	pod   string
	minor int
	r     corev1.ResourceName
}

func (k c19PodKey) String() string { return fmt.Sprintf("%s %s #%d/%s", k.pod, k.t, k.minor, k.r) }

type c19Snap struct {
	sumTotal, sumFree, sumUsed map[corev1.ResourceName]resource.Quantity
	total, free, used          map[c19Key]resource.Quantity
	sets                       map[c19PodKey]resource.Quantity
	vfs                        map[string]bool
}

func c19FlattenSum(m map[corev1.ResourceName]*resource.Quantity) map[corev1.ResourceName]resource.Quantity {
	out := map[corev1.ResourceName]resource.Quantity{}
	for k, q := range m {
		if q != nil && !q.IsZero() {
			out[k] = *q
		}
	}
	return out
}

func c19Flatten(m map[schedulingv1alpha1.DeviceType]deviceResources) map[c19Key]resource.Quantity {
	out := map[c19Key]resource.Quantity{}
	for t, devs := range m {
		for minor, rl := range devs {
			for name, q := range rl {
				if !q.IsZero() {
					out[c19Key{t, minor, name}] = q
				}
			}
		}
	}
	return out
}

func c19Observe(dc *nodeDeviceCache, node string) *c19Snap {
	s := &c19Snap{sets: map[c19PodKey]resource.Quantity{}, vfs: map[string]bool{}}
	sum, ok := dc.getNodeDeviceSummary(node)
	if !ok {
		sum = NewNodeDeviceSummary()
	}
	s.sumTotal, s.sumFree, s.sumUsed = c19FlattenSum(sum.DeviceTotal), c19FlattenSum(sum.DeviceFree), c19FlattenSum(sum.DeviceUsed)
	s.total, s.free, s.used = c19Flatten(sum.DeviceTotalDetail), c19Flatten(sum.DeviceFreeDetail), c19Flatten(sum.DeviceUsedDetail)
	for t, pods := range sum.AllocateSet {
		for pod, devs := range pods {
			for minor, rl := range devs {
				for name, q := range rl {
					if !q.IsZero() {
						s.sets[c19PodKey{t, pod, minor, name}] = q
					}
				}
			}
		}
	}
	if nd := dc.getNodeDevice(node, false); nd != nil {
		nd.lock.RLock()
		for t, va := range nd.vfAllocations {
			if va == nil {
				continue
			}
			for minor, set := range va.allocatedVFs {
				for bus := range set {
					s.vfs[fmt.Sprintf("%s#%d/%s", t, minor, bus)] = true
				}
			}
		}
		nd.lock.RUnlock()
	}
	return s
}

// c19Diff compares two quantity maps (absent == zero); returns the first differing key in sorted order,
// the two values and the sign of (b - a).
func c19Diff[K comparable](a, b map[K]resource.Quantity, str func(K) string) (string, string, string, int) {
	seen := map[K]bool{}
	var keys []K
	for k := range a {
		if !seen[k] {
			seen[k] = true
			keys = append(keys, k)
		}
	}
	for k := range b {
		if !seen[k] {
			seen[k] = true
			keys = append(keys, k)
		}
	}
	sort.Slice(keys, func(i, j int) bool { return str(keys[i]) < str(keys[j]) })
	for _, k := range keys {
		qa, qb := a[k], b[k]
		if s := qb.Cmp(qa); s != 0 {
			return str(k), qa.String(), qb.String(), s
		}
	}
	return "", "", "", 0
}

func c19CompareNode(c *kit.Case, n *c19Node, objs []*c19Obj, live, replay *nodeDeviceCache) {
	sL, sR := c19Observe(live, n.name), c19Observe(replay, n.name)
	keyStr := func(k c19Key) string { return k.String() }
	podStr := func(k c19PodKey) string { return k.String() }
	resStr := func(k corev1.ResourceName) string { return string(k) }
	// ---- expected, from what Reserve returned for the surviving bound objects
	expUsed := map[c19Key]resource.Quantity{}
	expSets := map[c19PodKey]resource.Quantity{}
	expVFs := map[string]bool{}
	holders := 0
	for _, o := range objs {
		if o.node != n || !o.holds() {
			continue
		}
		holders++
		for t, list := range o.alloc {
			for _, al := range list {
				for name, q := range al.Resources {
					if q.IsZero() {
						continue
					}
					k := c19Key{t, int(al.Minor), name}
					cur := expUsed[k]
					cur.Add(q)
					expUsed[k] = cur
					pk := c19PodKey{t, o.podKey(), int(al.Minor), name}
					cur = expSets[pk]
					cur.Add(q)
					expSets[pk] = cur
				}
				if al.Extension != nil {
					for _, vf := range al.Extension.VirtualFunctions {
						expVFs[fmt.Sprintf("%s#%d/%s", t, al.Minor, vf.BusID)] = true
					}
				}
			}
		}
	}
	// ---- 1. nothing that was taken is free after the restart
	if k, a, b, s := c19Diff(expUsed, sR.used, keyStr); k != "" {
		if s < 0 {
			c.Fail("C19/device/free-after-restart", "node %s: %s: the surviving bound objects were given %s in total, the restarted scheduler accounts only %s as used", n.name, k, a, b)
		}
		c.Fail("C19/device/used-by-nobody-after-restart", "node %s: %s: the surviving bound objects were given %s in total, the restarted scheduler accounts %s as used", n.name, k, a, b)
	}
	if k, a, b, s := c19Diff(sL.free, sR.free, keyStr); k != "" && s > 0 {
		c.Fail("C19/device/free-after-restart", "node %s: %s: free is %s in the live scheduler and %s in the restarted one", n.name, k, a, b)
	}
	for vf := range expVFs {
		if !sR.vfs[vf] {
			c.Fail("C19/device/vf-free-after-restart", "node %s: virtual function %s is held by a surviving bound object but free in the restarted scheduler", n.name, vf)
		}
	}
	// ---- 2. live vs replay
	if k, a, b, _ := c19Diff(sL.total, sR.total, keyStr); k != "" {
		c.Fail("C19/device/total", "node %s: %s: total is %s in the live scheduler and %s in the restarted one", n.name, k, a, b)
	}
	if k, a, b, _ := c19Diff(sL.used, sR.used, keyStr); k != "" {
		c.Fail("C19/device/used", "node %s: %s: used is %s in the live scheduler and %s in the restarted one", n.name, k, a, b)
	}
	if k, a, b, _ := c19Diff(sL.free, sR.free, keyStr); k != "" {
		c.Fail("C19/device/free", "node %s: %s: free is %s in the live scheduler and %s in the restarted one", n.name, k, a, b)
	}
	if k, a, b, _ := c19Diff(sL.sets, sR.sets, podStr); k != "" {
		c.Fail("C19/device/allocate-set", "node %s: allocate set entry %s is %s in the live scheduler and %s in the restarted one", n.name, k, a, b)
	}
	if k, a, b, _ := c19Diff(expSets, sR.sets, podStr); k != "" {
		c.Fail("C19/device/allocate-set", "node %s: allocate set entry %s: given %s, the restarted scheduler holds %s", n.name, k, a, b)
	}
	if k, a, b, _ := c19Diff(sL.sumTotal, sR.sumTotal, resStr); k != "" {
		c.Fail("C19/device/total", "node %s: summed total of %s is %s in the live scheduler and %s in the restarted one", n.name, k, a, b)
	}
	if k, a, b, _ := c19Diff(sL.sumUsed, sR.sumUsed, resStr); k != "" {
		c.Fail("C19/device/used", "node %s: summed used of %s is %s in the live scheduler and %s in the restarted one", n.name, k, a, b)
	}
	if k, a, b, _ := c19Diff(sL.sumFree, sR.sumFree, resStr); k != "" {
		c.Fail("C19/device/free", "node %s: summed free of %s is %s in the live scheduler and %s in the restarted one", n.name, k, a, b)
	}
	for vf := range sL.vfs {
		if !sR.vfs[vf] {
			c.Fail("C19/device/vf-free-after-restart", "node %s: virtual function %s is taken in the live scheduler and free in the restarted one", n.name, vf)
		}
	}
	for vf := range sR.vfs {
		if !sL.vfs[vf] {
			c.Fail("C19/device/vf-ledger", "node %s: virtual function %s is taken in the restarted scheduler and free in the live one", n.name, vf)
		}
	}
	c.Count("node_comparisons", 1)
	c.Count("holders_compared", holders)
	c.Count("vfs_compared", len(sL.vfs))
}

func c19Annot(obj interface{}) string {
	m := c19Meta(obj)
	if m == nil {
		return ""
	}
	return m.Annotations[apiext.AnnotationDeviceAllocated]
}

// ---------------------------------------------------------------------------------------------
// the workload

type c19Event struct {
	add, del bool
	old, new interface{}
	isRsv    bool
	what     string
	obj      *c19Obj
	dev      *c19Node // the event is the add of this node's Device object
}

func c19PodHandler(dc *nodeDeviceCache) cache.ResourceEventHandlerFuncs {
	return cache.ResourceEventHandlerFuncs{AddFunc: dc.onPodAdd, UpdateFunc: dc.onPodUpdate, DeleteFunc: dc.onPodDelete}
}

func TestVerifC19DeviceRestart(t *testing.T) {
	_, suit := c19Plugin(t)
	ctx := context.TODO()
	devIndexer := suit.koordinatorSharedInformerFactory.Scheduling().V1alpha1().Devices().Informer().GetIndexer()
	kit.Run(t, kit.Config{Property: "C19", Unit: "device-restart", Quick: 4000, Thorough: 80000,
		Rule: "histories of 10-120 operations on 1-3 nodes (0-16 GPUs of equal or different memory, 0-8 RDMA NICs with 0-3 VFs, 0-4 FPGAs, minors with offsets and holes, an unhealthy device, with or without PCIe/NUMA topology; LeastAllocated or MostAllocated scoring; pod names re-used, two namespaces) of the real deviceshare Plugin: schedule a pod or reservation (PreFilter, Filter, Reserve; whole / fractional / multi / shared GPU, memory in bytes, RDMA, FPGA, combined, joint, VF, topology scope, apply-for-all), PreBind + bind, unreserve, metadata update, terminate, delete, informer echo to the live scheduler; cut after a bind; in-flight objects unreserved; surviving objects replayed into a fresh nodeDeviceCache (Devices, then reservations, then pods; random order within a kind; 20% duplicate adds, 20% no-op updates; watch events after the snapshot); live vs replayed device summary and VF ledger compared; distinct = (object kind, request class, allocation arity per type, VF?, outcome) and (replay event kind, kind of object); non-trivial = at least two surviving allocations on one node and at least one allocation of the history that does not survive"},
		func(c *kit.Case) {
			r := c.R
			dcL := newNodeDeviceCache()
			pl := c19Pl
			if r.Pct(35) {
				pl = c19PlM
			}
			pl.nodeDeviceCache = dcL
			nodes := make([]*c19Node, kit.Pick(r, []int{1, 2, 2, 2, 2, 3, 3}))
			for i, name := range c19NodeNames[:len(nodes)] {
				nodes[i] = c19GenNode(r, name)
				if _, exists, _ := devIndexer.GetByKey(name); exists {
					_ = devIndexer.Update(nodes[i].cr)
				} else {
					_ = devIndexer.Add(nodes[i].cr)
				}
				dcL.onDeviceAdd(nodes[i].cr.DeepCopy())
				c.Op("node %s", nodes[i].describe())
			}
			hL := c19PodHandler(dcL)
			rhL := reservationutil.NewReservationToPodEventHandler(hL, reservationutil.IsObjValidActiveReservation)

			var objs []*c19Obj
			seq := 0
			lost := 0
			pick := func(pred func(o *c19Obj) bool) *c19Obj {
				var cand []*c19Obj
				for _, o := range objs {
					if pred(o) {
						cand = append(cand, o)
					}
				}
				if len(cand) == 0 {
					return nil
				}
				return kit.Pick(r, cand)
			}
			schedule := func() *c19Obj {
				n := kit.Pick(r, nodes)
				o := c19NewObj(r, seq, n)
				seq++
				if !o.isRsv && r.Pct(20) {
					// the name of a pod that is gone is taken again by a new pod (new UID), as StatefulSet pods do
					if old := pick(func(x *c19Obj) bool { return !x.isRsv && x.state == c19Deleted }); old != nil {
						inUse := pick(func(x *c19Obj) bool {
							return !x.isRsv && x.state != c19Deleted && x.pod.Namespace == old.pod.Namespace && x.pod.Name == old.pod.Name
						})
						if inUse == nil {
							o.name = old.pod.Name
							o.pod.Namespace, o.pod.Name = old.pod.Namespace, old.pod.Name
							c.Count("pod_names_reused", 1)
						}
					}
				}
				objs = append(objs, o)
				cs := framework.NewCycleState()
				topologymanager.InitStore(cs) // done by nodenumaresource's PreFilter in a real cycle
				if n.topo && r.Pct(12) {
					// the NUMA affinity nodenumaresource's Filter computed for this node restricts the devices
					bits := kit.Pick(r, [][]int{{0}, {1}, {0, 1}})
					if m, err := bitmask.NewBitMask(bits...); err == nil {
						topologymanager.GetStore(cs).SetAffinity(n.name, topologymanager.NUMATopologyHint{NUMANodeAffinity: m})
						c.Count("cycles_with_numa_affinity", 1)
					}
				}
				o.cs = cs
				reject := func(stage, msg string) *c19Obj {
					o.state = c19Rejected
					c.Op("schedule %s %s (%s) on %s: rejected at %s: %s", o.kind(), o.name, o.class, n.name, stage, msg)
					c.Count("schedule_rejected", 1)
					c.Seen("sched", o.kind(), o.class, "rejected", stage)
					return o
				}
				_, st := pl.PreFilter(ctx, cs, o.pod, nil)
				if !st.IsSuccess() && !st.IsSkip() {
					return reject("PreFilter", st.Message())
				}
				if !st.IsSkip() {
					nodeInfo, err := suit.Framework.SnapshotSharedLister().NodeInfos().Get(n.name)
					if err != nil {
						c.Harness("node info: %v", err)
					}
					if st := pl.Filter(ctx, cs, o.pod, nodeInfo); !st.IsSuccess() {
						return reject("Filter", st.Message())
					}
				}
				if st := pl.Reserve(ctx, cs, o.pod, n.name); !st.IsSuccess() {
					pl.Unreserve(ctx, cs, o.pod, n.name)
					return reject("Reserve", st.Message())
				}
				state, st2 := getPreFilterState(cs)
				if !st2.IsSuccess() {
					c.Harness("no prefilter state after Reserve: %v", st2.Message())
				}
				o.alloc = c19CopyAllocs(state.allocationResult)
				o.state = c19Assumed
				arity := ""
				hasVF := false
				for _, t := range []schedulingv1alpha1.DeviceType{c19GPU, c19RDMA, c19FPGA} {
					arity += fmt.Sprintf("%s%d", t[:1], len(o.alloc[t]))
					for _, al := range o.alloc[t] {
						if al.Extension != nil && len(al.Extension.VirtualFunctions) > 0 {
							hasVF = true
						}
					}
					if len(o.alloc[t]) > 1 {
						c.Count("multi_device_allocations", 1)
					}
				}
				if len(o.alloc) > 0 {
					c.Count("allocations_committed", 1)
					if len(o.alloc) > 1 {
						c.Count("allocations_spanning_device_types", 1)
					}
					if hasVF {
						c.Count("allocations_with_vfs", 1)
					}
				} else {
					c.Count("scheduled_without_allocation", 1)
				}
				c.Op("schedule %s %s (%s) on %s: assumed, allocation %s", o.kind(), o.name, o.class, n.name, c19Allocs(o.alloc))
				c.Seen("sched", o.kind(), o.class, arity, hasVF)
				return o
			}
			prebind := func(o *c19Obj) {
				var st *fwktype.Status
				if o.isRsv {
					obj := o.rsv.DeepCopy()
					st = pl.PreBindReservation(ctx, o.cs, obj, o.node.name)
					o.patched = obj
				} else {
					obj := o.pod.DeepCopy()
					st = pl.PreBind(ctx, o.cs, obj, o.node.name)
					o.patched = obj
				}
				if !st.IsSuccess() {
					c.Harness("PreBind failed for %s: %v", o.name, st.Message())
				}
				o.state = c19Patched
				c.Op("prebind %s %s: device-allocated=%s", o.kind(), o.name, c19Annot(o.patched))
			}
			bind := func(o *c19Obj) {
				obj := c19Copy(o.patched)
				c19Meta(obj).ResourceVersion += "0"
				switch t := obj.(type) {
				case *corev1.Pod:
					t.Spec.NodeName = o.node.name
				case *schedulingv1alpha1.Reservation:
					t.Status.NodeName = o.node.name
					t.Status.Phase = schedulingv1alpha1.ReservationAvailable
					t.Status.Allocatable = o.pod.Spec.Containers[0].Resources.Requests.DeepCopy()
				}
				if r.Bool() {
					obj = c19ViaAPI(c, obj)
				}
				o.versions = []interface{}{obj}
				o.state = c19Bound
				c.Count("binds", 1)
				c.Op("bind %s %s on %s", o.kind(), o.name, o.node.name)
			}
			echo := func(o *c19Obj, upto int) {
				for o.echoed < upto {
					to := upto
					if o.isRsv {
						to = o.echoed + 1 // reservation versions one by one (see the nodenumaresource unit)
					}
					var old interface{} = o.unassigned()
					if o.echoed > 0 {
						old = o.versions[o.echoed-1]
					}
					nw := o.versions[to-1]
					if o.isRsv {
						rhL.OnUpdate(old, nw)
					} else {
						hL.OnUpdate(old, nw)
					}
					c.Op("live informer: update %s %s version %d -> %d", o.kind(), o.name, o.echoed, to)
					c.Count("live_echo_updates", 1)
					o.echoed = to
				}
			}
			unreserve := func(o *c19Obj, why string) {
				pl.Unreserve(ctx, o.cs, o.pod, o.node.name)
				c.Op("unreserve %s %s (%s)", o.kind(), o.name, why)
				c.Count("unreserved", 1)
				if len(o.alloc) > 0 {
					lost++
				}
			}

			nops := r.Range(10, 60)
			if r.Pct(10) {
				nops = r.Range(60, 120)
			}
			for op := 0; op < nops; op++ {
				switch r.Weighted(40, 10, 6, 14, 10, 8, 8) {
				case 0:
					o := schedule()
					if o.state == c19Assumed && r.Pct(75) {
						prebind(o)
						bind(o)
						if r.Pct(50) {
							echo(o, 1)
						}
					}
				case 1:
					if o := pick(func(o *c19Obj) bool { return o.state == c19Assumed || o.state == c19Patched }); o != nil {
						if o.state == c19Assumed {
							prebind(o)
							if r.Pct(35) {
								break
							}
						}
						bind(o)
					}
				case 2:
					if o := pick(func(o *c19Obj) bool { return o.state == c19Assumed || o.state == c19Patched }); o != nil {
						unreserve(o, "bind failed")
						o.state = c19Unreserved
					}
				case 3:
					if o := pick(func(o *c19Obj) bool {
						return (o.state == c19Bound || o.state == c19Terminated) && o.echoed < len(o.versions)
					}); o != nil {
						echo(o, r.Range(o.echoed+1, len(o.versions)))
					}
				case 4:
					if o := pick(func(o *c19Obj) bool { return o.state == c19Bound }); o != nil {
						o.versions = append(o.versions, c19Touch(r, o.latest()))
						c.Op("api: touch %s %s -> version %d", o.kind(), o.name, len(o.versions))
					}
				case 5:
					if o := pick(func(o *c19Obj) bool { return o.state == c19Bound }); o != nil {
						o.versions = append(o.versions, c19Terminate(r, o.latest()))
						o.state = c19Terminated
						c.Op("api: terminate %s %s -> version %d", o.kind(), o.name, len(o.versions))
						c.Count("terminated", 1)
						if len(o.alloc) > 0 {
							lost++
						}
					}
				case 6:
					if o := pick(func(o *c19Obj) bool { return o.state == c19Bound || o.state == c19Terminated }); o != nil {
						if o.state == c19Bound && len(o.alloc) > 0 {
							lost++
						}
						if o.isRsv || r.Bool() {
							echo(o, len(o.versions))
						}
						if o.isRsv {
							rhL.OnDelete(o.latest())
						} else {
							hL.OnDelete(o.latest())
						}
						o.state = c19Deleted
						c.Op("api: delete %s %s (live informer: delete)", o.kind(), o.name)
						c.Count("deleted", 1)
					}
				}
			}
			for try := 0; try < 8; try++ {
				o := pick(func(o *c19Obj) bool { return o.state == c19Assumed || o.state == c19Patched })
				if o == nil {
					o = schedule()
				}
				if o.state == c19Assumed {
					prebind(o)
				}
				if o.state == c19Patched {
					bind(o)
					break
				}
			}
			c.Op("---- cut")
			for _, o := range objs {
				if o.state == c19Assumed || o.state == c19Patched {
					unreserve(o, "in flight at the cut")
				}
			}
			for _, o := range objs {
				if o.state == c19Terminated {
					echo(o, len(o.versions))
				}
			}

			// ---- restart. In 75 % of the cases Devices, then reservations, then pods. In 25 % ("race") the Device add of
			// some nodes falls among the pod / reservation adds and reservations are not ordered before pods: the pod
			// informer factory and the Koordinator factory (Devices, Reservations) are started together
			// (cmd/koord-scheduler/app/server.go), the plugin's ForceSyncFromInformer only registers the handlers. The
			// device cache has to be robust against that order (a pod seen first creates the node entry and books the
			// used amounts, the Device add then recomputes free = total - used): the comparison is the same verdict.
			dcR := newNodeDeviceCache()
			race := r.Pct(25)
			installed := map[string]bool{}
			var devQueues [][]c19Event
			if race {
				c.Count("race_cases", 1)
				lateAny := false
				for i, n := range nodes {
					if r.Pct(70) || (!lateAny && i == len(nodes)-1) {
						lateAny = true
						devQueues = append(devQueues, []c19Event{{dev: n, what: "add Device " + n.name}})
						c.Count("race_nodes_with_late_device_object", 1)
					}
				}
			}
			for _, i := range r.Perm(len(nodes)) {
				late := false
				for _, q := range devQueues {
					if q[0].dev == nodes[i] {
						late = true
					}
				}
				if late {
					continue
				}
				dcR.onDeviceAdd(nodes[i].cr.DeepCopy())
				installed[nodes[i].name] = true
				c.Op("restart informer: add Device %s", nodes[i].name)
			}
			hR := c19PodHandler(dcR)
			rhR := reservationutil.NewReservationToPodEventHandler(hR, reservationutil.IsObjValidActiveReservation)
			queues := map[bool][][]c19Event{}
			qIndex := map[*c19Obj]int{}
			perNode := map[string]int{}
			survivors := 0
			for _, o := range objs {
				var q []c19Event
				switch o.state {
				case c19Bound, c19Terminated:
					last := len(o.versions) - 1
					q = append(q, c19Event{add: true, new: o.versions[last], isRsv: o.isRsv, what: fmt.Sprintf("add %s %s v%d (%s)", o.kind(), o.name, last+1, c19StateNames[o.state])})
					var extra []c19Event
					if r.Pct(20) {
						extra = append(extra, c19Event{add: true, new: o.versions[last], isRsv: o.isRsv, what: fmt.Sprintf("duplicate add %s %s v%d", o.kind(), o.name, last+1)})
					}
					if r.Pct(20) {
						extra = append(extra, c19Event{old: o.versions[last], new: c19Copy(o.versions[last]), isRsv: o.isRsv, what: fmt.Sprintf("no-op update %s %s v%d", o.kind(), o.name, last+1)})
					}
					kit.Shuffle(r, extra)
					q = append(q, extra...)
					if o.holds() {
						survivors++
						perNode[o.node.name]++
					}
					c.Count("replayed_"+o.kind()+"_"+c19StateNames[o.state], 1)
				case c19Assumed, c19Patched, c19Rejected, c19Unreserved:
					obj := o.unassigned()
					if o.patched != nil {
						obj = o.patched
						c.Count("replayed_unbound_with_prebind_patch", 1)
					}
					q = append(q, c19Event{add: true, new: obj, isRsv: o.isRsv, what: fmt.Sprintf("add %s %s (unbound, %s)", o.kind(), o.name, c19StateNames[o.state])})
					if r.Pct(20) {
						q = append(q, c19Event{add: true, new: obj, isRsv: o.isRsv, what: fmt.Sprintf("duplicate add %s %s (unbound)", o.kind(), o.name)})
					}
					c.Count("replayed_"+o.kind()+"_unbound", 1)
				default:
					continue
				}
				for i := range q {
					q[i].obj = o
				}
				qIndex[o] = len(queues[o.isRsv])
				queues[o.isRsv] = append(queues[o.isRsv], q)
			}
			apply := func(ev c19Event) {
				if ev.dev != nil {
					dcR.onDeviceAdd(ev.dev.cr.DeepCopy())
					installed[ev.dev.name] = true
					c.Op("restart informer: %s", ev.what)
					c.Count("replay_events_device_add_among_pods", 1)
					return
				}
				if ev.obj != nil && !ev.del && (ev.obj.state == c19Bound || ev.obj.state == c19Terminated) {
					if installed[ev.obj.node.name] {
						ev.obj.afterDev = true
					} else {
						ev.obj.beforeDev = true
						c.Count("race_events_delivered_before_device_object", 1)
					}
				}
				var h cache.ResourceEventHandler = hR
				if ev.isRsv {
					h = rhR
				}
				switch {
				case ev.del:
					h.OnDelete(ev.old)
				case ev.add:
					h.OnAdd(ev.new, true)
				default:
					h.OnUpdate(ev.old, ev.new)
				}
				c.Op("restart informer: %s", ev.what)
				kind := strings.SplitN(ev.what, " ", 2)[0]
				if strings.HasPrefix(ev.what, "duplicate add") {
					kind = "duplicate_add"
				} else if strings.HasPrefix(ev.what, "no-op update") {
					kind = "noop_update"
				}
				c.Count("replay_events_"+kind, 1)
				c.Seen("replay", kind, ev.isRsv)
			}
			deliver := func(qs [][]c19Event) {
				for {
					var idx []int
					for i, q := range qs {
						if len(q) > 0 {
							idx = append(idx, i)
						}
					}
					if len(idx) == 0 {
						return
					}
					i := kit.Pick(r, idx)
					ev := qs[i][0]
					qs[i] = qs[i][1:]
					apply(ev)
				}
			}
			tail := func() (*c19Obj, *c19Event) {
				switch r.Weighted(40, 35, 25) {
				case 0:
					if o := pick(func(o *c19Obj) bool { return o.state == c19Bound }); o != nil {
						prev := o.latest()
						o.versions = append(o.versions, c19Touch(r, prev))
						echo(o, len(o.versions))
						return o, &c19Event{obj: o, old: prev, new: o.latest(), isRsv: o.isRsv, what: fmt.Sprintf("update %s %s v%d->v%d (touch after the snapshot)", o.kind(), o.name, len(o.versions)-1, len(o.versions))}
					}
				case 1:
					if o := pick(func(o *c19Obj) bool { return o.state == c19Bound }); o != nil {
						prev := o.latest()
						o.versions = append(o.versions, c19Terminate(r, prev))
						o.state = c19Terminated
						echo(o, len(o.versions))
						c.Count("terminated_after_snapshot", 1)
						return o, &c19Event{obj: o, old: prev, new: o.latest(), isRsv: o.isRsv, what: fmt.Sprintf("update %s %s v%d->v%d (terminated after the snapshot)", o.kind(), o.name, len(o.versions)-1, len(o.versions))}
					}
				case 2:
					if o := pick(func(o *c19Obj) bool { return o.state == c19Bound || o.state == c19Terminated }); o != nil {
						echo(o, len(o.versions))
						if o.isRsv {
							rhL.OnDelete(o.latest())
						} else {
							hL.OnDelete(o.latest())
						}
						o.state = c19Deleted
						c.Count("deleted_after_snapshot", 1)
						return o, &c19Event{obj: o, del: true, old: o.latest(), isRsv: o.isRsv, what: fmt.Sprintf("delete %s %s (after the snapshot)", o.kind(), o.name)}
					}
				}
				return nil, nil
			}
			compare := func() {
				for _, n := range nodes {
					c19CompareNode(c, n, objs, dcL, dcR)
				}
			}
			ntail := kit.Pick(r, []int{0, 0, 1, 2, 3, 5})
			deliverAll := func() {
				if race {
					all := append(append(append([][]c19Event{}, queues[true]...), queues[false]...), devQueues...)
					deliver(all)
					return
				}
				deliver(queues[true])
				deliver(queues[false])
			}
			countEarly := func() {
				for _, o := range objs {
					if o.holds() && o.beforeDev && !o.afterDev {
						c.Count("race_holders_delivered_only_before_device_object_compared", 1)
					}
				}
			}
			if r.Bool() {
				deliverAll()
				c.Op("---- comparison after the snapshot")
				compare()
				for i := 0; i < ntail; i++ {
					if _, ev := tail(); ev != nil {
						apply(*ev)
					}
				}
			} else {
				for i := 0; i < ntail; i++ {
					if o, ev := tail(); ev != nil {
						qi := qIndex[o]
						queues[o.isRsv][qi] = append(queues[o.isRsv][qi], *ev)
					}
				}
				deliverAll()
			}
			c.Op("---- final comparison")
			c.Count("surviving_allocations", survivors)
			countEarly()
			compare()
			two := false
			for _, k := range perNode {
				if k >= 2 {
					two = true
				}
			}
			if two && lost > 0 {
				c.NonTrivial()
			}

			if c.K < 2 {
				ops := c.Ops()
				if len(ops) > 14 {
					ops = ops[:14]
				}
				c.Sample(ops)
			}
		})
}
