//go:build verif

package elasticquota

// C19 monitor (unit "quota-plugin-restart"): quota used / request rebuilt by a restarted scheduler, through the
// elasticquota PLUGIN's own handlers, including the delivery order "pods first, their ElasticQuota later".
// See /verif/DESIGN.md section 4, C19; complements harness/C19/quota (package core), which drives the
// GroupQuotaManager directly with quotas always first.
//
// Executed: a Plugin value with a real core.GroupQuotaManager (the fields New() fills that the exercised paths
// read: pluginArgs, groupQuotaManager, quotaToTreeMap, groupQuotaManagersForQuotaTree) driven only through the
// plugin's own entry points:
//   quota object   -> OnQuotaAdd          pod created / later version / deleted -> OnPodAdd / OnPodUpdate / OnPodDelete
//   Reserve / Unreserve -> Plugin.Reserve / Plugin.Unreserve       periodic routine -> migrateDefaultQuotaGroupsPod
// Live scheduler: quotas first, then a history of create / reserve / bind / unreserve / touch / terminate /
// delete with informer echoes; cut after a bind; reserved-but-unbound pods are Unreserved. Restarted scheduler
// (a fresh Plugin): one consistent snapshot of the surviving pods, in one of two modes:
//   * "quotas-first": all ElasticQuota objects, then the pods (20 % duplicate adds, 20 % no-op updates), then
//     watch events; migrateDefaultQuotaGroupsPod is called at the end (nothing to move).
//   * "late-quota": the ElasticQuota of some leaf groups is delivered among / after the pod adds. A pod that
//     arrives before its quota is parked in koordinator-default-quota by the plugin's pod handler
//     (getPodAssociateQuotaNameAndTreeID) and moved by the plugin's periodic migrateDefaultQuotaGroupsPod ->
//     core.MigratePod once the quota exists; the routine is called deterministically (0-2 times in between, once
//     after the last event; no wall clock). Known finding C01/late-quota/event-routed-to-own-quota-while-default-
//     holds-pod is kept out of this mode on purpose: a pod of a late quota gets exactly ONE event (its add)
//     until the final migration has run - no duplicate add, no update, no delete before that. Watch events after
//     the snapshot are delivered after the final migration only.
//
// Oracle, per quota group (declared groups and the default group), after the final migration (and again after
// the watch events): used, non-preemptible used and request of the restarted plugin == the live plugin's
// (Cmp, absent == zero); used of the restarted plugin >= the sum of the requests of the surviving bound, not
// terminated pods of the subtree; no pod whose quota exists is left in the default group's pod cache.
// Signatures of the late-quota mode carry the infix "late-quota/".

import (
	"context"
	"fmt"
	"sort"
	"testing"

	corev1 "k8s.io/api/core/v1"
	"k8s.io/apimachinery/pkg/api/resource"
	metav1 "k8s.io/apimachinery/pkg/apis/meta/v1"
	"k8s.io/apimachinery/pkg/types"
	k8sfeature "k8s.io/apiserver/pkg/util/feature"
	"k8s.io/component-base/featuregate"
	apiresource "k8s.io/component-helpers/resource"
	"k8s.io/klog/v2"

	"github.com/koordinator-sh/koordinator/apis/extension"
	schedv1alpha1 "github.com/koordinator-sh/koordinator/apis/thirdparty/scheduler-plugins/pkg/apis/scheduling/v1alpha1"
	"github.com/koordinator-sh/koordinator/pkg/features"
	"github.com/koordinator-sh/koordinator/pkg/scheduler/apis/config"
	"github.com/koordinator-sh/koordinator/pkg/scheduler/plugins/elasticquota/core"
	kit "github.com/koordinator-sh/koordinator/pkg/verifkit"
)

type c19Discard struct{}

func (c19Discard) Write(p []byte) (int, error) { return len(p), nil }

func c19Quiet() {
	klog.SetOutput(c19Discard{})
	klog.LogToStderr(false)
}

func c19PinGates() func() {
	gates := map[featuregate.Feature]bool{features.ElasticQuotaIgnorePodOverhead: false, features.ElasticQuotaIgnoreTerminatingPod: false,
		features.ElasticQuotaImmediateIgnoreTerminatingPod: false, features.ElasticQuotaGuaranteeUsage: false, features.DisableDefaultQuota: false, features.MultiQuotaTree: false}
	mg := k8sfeature.DefaultMutableFeatureGate
	var restore []string
	for g, v := range gates {
		restore = append(restore, fmt.Sprintf("%s=%v", g, mg.Enabled(g)))
		_ = mg.Set(fmt.Sprintf("%s=%v", g, v))
	}
	return func() {
		for _, s := range restore {
			_ = mg.Set(s)
		}
	}
}

const c19Ext = corev1.ResourceName("example.com/ext")

var c19All = map[corev1.ResourceName]bool{corev1.ResourceCPU: true, corev1.ResourceMemory: true, c19Ext: true}

func c19NewPlugin(scaleMin bool) *Plugin {
	huge := corev1.ResourceList{corev1.ResourceCPU: *resource.NewQuantity(1<<50, resource.DecimalSI), corev1.ResourceMemory: *resource.NewQuantity(1<<60, resource.BinarySI), c19Ext: *resource.NewQuantity(1<<50, resource.DecimalSI)}
	args := &config.ElasticQuotaArgs{DefaultQuotaGroupMax: huge, SystemQuotaGroupMax: huge, QuotaGroupNamespace: "koordinator-system", EnableMinQuotaScale: scaleMin}
	g := &Plugin{
		pluginArgs:                     args,
		groupQuotaManagersForQuotaTree: map[string]*core.GroupQuotaManager{},
		quotaToTreeMap:                 map[string]string{extension.DefaultQuotaName: "", extension.SystemQuotaName: ""},
		quotaSnapshot:                  map[string]*core.QuotaSnapshot{},
		quotaToTreeMapSnapshot:         map[string]string{},
	}
	g.groupQuotaManager = core.NewGroupQuotaManager("", scaleMin, huge, huge)
	return g
}

type c19Group struct {
	name, parent string
	isParent     bool
	ext          bool
	noMem        bool
	smallMax     bool
	min          int64
	weight       int
	noLent       bool
}

func (g *c19Group) object() *schedv1alpha1.ElasticQuota {
	huge := corev1.ResourceList{corev1.ResourceCPU: *resource.NewQuantity(1<<40, resource.DecimalSI), corev1.ResourceMemory: *resource.NewQuantity(1<<55, resource.BinarySI)}
	if g.ext {
		huge[c19Ext] = *resource.NewQuantity(1<<40, resource.DecimalSI)
	}
	if g.smallMax {
		huge[corev1.ResourceCPU] = *resource.NewQuantity(2, resource.DecimalSI)
	}
	if g.noMem {
		delete(huge, corev1.ResourceMemory)
	}
	q := &schedv1alpha1.ElasticQuota{
		ObjectMeta: metav1.ObjectMeta{Name: g.name, Namespace: "ns", ResourceVersion: "1", Labels: map[string]string{extension.LabelQuotaParent: g.parent}, Annotations: map[string]string{}},
		Spec:       schedv1alpha1.ElasticQuotaSpec{Max: huge, Min: corev1.ResourceList{}},
	}
	if g.min > 0 {
		q.Spec.Min[corev1.ResourceCPU] = *resource.NewQuantity(g.min, resource.DecimalSI)
	}
	if g.isParent {
		q.Labels[extension.LabelQuotaIsParent] = "true"
	}
	if g.noLent {
		q.Labels[extension.LabelAllowLentResource] = "false"
	}
	if g.weight > 0 {
		q.Annotations[extension.AnnotationSharedWeight] = fmt.Sprintf(`{"cpu":%d,"memory":%d}`, g.weight, g.weight*7)
	}
	return q
}

const (
	c19Pending = iota
	c19Assumed
	c19Bound
	c19Terminated
	c19Deleted
)

var c19StateNames = []string{"pending", "assumed", "bound", "terminated", "deleted"}

type c19Pod struct {
	name     string
	group    string
	state    int
	pending  *corev1.Pod
	versions []*corev1.Pod
	echoed   int
	req      corev1.ResourceList
	nonPre   bool
}

func (p *c19Pod) latest() *corev1.Pod {
	if len(p.versions) == 0 {
		return p.pending
	}
	return p.versions[len(p.versions)-1]
}

func c19RL(rl corev1.ResourceList) string {
	names := make([]string, 0, len(rl))
	for n := range rl {
		names = append(names, string(n))
	}
	sort.Strings(names)
	s := "{"
	for _, n := range names {
		q := rl[corev1.ResourceName(n)]
		if !q.IsZero() {
			s += n + ":" + q.String() + " "
		}
	}
	return s + "}"
}

func c19Add(dst, src corev1.ResourceList, names map[corev1.ResourceName]bool) {
	for n, q := range src {
		if !names[n] || q.IsZero() {
			continue
		}
		cur := dst[n]
		cur.Add(q)
		dst[n] = cur
	}
}

func c19Diff(a, b corev1.ResourceList) (string, string, string, int) {
	names := map[string]bool{}
	for n := range a {
		names[string(n)] = true
	}
	for n := range b {
		names[string(n)] = true
	}
	ks := make([]string, 0, len(names))
	for n := range names {
		ks = append(ks, n)
	}
	sort.Strings(ks)
	for _, n := range ks {
		qa, qb := a[corev1.ResourceName(n)], b[corev1.ResourceName(n)]
		if s := qb.Cmp(qa); s != 0 {
			return n, qa.String(), qb.String(), s
		}
	}
	return "", "", "", 0
}

type c19Event struct {
	kind     string // add, duplicate_add, noop_update, update, delete, quota_add, migrate
	old, new *corev1.Pod
	pod      *c19Pod
	group    *c19Group
}

func TestVerifC19QuotaPluginRestart(t *testing.T) {
	c19Quiet()
	defer c19PinGates()()
	ctx := context.TODO()
	kit.Run(t, kit.Config{Property: "C19", Unit: "quota-plugin-restart", Quick: 3000, Thorough: 60000,
		Rule: "a quota tree of 1-8 groups (0-3 nested parents, depth up to 4, min / small max / weight / no-lent / memory not declared, default and system group as targets) and 20-60 operations over 4-12 pods issued through the elasticquota Plugin's own handlers (OnQuotaAdd, OnPodAdd/Update/Delete, Reserve, Unreserve); cut after a bind; reserved-but-unbound pods unreserved; a fresh Plugin gets the surviving objects either quotas-first (pods in random order, 20% duplicate adds, 20% no-op updates) or in the late-quota order (the ElasticQuota of some leaf groups among / after the pod adds, pods parked in the default group and moved by the plugin's migrateDefaultQuotaGroupsPod, called deterministically), then watch events; used / non-preemptible used / request per group compared with the live plugin's; distinct = (mode, #groups, depth, #late groups, #pods parked, state mix, event kind); non-trivial = late-quota case in which at least one bound pod was parked in the default group and migrated"},
		func(c *kit.Case) {
			r := c.R
			scaleMin := r.Bool()
			maxPods := kit.Pick(r, []int{12, 12, 12, 20})
			live := c19NewPlugin(scaleMin)
			// ---- quota tree
			var groups []*c19Group
			ngroups := kit.Pick(r, []int{1, 2, 3, 3, 4, 4, 5, 6, 6, 8})
			nparents := c19Min(r.Range(0, 3), ngroups-1)
			for i := 0; i < ngroups; i++ {
				g := &c19Group{name: fmt.Sprintf("q%d", i), parent: extension.RootQuotaName, isParent: i < nparents, ext: r.Pct(40)}
				if i > 0 && nparents > 0 && r.Pct(70) {
					g.parent = groups[r.Intn(c19Min(i, nparents))].name // parents may nest: depth up to 4
				}
				if !g.isParent {
					g.noMem = r.Pct(12)
					g.smallMax = r.Pct(25)
				}
				if r.Pct(25) {
					g.min = 1
				}
				if g.isParent && r.Pct(50) {
					g.min = 16
				}
				if r.Pct(25) {
					g.weight = r.Range(1, 9)
				}
				g.noLent = r.Pct(20)
				groups = append(groups, g)
			}
			byName := map[string]*c19Group{}
			var leaves []string
			for _, g := range groups {
				byName[g.name] = g
				live.OnQuotaAdd(g.object())
				if live.groupQuotaManager.GetQuotaInfoByName(g.name) == nil {
					c.Harness("live plugin did not accept quota %s", g.name)
				}
				c.Op("quota %s parent=%s isParent=%v ext=%v (OnQuotaAdd)", g.name, g.parent, g.isParent, g.ext)
				if !g.isParent {
					leaves = append(leaves, g.name)
				}
			}
			if r.Pct(25) || len(leaves) == 0 {
				leaves = append(leaves, extension.DefaultQuotaName)
			}
			if r.Pct(10) {
				leaves = append(leaves, extension.SystemQuotaName)
			}
			declared := func(name string) map[corev1.ResourceName]bool {
				m := map[corev1.ResourceName]bool{corev1.ResourceCPU: true, corev1.ResourceMemory: true}
				if g := byName[name]; g == nil || g.ext {
					m[c19Ext] = true
				}
				if g := byName[name]; g != nil && g.noMem {
					delete(m, corev1.ResourceMemory)
				}
				return m
			}
			chain := func(leaf string) []string {
				out := []string{leaf}
				for g := byName[leaf]; g != nil && g.parent != extension.RootQuotaName; g = byName[g.parent] {
					out = append(out, g.parent)
				}
				return out
			}
			// ---- pods, live history
			var pods []*c19Pod
			seq := 0
			newPod := func() *c19Pod {
				p := &c19Pod{name: fmt.Sprintf("p%d", seq), group: kit.Pick(r, leaves), nonPre: r.Pct(20)}
				seq++
				p.req = corev1.ResourceList{corev1.ResourceCPU: *resource.NewMilliQuantity(kit.Pick(r, []int64{1, 250, 500, 1000, 1500, 4000, 64000}), resource.DecimalSI)}
				if r.Pct(70) {
					p.req[corev1.ResourceMemory] = *resource.NewQuantity(kit.Pick(r, []int64{1, 1 << 20, 1<<30 + 1, 3 << 30, 1 << 40}), resource.BinarySI)
				}
				if r.Pct(30) {
					p.req[c19Ext] = *resource.NewQuantity(int64(r.Range(1, 8)), resource.DecimalSI)
				}
				labels := map[string]string{extension.LabelQuotaName: p.group}
				if p.nonPre {
					labels[extension.LabelPreemptible] = "false"
				}
				p.pending = &corev1.Pod{
					ObjectMeta: metav1.ObjectMeta{Namespace: "ns", Name: p.name, UID: types.UID("uid-" + p.name), ResourceVersion: "1", Labels: labels},
					Spec:       corev1.PodSpec{Containers: []corev1.Container{{Name: "main", Resources: corev1.ResourceRequirements{Requests: p.req.DeepCopy(), Limits: p.req.DeepCopy()}}}},
				}
				if r.Pct(20) {
					side := corev1.ResourceList{corev1.ResourceCPU: *resource.NewMilliQuantity(100, resource.DecimalSI)}
					p.pending.Spec.Containers = append(p.pending.Spec.Containers, corev1.Container{Name: "side", Resources: corev1.ResourceRequirements{Requests: side}})
				}
				if r.Pct(10) {
					p.pending.Spec.InitContainers = []corev1.Container{{Name: "init", Resources: corev1.ResourceRequirements{Requests: corev1.ResourceList{corev1.ResourceCPU: *resource.NewQuantity(128, resource.DecimalSI)}}}}
				}
				if r.Pct(10) {
					p.pending.Spec.Overhead = corev1.ResourceList{corev1.ResourceCPU: *resource.NewMilliQuantity(50, resource.DecimalSI), corev1.ResourceMemory: *resource.NewQuantity(1<<20, resource.BinarySI)}
				}
				p.req = apiresource.PodRequests(p.pending, apiresource.PodResourcesOptions{}) // the Kubernetes rule: containers, init containers, overhead
				pods = append(pods, p)
				live.OnPodAdd(p.pending)
				c.Op("create pod %s in %s req=%s nonPreemptible=%v (OnPodAdd)", p.name, p.group, c19RL(p.req), p.nonPre)
				return p
			}
			pick := func(pred func(p *c19Pod) bool) *c19Pod {
				var cand []*c19Pod
				for _, p := range pods {
					if pred(p) {
						cand = append(cand, p)
					}
				}
				if len(cand) == 0 {
					return nil
				}
				return kit.Pick(r, cand)
			}
			next := func(p *c19Pod, mut func(*corev1.Pod)) {
				nv := p.latest().DeepCopy()
				nv.ResourceVersion += "1"
				mut(nv)
				p.versions = append(p.versions, nv)
			}
			reserve := func(p *c19Pod) {
				if st := live.Reserve(ctx, nil, p.pending, "n0"); !st.IsSuccess() {
					c.Harness("Reserve: %v", st.Message())
				}
				p.state = c19Assumed
				c.Op("reserve %s (Plugin.Reserve)", p.name)
			}
			bind := func(p *c19Pod) {
				next(p, func(nv *corev1.Pod) { nv.Spec.NodeName = "n0" })
				p.state = c19Bound
				c.Op("bind %s", p.name)
				c.Count("binds", 1)
			}
			echo := func(p *c19Pod, upto int) {
				if upto <= p.echoed {
					return
				}
				old := p.pending
				if p.echoed > 0 {
					old = p.versions[p.echoed-1]
				}
				live.OnPodUpdate(old, p.versions[upto-1])
				c.Op("live informer: update %s version %d -> %d (OnPodUpdate)", p.name, p.echoed, upto)
				p.echoed = upto
			}
			terminate := func(p *c19Pod) {
				next(p, func(nv *corev1.Pod) {
					nv.Status.Phase = kit.Pick(r, []corev1.PodPhase{corev1.PodSucceeded, corev1.PodFailed})
				})
				p.state = c19Terminated
				c.Op("api: terminate %s -> version %d", p.name, len(p.versions))
				c.Count("terminated", 1)
			}
			del := func(p *c19Pod) {
				echo(p, len(p.versions))
				live.OnPodDelete(p.latest())
				p.state = c19Deleted
				c.Op("api: delete %s (OnPodDelete)", p.name)
				c.Count("deleted", 1)
			}
			unreserve := func(p *c19Pod, why string) {
				live.Unreserve(ctx, nil, p.pending, "n0")
				p.state = c19Pending
				c.Op("unreserve %s (%s)", p.name, why)
				c.Count("unreserved", 1)
			}
			for i, n := 0, r.Range(2, 4); i < n; i++ {
				newPod()
			}
			nops := r.Range(20, 60)
			for op := 0; op < nops; op++ {
				switch r.Weighted(14, 28, 10, 6, 14, 10, 10, 8, 4) {
				case 8: // the pod's quota label is changed while it runs
					if p := pick(func(p *c19Pod) bool { return p.state == c19Bound }); p != nil && len(leaves) > 1 {
						to := kit.Pick(r, leaves)
						if to == p.group {
							break
						}
						echo(p, len(p.versions))
						prev := p.latest()
						next(p, func(nv *corev1.Pod) { nv.Labels[extension.LabelQuotaName] = to })
						live.OnPodUpdate(prev, p.latest())
						c.Op("api: relabel %s from %s to %s -> version %d (OnPodUpdate)", p.name, p.group, to, len(p.versions))
						p.group = to
						p.echoed = len(p.versions)
						c.Count("pods_relabelled_to_another_group", 1)
					}
				case 0:
					if len(pods) < maxPods {
						newPod()
					}
				case 1:
					if p := pick(func(p *c19Pod) bool { return p.state == c19Pending }); p != nil {
						reserve(p)
						if r.Pct(75) {
							bind(p)
							if r.Bool() {
								echo(p, 1)
							}
						}
					}
				case 2:
					if p := pick(func(p *c19Pod) bool { return p.state == c19Assumed }); p != nil {
						bind(p)
					}
				case 3:
					if p := pick(func(p *c19Pod) bool { return p.state == c19Assumed }); p != nil {
						unreserve(p, "bind failed")
					}
				case 4:
					if p := pick(func(p *c19Pod) bool {
						return (p.state == c19Bound || p.state == c19Terminated) && p.echoed < len(p.versions)
					}); p != nil {
						echo(p, r.Range(p.echoed+1, len(p.versions)))
					}
				case 5:
					if p := pick(func(p *c19Pod) bool { return p.state == c19Bound }); p != nil {
						next(p, func(nv *corev1.Pod) {
							nv.Labels["touched"] = nv.ResourceVersion
							if r.Pct(12) && nv.DeletionTimestamp == nil {
								ts := metav1.Unix(1700000000, 0) // terminating; the ignore-terminating gates are off
								nv.DeletionTimestamp = &ts
							}
						})
						c.Op("api: touch %s -> version %d", p.name, len(p.versions))
					}
				case 6:
					if p := pick(func(p *c19Pod) bool { return p.state == c19Bound }); p != nil {
						terminate(p)
					}
				case 7:
					if p := pick(func(p *c19Pod) bool { return p.state == c19Bound || p.state == c19Terminated || p.state == c19Pending }); p != nil {
						del(p)
					}
				}
			}
			{ // the cut comes right after a bind
				p := pick(func(p *c19Pod) bool { return p.state == c19Assumed })
				if p == nil {
					if p = pick(func(p *c19Pod) bool { return p.state == c19Pending }); p == nil {
						p = newPod()
					}
					reserve(p)
				}
				bind(p)
			}
			c.Op("---- cut")
			for _, p := range pods {
				if p.state == c19Assumed {
					unreserve(p, "in flight at the cut")
				}
			}
			for _, p := range pods {
				if p.state == c19Bound || p.state == c19Terminated {
					echo(p, len(p.versions)) // the live plugin has seen everything that happened before the cut
				}
			}

			// ---- restart
			fresh := c19NewPlugin(scaleMin)
			lateMode := r.Pct(60)
			sigp := "C19/quota-plugin/"
			mode := "quotas-first"
			late := map[string]bool{}
			if lateMode {
				sigp += "late-quota/"
				mode = "late-quota"
				for _, g := range groups {
					if !g.isParent && r.Pct(60) {
						late[g.name] = true
					}
				}
				if len(late) == 0 {
					for _, g := range groups {
						if !g.isParent {
							late[g.name] = true
							break
						}
					}
				}
				c.Count("late_quota_cases", 1)
				c.Count("late_quota_groups", len(late))
			}
			order := append([]*c19Group(nil), groups...)
			kit.Shuffle(r, order)
			sort.SliceStable(order, func(i, j int) bool { return len(chain(order[i].name)) < len(chain(order[j].name)) }) // parents before children
			var queues [][]c19Event
			for _, g := range order {
				if late[g.name] {
					queues = append(queues, []c19Event{{kind: "quota_add", group: g}})
					continue
				}
				fresh.OnQuotaAdd(g.object())
				c.Op("restart informer: add quota %s", g.name)
			}
			qIndex := map[*c19Pod]int{}
			for _, p := range pods {
				if p.state == c19Deleted {
					continue
				}
				q := []c19Event{{kind: "add", new: p.latest(), pod: p}}
				if !late[p.group] { // a pod of a late quota gets exactly one event before the final migration
					var extra []c19Event
					if r.Pct(20) {
						extra = append(extra, c19Event{kind: "duplicate_add", new: p.latest(), pod: p})
					}
					if r.Pct(20) {
						nv := p.latest().DeepCopy()
						nv.ResourceVersion += "7"
						extra = append(extra, c19Event{kind: "noop_update", old: p.latest(), new: nv, pod: p})
					}
					kit.Shuffle(r, extra)
					q = append(q, extra...)
				}
				qIndex[p] = len(queues)
				queues = append(queues, q)
				c.Count("replayed_"+c19StateNames[p.state], 1)
			}
			if lateMode {
				for i, n := 0, r.Range(0, 2); i < n; i++ {
					queues = append(queues, []c19Event{{kind: "migrate"}})
				}
			}
			known := map[string]bool{}
			for _, g := range groups {
				known[g.name] = !late[g.name]
			}
			parked, parkedBound := 0, 0
			apply := func(ev c19Event) {
				switch ev.kind {
				case "quota_add":
					fresh.OnQuotaAdd(ev.group.object())
					known[ev.group.name] = true
					c.Op("restart informer: add quota %s (after %d pods were parked in the default group)", ev.group.name, parked)
					c.Count("replay_events_quota_add_among_pods", 1)
					return
				case "migrate":
					fresh.migrateDefaultQuotaGroupsPod()
					c.Op("restart: migrateDefaultQuotaGroupsPod")
					c.Count("migrate_calls", 1)
					return
				case "add", "duplicate_add":
					if ev.kind == "add" && byName[ev.pod.group] != nil && !known[ev.pod.group] {
						parked++
						c.Count("pods_parked_in_default_group", 1)
						if ev.pod.state == c19Bound {
							parkedBound++
							c.Count("bound_pods_parked_in_default_group", 1)
						}
					}
					fresh.OnPodAdd(ev.new)
				case "delete":
					fresh.OnPodDelete(ev.old)
				default:
					fresh.OnPodUpdate(ev.old, ev.new)
				}
				c.Op("restart informer: %s %s (%s, group %s)", ev.kind, ev.pod.name, c19StateNames[ev.pod.state], ev.pod.group)
				c.Count("replay_events_"+ev.kind, 1)
				c.Seen("replay", mode, ev.kind, c19StateNames[ev.pod.state])
			}
			for {
				var idx []int
				for i, q := range queues {
					if len(q) > 0 {
						idx = append(idx, i)
					}
				}
				if len(idx) == 0 {
					break
				}
				i := kit.Pick(r, idx)
				ev := queues[i][0]
				queues[i] = queues[i][1:]
				apply(ev)
			}
			apply(c19Event{kind: "migrate"}) // the periodic routine has run after the last event
			_ = qIndex

			compare := func(where string) {
				names := []string{extension.DefaultQuotaName}
				for _, g := range groups {
					names = append(names, g.name)
				}
				for _, name := range names {
					qL, qR := live.groupQuotaManager.GetQuotaInfoByName(name), fresh.groupQuotaManager.GetQuotaInfoByName(name)
					if qL == nil || qR == nil {
						c.Fail(sigp+"group-missing", "%s: group %s: known to the live plugin=%v, to the restarted one=%v", where, name, qL != nil, qR != nil)
					}
					exp := corev1.ResourceList{}
					for _, p := range pods {
						if p.state != c19Bound {
							continue
						}
						in := false
						for _, gname := range chain(p.group) {
							if gname == name {
								in = true
							}
						}
						if in {
							c19Add(exp, p.req, declared(p.group))
						}
					}
					usedL, usedR := qL.GetUsed(), qR.GetUsed()
					for n, q := range exp {
						got := usedR[n]
						if got.Cmp(q) < 0 {
							c.Fail(sigp+"used-free-after-restart", "%s (%s): group %s %s: the surviving bound pods request %s, the restarted plugin accounts only %s as used (request %s)", where, mode, name, n, q.String(), got.String(), c19RL(qR.GetRequest()))
						}
					}
					if n, a, b, _ := c19Diff(usedL, usedR); n != "" {
						c.Fail(sigp+"used", "%s (%s): group %s %s: used is %s in the live plugin and %s in the restarted one", where, mode, name, n, a, b)
					}
					if n, a, b, _ := c19Diff(qL.GetNonPreemptibleUsed(), qR.GetNonPreemptibleUsed()); n != "" {
						c.Fail(sigp+"non-preemptible-used", "%s (%s): group %s %s: non-preemptible used is %s in the live plugin and %s in the restarted one", where, mode, name, n, a, b)
					}
					if n, a, b, _ := c19Diff(qL.GetRequest(), qR.GetRequest()); n != "" {
						c.Fail(sigp+"request", "%s (%s): group %s %s: request is %s in the live plugin and %s in the restarted one", where, mode, name, n, a, b)
					}
					c.Count("group_comparisons", 1)
				}
				for _, pod := range fresh.groupQuotaManager.GetQuotaInfoByName(extension.DefaultQuotaName).GetPodCache() {
					if qn := extension.GetQuotaName(pod); qn != extension.DefaultQuotaName && fresh.groupQuotaManager.GetQuotaInfoByName(qn) != nil {
						c.Fail(sigp+"pod-left-in-default-quota", "%s (%s): pod %s of group %s is still held by the default group after migrateDefaultQuotaGroupsPod", where, mode, pod.Name, qn)
					}
				}
			}
			c.Op("---- comparison after the snapshot and the migration")
			compare("after the snapshot")
			// watch events after the snapshot, delivered after the final migration, fed to the live plugin too
			for i, n := 0, kit.Pick(r, []int{0, 0, 1, 2, 3, 5}); i < n; i++ {
				switch r.Weighted(40, 35, 25) {
				case 0:
					if p := pick(func(p *c19Pod) bool { return p.state == c19Bound }); p != nil {
						prev := p.latest()
						next(p, func(nv *corev1.Pod) { nv.Labels["touched"] = nv.ResourceVersion })
						echo(p, len(p.versions))
						apply(c19Event{kind: "update", old: prev, new: p.latest(), pod: p})
					}
				case 1:
					if p := pick(func(p *c19Pod) bool { return p.state == c19Bound }); p != nil {
						prev := p.latest()
						terminate(p)
						echo(p, len(p.versions))
						apply(c19Event{kind: "update", old: prev, new: p.latest(), pod: p})
					}
				case 2:
					if p := pick(func(p *c19Pod) bool { return p.state != c19Deleted }); p != nil {
						old := p.latest()
						del(p)
						apply(c19Event{kind: "delete", old: old, pod: p})
					}
				}
			}
			c.Op("---- final comparison")
			compare("final")
			depth := 1
			for _, g := range groups {
				if d := len(chain(g.name)); d > depth {
					depth = d
				}
			}
			c.Seen(mode, len(groups), depth, len(late), c19Min(parked, 4), c19Min(parkedBound, 3))
			if lateMode && parkedBound > 0 {
				c.NonTrivial()
			}
			if c.K < 2 {
				ops := c.Ops()
				if len(ops) > 14 {
					ops = ops[:14]
				}
				c.Sample(ops)
			}
		})
}

func c19Min(a, b int) int {
	if a < b {
		return a
	}
	return b
}
