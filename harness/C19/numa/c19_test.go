//go:build verif

package nodenumaresource

// C19 monitor (unit "numa-restart"): CPU-set / per-NUMA allocation state survives a scheduler restart.
// See /verif/DESIGN.md section 4, C19.
//
// What is executed. A "live" scheduler = the package's real Plugin (built once with the package's own
// test suite) working on a fresh resourceManager + TopologyOptionsManager per case. Every allocation
// goes through the plugin's own scheduling-cycle methods in the order the framework calls them:
//     PreFilter -> Filter (incl. the real NUMA topology manager admit) -> Reserve -> PreBind -> bind
// PreBind / PreBindReservation (= preBindObject) write the resource-status / resource-spec annotations
// onto the object; nothing of that is re-implemented here. "bind" = the API server sets
// spec.nodeName (pods) / status.nodeName + phase Available (reservations).
// At the cut the surviving API objects are replayed into a FRESH resourceManager through the real
// podEventHandler (pods) and the real ReservationToPodEventHandler+filter in front of it
// (reservations), exactly the handler chain registerPodEventHandler installs.
//
// Causal rules of the generated histories (what the real system can produce):
//   * An object is scheduled at most once at a time; Reserve commits the allocation in the live
//     manager (assumed). An assumed object is then either pre-bound + bound, or unreserved (bind
//     failure), or still in flight at the cut. A crash can also fall between the PreBind patch and
//     the bind: such an object survives WITH the annotations but WITHOUT a node name.
//   * Only BOUND objects survive a restart as holders of an allocation: every object still assumed
//     at the cut is Unreserved in the live scheduler before the comparison (DESIGN soundness note).
//   * After the bind the object gets further versions (metadata/status updates that do not touch
//     the allocation; termination: pod phase Succeeded/Failed, reservation phase Succeeded/Failed);
//     bound objects may be deleted. The allocation annotation never changes once written.
//   * The live scheduler's own informer echoes these versions in version order, possibly
//     compressed, possibly late: the echo of a plain bind / metadata update may not have arrived at
//     the cut, but termination and deletion events are flushed to the live scheduler before the
//     comparison (otherwise the live scheduler is simply behind and nothing can be compared).
//   * Restart delivery: one consistent LIST snapshot taken after the crash (each surviving object once,
//     in its latest version, arbitrary order within a kind), 20 % duplicate Adds and 20 % no-op Updates
//     of that version, then watch events in per-object version order. Across kinds: in 75 % of the
//     cases topologies first, then reservations, then pods; in 25 % ("race") the NodeResourceTopology
//     add of some nodes falls among the pod / reservation adds, as the start-up pipeline of this tree
//     allows (cmd/koord-scheduler/app/server.go starts the three informer factories together; the
//     plugins' ForceSyncFromInformer only registers the handler). Nothing is re-delivered unless an
//     event for it is generated.
//
// Oracle (never reads the wall clock): after the replay, per node
//   live NodeAllocation  ==  replayed NodeAllocation   (pods, per-pod cpuset and per-NUMA amounts,
//                                                       per-CPU ref counts, per-NUMA totals, NUMA
//                                                       single/shared status, available CPUs/amounts)
//   replayed ref count of every CPU == number of surviving bound objects whose allocation (as returned
//   by Reserve and recorded by the harness) contains it; in particular free_replayed ⊆ free_live.
// Equality is semantic: CPU sets as sets, quantities by Cmp, absent == zero, an allocation with no
// CPU and no non-zero amount == no allocation (counted, see empty_allocations_*).

import (
	"context"
	"encoding/json"
	"fmt"
	"sort"
	"strings"
	"sync"
	"testing"

	corev1 "k8s.io/api/core/v1"
	"k8s.io/apimachinery/pkg/api/resource"
	metav1 "k8s.io/apimachinery/pkg/apis/meta/v1"
	"k8s.io/apimachinery/pkg/types"
	"k8s.io/client-go/tools/cache"
	apiresource "k8s.io/component-helpers/resource"
	"k8s.io/klog/v2"
	fwktype "k8s.io/kube-scheduler/framework"
	"k8s.io/kubernetes/pkg/scheduler/framework"
	"k8s.io/utils/ptr"

	"github.com/koordinator-sh/koordinator/apis/extension"
	schedulingv1alpha1 "github.com/koordinator-sh/koordinator/apis/scheduling/v1alpha1"
	schedulingconfig "github.com/koordinator-sh/koordinator/pkg/scheduler/apis/config"
	"github.com/koordinator-sh/koordinator/pkg/util/cpuset"
	reservationutil "github.com/koordinator-sh/koordinator/pkg/util/reservation"
	kit "github.com/koordinator-sh/koordinator/pkg/verifkit"
)

func init() {
	klog.SetOutput(c19Discard{})
	klog.LogToStderr(false)
}

type c19Discard struct{}

func (c19Discard) Write(p []byte) (int, error) { return len(p), nil }

// ---------------------------------------------------------------------------------------------
// the plugin (built once per process with the package's own suite; every case installs fresh managers)

var (
	c19Once   sync.Once
	c19Pl     *Plugin
	c19Lister *testSharedLister
	c19Args   *schedulingconfig.NodeNUMAResourceArgs
)

var c19NodeNames = []string{"n0", "n1", "n2"}

func c19Plugin(t *testing.T) (*Plugin, *testSharedLister) {
	c19Once.Do(func() {
		var nodes []*corev1.Node
		for _, n := range c19NodeNames {
			nodes = append(nodes, &corev1.Node{ObjectMeta: metav1.ObjectMeta{Name: n}})
		}
		suit := newPluginTestSuit(t, nil, nodes)
		p, err := suit.proxyNew(context.TODO(), suit.nodeNUMAResourceArgs, suit.Handle)
		if err != nil {
			t.Fatalf("cannot build the nodenumaresource plugin: %v", err)
		}
		c19Pl = p.(*Plugin)
		c19Args = c19Pl.pluginArgs
		l, ok := suit.Handle.SnapshotSharedLister().(*testSharedLister)
		if !ok {
			t.Fatalf("unexpected snapshot lister %T", suit.Handle.SnapshotSharedLister())
		}
		c19Lister = l
	})
	return c19Pl, c19Lister
}

// ---------------------------------------------------------------------------------------------
// nodes / topologies

type c19Node struct {
	name     string
	desc     string
	topo     *CPUTopology
	maxRef   int
	reserved cpuset.CPUSet
	numaRes  []NUMANodeResource
	obj      *corev1.Node
	memPer   int64

	hugepages         bool
	kubeletPolicy     *extension.KubeletCPUManagerPolicy
	kubeletNUMAPolicy extension.NUMATopologyPolicy
}

const c19Huge = corev1.ResourceName("hugepages-2Mi")

func c19GenNode(r *kit.Rand, name string) *c19Node {
	sockets := kit.Pick(r, []int{1, 1, 1, 2, 2, 2, 3, 4})
	nodesPerSocket := kit.Pick(r, []int{1, 1, 1, 2, 2, 4})
	coresPerNode := kit.Pick(r, []int{1, 2, 3, 4, 5, 6, 7, 8, 16})
	threads := kit.Pick(r, []int{1, 2, 2, 2, 4})
	for sockets*nodesPerSocket > 6 { // the topology manager's hint merge is exponential in #NUMA nodes x #resources
		nodesPerSocket /= 2
	}
	for sockets*nodesPerSocket*coresPerNode*threads > 192 { // keep a case cheap
		coresPerNode = (coresPerNode + 1) / 2
	}
	sparse := r.Pct(40)
	// CPU ids need not start at 0 and may have holes (offline cores)
	base := 0
	if r.Pct(15) {
		base = r.Range(1, 64)
	}
	offline := -1
	b := NewCPUTopologyBuilder()
	cores := sockets * nodesPerSocket * coresPerNode
	if r.Pct(12) && cores > 2 {
		offline = r.Intn(cores)
	}
	coreID := 0
	for s := 0; s < sockets; s++ {
		for n := 0; n < nodesPerSocket; n++ {
			nodeID := s*nodesPerSocket + n
			for c := 0; c < coresPerNode; c++ {
				for p := 0; p < threads && coreID != offline; p++ {
					cpuID := coreID*threads + p
					if sparse {
						cpuID = p*cores + coreID // thread siblings are cpu and cpu+cores (usual Linux numbering)
					}
					b.AddCPUInfo(s, nodeID, coreID, base+cpuID)
				}
				coreID++
			}
		}
	}
	n := &c19Node{name: name, topo: b.Result(), maxRef: kit.Pick(r, []int{1, 1, 1, 1, 1, 1, 1, 2, 2, 3})}
	n.desc = fmt.Sprintf("%dx%dx%dx%d sparse=%v base=%d offlineCore=%d", sockets, nodesPerSocket, coresPerNode, threads, sparse, base, offline)
	n.reserved = cpuset.NewCPUSet()
	if r.Pct(30) {
		rb := cpuset.NewCPUSetBuilder()
		for _, id := range n.topo.CPUDetails.CPUs().ToSlice() {
			if r.Pct(10) {
				rb.Add(id)
			}
		}
		n.reserved = rb.Result()
	}
	n.memPer = kit.Pick(r, []int64{64, 100, 1 << 20, 1<<30 + 1, 3 << 30, 1 << 40})
	n.hugepages = r.Pct(25)
	memless := -1
	if n.topo.NumNodes > 1 && r.Pct(10) {
		memless = r.Intn(n.topo.NumNodes) // a NUMA node without memory of its own
	}
	for i := 0; i < n.topo.NumNodes; i++ {
		rl := corev1.ResourceList{
			corev1.ResourceCPU:    *resource.NewMilliQuantity(int64(n.topo.CPUDetails.CPUsInNUMANodes(i).Size())*1000, resource.DecimalSI),
			corev1.ResourceMemory: *resource.NewQuantity(n.memPer, resource.BinarySI),
		}
		if i == memless {
			rl[corev1.ResourceMemory] = *resource.NewQuantity(0, resource.BinarySI)
		}
		if n.hugepages {
			rl[c19Huge] = *resource.NewQuantity(int64(r.Range(0, 8))<<21, resource.BinarySI)
		}
		n.numaRes = append(n.numaRes, NUMANodeResource{Node: i, Resources: rl})
	}
	if r.Pct(8) {
		n.kubeletPolicy = &extension.KubeletCPUManagerPolicy{Policy: extension.KubeletCPUManagerPolicyStatic, Options: map[string]string{extension.KubeletCPUManagerPolicyFullPCPUsOnlyOption: "true"}}
	}
	if r.Pct(8) {
		n.kubeletNUMAPolicy = kit.Pick(r, []extension.NUMATopologyPolicy{extension.NUMATopologyPolicyBestEffort, extension.NUMATopologyPolicyRestricted, extension.NUMATopologyPolicySingleNUMANode})
	}
	labels := map[string]string{}
	if p := kit.Pick(r, []extension.NUMATopologyPolicy{"", "", "", extension.NUMATopologyPolicyBestEffort, extension.NUMATopologyPolicyRestricted, extension.NUMATopologyPolicySingleNUMANode, extension.NUMATopologyPolicySingleNUMANode}); p != "" {
		labels[extension.LabelNUMATopologyPolicy] = string(p)
	}
	if p := kit.Pick(r, []extension.NodeCPUBindPolicy{"", "", "", "", "", extension.NodeCPUBindPolicyFullPCPUsOnly, extension.NodeCPUBindPolicySpreadByPCPUs}); p != "" {
		labels[extension.LabelNodeCPUBindPolicy] = string(p)
	}
	if r.Pct(20) {
		labels[extension.LabelNodeNUMAAllocateStrategy] = string(kit.Pick(r, []extension.NUMAAllocateStrategy{extension.NUMAMostAllocated, extension.NUMALeastAllocated, extension.NUMADistributeEvenly}))
	}
	n.obj = &corev1.Node{
		ObjectMeta: metav1.ObjectMeta{Name: name, Labels: labels},
		Status: corev1.NodeStatus{Allocatable: corev1.ResourceList{
			corev1.ResourceCPU:    *resource.NewQuantity(int64(n.topo.NumCPUs), resource.DecimalSI),
			corev1.ResourceMemory: *resource.NewQuantity(n.memPer*int64(n.topo.NumNodes), resource.BinarySI),
		}},
	}
	if r.Pct(12) {
		// CPU amplification (the node advertises more CPU than it has)
		ratio := kit.Pick(r, []extension.Ratio{1.5, 2, 3})
		extension.SetNodeRawAllocatable(n.obj, n.obj.Status.Allocatable)
		extension.AmplifyResourceList(n.obj.Status.Allocatable, map[corev1.ResourceName]extension.Ratio{corev1.ResourceCPU: ratio}, corev1.ResourceCPU)
		_, _ = extension.SetNodeResourceAmplificationRatio(n.obj, corev1.ResourceCPU, ratio)
		n.desc += fmt.Sprintf(" amplify=%v", ratio)
	}
	return n
}

// install puts the node's topology into a TopologyOptionsManager (what the NodeResourceTopology
// informer does before any pod event is handled).
func (n *c19Node) install(tom TopologyOptionsManager) {
	tom.UpdateTopologyOptions(n.name, func(o *TopologyOptions) {
		o.CPUTopology = n.topo
		o.MaxRefCount = n.maxRef
		o.ReservedCPUs = n.reserved
		res := make([]NUMANodeResource, 0, len(n.numaRes))
		for _, nr := range n.numaRes {
			res = append(res, NUMANodeResource{Node: nr.Node, Resources: nr.Resources.DeepCopy()})
		}
		o.NUMANodeResources = res
		o.Policy = n.kubeletPolicy
		o.NUMATopologyPolicy = n.kubeletNUMAPolicy
	})
}

func (n *c19Node) describe() string {
	keys := make([]string, 0, len(n.obj.Labels))
	for k, v := range n.obj.Labels {
		keys = append(keys, k[strings.LastIndex(k, "/")+1:]+"="+v)
	}
	sort.Strings(keys)
	return fmt.Sprintf("%s topo=%s maxRef=%d reserved=%q mem/numa=%d hugepages=%v kubelet=%v/%q labels=%v", n.name, n.desc, n.maxRef, n.reserved.String(), n.memPer, n.hugepages, n.kubeletPolicy != nil, n.kubeletNUMAPolicy, keys)
}

// ---------------------------------------------------------------------------------------------
// objects (pods and reservations)

const (
	c19Idle       = iota
	c19Rejected   // never got an allocation
	c19Assumed    // Reserve succeeded, not pre-bound
	c19Patched    // PreBind wrote the annotations, bind has not happened
	c19Bound      // bound, alive
	c19Terminated // bound, terminated (object still exists)
	c19Deleted    // removed from the API
	c19Unreserved // bind failed, allocation given back
)

var c19StateNames = []string{"idle", "rejected", "assumed", "patched", "bound", "terminated", "deleted", "unreserved"}

type c19Obj struct {
	isRsv bool
	name  string
	uid   types.UID
	class string
	node  *c19Node
	state int

	pod   *corev1.Pod                     // the unassigned pod that is scheduled (for a reservation: its reserve pod)
	rsv   *schedulingv1alpha1.Reservation // unassigned reservation
	cs    *framework.CycleState
	alloc *PodAllocation // what Reserve committed (harness copy); nil = the plugin holds nothing for it

	patched  interface{}   // object after PreBind, before bind (*corev1.Pod / *Reservation)
	versions []interface{} // bound versions in order
	echoed   int           // number of bound versions the live scheduler's informer has delivered

	// restart delivery: was a bound version of the object handed to the restarted scheduler before / after its
	// node's topology was known there
	beforeTopo, afterTopo bool
}

func (o *c19Obj) kind() string {
	if o.isRsv {
		return "rsv"
	}
	return "pod"
}

func (o *c19Obj) latest() interface{} { return o.versions[len(o.versions)-1] }

func (o *c19Obj) unassigned() interface{} {
	if o.isRsv {
		return o.rsv
	}
	return o.pod
}

// holds reports whether the object, as persisted, holds its allocation after a restart.
func (o *c19Obj) holds() bool { return o.state == c19Bound && o.alloc != nil }

func c19Q(v int64) resource.Quantity  { return *resource.NewQuantity(v, resource.DecimalSI) }
func c19QM(v int64) resource.Quantity { return *resource.NewMilliQuantity(v, resource.DecimalSI) }
func c19QB(v int64) resource.Quantity { return *resource.NewQuantity(v, resource.BinarySI) }

// c19GenPodSpec fills labels/annotations/requests of a pod of a random class.
func c19GenPodSpec(r *kit.Rand, n *c19Node, pod *corev1.Pod) string {
	pod.Labels = map[string]string{}
	pod.Annotations = map[string]string{}
	reqs := corev1.ResourceList{}
	class := ""
	mem := func() {
		if r.Pct(60) {
			m := int64(r.Range(1, 48))
			if n.memPer > 1<<20 {
				m = kit.Pick(r, []int64{1 << 20, 1<<29 + 1, 1 << 30, 3<<29 - 1})
			}
			reqs[corev1.ResourceMemory] = c19QB(m)
		}
	}
	spec := func(allowRequired bool) {
		rs := &extension.ResourceSpec{}
		if r.Pct(60) {
			rs.PreferredCPUBindPolicy = kit.Pick(r, []extension.CPUBindPolicy{extension.CPUBindPolicyDefault, extension.CPUBindPolicyFullPCPUs, extension.CPUBindPolicySpreadByPCPUs, extension.CPUBindPolicySpreadByPCPUs, extension.CPUBindPolicyConstrainedBurst})
		}
		if allowRequired && r.Pct(25) {
			rs.RequiredCPUBindPolicy = kit.Pick(r, []extension.CPUBindPolicy{extension.CPUBindPolicyDefault, extension.CPUBindPolicyFullPCPUs, extension.CPUBindPolicySpreadByPCPUs})
		}
		if r.Pct(50) {
			rs.PreferredCPUExclusivePolicy = kit.Pick(r, []extension.CPUExclusivePolicy{extension.CPUExclusivePolicyNone, extension.CPUExclusivePolicyPCPULevel, extension.CPUExclusivePolicyNUMANodeLevel})
		}
		if *rs != (extension.ResourceSpec{}) || r.Pct(20) {
			_ = extension.SetResourceSpec(pod, rs)
		}
	}
	switch k := r.Weighted(55, 30, 7, 4, 4); k {
	case 0: // LSE/LSR pod asking for whole CPUs
		class = "lsr"
		pod.Labels[extension.LabelPodQoS] = string(kit.Pick(r, []extension.QoSClass{extension.QoSLSR, extension.QoSLSR, extension.QoSLSE}))
		ncpu := r.Range(1, c19Max(1, n.topo.NumCPUs/2))
		if r.Pct(8) {
			ncpu = n.topo.NumCPUs - n.reserved.Size()
		}
		reqs[corev1.ResourceCPU] = c19Q(int64(ncpu))
		mem()
		spec(true)
	case 1: // LS / plain pod: shared pool, NUMA amounts only where a NUMA policy applies
		class = "ls"
		if r.Pct(70) {
			pod.Labels[extension.LabelPodQoS] = string(extension.QoSLS)
		}
		reqs[corev1.ResourceCPU] = c19QM(kit.Pick(r, []int64{1, 250, 500, 999, 1000, 1500, 2000, 2001, 3000}))
		mem()
		if r.Pct(12) {
			spec(false) // a resource-spec annotation on a pod that is not LSE/LSR (user input nobody forbids)
			class = "ls+spec"
		}
	case 2: // memory only
		class = "memonly"
		pod.Labels[extension.LabelPodQoS] = string(extension.QoSLS)
		reqs[corev1.ResourceMemory] = c19QB(int64(r.Range(1, 32)))
	case 3: // only resources no NUMA node reports
		class = "batch"
		pod.Labels[extension.LabelPodQoS] = string(extension.QoSBE)
		reqs[extension.BatchCPU] = c19Q(int64(r.Range(100, 4000)))
		reqs[extension.BatchMemory] = c19QB(int64(r.Range(1, 1<<20)))
	default: // no requests at all
		class = "zero"
	}
	if class != "zero" && r.Pct(25) {
		ns := &extension.NUMATopologySpec{NUMATopologyPolicy: kit.Pick(r, []extension.NUMATopologyPolicy{extension.NUMATopologyPolicyBestEffort, extension.NUMATopologyPolicyRestricted, extension.NUMATopologyPolicySingleNUMANode})}
		if np := n.obj.Labels[extension.LabelNUMATopologyPolicy]; np != "" && r.Pct(80) {
			ns.NUMATopologyPolicy = extension.NUMATopologyPolicy(np) // a pod policy that differs from the node's is refused
		}
		if r.Pct(50) {
			ns.SingleNUMANodeExclusive = kit.Pick(r, []extension.NumaTopologyExclusive{extension.NumaTopologyExclusivePreferred, extension.NumaTopologyExclusiveRequired})
		}
		b, _ := json.Marshal(ns)
		pod.Annotations[extension.AnnotationNUMATopologySpec] = string(b)
		class += "+numaspec"
	}
	if n.hugepages && class != "zero" && r.Pct(30) {
		reqs[c19Huge] = *resource.NewQuantity(int64(r.Range(1, 4))<<21, resource.BinarySI)
		class += "+huge"
	}
	if class == "lsr" && r.Pct(4) {
		reqs[corev1.ResourceCPU] = c19QM(1500) // not a whole number of CPUs: refused for FullPCPUs / SpreadByPCPUs
		class = "lsr-frac"
	}
	if r.Pct(8) {
		// an explicit priority outside koord-prod: LSE/LSR then does not entitle to a cpuset
		pod.Spec.Priority = ptr.To[int32](kit.Pick(r, []int32{extension.PriorityMidValueMin, extension.PriorityMidValueMax, extension.PriorityBatchValueMax, 0}))
		class += "+prio"
	}
	pod.Spec.Containers = []corev1.Container{{Name: "main", Resources: corev1.ResourceRequirements{Requests: reqs, Limits: reqs.DeepCopy()}}}
	if len(reqs) > 0 && r.Pct(20) {
		// the same total spread over two containers (whole CPUs stay whole)
		second := corev1.ResourceList{}
		for name, q := range reqs {
			if name == corev1.ResourceCPU && q.MilliValue() >= 2000 && q.MilliValue()%1000 == 0 {
				second[name] = c19Q(1)
				reqs[name] = c19Q(q.Value() - 1)
			} else if name == corev1.ResourceMemory && q.Value() >= 2 {
				second[name] = c19QB(1)
				reqs[name] = c19QB(q.Value() - 1)
			}
		}
		if len(second) > 0 {
			pod.Spec.Containers[0].Resources = corev1.ResourceRequirements{Requests: reqs, Limits: reqs.DeepCopy()}
			pod.Spec.Containers = append(pod.Spec.Containers, corev1.Container{Name: "side", Resources: corev1.ResourceRequirements{Requests: second, Limits: second.DeepCopy()}})
			class += "+2c"
		}
	}
	if len(reqs) > 0 && r.Pct(10) {
		// an init container below the sum of the app containers does not change the pod's request
		pod.Spec.InitContainers = []corev1.Container{{Name: "init", Resources: corev1.ResourceRequirements{Requests: corev1.ResourceList{corev1.ResourceMemory: c19QB(1)}}}}
	}
	return class
}

func c19NewObj(r *kit.Rand, seq int, n *c19Node) *c19Obj {
	o := &c19Obj{node: n}
	tmpl := &corev1.Pod{}
	o.class = c19GenPodSpec(r, n, tmpl)
	if r.Pct(15) {
		o.isRsv = true
		o.name = fmt.Sprintf("r%d", seq)
		o.uid = types.UID(fmt.Sprintf("uid-r%d", seq))
		if tmpl.Spec.Priority == nil {
			tmpl.Spec.Priority = ptr.To[int32](extension.PriorityProdValueMax)
		}
		o.rsv = &schedulingv1alpha1.Reservation{
			ObjectMeta: metav1.ObjectMeta{Name: o.name, UID: o.uid, ResourceVersion: "1"},
			Spec: schedulingv1alpha1.ReservationSpec{
				Template:     &corev1.PodTemplateSpec{ObjectMeta: tmpl.ObjectMeta, Spec: tmpl.Spec},
				Owners:       []schedulingv1alpha1.ReservationOwner{{LabelSelector: &metav1.LabelSelector{MatchLabels: map[string]string{"app": o.name}}}},
				TTL:          &metav1.Duration{Duration: 0},
				AllocateOnce: ptr.To(false),
			},
		}
		o.pod = reservationutil.NewReservePod(o.rsv)
		o.class = "rsv:" + o.class
		return o
	}
	o.name = fmt.Sprintf("p%d", seq)
	o.uid = types.UID(fmt.Sprintf("uid-p%d", seq))
	tmpl.Namespace, tmpl.Name, tmpl.UID, tmpl.ResourceVersion = kit.Pick(r, []string{"default", "default", "default", "default", "ns1"}), o.name, o.uid, "1"
	o.pod = tmpl
	return o
}

func c19Max(a, b int) int {
	if a > b {
		return a
	}
	return b
}

// c19ViaAPI returns the object as the API server hands it out again (JSON round trip of the whole object).
func c19ViaAPI(c *kit.Case, obj interface{}) interface{} {
	b, err := json.Marshal(obj)
	if err != nil {
		c.Harness("marshal object: %v", err)
	}
	switch obj.(type) {
	case *corev1.Pod:
		out := &corev1.Pod{}
		if err := json.Unmarshal(b, out); err != nil {
			c.Harness("unmarshal pod: %v", err)
		}
		return out
	case *schedulingv1alpha1.Reservation:
		out := &schedulingv1alpha1.Reservation{}
		if err := json.Unmarshal(b, out); err != nil {
			c.Harness("unmarshal reservation: %v", err)
		}
		return out
	}
	c.Harness("unexpected object %T", obj)
	return nil
}

func c19Meta(obj interface{}) *metav1.ObjectMeta {
	switch t := obj.(type) {
	case *corev1.Pod:
		return &t.ObjectMeta
	case *schedulingv1alpha1.Reservation:
		return &t.ObjectMeta
	}
	return nil
}

func c19Copy(obj interface{}) interface{} {
	switch t := obj.(type) {
	case *corev1.Pod:
		return t.DeepCopy()
	case *schedulingv1alpha1.Reservation:
		return t.DeepCopy()
	}
	return nil
}

// c19Touch produces the next version of a bound object: metadata/status changes that do not touch
// the allocation annotations.
func c19Touch(r *kit.Rand, obj interface{}) interface{} {
	out := c19Copy(obj)
	m := c19Meta(out)
	m.ResourceVersion += "1"
	if m.Labels == nil {
		m.Labels = map[string]string{}
	}
	m.Labels["touched"] = m.ResourceVersion
	if p, ok := out.(*corev1.Pod); ok && r.Bool() {
		p.Status.Phase = corev1.PodRunning
	}
	if r.Pct(12) && m.DeletionTimestamp == nil {
		// terminating (graceful deletion under way): the pod still runs and still holds what it was given
		ts := metav1.Unix(1700000000, 0)
		m.DeletionTimestamp = &ts
	}
	return out
}

func c19Terminate(r *kit.Rand, obj interface{}) interface{} {
	out := c19Copy(obj)
	c19Meta(out).ResourceVersion += "9"
	switch t := out.(type) {
	case *corev1.Pod:
		t.Status.Phase = kit.Pick(r, []corev1.PodPhase{corev1.PodSucceeded, corev1.PodFailed})
	case *schedulingv1alpha1.Reservation:
		t.Status.Phase = kit.Pick(r, []schedulingv1alpha1.ReservationPhase{schedulingv1alpha1.ReservationSucceeded, schedulingv1alpha1.ReservationFailed})
	}
	return out
}

func c19AllocStr(a *PodAllocation) string {
	if a == nil {
		return "<none>"
	}
	s := fmt.Sprintf("cpuset=%q excl=%q", a.CPUSet.String(), a.CPUExclusivePolicy)
	for _, nr := range a.NUMANodeResources {
		s += fmt.Sprintf(" numa%d=%s", nr.Node, c19RL(nr.Resources))
	}
	return s
}

func c19RL(rl corev1.ResourceList) string {
	names := make([]string, 0, len(rl))
	for n := range rl {
		names = append(names, string(n))
	}
	sort.Strings(names)
	s := "{"
	for _, n := range names {
		q := rl[corev1.ResourceName(n)]
		s += n + ":" + q.String() + " "
	}
	return s + "}"
}

func c19CopyAlloc(a *PodAllocation) *PodAllocation {
	if a == nil {
		return nil
	}
	out := &PodAllocation{UID: a.UID, Namespace: a.Namespace, Name: a.Name, CPUSet: a.CPUSet.Clone(), CPUExclusivePolicy: a.CPUExclusivePolicy}
	for _, nr := range a.NUMANodeResources {
		out.NUMANodeResources = append(out.NUMANodeResources, NUMANodeResource{Node: nr.Node, Resources: nr.Resources.DeepCopy()})
	}
	return out
}

// c19Excl normalises an exclusive policy: "" and "None" both mean "not exclusive" (only PCPULevel and
// NUMANodeLevel are ever tested by the allocator).
func c19Excl(p schedulingconfig.CPUExclusivePolicy) schedulingconfig.CPUExclusivePolicy {
	if p == schedulingconfig.CPUExclusivePolicyNone {
		return ""
	}
	return p
}

// c19Empty: the allocation takes no CPU and no non-zero per-NUMA amount.
func c19Empty(a *PodAllocation) bool {
	if a == nil {
		return true
	}
	if !a.CPUSet.IsEmpty() {
		return false
	}
	for _, nr := range a.NUMANodeResources {
		for _, q := range nr.Resources {
			if !q.IsZero() {
				return false
			}
		}
	}
	return true
}

// c19NUMAMap folds per-NUMA amounts into node -> resource -> milli value (absent == zero).
func c19NUMAMap(res []NUMANodeResource) map[int]map[corev1.ResourceName]resource.Quantity {
	out := map[int]map[corev1.ResourceName]resource.Quantity{}
	for _, nr := range res {
		for name, q := range nr.Resources {
			if q.IsZero() {
				continue
			}
			if out[nr.Node] == nil {
				out[nr.Node] = map[corev1.ResourceName]resource.Quantity{}
			}
			cur := out[nr.Node][name]
			cur.Add(q)
			out[nr.Node][name] = cur
		}
	}
	return out
}

// c19DiffNUMA returns "" when both per-NUMA maps are equal, else a description and the sign of the
// first difference (-1: b has less than a).
func c19DiffNUMA(a, b map[int]map[corev1.ResourceName]resource.Quantity) (string, int) {
	nodes := map[int]bool{}
	for n := range a {
		nodes[n] = true
	}
	for n := range b {
		nodes[n] = true
	}
	ids := make([]int, 0, len(nodes))
	for n := range nodes {
		ids = append(ids, n)
	}
	sort.Ints(ids)
	for _, n := range ids {
		names := map[string]bool{}
		for k := range a[n] {
			names[string(k)] = true
		}
		for k := range b[n] {
			names[string(k)] = true
		}
		ks := make([]string, 0, len(names))
		for k := range names {
			ks = append(ks, k)
		}
		sort.Strings(ks)
		for _, k := range ks {
			qa, qb := a[n][corev1.ResourceName(k)], b[n][corev1.ResourceName(k)]
			if s := qb.Cmp(qa); s != 0 {
				return fmt.Sprintf("NUMA node %d %s: %s vs %s", n, k, qa.String(), qb.String()), s
			}
		}
	}
	return "", 0
}

func c19CPUSetForm(s string) string {
	switch {
	case s == "":
		return "empty"
	case !strings.ContainsAny(s, ",-"):
		return "single"
	case !strings.Contains(s, ","):
		return "one-range"
	case !strings.Contains(s, "-"):
		return "list"
	}
	return "ranges+list"
}

// ---------------------------------------------------------------------------------------------
// the comparison

type c19Cmp struct {
	c     *kit.Case
	nodes []*c19Node
	objs  []*c19Obj
}

func (w *c19Cmp) compare(live, replay *resourceManager, tomLive, tomReplay TopologyOptionsManager) {
	c := w.c
	// exclusive-policy differences are reported after everything else was compared on every node, so that
	// they cannot hide a difference in cpusets, ref counts or amounts
	exclSig, exclMsg := "", ""
	exclFail := func(sig, format string, a ...any) {
		if exclSig == "" {
			exclSig, exclMsg = sig, fmt.Sprintf(format, a...)
		}
	}
	for _, n := range w.nodes {
		naL := live.GetNodeAllocation(n.name)
		naR := replay.GetNodeAllocation(n.name)
		// ---- expected holders, from what Reserve returned for the surviving bound objects
		holders := map[int]int{}
		expectPods := map[types.UID]*c19Obj{}
		for _, o := range w.objs {
			if o.node != n || !o.holds() {
				continue
			}
			if c19Empty(o.alloc) {
				c.Count("empty_allocations_of_surviving_objects", 1)
				continue
			}
			expectPods[o.uid] = o
			for _, id := range o.alloc.CPUSet.ToSliceNoSort() {
				holders[id]++
			}
		}
		// ---- 1. no CPU taken before the restart is free after it
		for _, id := range n.topo.CPUDetails.CPUs().ToSlice() {
			ref := 0
			if info, ok := naR.allocatedCPUs[id]; ok {
				ref = info.RefCount
			}
			if ref < holders[id] {
				c.Fail("C19/numa/cpu-free-after-restart", "node %s: cpu %d is held by %d surviving bound object(s) (allocation returned by Reserve) but the restarted scheduler's ref count is %d", n.name, id, holders[id], ref)
			}
			if ref > holders[id] {
				c.Fail("C19/numa/cpu-taken-by-nobody-after-restart", "node %s: cpu %d is held by %d surviving bound object(s) but the restarted scheduler's ref count is %d", n.name, id, holders[id], ref)
			}
		}
		availL, _, _ := live.GetAvailableCPUs(n.name)
		availR, _, _ := replay.GetAvailableCPUs(n.name)
		if !availR.IsSubsetOf(availL) {
			c.Fail("C19/numa/cpu-free-after-restart", "node %s: CPUs %q are available in the restarted scheduler but not in the live one (live available %q)", n.name, availR.Difference(availL).String(), availL.String())
		}
		// ---- 2. pods
		podsL, podsR := map[types.UID]PodAllocation{}, map[types.UID]PodAllocation{}
		for uid, a := range naL.allocatedPods {
			a := a
			if c19Empty(&a) {
				c.Count("empty_allocations_held_by_live", 1)
				continue
			}
			podsL[uid] = a
		}
		for uid, a := range naR.allocatedPods {
			a := a
			if c19Empty(&a) {
				c.Count("empty_allocations_held_by_replay", 1)
				continue
			}
			podsR[uid] = a
		}
		for uid, a := range podsR {
			if _, ok := expectPods[uid]; !ok {
				c.Fail("C19/numa/ghost-allocation", "node %s: the restarted scheduler holds an allocation (%s) for %s, which is not a surviving bound object with an allocation", n.name, c19AllocStr(&a), uid)
			}
		}
		for uid, o := range expectPods {
			a, ok := podsR[uid]
			if !ok {
				c.Fail("C19/numa/allocation-lost", "node %s: %s %s is bound and was given %s, the restarted scheduler holds nothing for it; persisted annotations: %s", n.name, o.kind(), o.name, c19AllocStr(o.alloc), c19Annots(o.latest()))
			}
			if !a.CPUSet.Equals(o.alloc.CPUSet) {
				c.Fail("C19/numa/pod-cpuset", "node %s: %s %s was given cpuset %q, the restarted scheduler holds %q", n.name, o.kind(), o.name, o.alloc.CPUSet.String(), a.CPUSet.String())
			}
			if d, _ := c19DiffNUMA(c19NUMAMap(o.alloc.NUMANodeResources), c19NUMAMap(a.NUMANodeResources)); d != "" {
				c.Fail("C19/numa/pod-numa-amount", "node %s: %s %s: per-NUMA amounts given vs rebuilt differ: %s", n.name, o.kind(), o.name, d)
			}
		}
		if len(podsL) != len(podsR) {
			c.Fail("C19/numa/pods", "node %s: the live scheduler holds %d allocations, the restarted one %d", n.name, len(podsL), len(podsR))
		}
		for uid, aL := range podsL {
			aR, ok := podsR[uid]
			if !ok {
				c.Fail("C19/numa/pods", "node %s: the live scheduler holds %s for %s, the restarted one nothing", n.name, c19AllocStr(&aL), uid)
			}
			if !aL.CPUSet.Equals(aR.CPUSet) {
				c.Fail("C19/numa/pod-cpuset", "node %s: %s: live cpuset %q, rebuilt %q", n.name, uid, aL.CPUSet.String(), aR.CPUSet.String())
			}
			if d, _ := c19DiffNUMA(c19NUMAMap(aL.NUMANodeResources), c19NUMAMap(aR.NUMANodeResources)); d != "" {
				c.Fail("C19/numa/pod-numa-amount", "node %s: %s: live vs rebuilt per-NUMA amounts differ: %s", n.name, uid, d)
			}
			if c19Excl(aL.CPUExclusivePolicy) != c19Excl(aR.CPUExclusivePolicy) && !(aL.CPUSet.IsEmpty()) {
				o := expectPods[uid]
				sig := "C19/numa/exclusive-policy"
				given, _ := extension.GetResourceSpec(o.pod.Annotations) // what the scheduled (reserve) pod asked for
				switch {
				case o.isRsv && c19Excl(aR.CPUExclusivePolicy) == "" && given.PreferredCPUExclusivePolicy == aL.CPUExclusivePolicy:
					// the policy came from the reservation's pod template; PreBindReservation wrote a reservation-level
					// resource-spec without it, and the reservation-level annotation shadows the template's on rebuild
					sig += "/reservation-template-spec-shadowed"
				case c19Excl(aL.CPUExclusivePolicy) == "" && given.PreferredCPUExclusivePolicy == aR.CPUExclusivePolicy:
					// the pod's resource-spec names a policy the live scheduler did not apply (pod is not LSE/LSR or
					// its bind policy is not FullPCPUs/SpreadByPCPUs; the cpuset comes from the node's bind policy)
					sig += "/ignored-by-live-applied-after-restart"
				}
				exclFail(sig, "node %s: %s (%s) holds cpuset %q with exclusive policy %q in the live scheduler and %q in the restarted one; scheduled with resource-spec=%s qos=%q; persisted annotations: %s", n.name, uid, o.class, aL.CPUSet.String(), aL.CPUExclusivePolicy, aR.CPUExclusivePolicy, o.pod.Annotations[extension.AnnotationResourceSpec], o.pod.Labels[extension.LabelPodQoS], c19Annots(o.latest()))
			}
		}
		// ---- 3. per-CPU ref counts live vs replay
		for _, id := range n.topo.CPUDetails.CPUs().ToSlice() {
			iL, okL := naL.allocatedCPUs[id]
			iR, okR := naR.allocatedCPUs[id]
			if okL != okR || iL.RefCount != iR.RefCount {
				c.Fail("C19/numa/refcount", "node %s: cpu %d has ref count %d in the live scheduler and %d in the restarted one", n.name, id, iL.RefCount, iR.RefCount)
			}
			// The per-CPU exclusive mark is "last writer wins" and is not restored on release, so with a sharing
			// limit above 1 it depends on the history, not on the holders; it is asserted only where a CPU never
			// has more than one holder.
			if okL && c19Excl(iL.ExclusivePolicy) != c19Excl(iR.ExclusivePolicy) {
				if n.maxRef == 1 {
					exclFail("C19/numa/exclusive-policy", "node %s: cpu %d is marked %q in the live scheduler and %q in the restarted one", n.name, id, iL.ExclusivePolicy, iR.ExclusivePolicy)
				}
				c.Count("shared_cpu_exclusive_mark_differs_not_asserted", 1)
			}
		}
		for id := range naR.allocatedCPUs {
			if _, ok := n.topo.CPUDetails[id]; !ok {
				c.Fail("C19/numa/unknown-cpu", "node %s: the restarted scheduler holds cpu %d that is not in the topology", n.name, id)
			}
		}
		// ---- 4. per-NUMA totals
		totL, totR := map[int]map[corev1.ResourceName]resource.Quantity{}, map[int]map[corev1.ResourceName]resource.Quantity{}
		fold := func(src map[int]*NUMANodeResource, dst map[int]map[corev1.ResourceName]resource.Quantity) {
			for id, res := range src {
				if res == nil {
					continue
				}
				for name, q := range res.Resources {
					if q.IsZero() {
						continue
					}
					if dst[id] == nil {
						dst[id] = map[corev1.ResourceName]resource.Quantity{}
					}
					dst[id][name] = q
				}
			}
		}
		fold(naL.allocatedResources, totL)
		fold(naR.allocatedResources, totR)
		if d, sign := c19DiffNUMA(totL, totR); d != "" {
			if sign < 0 {
				c.Fail("C19/numa/numa-amount-free-after-restart", "node %s: per-NUMA amount taken in the live scheduler vs the restarted one: %s (less is taken after the restart)", n.name, d)
			}
			c.Fail("C19/numa/numa-amount", "node %s: per-NUMA amount taken in the live scheduler vs the restarted one: %s", n.name, d)
		}
		expTot := []NUMANodeResource{}
		for _, o := range expectPods {
			expTot = append(expTot, o.alloc.NUMANodeResources...)
		}
		if d, sign := c19DiffNUMA(c19NUMAMap(expTot), totR); d != "" {
			if sign < 0 {
				c.Fail("C19/numa/numa-amount-free-after-restart", "node %s: per-NUMA amounts given to the surviving bound objects vs taken in the restarted scheduler: %s (less is taken after the restart)", n.name, d)
			}
			c.Fail("C19/numa/numa-amount", "node %s: per-NUMA amounts given to the surviving bound objects vs taken in the restarted scheduler: %s", n.name, d)
		}
		// ---- 5. what the next scheduling cycle would see
		frL, _, _ := live.getAvailableNUMANodeResources(n.name, tomLive.GetTopologyOptions(n.name), nil)
		frR, _, _ := replay.getAvailableNUMANodeResources(n.name, tomReplay.GetTopologyOptions(n.name), nil)
		for id := 0; id < n.topo.NumNodes; id++ {
			for _, name := range []corev1.ResourceName{corev1.ResourceCPU, corev1.ResourceMemory, c19Huge} {
				a, b := frL[id][name], frR[id][name]
				if s := b.Cmp(a); s > 0 {
					c.Fail("C19/numa/numa-amount-free-after-restart", "node %s NUMA node %d: free %s is %s in the live scheduler and %s in the restarted one", n.name, id, name, a.String(), b.String())
				} else if s < 0 {
					c.Fail("C19/numa/numa-amount", "node %s NUMA node %d: free %s is %s in the live scheduler and %s in the restarted one", n.name, id, name, a.String(), b.String())
				}
			}
		}
		stL, stR := naL.GetAllNUMANodeStatus(n.topo.NumNodes), naR.GetAllNUMANodeStatus(n.topo.NumNodes)
		if fmt.Sprint(stL) != fmt.Sprint(stR) {
			c.Fail("C19/numa/numa-node-status", "node %s: NUMA node single/shared status is %v in the live scheduler and %v in the restarted one", n.name, stL, stR)
		}
		c.Count("node_comparisons", 1)
		c.Count("pod_allocations_compared", len(podsL))
	}
	if exclSig != "" {
		c.Fail(exclSig, "%s", exclMsg)
	}
}

func c19Annots(obj interface{}) string {
	m := c19Meta(obj)
	if m == nil {
		return ""
	}
	return fmt.Sprintf("resource-status=%s resource-spec=%s", m.Annotations[extension.AnnotationResourceStatus], m.Annotations[extension.AnnotationResourceSpec])
}

// ---------------------------------------------------------------------------------------------
// the workload

type c19Event struct {
	add, del bool
	old, new interface{}
	isRsv    bool
	what     string
	obj      *c19Obj
	topo     *c19Node // the event is the add of this node's NodeResourceTopology
}

func TestVerifC19NUMARestart(t *testing.T) {
	pl, lister := c19Plugin(t)
	ctx := context.TODO()
	kit.Run(t, kit.Config{Property: "C19", Unit: "numa-restart", Quick: 3000, Thorough: 60000,
		Rule: "histories of 10-120 operations on 1-3 nodes (1-4 sockets x 1-4 NUMA nodes x 1-16 cores x 1-4 threads, CPU ids with base offset / an offline core, reserved CPUs, sharing limit 1-3, per-NUMA cpu / memory / hugepages incl. a memory-less NUMA node, CPU amplification, kubelet static policy, NUMA-policy / CPU-bind-policy labels) of the real nodenumaresource Plugin: schedule a pod or reservation (PreFilter, Filter with the real NUMA topology manager, Reserve), PreBind + bind, unreserve, metadata update, terminate, delete, informer echo to the live scheduler; cut after a bind; in-flight objects unreserved; surviving objects replayed into a fresh resourceManager through the real pod / reservation event handlers in random order with 20% duplicate adds and 20% no-op updates; live vs replayed NodeAllocation compared; distinct = (object kind, request class, node policy labels, cpuset string form, #NUMA nodes with amounts, outcome) and (replay event kind, object state); non-trivial = at least two surviving allocations on one node and at least one allocation of the history that does not survive (unreserved, terminated, deleted, in flight)"},
		func(c *kit.Case) {
			r := c.R
			nodes := make([]*c19Node, kit.Pick(r, []int{1, 2, 2, 2, 2, 3, 3}))
			tomL := NewTopologyOptionsManager()
			// plugin arguments: the default bind policy applies to LSE/LSR pods that name none
			args := *c19Args
			args.DefaultCPUBindPolicy = kit.Pick(r, []schedulingconfig.CPUBindPolicy{schedulingconfig.CPUBindPolicyFullPCPUs, schedulingconfig.CPUBindPolicyFullPCPUs, schedulingconfig.CPUBindPolicySpreadByPCPUs})
			pl.pluginArgs = &args
			c.Op("plugin args: defaultCPUBindPolicy=%s", args.DefaultCPUBindPolicy)
			for i, name := range c19NodeNames[:len(nodes)] {
				nodes[i] = c19GenNode(r, name)
				nodes[i].install(tomL)
				lister.nodeInfoMap[name].SetNode(nodes[i].obj)
				c.Op("node %s", nodes[i].describe())
			}
			rmL := &resourceManager{
				numaAllocateStrategy:   kit.Pick(r, []schedulingconfig.NUMAAllocateStrategy{schedulingconfig.NUMAMostAllocated, schedulingconfig.NUMALeastAllocated, schedulingconfig.NUMADistributeEvenly}),
				topologyOptionsManager: tomL,
				nodeAllocations:        map[string]*NodeAllocation{},
			}
			pl.resourceManager = rmL
			pl.topologyOptionsManager = tomL
			hL := &podEventHandler{resourceManager: rmL}
			var rhL cache.ResourceEventHandler = reservationutil.NewReservationToPodEventHandler(hL, reservationutil.IsObjValidActiveReservation)
			c.Op("numaAllocateStrategy=%s", rmL.numaAllocateStrategy)

			var objs []*c19Obj
			seq := 0
			lost := 0 // allocations of the history that do not survive

			pick := func(pred func(o *c19Obj) bool) *c19Obj {
				var cand []*c19Obj
				for _, o := range objs {
					if pred(o) {
						cand = append(cand, o)
					}
				}
				if len(cand) == 0 {
					return nil
				}
				return kit.Pick(r, cand)
			}
			policyOf := func(n *c19Node) string {
				return n.obj.Labels[extension.LabelNUMATopologyPolicy] + "/" + n.obj.Labels[extension.LabelNodeCPUBindPolicy]
			}

			// schedule runs one scheduling cycle up to and including Reserve.
			schedule := func() *c19Obj {
				n := kit.Pick(r, nodes)
				o := c19NewObj(r, seq, n)
				seq++
				objs = append(objs, o)
				cs := framework.NewCycleState()
				o.cs = cs
				reject := func(stage, msg string) *c19Obj {
					o.state = c19Rejected
					c.Op("schedule %s %s (%s) on %s: rejected at %s: %s", o.kind(), o.name, o.class, n.name, stage, msg)
					c.Count("schedule_rejected", 1)
					c.Seen("sched", o.kind(), o.class, policyOf(n), "rejected", stage)
					return o
				}
				_, st := pl.PreFilter(ctx, cs, o.pod, nil)
				if !st.IsSuccess() && !st.IsSkip() {
					return reject("PreFilter", st.Message())
				}
				if !st.IsSkip() {
					if st := pl.Filter(ctx, cs, o.pod, lister.nodeInfoMap[n.name]); !st.IsSuccess() {
						return reject("Filter", st.Message())
					}
				}
				if st := pl.Reserve(ctx, cs, o.pod, n.name); !st.IsSuccess() {
					pl.Unreserve(ctx, cs, o.pod, n.name) // the framework unreserves after a failed Reserve
					return reject("Reserve", st.Message())
				}
				state, st2 := getPreFilterState(cs)
				if !st2.IsSuccess() {
					c.Harness("no prefilter state after Reserve: %v", st2.Message())
				}
				o.alloc = c19CopyAlloc(state.allocation)
				o.state = c19Assumed
				form := "none"
				numaArity := 0
				if o.alloc != nil {
					form = c19CPUSetForm(o.alloc.CPUSet.String())
					numaArity = len(c19NUMAMap(o.alloc.NUMANodeResources))
					c.Count("allocations_committed", 1)
					c.Count("cpuset_form_"+form, 1)
					c.Count(fmt.Sprintf("numa_arity_%d", numaArity), 1)
					if o.alloc.CPUSet.IsEmpty() && numaArity > 0 {
						c.Count("allocations_with_numa_amounts_but_no_cpuset", 1)
					}
				} else {
					c.Count("scheduled_without_allocation", 1)
				}
				c.Op("schedule %s %s (%s) on %s: assumed, allocation %s", o.kind(), o.name, o.class, n.name, c19AllocStr(o.alloc))
				c.Seen("sched", o.kind(), o.class, policyOf(n), form, numaArity, n.maxRef)
				return o
			}
			prebind := func(o *c19Obj) {
				var st *fwktype.Status
				if o.isRsv {
					obj := o.rsv.DeepCopy()
					st = pl.PreBindReservation(ctx, o.cs, obj, o.node.name)
					o.patched = obj
				} else {
					obj := o.pod.DeepCopy()
					st = pl.PreBind(ctx, o.cs, obj, o.node.name)
					o.patched = obj
				}
				if !st.IsSuccess() {
					c.Harness("PreBind failed for %s: %v", o.name, st.Message())
				}
				o.state = c19Patched
				c.Op("prebind %s %s: %s", o.kind(), o.name, c19Annots(o.patched))
				if o.alloc != nil {
					c.Seen("annotation", c19CPUSetForm(o.alloc.CPUSet.String()), len(o.alloc.NUMANodeResources), c19Meta(o.patched).Annotations[extension.AnnotationResourceSpec] != "")
				}
			}
			bind := func(o *c19Obj) {
				obj := c19Copy(o.patched)
				c19Meta(obj).ResourceVersion += "0"
				switch t := obj.(type) {
				case *corev1.Pod:
					t.Spec.NodeName = o.node.name
				case *schedulingv1alpha1.Reservation:
					t.Status.NodeName = o.node.name
					t.Status.Phase = schedulingv1alpha1.ReservationAvailable
					t.Status.Allocatable = apiresource.PodRequests(o.pod, apiresource.PodResourcesOptions{})
				}
				if r.Bool() {
					obj = c19ViaAPI(c, obj)
				}
				o.versions = []interface{}{obj}
				o.state = c19Bound
				c.Count("binds", 1)
				c.Op("bind %s %s on %s", o.kind(), o.name, o.node.name)
			}
			// echo delivers the next not yet delivered versions to the live scheduler (compressed into one update).
			// Pod versions may be compressed into one update (relist); reservation versions are delivered one by one
			// (a watch): the handler chain of reservations is a client-go FilteringResourceEventHandler, which by
			// construction cannot release anything when the only version that passed the filter was skipped - that
			// is a property of the live scheduler under relists, not of the restart round trip.
			echo := func(o *c19Obj, upto int) {
				for o.echoed < upto {
					to := upto
					if o.isRsv {
						to = o.echoed + 1
					}
					var old interface{} = o.unassigned()
					if o.echoed > 0 {
						old = o.versions[o.echoed-1]
					}
					nw := o.versions[to-1]
					if o.isRsv {
						rhL.OnUpdate(old, nw)
					} else {
						hL.OnUpdate(old, nw)
					}
					c.Op("live informer: update %s %s version %d -> %d", o.kind(), o.name, o.echoed, to)
					c.Count("live_echo_updates", 1)
					o.echoed = to
				}
			}
			unreserve := func(o *c19Obj, why string) {
				pl.Unreserve(ctx, o.cs, o.pod, o.node.name)
				c.Op("unreserve %s %s (%s)", o.kind(), o.name, why)
				c.Count("unreserved", 1)
				if o.alloc != nil {
					lost++
				}
			}

			nops := r.Range(10, 60)
			if r.Pct(10) {
				nops = r.Range(60, 120)
			}
			for op := 0; op < nops; op++ {
				switch r.Weighted(40, 10, 6, 14, 10, 8, 8) {
				case 0: // schedule (+ usually bind right away)
					o := schedule()
					if o.state == c19Assumed && r.Pct(75) {
						prebind(o)
						bind(o)
						if r.Pct(50) {
							echo(o, 1)
						}
					}
				case 1: // finish an in-flight object
					if o := pick(func(o *c19Obj) bool { return o.state == c19Assumed || o.state == c19Patched }); o != nil {
						if o.state == c19Assumed {
							prebind(o)
							if r.Pct(35) {
								break // the annotation patch is applied, the bind call is still to come
							}
						}
						bind(o)
					}
				case 2: // bind failure
					if o := pick(func(o *c19Obj) bool { return o.state == c19Assumed || o.state == c19Patched }); o != nil {
						unreserve(o, "bind failed")
						o.state = c19Unreserved
					}
				case 3: // informer echo to the live scheduler
					if o := pick(func(o *c19Obj) bool {
						return (o.state == c19Bound || o.state == c19Terminated) && o.echoed < len(o.versions)
					}); o != nil {
						echo(o, r.Range(o.echoed+1, len(o.versions)))
					}
				case 4: // metadata / status update that does not touch the allocation
					if o := pick(func(o *c19Obj) bool { return o.state == c19Bound }); o != nil {
						o.versions = append(o.versions, c19Touch(r, o.latest()))
						c.Op("api: touch %s %s -> version %d", o.kind(), o.name, len(o.versions))
					}
				case 5: // terminate
					if o := pick(func(o *c19Obj) bool { return o.state == c19Bound }); o != nil {
						o.versions = append(o.versions, c19Terminate(r, o.latest()))
						o.state = c19Terminated
						c.Op("api: terminate %s %s -> version %d", o.kind(), o.name, len(o.versions))
						c.Count("terminated", 1)
						if o.alloc != nil {
							lost++
						}
					}
				case 6: // delete
					if o := pick(func(o *c19Obj) bool { return o.state == c19Bound || o.state == c19Terminated }); o != nil {
						if o.state == c19Bound && o.alloc != nil {
							lost++
						}
						if o.isRsv || r.Bool() {
							echo(o, len(o.versions)) // events of one object arrive in order: pending updates first
						}
						if o.isRsv {
							rhL.OnDelete(o.latest())
						} else {
							hL.OnDelete(o.latest())
						}
						o.state = c19Deleted
						c.Op("api: delete %s %s (live informer: delete)", o.kind(), o.name)
						c.Count("deleted", 1)
					}
				}
			}
			// the cut comes right after a bind
			for try := 0; try < 8; try++ {
				o := pick(func(o *c19Obj) bool { return o.state == c19Assumed || o.state == c19Patched })
				if o == nil {
					o = schedule()
				}
				if o.state == c19Assumed {
					prebind(o)
				}
				if o.state == c19Patched {
					bind(o)
					break
				}
			}
			c.Op("---- cut")
			// in-flight objects: released by the live scheduler, survive unbound (with or without the PreBind patch)
			for _, o := range objs {
				if o.state == c19Assumed || o.state == c19Patched {
					unreserve(o, "in flight at the cut")
				}
			}
			// the live scheduler catches up with terminations (deletes were delivered when they happened)
			for _, o := range objs {
				if o.state == c19Terminated {
					echo(o, len(o.versions))
				}
			}

			// ---- restart. The new scheduler's informers LIST a consistent snapshot taken after the crash: every
			// surviving object appears once, in its latest version, in arbitrary order (plus duplicate adds and no-op
			// updates of that same version). Versions older than the snapshot are never seen by the new scheduler.
			// API changes made after the snapshot (tail: touch / terminate / delete - nothing is scheduled while
			// the scheduler is down) arrive as watch events after the object's add; the live instance is fed the same
			// tail so that it stays the reference for "what a scheduler that did not crash would hold".
			//
			// Cross-kind order. cmd/koord-scheduler/app/server.go starts the pod informer factory, the Koordinator
			// factory (reservations) and the NodeResourceTopology factory together, so the handlers race: in 25 % of
			// the cases ("race") the NodeResourceTopology add of some nodes is delivered somewhere among the pod and
			// reservation adds, and reservations are not ordered before pods. Nothing is re-delivered afterwards
			// unless an event for it exists (duplicate add, no-op update, watch event). In the other cases the
			// topologies are in place first and reservations precede pods.
			tomR := NewTopologyOptionsManager()
			race := r.Pct(25)
			installed := map[string]bool{}
			var topoQueues [][]c19Event
			if race {
				c.Count("race_cases", 1)
				lateAny := false
				for i, n := range nodes {
					if r.Pct(70) || (!lateAny && i == len(nodes)-1) {
						lateAny = true
						topoQueues = append(topoQueues, []c19Event{{topo: n, what: "add NodeResourceTopology " + n.name}})
						c.Count("race_nodes_with_late_topology", 1)
					}
				}
			}
			for _, n := range nodes {
				late := false
				for _, q := range topoQueues {
					if q[0].topo == n {
						late = true
					}
				}
				if !late {
					n.install(tomR)
					installed[n.name] = true
				}
			}
			rmR := &resourceManager{numaAllocateStrategy: rmL.numaAllocateStrategy, topologyOptionsManager: tomR, nodeAllocations: map[string]*NodeAllocation{}}
			hR := &podEventHandler{resourceManager: rmR}
			var rhR cache.ResourceEventHandler = reservationutil.NewReservationToPodEventHandler(hR, reservationutil.IsObjValidActiveReservation)
			queues := map[bool][][]c19Event{}
			qIndex := map[*c19Obj]int{}
			survivors := 0
			perNode := map[string]int{}
			for _, o := range objs {
				var q []c19Event
				switch o.state {
				case c19Bound, c19Terminated:
					last := len(o.versions) - 1
					q = append(q, c19Event{add: true, new: o.versions[last], isRsv: o.isRsv, what: fmt.Sprintf("add %s %s v%d (%s)", o.kind(), o.name, last+1, c19StateNames[o.state])})
					var extra []c19Event
					if r.Pct(20) {
						extra = append(extra, c19Event{add: true, new: o.versions[last], isRsv: o.isRsv, what: fmt.Sprintf("duplicate add %s %s v%d", o.kind(), o.name, last+1)})
					}
					if r.Pct(20) {
						extra = append(extra, c19Event{old: o.versions[last], new: c19Copy(o.versions[last]), isRsv: o.isRsv, what: fmt.Sprintf("no-op update %s %s v%d", o.kind(), o.name, last+1)})
					}
					kit.Shuffle(r, extra)
					q = append(q, extra...)
					if o.holds() {
						survivors++
						if !c19Empty(o.alloc) {
							perNode[o.node.name]++
						}
					}
					c.Count("replayed_"+o.kind()+"_"+c19StateNames[o.state], 1)
				case c19Assumed, c19Patched, c19Rejected, c19Unreserved:
					// still exists in the API, not bound
					obj := o.unassigned()
					if o.patched != nil {
						obj = o.patched
						c.Count("replayed_unbound_with_prebind_patch", 1)
					}
					q = append(q, c19Event{add: true, new: obj, isRsv: o.isRsv, what: fmt.Sprintf("add %s %s (unbound, %s)", o.kind(), o.name, c19StateNames[o.state])})
					if r.Pct(20) {
						q = append(q, c19Event{add: true, new: obj, isRsv: o.isRsv, what: fmt.Sprintf("duplicate add %s %s (unbound)", o.kind(), o.name)})
					}
					c.Count("replayed_"+o.kind()+"_unbound", 1)
				default:
					continue
				}
				for i := range q {
					q[i].obj = o
				}
				qIndex[o] = len(queues[o.isRsv])
				queues[o.isRsv] = append(queues[o.isRsv], q)
			}
			apply := func(ev c19Event) {
				if ev.topo != nil {
					ev.topo.install(tomR)
					installed[ev.topo.name] = true
					c.Op("restart informer: %s", ev.what)
					c.Count("replay_events_topology_add_among_pods", 1)
					return
				}
				if ev.obj != nil && !ev.del && (ev.obj.state == c19Bound || ev.obj.state == c19Terminated) {
					if installed[ev.obj.node.name] {
						ev.obj.afterTopo = true
					} else {
						ev.obj.beforeTopo = true
						c.Count("race_events_delivered_before_topology", 1)
					}
				}
				h := cache.ResourceEventHandler(hR)
				if ev.isRsv {
					h = rhR
				}
				switch {
				case ev.del:
					h.OnDelete(ev.old)
				case ev.add:
					h.OnAdd(ev.new, true)
				default:
					h.OnUpdate(ev.old, ev.new)
				}
				c.Op("restart informer: %s", ev.what)
				kind := strings.SplitN(ev.what, " ", 2)[0]
				if strings.HasPrefix(ev.what, "duplicate add") {
					kind = "duplicate_add"
				} else if strings.HasPrefix(ev.what, "no-op update") {
					kind = "noop_update"
				}
				c.Count("replay_events_"+kind, 1)
				c.Seen("replay", kind, ev.isRsv)
			}
			deliver := func(qs [][]c19Event) {
				for {
					var idx []int
					for i, q := range qs {
						if len(q) > 0 {
							idx = append(idx, i)
						}
					}
					if len(idx) == 0 {
						return
					}
					i := kit.Pick(r, idx)
					ev := qs[i][0]
					qs[i] = qs[i][1:]
					apply(ev)
				}
			}
			// tail generates one API change after the snapshot, feeds it to the live instance and returns the
			// watch event for the restarted scheduler.
			tail := func() (*c19Obj, *c19Event) {
				switch r.Weighted(40, 35, 25) {
				case 0:
					if o := pick(func(o *c19Obj) bool { return o.state == c19Bound }); o != nil {
						prev := o.latest()
						o.versions = append(o.versions, c19Touch(r, prev))
						echo(o, len(o.versions))
						return o, &c19Event{obj: o, old: prev, new: o.latest(), isRsv: o.isRsv, what: fmt.Sprintf("update %s %s v%d->v%d (touch after the snapshot)", o.kind(), o.name, len(o.versions)-1, len(o.versions))}
					}
				case 1:
					if o := pick(func(o *c19Obj) bool { return o.state == c19Bound }); o != nil {
						prev := o.latest()
						o.versions = append(o.versions, c19Terminate(r, prev))
						o.state = c19Terminated
						echo(o, len(o.versions))
						c.Count("terminated_after_snapshot", 1)
						return o, &c19Event{obj: o, old: prev, new: o.latest(), isRsv: o.isRsv, what: fmt.Sprintf("update %s %s v%d->v%d (terminated after the snapshot)", o.kind(), o.name, len(o.versions)-1, len(o.versions))}
					}
				case 2:
					if o := pick(func(o *c19Obj) bool { return o.state == c19Bound || o.state == c19Terminated }); o != nil {
						echo(o, len(o.versions))
						if o.isRsv {
							rhL.OnDelete(o.latest())
						} else {
							hL.OnDelete(o.latest())
						}
						o.state = c19Deleted
						c.Count("deleted_after_snapshot", 1)
						return o, &c19Event{obj: o, del: true, old: o.latest(), isRsv: o.isRsv, what: fmt.Sprintf("delete %s %s (after the snapshot)", o.kind(), o.name)}
					}
				}
				return nil, nil
			}
			ntail := kit.Pick(r, []int{0, 0, 1, 2, 3, 5})
			cmp := &c19Cmp{c: c, nodes: nodes, objs: objs}
			deliverAll := func() {
				if race {
					all := append(append(append([][]c19Event{}, queues[true]...), queues[false]...), topoQueues...)
					deliver(all)
					return
				}
				deliver(queues[true]) // reservations before pods
				deliver(queues[false])
			}
			// lostBeforeTopology: the allocation of an object whose every event so far reached the restarted scheduler
			// before its node's topology is dropped by resourceManager.Update (invalid topology) and nothing brings it
			// back. That loss is reported under its own signature, and ONLY that: the object is then re-delivered by a
			// harness-made no-op update (what a later resync would do) and the full comparison that follows must find
			// live and restarted state equal - any other difference keeps the generic signatures.
			lostBeforeTopology := func() {
				for _, o := range objs {
					if !o.holds() || c19Empty(o.alloc) || !o.beforeTopo || o.afterTopo {
						continue
					}
					c.Count("race_objects_delivered_only_before_topology", 1)
					if _, ok := rmR.GetNodeAllocation(o.node.name).allocatedPods[o.uid]; ok {
						c.Count("race_objects_delivered_only_before_topology_kept", 1)
						o.afterTopo = true // counted once
						continue
					}
					c.Count("race_objects_delivered_only_before_topology_lost", 1)
					c.Report("C19/numa/replay/allocation-lost-when-pod-delivered-before-topology", "node %s: %s %s is bound and holds %s; the restarted scheduler received it before the node's NodeResourceTopology (pod, reservation and topology informers are started together), resourceManager.Update dropped the allocation because the CPU topology was not valid yet, and nothing re-delivers it: its CPUs / NUMA amounts are free after the restart", o.node.name, o.kind(), o.name, c19AllocStr(o.alloc))
					nw := c19Copy(o.latest())
					if o.isRsv {
						rhR.OnUpdate(o.latest(), nw)
					} else {
						hR.OnUpdate(o.latest(), nw)
					}
					o.afterTopo = true
					c.Op("[harness] re-delivered %s %s by a no-op update after reporting the lost allocation", o.kind(), o.name)
				}
			}
			if r.Bool() {
				// two phases: snapshot, comparison, then the tail in order
				deliverAll()
				c.Op("---- comparison after the snapshot")
				lostBeforeTopology()
				cmp.compare(rmL, rmR, tomL, tomR)
				for i := 0; i < ntail; i++ {
					if _, ev := tail(); ev != nil {
						apply(*ev)
					}
				}
			} else {
				// watch events interleaved with the snapshot's adds (DeltaFIFO groups the deltas of one key): each
				// follows its own object's add, order across objects arbitrary
				for i := 0; i < ntail; i++ {
					if o, ev := tail(); ev != nil {
						qi := qIndex[o]
						queues[o.isRsv][qi] = append(queues[o.isRsv][qi], *ev)
					}
				}
				deliverAll()
			}
			c.Op("---- final comparison")
			c.Count("surviving_allocations", survivors)
			lostBeforeTopology()
			cmp.compare(rmL, rmR, tomL, tomR)

			two := false
			for _, k := range perNode {
				if k >= 2 {
					two = true
				}
			}
			if two && lost > 0 {
				c.NonTrivial()
			}

			if c.K < 2 {
				ops := c.Ops()
				if len(ops) > 14 {
					ops = ops[:14]
				}
				c.Sample(ops)
			}
		})
}
