//go:build verif

package core

// C19 monitor (unit "quota-restart"): the quota "used" a restarted scheduler rebuilds from the bound pods
// equals the one held by the scheduler that admitted them. See /verif/DESIGN.md section 4, C19.
//
// Executed: a real GroupQuotaManager ("live") driven through exactly the calls the elasticquota plugin makes:
//   pod created            -> OnPodAdd(quota, pod)                       (plugin.OnPodAdd)
//   Reserve / Unreserve    -> ReservePod / UnreservePod(quota, pod)      (plugin.Reserve / Unreserve)
//   any later pod version  -> OnPodUpdate(quota, quota, new, old)        (plugin.OnPodUpdate; resourceVersion differs)
//   pod deleted            -> OnPodDelete(quota, pod)
// The quota assignment that is persisted on the pod is its quota-name label; on replay the quota name is
// read back from the surviving object with extension.GetQuotaName. After the cut a FRESH manager gets the
// quota objects first (the plugin's private informer factory is started and ReplaceQuotas has run before the
// pod informer starts - this IS established by the start-up pipeline) and then the pods of one consistent
// snapshot through OnPodAdd in arbitrary order with 20 % duplicate adds and 20 % no-op updates; API changes
// after the snapshot (touch / terminate / delete) follow as watch events and are fed to the live manager too.
//
// Causal rules: a pod is created pending, reserved at most once at a time, then bound (node name set by the
// API server) or unreserved; bound pods get further versions that keep requests and labels, terminate
// (phase Succeeded/Failed, object stays) and are deleted; the live informer delivers versions in order,
// possibly compressed, terminations and deletions are flushed before the comparison; pods reserved but not
// bound at the cut are Unreserved (only BOUND pods survive as users of quota). Feature gates that change
// which pods are ignored are pinned to their defaults (off), so the wall clock is never consulted.
//
// Oracle: for every quota group (leaves, parents, root): used and non-preemptible used of the restarted
// manager == sum of the requests (masked by the group's declared resources, as seen through the hierarchy)
// of the surviving bound, not terminated pods of the subtree - in particular never less -, and == the live
// manager's. Quantities by Cmp, absent == zero. "request" is compared too but only counted.

import (
	"fmt"
	"sort"
	"testing"

	v1 "k8s.io/api/core/v1"
	"k8s.io/apimachinery/pkg/api/resource"
	metav1 "k8s.io/apimachinery/pkg/apis/meta/v1"
	"k8s.io/apimachinery/pkg/types"
	k8sfeature "k8s.io/apiserver/pkg/util/feature"
	"k8s.io/component-base/featuregate"
	apiresource "k8s.io/component-helpers/resource"
	"k8s.io/klog/v2"

	"github.com/koordinator-sh/koordinator/apis/extension"
	"github.com/koordinator-sh/koordinator/apis/thirdparty/scheduler-plugins/pkg/apis/scheduling/v1alpha1"
	"github.com/koordinator-sh/koordinator/pkg/features"
	kit "github.com/koordinator-sh/koordinator/pkg/verifkit"
)

func init() {
	klog.SetOutput(c19Discard{})
	klog.LogToStderr(false)
}

type c19Discard struct{}

func (c19Discard) Write(p []byte) (int, error) { return len(p), nil }

func c19PinGates() func() {
	gates := []featuregate.Feature{features.ElasticQuotaIgnorePodOverhead, features.ElasticQuotaIgnoreTerminatingPod,
		features.ElasticQuotaImmediateIgnoreTerminatingPod, features.ElasticQuotaGuaranteeUsage}
	mg := k8sfeature.DefaultMutableFeatureGate
	var restore []string
	for _, g := range gates {
		restore = append(restore, fmt.Sprintf("%s=%v", g, mg.Enabled(g)))
		_ = mg.Set(fmt.Sprintf("%s=false", g))
	}
	return func() {
		for _, s := range restore {
			_ = mg.Set(s)
		}
	}
}

const c19Ext = v1.ResourceName("example.com/ext")

type c19Group struct {
	name, parent string
	isParent     bool
	ext          bool // declares the extended resource
	noMem        bool // does not declare memory (a pod's memory is then not accounted in this group's subtree)
	smallMax     bool // a max that real use exceeds (accounting is not limited by it)
	min          int64
	weight       int
	noLent       bool
}

func (g *c19Group) object(rv int) *v1alpha1.ElasticQuota {
	huge := v1.ResourceList{v1.ResourceCPU: *resource.NewQuantity(1<<40, resource.DecimalSI), v1.ResourceMemory: *resource.NewQuantity(1<<55, resource.BinarySI)}
	if g.ext {
		huge[c19Ext] = *resource.NewQuantity(1<<40, resource.DecimalSI)
	}
	if g.smallMax {
		huge[v1.ResourceCPU] = *resource.NewQuantity(2, resource.DecimalSI)
	}
	if g.noMem {
		delete(huge, v1.ResourceMemory)
	}
	q := &v1alpha1.ElasticQuota{
		ObjectMeta: metav1.ObjectMeta{Name: g.name, Namespace: "ns", ResourceVersion: fmt.Sprint(rv), Labels: map[string]string{extension.LabelQuotaParent: g.parent}, Annotations: map[string]string{}},
		Spec:       v1alpha1.ElasticQuotaSpec{Max: huge, Min: v1.ResourceList{}},
	}
	if g.min > 0 {
		q.Spec.Min[v1.ResourceCPU] = *resource.NewQuantity(g.min, resource.DecimalSI)
	}
	if g.isParent {
		q.Labels[extension.LabelQuotaIsParent] = "true"
	}
	if g.noLent {
		q.Labels[extension.LabelAllowLentResource] = "false"
	}
	if g.weight > 0 {
		q.Annotations[extension.AnnotationSharedWeight] = fmt.Sprintf(`{"cpu":%d,"memory":%d}`, g.weight, g.weight*7)
	}
	return q
}

const (
	c19Pending = iota
	c19Assumed
	c19Bound
	c19Terminated
	c19Deleted
)

var c19StateNames = []string{"pending", "assumed", "bound", "terminated", "deleted"}

type c19Pod struct {
	name     string
	group    string
	state    int
	pending  *v1.Pod
	versions []*v1.Pod // bound versions
	echoed   int
	req      v1.ResourceList
	nonPre   bool
	termTail bool // terminated after the restarted manager had seen it bound (watch event after the snapshot)
}

func (p *c19Pod) latest() *v1.Pod {
	if len(p.versions) == 0 {
		return p.pending
	}
	return p.versions[len(p.versions)-1]
}

func c19RL(rl v1.ResourceList) string {
	names := make([]string, 0, len(rl))
	for n := range rl {
		names = append(names, string(n))
	}
	sort.Strings(names)
	s := "{"
	for _, n := range names {
		q := rl[v1.ResourceName(n)]
		if q.IsZero() {
			continue
		}
		s += n + ":" + q.String() + " "
	}
	return s + "}"
}

func c19Add(dst v1.ResourceList, src v1.ResourceList, names map[v1.ResourceName]bool) {
	for n, q := range src {
		if !names[n] || q.IsZero() {
			continue
		}
		cur := dst[n]
		cur.Add(q)
		dst[n] = cur
	}
}

// c19Diff compares two resource lists (absent == zero): first differing resource, both values, sign of b-a.
func c19Diff(a, b v1.ResourceList) (string, string, string, int) {
	names := map[string]bool{}
	for n := range a {
		names[string(n)] = true
	}
	for n := range b {
		names[string(n)] = true
	}
	ks := make([]string, 0, len(names))
	for n := range names {
		ks = append(ks, n)
	}
	sort.Strings(ks)
	for _, n := range ks {
		qa, qb := a[v1.ResourceName(n)], b[v1.ResourceName(n)]
		if s := qb.Cmp(qa); s != 0 {
			return n, qa.String(), qb.String(), s
		}
	}
	return "", "", "", 0
}

func TestVerifC19QuotaRestart(t *testing.T) {
	defer c19PinGates()()
	kit.Run(t, kit.Config{Property: "C19", Unit: "quota-restart", Quick: 3000, Thorough: 60000,
		Rule: "a quota tree of 1-8 groups (0-3 nested parents, depth up to 4; some declaring an extended resource, some not declaring memory; min, small max, shared weight, no-lent; default and system group as targets) in a real GroupQuotaManager and 20-70 operations over 4-12 pods: create (OnPodAdd), reserve (ReservePod), bind, unreserve, touch, terminate, delete, informer echo (OnPodUpdate/OnPodDelete) as the elasticquota plugin issues them; cut after a bind; reserved-but-unbound pods unreserved; a fresh manager gets the quotas, then every surviving pod through OnPodAdd in random order with 20% duplicate adds and 20% no-op updates, then watch events after the snapshot; used / non-preemptible used per group compared with the live manager's and with the sum over the surviving bound pods; distinct = (#groups, depth, pod state mix class, non-preemptible?, ext?, event kind); non-trivial = at least two bound survivors in one group and a terminated or deleted pod"},
		func(c *kit.Case) {
			r := c.R
			// ElasticQuotaIgnorePodOverhead changes what a pod's request is; both managers run under the same value
			ignoreOverhead := r.Pct(15)
			_ = k8sfeature.DefaultMutableFeatureGate.Set(fmt.Sprintf("%s=%v", features.ElasticQuotaIgnorePodOverhead, ignoreOverhead))
			maxPods := kit.Pick(r, []int{12, 12, 12, 20})
			newMgr := func() *GroupQuotaManager {
				huge := v1.ResourceList{v1.ResourceCPU: *resource.NewQuantity(1<<50, resource.DecimalSI), v1.ResourceMemory: *resource.NewQuantity(1<<60, resource.BinarySI), c19Ext: *resource.NewQuantity(1<<50, resource.DecimalSI)}
				return NewGroupQuotaManager("", r.Bool(), huge, huge)
			}
			live := newMgr()
			// ---- quota tree
			var groups []*c19Group
			ngroups := kit.Pick(r, []int{1, 2, 3, 3, 4, 4, 5, 6, 6, 8})
			nparents := c19Min(r.Range(0, 3), ngroups-1)
			for i := 0; i < ngroups; i++ {
				g := &c19Group{name: fmt.Sprintf("q%d", i), parent: extension.RootQuotaName, isParent: i < nparents, ext: r.Pct(40)}
				if i > 0 && nparents > 0 && r.Pct(70) {
					g.parent = groups[r.Intn(c19Min(i, nparents))].name // parents may nest: depth up to 4
				}
				if !g.isParent {
					g.noMem = r.Pct(12)
					g.smallMax = r.Pct(25)
				}
				if r.Pct(25) {
					g.min = 1 // small enough to satisfy min <= max and sum(children) <= parent in every tree drawn here
				}
				if g.isParent && r.Pct(50) {
					g.min = 16
				}
				if r.Pct(25) {
					g.weight = r.Range(1, 9)
				}
				g.noLent = r.Pct(20)
				groups = append(groups, g)
			}
			byName := map[string]*c19Group{}
			var leaves []string
			for _, g := range groups {
				byName[g.name] = g
				if err := live.UpdateQuota(g.object(1)); err != nil {
					c.Harness("UpdateQuota(%s): %v", g.name, err)
				}
				c.Op("quota %s parent=%s isParent=%v ext=%v", g.name, g.parent, g.isParent, g.ext)
				if !g.isParent {
					leaves = append(leaves, g.name)
				}
			}
			if r.Pct(30) || len(leaves) == 0 {
				leaves = append(leaves, extension.DefaultQuotaName)
			}
			if r.Pct(10) {
				leaves = append(leaves, extension.SystemQuotaName)
			}
			declared := func(name string) map[v1.ResourceName]bool {
				m := map[v1.ResourceName]bool{v1.ResourceCPU: true, v1.ResourceMemory: true}
				if g := byName[name]; g == nil || g.ext {
					m[c19Ext] = true
				}
				if g := byName[name]; g != nil && g.noMem {
					delete(m, v1.ResourceMemory)
				}
				return m
			}
			chain := func(leaf string) []string { // the groups a pod of this leaf is accounted in
				out := []string{leaf}
				for g := byName[leaf]; g != nil && g.parent != extension.RootQuotaName; g = byName[g.parent] {
					out = append(out, g.parent)
				}
				return out
			}

			// ---- pods
			var pods []*c19Pod
			seq := 0
			newPod := func() *c19Pod {
				p := &c19Pod{name: fmt.Sprintf("p%d", seq), group: kit.Pick(r, leaves), nonPre: r.Pct(20)}
				seq++
				p.req = v1.ResourceList{v1.ResourceCPU: *resource.NewMilliQuantity(kit.Pick(r, []int64{1, 250, 500, 1000, 1500, 4000, 64000}), resource.DecimalSI)}
				if r.Pct(5) {
					p.req = v1.ResourceList{} // a pod that requests nothing
				}
				if r.Pct(70) {
					p.req[v1.ResourceMemory] = *resource.NewQuantity(kit.Pick(r, []int64{1, 1 << 20, 1<<30 + 1, 3 << 30, 1 << 40}), resource.BinarySI)
				}
				if r.Pct(30) {
					p.req[c19Ext] = *resource.NewQuantity(int64(r.Range(1, 8)), resource.DecimalSI)
				}
				labels := map[string]string{extension.LabelQuotaName: p.group}
				if p.nonPre {
					labels[extension.LabelPreemptible] = "false"
				}
				p.pending = &v1.Pod{
					ObjectMeta: metav1.ObjectMeta{Namespace: "ns", Name: p.name, UID: types.UID("uid-" + p.name), ResourceVersion: "1", Labels: labels},
					Spec:       v1.PodSpec{Containers: []v1.Container{{Name: "main", Resources: v1.ResourceRequirements{Requests: p.req.DeepCopy(), Limits: p.req.DeepCopy()}}}},
				}
				if len(p.req) > 0 && r.Pct(20) {
					side := v1.ResourceList{v1.ResourceCPU: *resource.NewMilliQuantity(100, resource.DecimalSI)}
					p.pending.Spec.Containers = append(p.pending.Spec.Containers, v1.Container{Name: "side", Resources: v1.ResourceRequirements{Requests: side}})
				}
				if r.Pct(10) {
					p.pending.Spec.InitContainers = []v1.Container{{Name: "init", Resources: v1.ResourceRequirements{Requests: v1.ResourceList{v1.ResourceCPU: *resource.NewQuantity(128, resource.DecimalSI)}}}} // larger than the app containers: it defines the pod's cpu request
				}
				if r.Pct(10) {
					p.pending.Spec.Overhead = v1.ResourceList{v1.ResourceCPU: *resource.NewMilliQuantity(50, resource.DecimalSI), v1.ResourceMemory: *resource.NewQuantity(1<<20, resource.BinarySI)}
				}
				// the pod's request by the Kubernetes rule (sum of containers, max with init containers, plus overhead)
				p.req = apiresource.PodRequests(p.pending, apiresource.PodResourcesOptions{ExcludeOverhead: ignoreOverhead})
				pods = append(pods, p)
				live.OnPodAdd(p.group, p.pending)
				c.Op("create pod %s in %s req=%s nonPreemptible=%v (OnPodAdd)", p.name, p.group, c19RL(p.req), p.nonPre)
				return p
			}
			pick := func(pred func(p *c19Pod) bool) *c19Pod {
				var cand []*c19Pod
				for _, p := range pods {
					if pred(p) {
						cand = append(cand, p)
					}
				}
				if len(cand) == 0 {
					return nil
				}
				return kit.Pick(r, cand)
			}
			next := func(p *c19Pod, mut func(*v1.Pod)) {
				nv := p.latest().DeepCopy()
				nv.ResourceVersion += "1"
				mut(nv)
				p.versions = append(p.versions, nv)
			}
			bind := func(p *c19Pod) {
				next(p, func(nv *v1.Pod) { nv.Spec.NodeName = "n0" })
				p.state = c19Bound
				c.Op("bind %s", p.name)
				c.Count("binds", 1)
			}
			echo := func(p *c19Pod, upto int) {
				if upto <= p.echoed {
					return
				}
				old := p.pending
				if p.echoed > 0 {
					old = p.versions[p.echoed-1]
				}
				live.OnPodUpdate(p.group, p.group, p.versions[upto-1], old)
				c.Op("live informer: update %s version %d -> %d (OnPodUpdate)", p.name, p.echoed, upto)
				p.echoed = upto
				c.Count("live_echo_updates", 1)
			}
			terminate := func(p *c19Pod) {
				next(p, func(nv *v1.Pod) { nv.Status.Phase = kit.Pick(r, []v1.PodPhase{v1.PodSucceeded, v1.PodFailed}) })
				p.state = c19Terminated
				c.Op("api: terminate %s -> version %d", p.name, len(p.versions))
				c.Count("terminated", 1)
			}
			del := func(p *c19Pod) {
				echo(p, len(p.versions))
				live.OnPodDelete(p.group, p.latest())
				p.state = c19Deleted
				c.Op("api: delete %s (OnPodDelete)", p.name)
				c.Count("deleted", 1)
			}
			for i, n := 0, r.Range(2, 4); i < n; i++ {
				newPod()
			}
			nops := r.Range(20, 70)
			for op := 0; op < nops; op++ {
				switch r.Weighted(14, 26, 10, 6, 14, 10, 10, 10, 4) {
				case 8: // the pod's quota label is changed while it runs: it moves to another group
					if p := pick(func(p *c19Pod) bool { return p.state == c19Bound }); p != nil && len(leaves) > 1 {
						to := kit.Pick(r, leaves)
						if to == p.group {
							break
						}
						echo(p, len(p.versions)) // events of one pod arrive in order
						prev := p.latest()
						next(p, func(nv *v1.Pod) { nv.Labels[extension.LabelQuotaName] = to })
						live.OnPodUpdate(to, p.group, p.latest(), prev)
						c.Op("api: relabel %s from %s to %s -> version %d (OnPodUpdate with two quota names)", p.name, p.group, to, len(p.versions))
						p.group = to
						p.echoed = len(p.versions)
						c.Count("pods_relabelled_to_another_group", 1)
					}
				case 0:
					if len(pods) < maxPods {
						newPod()
					}
				case 1: // reserve (+ usually bind)
					if p := pick(func(p *c19Pod) bool { return p.state == c19Pending }); p != nil {
						live.ReservePod(p.group, p.pending)
						p.state = c19Assumed
						c.Op("reserve %s (ReservePod)", p.name)
						if r.Pct(75) {
							bind(p)
							if r.Bool() {
								echo(p, 1)
							}
						}
					}
				case 2:
					if p := pick(func(p *c19Pod) bool { return p.state == c19Assumed }); p != nil {
						bind(p)
					}
				case 3:
					if p := pick(func(p *c19Pod) bool { return p.state == c19Assumed }); p != nil {
						live.UnreservePod(p.group, p.pending)
						p.state = c19Pending
						c.Op("unreserve %s (UnreservePod, bind failed)", p.name)
						c.Count("unreserved", 1)
					}
				case 4:
					if p := pick(func(p *c19Pod) bool {
						return (p.state == c19Bound || p.state == c19Terminated) && p.echoed < len(p.versions)
					}); p != nil {
						echo(p, r.Range(p.echoed+1, len(p.versions)))
					}
				case 5:
					if p := pick(func(p *c19Pod) bool { return p.state == c19Bound }); p != nil {
						next(p, func(nv *v1.Pod) {
							nv.Labels["touched"] = nv.ResourceVersion
							if r.Pct(12) && nv.DeletionTimestamp == nil {
								ts := metav1.Unix(1700000000, 0) // terminating; with the ignore-terminating gates off it counts like any pod
								nv.DeletionTimestamp = &ts
							}
						})
						c.Op("api: touch %s -> version %d", p.name, len(p.versions))
					}
				case 6:
					if p := pick(func(p *c19Pod) bool { return p.state == c19Bound }); p != nil {
						terminate(p)
					}
				case 7:
					if p := pick(func(p *c19Pod) bool { return p.state == c19Bound || p.state == c19Terminated || p.state == c19Pending }); p != nil {
						del(p)
					}
				}
			}
			// the cut comes right after a bind
			for try := 0; try < 4; try++ {
				p := pick(func(p *c19Pod) bool { return p.state == c19Assumed })
				if p == nil {
					p = pick(func(p *c19Pod) bool { return p.state == c19Pending })
					if p == nil {
						p = newPod()
					}
					live.ReservePod(p.group, p.pending)
					p.state = c19Assumed
					c.Op("reserve %s (ReservePod)", p.name)
				}
				bind(p)
				break
			}
			c.Op("---- cut")
			for _, p := range pods {
				if p.state == c19Assumed {
					live.UnreservePod(p.group, p.pending)
					p.state = c19Pending
					c.Op("unreserve %s (in flight at the cut)", p.name)
					c.Count("unreserved", 1)
				}
			}
			for _, p := range pods {
				if p.state == c19Terminated {
					echo(p, len(p.versions))
				}
			}

			// ---- restart
			fresh := newMgr()
			order := append([]*c19Group(nil), groups...)
			kit.Shuffle(r, order)
			sort.SliceStable(order, func(i, j int) bool { return len(chain(order[i].name)) < len(chain(order[j].name)) }) // parents before children
			for _, g := range order {
				if err := fresh.UpdateQuota(g.object(1)); err != nil {
					c.Harness("fresh UpdateQuota(%s): %v", g.name, err)
				}
			}
			type event struct {
				kind     string
				old, new *v1.Pod
				pod      *c19Pod
			}
			var queues [][]event
			qIndex := map[*c19Pod]int{}
			for _, p := range pods {
				if p.state == c19Deleted {
					continue
				}
				q := []event{{kind: "add", new: p.latest(), pod: p}}
				var extra []event
				if r.Pct(20) {
					extra = append(extra, event{kind: "duplicate_add", new: p.latest(), pod: p})
				}
				if r.Pct(20) {
					nv := p.latest().DeepCopy()
					nv.ResourceVersion += "7" // a resync/no-op update still has to pass the plugin's resourceVersion test
					extra = append(extra, event{kind: "noop_update", old: p.latest(), new: nv, pod: p})
				}
				kit.Shuffle(r, extra)
				q = append(q, extra...)
				qIndex[p] = len(queues)
				queues = append(queues, q)
				c.Count("replayed_"+c19StateNames[p.state], 1)
			}
			apply := func(ev event) {
				// the quota name is what the plugin's handler reads from the surviving object
				qn := extension.GetQuotaName(ev.pod.latest())
				if qn != ev.pod.group {
					c.Fail("C19/quota/assignment-lost", "pod %s was admitted in group %s, its persisted object names %q", ev.pod.name, ev.pod.group, qn)
				}
				switch ev.kind {
				case "add", "duplicate_add":
					fresh.OnPodAdd(qn, ev.new)
				case "delete":
					fresh.OnPodDelete(qn, ev.old)
				default:
					fresh.OnPodUpdate(qn, qn, ev.new, ev.old)
				}
				c.Op("restart informer: %s %s rv=%s", ev.kind, ev.pod.name, func() string {
					if ev.new != nil {
						return ev.new.ResourceVersion
					}
					return ev.old.ResourceVersion
				}())
				c.Count("replay_events_"+ev.kind, 1)
				c.Seen("replay", ev.kind, c19StateNames[ev.pod.state])
			}
			deliver := func() {
				for {
					var idx []int
					for i, q := range queues {
						if len(q) > 0 {
							idx = append(idx, i)
						}
					}
					if len(idx) == 0 {
						return
					}
					i := kit.Pick(r, idx)
					ev := queues[i][0]
					queues[i] = queues[i][1:]
					apply(ev)
				}
			}
			tail := func() *event {
				switch r.Weighted(40, 35, 25) {
				case 0:
					if p := pick(func(p *c19Pod) bool { return p.state == c19Bound }); p != nil {
						prev := p.latest()
						next(p, func(nv *v1.Pod) { nv.Labels["touched"] = nv.ResourceVersion })
						echo(p, len(p.versions))
						return &event{kind: "update", old: prev, new: p.latest(), pod: p}
					}
				case 1:
					if p := pick(func(p *c19Pod) bool { return p.state == c19Bound }); p != nil {
						prev := p.latest()
						terminate(p)
						p.termTail = true
						echo(p, len(p.versions))
						return &event{kind: "update", old: prev, new: p.latest(), pod: p}
					}
				case 2:
					if p := pick(func(p *c19Pod) bool { return p.state != c19Deleted }); p != nil {
						old := p.latest()
						del(p)
						return &event{kind: "delete", old: old, pod: p}
					}
				}
				return nil
			}
			lingerSig, lingerMsg := "", ""
			compare := func(where string) {
				names := []string{extension.DefaultQuotaName, extension.RootQuotaName}
				for _, g := range groups {
					names = append(names, g.name)
				}
				for _, name := range names {
					qL, qR := live.GetQuotaInfoByName(name), fresh.GetQuotaInfoByName(name)
					if qL == nil || qR == nil {
						c.Harness("group %s missing in a manager", name)
					}
					if name == extension.RootQuotaName {
						continue // the root keeps no used of its own in this tree
					}
					// Expected from the surviving objects: the bound, not terminated pods of the subtree (strict). Whether a
					// pod that terminated (phase Succeeded/Failed) while a manager held it as assigned stays counted until
					// it is deleted is not fixed by the property; both readings are accepted for each manager on its own
					// ("tail": pods that terminated after the restarted manager had seen them bound; "lingering": pods that
					// terminated before the snapshot, which only the live manager ever saw bound). What IS the property:
					// the restarted manager accounts at least the strict amount, and the same as the live one.
					all := map[v1.ResourceName]bool{v1.ResourceCPU: true, v1.ResourceMemory: true, c19Ext: true}
					exp, expNP, tailT, tailNP, lingering, lingeringNP := v1.ResourceList{}, v1.ResourceList{}, v1.ResourceList{}, v1.ResourceList{}, v1.ResourceList{}, v1.ResourceList{}
					for _, p := range pods {
						in := false
						for _, gname := range chain(p.group) {
							if gname == name {
								in = true
							}
						}
						if !in {
							continue
						}
						// a pod's amounts are masked by the resources its own group declares; the ancestors get the same delta
						masked := p.req.DeepCopy()
						d := declared(p.group)
						for n := range masked {
							if !d[n] {
								delete(masked, n)
							}
						}
						var dst, dstNP v1.ResourceList
						switch {
						case p.state == c19Bound:
							dst, dstNP = exp, expNP
						case p.state == c19Terminated && p.termTail:
							dst, dstNP = tailT, tailNP
						case p.state == c19Terminated:
							dst, dstNP = lingering, lingeringNP
						default:
							continue
						}
						c19Add(dst, masked, all)
						if p.nonPre {
							c19Add(dstNP, masked, all)
						}
					}
					plus := func(a, b v1.ResourceList) v1.ResourceList {
						out := v1.ResourceList{}
						c19Add(out, a, all)
						c19Add(out, b, all)
						return out
					}
					usedL, usedR := qL.GetUsed(), qR.GetUsed()
					npL, npR := qL.GetNonPreemptibleUsed(), qR.GetNonPreemptibleUsed()
					if n, a, b, s := c19Diff(exp, usedR); n != "" {
						if s < 0 {
							c.Fail("C19/quota/used-free-after-restart", "%s: group %s %s: the surviving bound pods request %s, the restarted manager accounts only %s as used", where, name, n, a, b)
						}
						if n2, _, _, _ := c19Diff(plus(exp, tailT), usedR); n2 != "" {
							c.Fail("C19/quota/used-by-nobody-after-restart", "%s: group %s %s: the surviving bound pods request %s (pods that terminated after the snapshot: %s), the restarted manager accounts %s as used", where, name, n, a, c19RL(tailT), b)
						}
						c.Count("restarted_manager_counts_pods_that_terminated_after_the_snapshot", 1)
					}
					if n, a, b, _ := c19Diff(expNP, npR); n != "" {
						if n2, _, _, _ := c19Diff(plus(expNP, tailNP), npR); n2 != "" {
							c.Fail("C19/quota/non-preemptible-used-after-restart", "%s: group %s %s: the surviving bound non-preemptible pods request %s, the restarted manager accounts %s", where, name, n, a, b)
						}
					}
					// live vs restarted
					if n, a, b, _ := c19Diff(usedL, usedR); n != "" {
						if n2, _, _, _ := c19Diff(usedL, plus(usedR, lingering)); n2 != "" {
							c.Fail("C19/quota/used", "%s: group %s %s: used is %s in the live manager and %s in the restarted one (terminated pods that still exist account for %s)", where, name, n, a, b, c19RL(lingering))
						}
						// the difference is exactly the lingering terminated pods: reported at the end of the case so that it
						// cannot hide any other difference
						if lingerSig == "" {
							lingerSig = "C19/quota/used/terminated-pods-counted-by-live-only"
							lingerMsg = fmt.Sprintf("%s: group %s %s: used is %s in the live manager and %s in the restarted one; the difference is exactly the requests of pods that terminated (phase Succeeded/Failed) after they were assigned and still exist: the live manager keeps counting them until they are deleted (OnPodUpdate), OnPodAdd in the restarted manager never counts them", where, name, n, a, b)
						}
					}
					if n, a, b, _ := c19Diff(npL, npR); n != "" {
						if n2, _, _, _ := c19Diff(npL, plus(npR, lingeringNP)); n2 != "" {
							c.Fail("C19/quota/non-preemptible-used", "%s: group %s %s: non-preemptible used is %s in the live manager and %s in the restarted one", where, name, n, a, b)
						}
					}
					if n, _, _, _ := c19Diff(qL.GetRequest(), qR.GetRequest()); n != "" {
						c.Count("request_differs_not_asserted", 1)
					}
					c.Count("group_comparisons", 1)
				}
			}
			ntail := kit.Pick(r, []int{0, 0, 1, 2, 3, 5})
			if r.Bool() {
				deliver()
				c.Op("---- comparison after the snapshot")
				compare("after the snapshot")
				for i := 0; i < ntail; i++ {
					if ev := tail(); ev != nil {
						apply(*ev)
					}
				}
			} else {
				for i := 0; i < ntail; i++ {
					if ev := tail(); ev != nil {
						if qi, ok := qIndex[ev.pod]; ok {
							queues[qi] = append(queues[qi], *ev)
						}
					}
				}
				deliver()
			}
			c.Op("---- final comparison")
			compare("final")
			boundPer := map[string]int{}
			pend, gone := false, false
			mix := ""
			for _, p := range pods {
				switch p.state {
				case c19Bound:
					boundPer[p.group]++
				case c19Pending:
					pend = true
				case c19Terminated, c19Deleted:
					gone = true
				}
			}
			two := false
			for _, k := range boundPer {
				if k >= 2 {
					two = true
				}
			}
			mix = fmt.Sprintf("b%v p%v g%v", two, pend, gone)
			depth := 1
			for _, g := range groups {
				if d := len(chain(g.name)); d > depth {
					depth = d
				}
			}
			c.Seen(len(groups), depth, mix)
			if two && gone {
				c.NonTrivial()
			}
			if c.K < 2 {
				ops := c.Ops()
				if len(ops) > 14 {
					ops = ops[:14]
				}
				c.Sample(ops)
			}
			if lingerSig != "" {
				c.Count("cases_with_terminated_pods_counted_by_live_only", 1)
				c.Fail(lingerSig, "%s", lingerMsg)
			}
		})
}

func c19Min(a, b int) int {
	if a < b {
		return a
	}
	return b
}
