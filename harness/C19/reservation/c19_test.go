//go:build verif

package reservation

// C19 monitor (unit "reservation-restart"): the assignment of pods to reservations survives a restart.
// See /verif/DESIGN.md section 4, C19.
//
// Executed: the package's real Plugin (built once with the package's own suite) on a fresh
// reservationCache + nominator per case. Reservations (Available on one of two nodes) reach the cache
// through the real reservationEventHandler. Every pod goes through the plugin's own entry points in the
// order the framework calls them:
//     BeforePreFilter -> Filter -> Reserve (nominates a reservation and assumes the pod in it)
//     -> PreBind (writes the reservation-allocated annotation) -> bind
// At the cut a FRESH reservationCache gets the reservation objects first (reservationEventHandler.OnAdd;
// DESIGN: reservations are synced before pods) and then the pods of one consistent snapshot through the
// real podEventHandler (OnAdd / OnUpdate / OnDelete) in arbitrary order with 20 % duplicate adds and 20 %
// no-op updates; API changes after the snapshot follow as watch events and are fed to the live cache too.
//
// Causal rules: as in the nodenumaresource unit (assumed -> pre-bound -> bound | unreserved | in flight at
// the cut; only BOUND pods survive as users of a reservation, in-flight pods are Unreserved before the
// comparison; bound pods are touched, terminate, are deleted; the live informer echoes versions in order,
// terminations and deletions are flushed). A reservation may complete (phase Succeeded, removed from the
// live cache by the handler chain) - its object survives, inactive.
//
// Oracle: for every reservation: live ReservationInfo == replayed ReservationInfo in Allocated (Cmp, absent
// == zero), the set of assigned pods and their requests, the allocated host ports, and the per-node
// "allocated" index; the assigned pods of the replayed cache are exactly the surviving bound, not
// terminated pods whose PreBind named that reservation; in particular no reserved amount that was taken is
// free after the restart.

import (
	"context"
	"fmt"
	"sort"
	"strings"
	"sync"
	"testing"

	corev1 "k8s.io/api/core/v1"
	"k8s.io/apimachinery/pkg/api/resource"
	metav1 "k8s.io/apimachinery/pkg/apis/meta/v1"
	"k8s.io/apimachinery/pkg/types"
	quotav1 "k8s.io/apiserver/pkg/quota/v1"
	apiresource "k8s.io/component-helpers/resource"
	"k8s.io/klog/v2"
	"k8s.io/kubernetes/pkg/scheduler/framework"
	"k8s.io/utils/ptr"

	apiext "github.com/koordinator-sh/koordinator/apis/extension"
	schedulingv1alpha1 "github.com/koordinator-sh/koordinator/apis/scheduling/v1alpha1"
	"github.com/koordinator-sh/koordinator/pkg/scheduler/frameworkext"
	reservationutil "github.com/koordinator-sh/koordinator/pkg/util/reservation"
	kit "github.com/koordinator-sh/koordinator/pkg/verifkit"
)

func init() {
	klog.SetOutput(c19Discard{})
	klog.LogToStderr(false)
}

type c19Discard struct{}

func (c19Discard) Write(p []byte) (int, error) { return len(p), nil }

var (
	c19Once   sync.Once
	c19Pl     *Plugin
	c19Lister *fakeSharedLister
	c19Nodes  []*corev1.Node
)

var c19NodeNames = []string{"n0", "n1", "n2"}

func c19Plugin(t *testing.T) (*Plugin, *fakeSharedLister) {
	c19Once.Do(func() {
		for _, n := range c19NodeNames {
			c19Nodes = append(c19Nodes, &corev1.Node{ObjectMeta: metav1.ObjectMeta{Name: n}, Status: corev1.NodeStatus{Allocatable: corev1.ResourceList{
				corev1.ResourceCPU:    resource.MustParse("100000"),
				corev1.ResourceMemory: *resource.NewQuantity(1<<55, resource.BinarySI),
				corev1.ResourcePods:   resource.MustParse("10000"),
			}}})
		}
		suit := newPluginTestSuitWith(t, nil, c19Nodes)
		p, err := suit.pluginFactory()
		if err != nil {
			t.Fatalf("plugin factory: %v", err)
		}
		c19Pl = p.(*Plugin)
		l, ok := c19Pl.handle.SnapshotSharedLister().(*fakeSharedLister)
		if !ok {
			t.Fatalf("unexpected snapshot lister %T", c19Pl.handle.SnapshotSharedLister())
		}
		c19Lister = l
	})
	return c19Pl, c19Lister
}

type c19Rsv struct {
	obj  *schedulingv1alpha1.Reservation // latest version
	gone bool                            // completed (Succeeded) and removed from the live cache
}

func c19GenRsv(r *kit.Rand, i int, nodeNames []string) *schedulingv1alpha1.Reservation {
	alloc := corev1.ResourceList{
		corev1.ResourceCPU:    resource.MustParse(kit.Pick(r, []string{"500m", "2", "4", "8", "16", "64"})),
		corev1.ResourceMemory: resource.MustParse(kit.Pick(r, []string{"1", "4Gi", "8Gi", "16Gi", "17179869185"})),
	}
	if r.Pct(10) {
		delete(alloc, kit.Pick(r, []corev1.ResourceName{corev1.ResourceCPU, corev1.ResourceMemory})) // reserves one dimension only
	}
	if r.Pct(25) {
		alloc["example.com/ext"] = resource.MustParse(kit.Pick(r, []string{"1", "2", "4"}))
	}
	ct := corev1.Container{Name: "main", Resources: corev1.ResourceRequirements{Requests: alloc.DeepCopy()}}
	if r.Pct(40) {
		ct.Ports = []corev1.ContainerPort{{HostPort: 8080, ContainerPort: 8080, Protocol: corev1.ProtocolTCP}, {HostPort: 8081, ContainerPort: 8081, Protocol: corev1.ProtocolTCP}}
	}
	res := &schedulingv1alpha1.Reservation{
		ObjectMeta: metav1.ObjectMeta{Name: fmt.Sprintf("rsv-%d", i), UID: types.UID(fmt.Sprintf("r-%d", i)), ResourceVersion: "1", Annotations: map[string]string{}, Labels: map[string]string{}},
		Spec: schedulingv1alpha1.ReservationSpec{
			Template: &corev1.PodTemplateSpec{Spec: corev1.PodSpec{Containers: []corev1.Container{ct}}},
			TTL:      &metav1.Duration{},
			Owners:   []schedulingv1alpha1.ReservationOwner{{LabelSelector: &metav1.LabelSelector{MatchLabels: map[string]string{"app": kit.Pick(r, []string{"a", "a", "b"})}}}},
		},
	}
	if r.Pct(15) {
		// a second owner entry (entries are ORed): every pod of a namespace
		res.Spec.Owners = append(res.Spec.Owners, schedulingv1alpha1.ReservationOwner{Object: &corev1.ObjectReference{Namespace: kit.Pick(r, []string{"default", "ns1"})}})
	}
	if r.Pct(8) {
		res.Spec.Unschedulable = true
	}
	switch r.Weighted(20, 40, 40) {
	case 1:
		res.Spec.AllocatePolicy = schedulingv1alpha1.ReservationAllocatePolicyAligned
	case 2:
		res.Spec.AllocatePolicy = schedulingv1alpha1.ReservationAllocatePolicyRestricted
		if r.Pct(30) {
			_ = apiext.SetReservationRestrictedOptions(res, &apiext.ReservationRestrictedOptions{Resources: []corev1.ResourceName{kit.Pick(r, []corev1.ResourceName{corev1.ResourceCPU, corev1.ResourceMemory})}})
		}
	}
	switch r.Weighted(20, 20, 60) {
	case 1:
		res.Spec.AllocateOnce = ptr.To(true)
	case 2:
		res.Spec.AllocateOnce = ptr.To(false)
	}
	res.Status.Phase = schedulingv1alpha1.ReservationAvailable
	res.Status.NodeName = kit.Pick(r, nodeNames)
	res.Status.Allocatable = alloc.DeepCopy()
	if q, ok := alloc[corev1.ResourceCPU]; ok && r.Pct(10) {
		q.Add(resource.MustParse("1")) // the scheduler granted more than the template asked for (resized reservation)
		res.Status.Allocatable[corev1.ResourceCPU] = q
	}
	return res
}

const (
	c19Idle = iota
	c19Rejected
	c19Assumed
	c19Patched
	c19Bound
	c19Terminated
	c19Deleted
	c19Unreserved
)

var c19StateNames = []string{"idle", "rejected", "assumed", "patched", "bound", "terminated", "deleted", "unreserved"}

type c19Pod struct {
	name     string
	state    int
	node     string
	pod      *corev1.Pod
	cs       *framework.CycleState
	rUID     types.UID // the reservation Reserve assumed the pod in ("" = none)
	rName    string
	req      corev1.ResourceList
	patched  *corev1.Pod
	versions []*corev1.Pod
	echoed   int

	beforeRsv, afterRsv bool // a bound version reached the restarted scheduler before / after its reservation
}

func (p *c19Pod) latest() *corev1.Pod { return p.versions[len(p.versions)-1] }

func c19GenPod(r *kit.Rand, i int, freePorts []int32, rsvNames []string) *c19Pod {
	req := corev1.ResourceList{}
	if r.Pct(90) {
		req[corev1.ResourceCPU] = resource.MustParse(kit.Pick(r, []string{"1m", "500m", "1", "2", "3"}))
	}
	if r.Pct(80) {
		req[corev1.ResourceMemory] = resource.MustParse(kit.Pick(r, []string{"1", "1Gi", "2Gi", "4294967297"}))
	}
	if r.Pct(15) {
		req["example.com/ext"] = resource.MustParse("1")
	}
	if r.Pct(15) {
		req["example.com/not-reserved"] = resource.MustParse("3")
	}
	ct := corev1.Container{Name: "main", Resources: corev1.ResourceRequirements{Requests: req.DeepCopy(), Limits: req.DeepCopy()}}
	if len(freePorts) > 0 && r.Pct(25) {
		// a host port nobody else uses on the node (the NodePorts plugin would refuse the pod otherwise)
		hp := kit.Pick(r, freePorts)
		cp := corev1.ContainerPort{HostPort: hp, ContainerPort: hp, Protocol: corev1.ProtocolTCP}
		if r.Pct(25) {
			cp.Protocol = corev1.ProtocolUDP
		}
		if r.Pct(20) {
			cp.HostIP = "127.0.0.1"
		}
		ct.Ports = []corev1.ContainerPort{cp}
	}
	containers := []corev1.Container{ct}
	if r.Pct(15) {
		side := corev1.ResourceList{corev1.ResourceCPU: resource.MustParse("250m"), corev1.ResourceMemory: resource.MustParse("1Mi")}
		containers = append(containers, corev1.Container{Name: "side", Resources: corev1.ResourceRequirements{Requests: side, Limits: side.DeepCopy()}})
	}
	p := &corev1.Pod{ObjectMeta: metav1.ObjectMeta{Namespace: kit.Pick(r, []string{"default", "default", "default", "default", "default", "ns1"}), Name: fmt.Sprintf("p%d", i), UID: types.UID(fmt.Sprintf("uid-p%d", i)), ResourceVersion: "1",
		Labels: map[string]string{"app": kit.Pick(r, []string{"a", "a", "b", "c"})}, Annotations: map[string]string{}},
		Spec: corev1.PodSpec{Containers: containers}, Status: corev1.PodStatus{Phase: corev1.PodPending}}
	if r.Pct(6) {
		p.Labels[apiext.LabelReservationIgnored] = "true"
	}
	if len(rsvNames) > 0 && r.Pct(12) {
		_ = apiext.SetReservationAffinity(p, &apiext.ReservationAffinity{Name: kit.Pick(r, rsvNames)}) // must use this reservation or none
	}
	return &c19Pod{name: p.Name, pod: p, req: apiresource.PodRequests(p, apiresource.PodResourcesOptions{})}
}

func c19RL(rl corev1.ResourceList) string {
	names := make([]string, 0, len(rl))
	for n := range rl {
		names = append(names, string(n))
	}
	sort.Strings(names)
	s := "{"
	for _, n := range names {
		q := rl[corev1.ResourceName(n)]
		if q.IsZero() {
			continue
		}
		s += n[strings.LastIndex(n, "/")+1:] + ":" + q.String() + " "
	}
	return s + "}"
}

func c19DiffRL(a, b corev1.ResourceList) (string, string, string, int) {
	names := map[string]bool{}
	for n := range a {
		names[string(n)] = true
	}
	for n := range b {
		names[string(n)] = true
	}
	ks := make([]string, 0, len(names))
	for n := range names {
		ks = append(ks, n)
	}
	sort.Strings(ks)
	for _, n := range ks {
		qa, qb := a[corev1.ResourceName(n)], b[corev1.ResourceName(n)]
		if s := qb.Cmp(qa); s != 0 {
			return n, qa.String(), qb.String(), s
		}
	}
	return "", "", "", 0
}

func c19Ports(ri *frameworkext.ReservationInfo) []string {
	var out []string
	for ip, pp := range ri.AllocatedPorts {
		for p := range pp {
			out = append(out, fmt.Sprintf("%s/%s/%d", ip, p.Protocol, p.Port))
		}
	}
	sort.Strings(out)
	return out
}

func c19Assigned(ri *frameworkext.ReservationInfo) []string {
	out := make([]string, 0, len(ri.AssignedPods))
	for uid := range ri.AssignedPods {
		out = append(out, string(uid))
	}
	sort.Strings(out)
	return out
}

func c19Index(m map[string]map[types.UID]struct{}) []string {
	var out []string
	for node, set := range m {
		for uid := range set {
			out = append(out, node+"/"+string(uid))
		}
	}
	sort.Strings(out)
	return out
}

func c19Compare(c *kit.Case, where string, live, replay *reservationCache, rsvs []*c19Rsv, pods []*c19Pod) {
	live.lock.RLock()
	defer live.lock.RUnlock()
	replay.lock.RLock()
	defer replay.lock.RUnlock()
	for _, x := range rsvs {
		uid := x.obj.UID
		riL, riR := live.reservationInfos[uid], replay.reservationInfos[uid]
		// expected users: surviving bound, not terminated pods whose PreBind named this reservation
		var expect []string
		expAlloc := corev1.ResourceList{}
		for _, p := range pods {
			if p.state == c19Bound && p.rUID == uid {
				expect = append(expect, string(p.pod.UID))
				if riR != nil {
					expAlloc = quotav1.Add(expAlloc, quotav1.Mask(p.req, riR.ResourceNames))
				}
			}
		}
		sort.Strings(expect)
		if (riL == nil) != (riR == nil) {
			c.Fail("C19/reservation/presence", "%s: reservation %s (%s, phase %s): known to the live cache=%v, to the restarted one=%v", where, x.obj.Name, uid, x.obj.Status.Phase, riL != nil, riR != nil)
		}
		if riR == nil {
			continue
		}
		gotR := c19Assigned(riR)
		if fmt.Sprint(gotR) != fmt.Sprint(expect) {
			for _, e := range expect {
				found := false
				for _, g := range gotR {
					if g == e {
						found = true
					}
				}
				if !found {
					c.Fail("C19/reservation/assignment-lost", "%s: pod %s is bound and was assigned to reservation %s (%s) by PreBind; the restarted cache does not hold it (holds %v)", where, e, x.obj.Name, uid, gotR)
				}
			}
			c.Fail("C19/reservation/ghost-assignment", "%s: reservation %s (%s): the surviving bound pods assigned to it are %v, the restarted cache holds %v", where, x.obj.Name, uid, expect, gotR)
		}
		if n, a, b, s := c19DiffRL(expAlloc, riR.Allocated); n != "" {
			if s < 0 {
				c.Fail("C19/reservation/reserved-amount-free-after-restart", "%s: reservation %s (%s) %s: the surviving bound pods assigned to it request %s, the restarted cache accounts only %s as allocated", where, x.obj.Name, uid, n, a, b)
			}
			c.Fail("C19/reservation/allocated", "%s: reservation %s (%s) %s: the surviving bound pods assigned to it request %s, the restarted cache accounts %s as allocated", where, x.obj.Name, uid, n, a, b)
		}
		if fmt.Sprint(c19Assigned(riL)) != fmt.Sprint(gotR) {
			c.Fail("C19/reservation/assigned-pods", "%s: reservation %s (%s): assigned pods are %v in the live cache and %v in the restarted one", where, x.obj.Name, uid, c19Assigned(riL), gotR)
		}
		if n, a, b, s := c19DiffRL(riL.Allocated, riR.Allocated); n != "" {
			if s < 0 {
				c.Fail("C19/reservation/reserved-amount-free-after-restart", "%s: reservation %s (%s) %s: allocated is %s in the live cache and %s in the restarted one", where, x.obj.Name, uid, n, a, b)
			}
			c.Fail("C19/reservation/allocated", "%s: reservation %s (%s) %s: allocated is %s in the live cache and %s in the restarted one", where, x.obj.Name, uid, n, a, b)
		}
		for puid, reqL := range riL.AssignedPods {
			reqR := riR.AssignedPods[puid]
			if reqR == nil {
				continue
			}
			if n, a, b, _ := c19DiffRL(reqL.Requests, reqR.Requests); n != "" {
				c.Fail("C19/reservation/pod-request", "%s: reservation %s: pod %s %s: recorded request is %s in the live cache and %s in the restarted one", where, x.obj.Name, puid, n, a, b)
			}
		}
		if fmt.Sprint(c19Ports(riL)) != fmt.Sprint(c19Ports(riR)) {
			c.Fail("C19/reservation/allocated-ports", "%s: reservation %s (%s): allocated host ports are %v in the live cache and %v in the restarted one", where, x.obj.Name, uid, c19Ports(riL), c19Ports(riR))
		}
		c.Count("reservation_comparisons", 1)
		c.Count("assigned_pods_compared", len(gotR))
	}
	if a, b := c19Index(live.allocatedOnNode), c19Index(replay.allocatedOnNode); fmt.Sprint(a) != fmt.Sprint(b) {
		c.Fail("C19/reservation/allocated-index", "%s: allocated-on-node index is %v in the live cache and %v in the restarted one", where, a, b)
	}
	// The matchable index is refreshed only by reservation events, not when a pod is entered or removed: for an
	// allocate-once reservation (matchable only while it has no pod) it is stale until the next reservation event, in
	// either direction, in the live cache as well as in the restarted one, depending on the order of events. It is
	// therefore compared for the reservations whose matchability does not depend on their pods.
	stale := map[string]bool{}
	for _, x := range rsvs {
		if x.obj.Spec.AllocateOnce == nil || *x.obj.Spec.AllocateOnce {
			stale[string(x.obj.UID)] = true
		}
	}
	matchable := func(m map[string]map[types.UID]struct{}) []string {
		var out []string
		for _, e := range c19Index(m) {
			if !stale[e[strings.Index(e, "/")+1:]] {
				out = append(out, e)
			}
		}
		return out
	}
	if a, b := matchable(live.matchableOnNode), matchable(replay.matchableOnNode); fmt.Sprint(a) != fmt.Sprint(b) {
		c.Fail("C19/reservation/matchable-index", "%s: matchable-on-node index is %v in the live cache and %v in the restarted one", where, a, b)
	}
	if a, b := c19Index(live.reservationsOnNode), c19Index(replay.reservationsOnNode); fmt.Sprint(a) != fmt.Sprint(b) {
		c.Fail("C19/reservation/node-index", "%s: reservations-on-node index is %v in the live cache and %v in the restarted one", where, a, b)
	}
}

type c19Event struct {
	kind     string
	old, new *corev1.Pod
	pod      *c19Pod
	rsv      *c19Rsv // the event is the add of this reservation (race mode)
}

func TestVerifC19ReservationRestart(t *testing.T) {
	pl, lister := c19Plugin(t)
	ctx := context.TODO()
	kit.Run(t, kit.Config{Property: "C19", Unit: "reservation-restart", Quick: 3000, Thorough: 50000,
		Rule: "1-6 Available reservations (cpu and/or memory from 500m to 64 CPUs, 25% an extended resource, 40% host ports; default / Aligned / Restricted policy with or without restricted options; allocate-once true / false / default; unschedulable; resized allocatable; label or namespace owners) on 1-3 nodes in a real reservationCache and 15-50 operations of the real reservation Plugin: scheduling cycle of a new pod (BeforePreFilter, Filter, Reserve with nomination), PreBind + bind, unreserve, touch, terminate, delete, informer echo, a reservation completing; cut after a bind; in-flight pods unreserved; a fresh cache gets the reservations, then every surviving pod through the real pod event handler in random order with 20% duplicate adds and 20% no-op updates, then watch events after the snapshot; ReservationInfo ledgers compared; distinct = (#reservations, policy, allocate-once, pod outcome, #pods in the reservation, ports?, event kind); non-trivial = a reservation with at least two surviving assigned pods and at least one assignment that does not survive"},
		func(c *kit.Case) {
			r := c.R
			cacheL := newReservationCache(nil)
			nmL := newNominator(nil, nil)
			pl.reservationCache, pl.nominator = cacheL, nmL
			rhL := &reservationEventHandler{cache: cacheL, rrNominator: nmL}
			phL := &podEventHandler{cache: cacheL, nominator: nmL}
			var rsvs []*c19Rsv
			nodeNames := c19NodeNames[:kit.Pick(r, []int{1, 2, 2, 2, 3, 3})]
			for i, n := 0, kit.Pick(r, []int{1, 2, 2, 3, 3, 4, 4, 5, 6}); i < n; i++ {
				res := c19GenRsv(r, i, nodeNames)
				rsvs = append(rsvs, &c19Rsv{obj: res})
				rhL.OnAdd(res, true)
				c.Op("reservation %s(%s) on %s reserves %s policy=%q allocateOnce=%v ports=%d owners app=%s", res.Name, res.UID, res.Status.NodeName, c19RL(res.Status.Allocatable), res.Spec.AllocatePolicy,
					res.Spec.AllocateOnce, len(res.Spec.Template.Spec.Containers[0].Ports), res.Spec.Owners[0].LabelSelector.MatchLabels["app"])
			}
			var pods []*c19Pod
			lost := 0
			pick := func(pred func(p *c19Pod) bool) *c19Pod {
				var cand []*c19Pod
				for _, p := range pods {
					if pred(p) {
						cand = append(cand, p)
					}
				}
				if len(cand) == 0 {
					return nil
				}
				return kit.Pick(r, cand)
			}
			refreshSnapshot := func() {
				var snapPods []*corev1.Pod
				for _, x := range rsvs {
					if !x.gone {
						snapPods = append(snapPods, reservationutil.NewReservePod(x.obj))
					}
				}
				for _, p := range pods {
					if p.state == c19Bound {
						snapPods = append(snapPods, p.latest())
					}
				}
				*lister = *newFakeSharedLister(snapPods, c19Nodes, false)
			}
			schedule := func() *c19Pod {
				node := kit.Pick(r, nodeNames)
				var freePorts []int32
				for _, hp := range []int32{8080, 8081, 9090} {
					used := false
					for _, q := range pods {
						// in use from the scheduler's point of view: assumed or bound, and also terminated as long as the
						// live scheduler's informer has not delivered the termination
						if q.node == node && (q.state == c19Assumed || q.state == c19Patched || q.state == c19Bound || (q.state == c19Terminated && q.echoed < len(q.versions))) {
							for _, cp := range q.pod.Spec.Containers[0].Ports {
								if cp.HostPort == hp {
									used = true
								}
							}
						}
					}
					if !used {
						freePorts = append(freePorts, hp)
					}
				}
				var rsvNames []string
				for _, x := range rsvs {
					rsvNames = append(rsvNames, x.obj.Name)
				}
				p := c19GenPod(r, len(pods), freePorts, rsvNames)
				pods = append(pods, p)
				refreshSnapshot()
				cs := framework.NewCycleState()
				p.cs = cs
				p.node = node
				reject := func(stage, msg string) *c19Pod {
					p.state = c19Rejected
					pl.DeleteNominatedReservePodOrReservation(p.pod) // the error handler's clean-up
					c.Op("cycle of %s (app=%s req=%s) on %s: rejected at %s: %s", p.name, p.pod.Labels["app"], c19RL(p.req), node, stage, msg)
					c.Count("cycle_rejected", 1)
					return p
				}
				if _, _, st := pl.BeforePreFilter(ctx, cs, p.pod); !st.IsSuccess() {
					return reject("BeforePreFilter", st.Message())
				}
				nodeInfo, _ := lister.Get(node)
				if st := pl.Filter(ctx, cs, p.pod, nodeInfo); !st.IsSuccess() {
					return reject("Filter", st.Message())
				}
				st := pl.Reserve(ctx, cs, p.pod, node)
				pl.DeleteNominatedReservePodOrReservation(p.pod) // RunReservePluginsReserve's clean-up
				if !st.IsSuccess() {
					pl.Unreserve(ctx, cs, p.pod, node)
					return reject("Reserve", st.Message())
				}
				p.state = c19Assumed
				state := getStateData(cs)
				if state.assumed != nil {
					p.rUID, p.rName = state.assumed.UID(), state.assumed.GetName()
					c.Count("cycle_assumed_in_reservation", 1)
					others := 0
					if ri := cacheL.reservationInfos[p.rUID]; ri != nil {
						others = len(ri.AssignedPods) - 1
					}
					c.Seen("sched", len(rsvs), state.assumed.Reservation.Spec.AllocatePolicy, state.assumed.Reservation.Spec.AllocateOnce == nil, c19MinInt(others, 3), len(p.pod.Spec.Containers[0].Ports) > 0)
				} else {
					c.Count("cycle_without_reservation", 1)
					c.Seen("sched", len(rsvs), "none")
				}
				c.Op("cycle of %s (app=%s req=%s ports=%d) on %s: assumed, reservation=%q", p.name, p.pod.Labels["app"], c19RL(p.req), len(p.pod.Spec.Containers[0].Ports), node, p.rName)
				return p
			}
			prebind := func(p *c19Pod) {
				obj := p.pod.DeepCopy()
				if st := pl.PreBind(ctx, p.cs, obj, p.node); !st.IsSuccess() {
					c.Harness("PreBind failed for %s: %v", p.name, st.Message())
				}
				p.patched = obj
				p.state = c19Patched
				c.Op("prebind %s: reservation-allocated=%s", p.name, obj.Annotations[apiext.AnnotationReservationAllocated])
			}
			bind := func(p *c19Pod) {
				obj := p.patched.DeepCopy()
				obj.ResourceVersion += "0"
				obj.Spec.NodeName = p.node
				p.versions = []*corev1.Pod{obj}
				p.state = c19Bound
				c.Count("binds", 1)
				c.Op("bind %s on %s", p.name, p.node)
			}
			echo := func(p *c19Pod, upto int) {
				if upto <= p.echoed {
					return
				}
				old := p.pod
				if p.echoed > 0 {
					old = p.versions[p.echoed-1]
				}
				phL.OnUpdate(old, p.versions[upto-1])
				c.Op("live informer: update %s version %d -> %d", p.name, p.echoed, upto)
				c.Count("live_echo_updates", 1)
				p.echoed = upto
			}
			unreserve := func(p *c19Pod, why string) {
				pl.Unreserve(ctx, p.cs, p.pod, p.node)
				c.Op("unreserve %s (%s)", p.name, why)
				c.Count("unreserved", 1)
				if p.rUID != "" {
					lost++
				}
			}
			next := func(p *c19Pod, mut func(*corev1.Pod)) {
				nv := p.latest().DeepCopy()
				nv.ResourceVersion += "1"
				mut(nv)
				p.versions = append(p.versions, nv)
			}
			terminate := func(p *c19Pod) {
				next(p, func(nv *corev1.Pod) {
					nv.Status.Phase = kit.Pick(r, []corev1.PodPhase{corev1.PodSucceeded, corev1.PodFailed})
				})
				p.state = c19Terminated
				c.Op("api: terminate %s -> version %d", p.name, len(p.versions))
				c.Count("terminated", 1)
				if p.rUID != "" {
					lost++
				}
			}
			del := func(p *c19Pod) {
				if p.state == c19Bound && p.rUID != "" {
					lost++
				}
				if r.Bool() {
					echo(p, len(p.versions))
				}
				phL.OnDelete(p.latest())
				p.state = c19Deleted
				c.Op("api: delete %s (live informer: delete)", p.name)
				c.Count("deleted", 1)
			}
			nops := r.Range(15, 50)
			if r.Pct(10) {
				nops = r.Range(50, 100)
			}
			for op := 0; op < nops; op++ {
				switch r.Weighted(44, 10, 6, 12, 8, 8, 8, 4) {
				case 0:
					p := schedule()
					if p.state == c19Assumed && r.Pct(75) {
						prebind(p)
						bind(p)
						if r.Bool() {
							echo(p, 1)
						}
					}
				case 1:
					if p := pick(func(p *c19Pod) bool { return p.state == c19Assumed || p.state == c19Patched }); p != nil {
						if p.state == c19Assumed {
							prebind(p)
							if r.Pct(35) {
								break
							}
						}
						bind(p)
					}
				case 2:
					if p := pick(func(p *c19Pod) bool { return p.state == c19Assumed || p.state == c19Patched }); p != nil {
						unreserve(p, "bind failed")
						p.state = c19Unreserved
					}
				case 3:
					if p := pick(func(p *c19Pod) bool {
						return (p.state == c19Bound || p.state == c19Terminated) && p.echoed < len(p.versions)
					}); p != nil {
						echo(p, r.Range(p.echoed+1, len(p.versions)))
					}
				case 4:
					if p := pick(func(p *c19Pod) bool { return p.state == c19Bound }); p != nil {
						next(p, func(nv *corev1.Pod) {
							nv.Labels["touched"] = nv.ResourceVersion
							nv.Status.Phase = corev1.PodRunning
							if r.Pct(12) && nv.DeletionTimestamp == nil {
								ts := metav1.Unix(1700000000, 0) // terminating: still runs, still uses its reservation
								nv.DeletionTimestamp = &ts
							}
						})
						c.Op("api: touch %s -> version %d", p.name, len(p.versions))
					}
				case 5:
					if p := pick(func(p *c19Pod) bool { return p.state == c19Bound }); p != nil {
						terminate(p)
					}
				case 6:
					if p := pick(func(p *c19Pod) bool { return p.state == c19Bound || p.state == c19Terminated }); p != nil {
						del(p)
					}
				case 7: // a reservation completes: the handler chain marks it and removes it from the cache
					var cand []*c19Rsv
					for _, x := range rsvs {
						if !x.gone {
							cand = append(cand, x)
						}
					}
					inflight := pick(func(p *c19Pod) bool { return p.state == c19Assumed || p.state == c19Patched })
					if len(cand) > 1 && inflight == nil {
						x := kit.Pick(r, cand)
						done := x.obj.DeepCopy()
						done.ResourceVersion += "1"
						done.Status.Phase = kit.Pick(r, []schedulingv1alpha1.ReservationPhase{schedulingv1alpha1.ReservationSucceeded, schedulingv1alpha1.ReservationSucceeded, schedulingv1alpha1.ReservationFailed})
						rhL.OnUpdate(x.obj, done)
						cacheL.DeleteReservation(x.obj) // frameworkext's reservation handler: available -> terminated
						x.obj, x.gone = done, true
						for _, p := range pods {
							if p.rUID == done.UID && p.state == c19Bound {
								lost++
							}
						}
						c.Op("api: reservation %s succeeded (live: marked, removed from the cache)", done.Name)
						c.Count("reservations_completed", 1)
					}
				}
			}
			for try := 0; try < 8; try++ {
				p := pick(func(p *c19Pod) bool { return p.state == c19Assumed || p.state == c19Patched })
				if p == nil {
					p = schedule()
				}
				if p.state == c19Assumed {
					prebind(p)
				}
				if p.state == c19Patched {
					bind(p)
					break
				}
			}
			c.Op("---- cut")
			for _, p := range pods {
				if p.state == c19Assumed || p.state == c19Patched {
					unreserve(p, "in flight at the cut")
				}
			}
			for _, p := range pods {
				if p.state == c19Terminated {
					echo(p, len(p.versions))
				}
			}

			// ---- restart
			cacheR := newReservationCache(nil)
			nmR := newNominator(nil, nil)
			rhR := &reservationEventHandler{cache: cacheR, rrNominator: nmR}
			phR := &podEventHandler{cache: cacheR, nominator: nmR}
			// Cross-kind order: in 75 % of the cases the reservations first. In 25 % ("race") the add of some
			// reservations falls among the pod adds: the pod informer factory and the Koordinator factory are started
			// together (cmd/koord-scheduler/app/server.go) and the plugin's constructor only registers the handlers.
			race := r.Pct(25)
			known := map[types.UID]bool{}
			addRsv := func(x *c19Rsv) {
				rhR.OnAdd(x.obj, true)
				known[x.obj.UID] = true
				c.Op("restart informer: add reservation %s (phase %s)", x.obj.Name, x.obj.Status.Phase)
				if r.Pct(20) {
					rhR.OnAdd(x.obj, true)
					c.Count("replay_events_reservation_duplicate_add", 1)
				}
				if r.Pct(20) {
					nv := x.obj.DeepCopy()
					nv.ResourceVersion += "7"
					rhR.OnUpdate(x.obj, nv)
					c.Count("replay_events_reservation_noop_update", 1)
				}
			}
			var queues [][]c19Event
			if race {
				c.Count("race_cases", 1)
			}
			for _, i := range r.Perm(len(rsvs)) {
				if race && r.Pct(60) {
					queues = append(queues, []c19Event{{kind: "reservation_add_among_pods", rsv: rsvs[i]}})
					c.Count("race_reservations_added_among_pods", 1)
					continue
				}
				addRsv(rsvs[i])
			}
			qIndex := map[*c19Pod]int{}
			survivorsPer := map[types.UID]int{}
			for _, p := range pods {
				var q []c19Event
				switch p.state {
				case c19Bound, c19Terminated:
					q = append(q, c19Event{kind: "add", new: p.latest(), pod: p})
					var extra []c19Event
					if r.Pct(20) {
						extra = append(extra, c19Event{kind: "duplicate_add", new: p.latest(), pod: p})
					}
					if r.Pct(20) {
						nv := p.latest().DeepCopy()
						nv.ResourceVersion += "7"
						extra = append(extra, c19Event{kind: "noop_update", old: p.latest(), new: nv, pod: p})
					}
					kit.Shuffle(r, extra)
					q = append(q, extra...)
					if p.state == c19Bound && p.rUID != "" {
						survivorsPer[p.rUID]++
					}
				case c19Assumed, c19Patched, c19Rejected, c19Unreserved:
					obj := p.pod
					if p.patched != nil {
						obj = p.patched
						c.Count("replayed_unbound_with_prebind_patch", 1)
					}
					q = append(q, c19Event{kind: "add", new: obj, pod: p})
				default:
					continue
				}
				c.Count("replayed_pod_"+c19StateNames[p.state], 1)
				qIndex[p] = len(queues)
				queues = append(queues, q)
			}
			apply := func(ev c19Event) {
				if ev.rsv != nil {
					addRsv(ev.rsv)
					c.Count("replay_events_"+ev.kind, 1)
					return
				}
				if ev.kind != "delete" && ev.pod.rUID != "" && (ev.pod.state == c19Bound || ev.pod.state == c19Terminated) {
					if known[ev.pod.rUID] {
						ev.pod.afterRsv = true
					} else {
						ev.pod.beforeRsv = true
						c.Count("race_events_delivered_before_reservation", 1)
					}
				}
				switch ev.kind {
				case "add", "duplicate_add":
					phR.OnAdd(ev.new, true)
				case "delete":
					phR.OnDelete(ev.old)
				default:
					phR.OnUpdate(ev.old, ev.new)
				}
				c.Op("restart informer: %s %s", ev.kind, ev.pod.name)
				c.Count("replay_events_"+ev.kind, 1)
				c.Seen("replay", ev.kind, c19StateNames[ev.pod.state])
			}
			deliver := func() {
				for {
					var idx []int
					for i, q := range queues {
						if len(q) > 0 {
							idx = append(idx, i)
						}
					}
					if len(idx) == 0 {
						return
					}
					i := kit.Pick(r, idx)
					ev := queues[i][0]
					queues[i] = queues[i][1:]
					apply(ev)
				}
			}
			tail := func() *c19Event {
				switch r.Weighted(40, 35, 25) {
				case 0:
					if p := pick(func(p *c19Pod) bool { return p.state == c19Bound }); p != nil {
						prev := p.latest()
						next(p, func(nv *corev1.Pod) { nv.Labels["touched"] = nv.ResourceVersion })
						echo(p, len(p.versions))
						return &c19Event{kind: "update", old: prev, new: p.latest(), pod: p}
					}
				case 1:
					if p := pick(func(p *c19Pod) bool { return p.state == c19Bound }); p != nil {
						prev := p.latest()
						terminate(p)
						echo(p, len(p.versions))
						return &c19Event{kind: "update", old: prev, new: p.latest(), pod: p}
					}
				case 2:
					if p := pick(func(p *c19Pod) bool { return p.state == c19Bound || p.state == c19Terminated }); p != nil {
						old := p.latest()
						del(p)
						return &c19Event{kind: "delete", old: old, pod: p}
					}
				}
				return nil
			}
			ntail := kit.Pick(r, []int{0, 0, 1, 2, 3, 5})
			// lostBeforeReservation: a pod whose every event so far reached the restarted scheduler before its
			// reservation is not entered in the ledger (reservationCache.updatePod finds no ReservationInfo) and nothing
			// brings it back. Reported under its own signature, and only that: the pod is then re-delivered by a
			// harness-made no-op update and the full comparison that follows must find both caches equal.
			lostBeforeReservation := func() {
				for _, p := range pods {
					if p.state != c19Bound || p.rUID == "" || !p.beforeRsv || p.afterRsv {
						continue
					}
					cacheR.lock.RLock()
					ri := cacheR.reservationInfos[p.rUID]
					held := ri != nil && ri.AssignedPods[p.pod.UID] != nil
					cacheR.lock.RUnlock()
					if ri == nil {
						continue // the reservation completed: nobody holds the pod
					}
					c.Count("race_pods_delivered_only_before_reservation", 1)
					if held {
						c.Count("race_pods_delivered_only_before_reservation_kept", 1)
						p.afterRsv = true
						continue
					}
					c.Count("race_pods_delivered_only_before_reservation_lost", 1)
					c.Report("C19/reservation/replay/assignment-lost-when-pod-delivered-before-reservation", "pod %s is bound and assigned to reservation %s (%s) by its reservation-allocated annotation; the restarted scheduler received the pod before the Reservation object (pod and reservation informers are started together), reservationCache.updatePod found no ReservationInfo and dropped the assignment, and nothing re-delivers the pod: the amount it takes (%s) is free in the reservation after the restart", p.name, p.rName, p.rUID, c19RL(p.req))
					nv := p.latest().DeepCopy()
					nv.ResourceVersion += "5"
					phR.OnUpdate(p.latest(), nv)
					p.afterRsv = true
					c.Op("[harness] re-delivered %s by a no-op update after reporting the lost assignment", p.name)
				}
			}
			if r.Bool() {
				deliver()
				c.Op("---- comparison after the snapshot")
				lostBeforeReservation()
				c19Compare(c, "after the snapshot", cacheL, cacheR, rsvs, pods)
				for i := 0; i < ntail; i++ {
					if ev := tail(); ev != nil {
						apply(*ev)
					}
				}
			} else {
				for i := 0; i < ntail; i++ {
					if ev := tail(); ev != nil {
						if qi, ok := qIndex[ev.pod]; ok {
							queues[qi] = append(queues[qi], *ev)
						}
					}
				}
				deliver()
			}
			c.Op("---- final comparison")
			lostBeforeReservation()
			c19Compare(c, "final", cacheL, cacheR, rsvs, pods)
			two := false
			for _, k := range survivorsPer {
				if k >= 2 {
					two = true
				}
			}
			if two && lost > 0 {
				c.NonTrivial()
			}
			if c.K < 2 {
				ops := c.Ops()
				if len(ops) > 14 {
					ops = ops[:14]
				}
				c.Sample(ops)
			}
		})
}

func c19MinInt(a, b int) int {
	if a < b {
		return a
	}
	return b
}
