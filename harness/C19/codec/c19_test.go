//go:build verif

package extension

// C19 monitor (codec units): every allocation the scheduler persists on a pod or reservation can be
// read back to exactly the value that was written. See /verif/DESIGN.md section 4, C19 (a).
//
// Executed: the real SetResourceStatus/GetResourceStatus, SetDeviceAllocations/GetDeviceAllocations and
// SetReservationAllocated/GetReservationAllocated on generated values; in half of the cases the object
// additionally makes the trip through the API server's representation (JSON of the whole object).
//
// "Equal" is defined semantically, once, here:
//   * a CPU set string is compared as a SET of CPU ids (pkg/util/cpuset.Parse of the read-back string
//     == the set that was rendered into the written string);
//   * quantities are compared with Quantity.Cmp; a resource that is absent and a resource whose
//     quantity is zero are the same;
//   * lists (per-NUMA entries, allocations of one device type, virtual functions) are compared as
//     sequences (JSON arrays keep their order); an empty list and an absent list are the same, a device
//     type without allocations and an absent device type are the same;
//   * strings (device id, bus id, template name, reservation name, uid) and integers are compared exactly;
//     an extension that is nil and an extension with no content are the same.
// In-domain values only: CPU ids below 4096 (cpuset's own limit), non-negative quantities, valid UTF-8.

import (
	"encoding/json"
	"fmt"
	"sort"
	"strings"
	"testing"

	corev1 "k8s.io/api/core/v1"
	"k8s.io/apimachinery/pkg/api/resource"
	metav1 "k8s.io/apimachinery/pkg/apis/meta/v1"
	"k8s.io/apimachinery/pkg/types"

	schedulingv1alpha1 "github.com/koordinator-sh/koordinator/apis/scheduling/v1alpha1"
	"github.com/koordinator-sh/koordinator/pkg/util/cpuset"
	kit "github.com/koordinator-sh/koordinator/pkg/verifkit"
)

// ---------------------------------------------------------------------------------------------
// generators

var c19QuantityStrings = []string{"0", "1", "1m", "999m", "1000m", "1001m", "1500m", "0.5", "2", "3", "7", "64", "100", "1e3", "100M", "1Gi", "1073741825", "1536Mi", "15472384Ki",
	"9007199254740991", "9007199254740993", "4611686018427387904", "16Gi", "85198045184", "4982162063", "0.001", "250m", "1k", "1Ki", "128974848", "129e6", "123Mi", "5G", "9223372036854775807", "8Ei", "1Ti", "0.1", "1.5", "1000000000000m", "1n", "999999999n", "1u"}

func c19Quantity(r *kit.Rand) resource.Quantity {
	switch r.Intn(5) {
	case 0:
		return *resource.NewQuantity(int64(r.Intn(200)), resource.DecimalSI)
	case 1:
		return *resource.NewMilliQuantity(int64(r.Intn(64000)), resource.DecimalSI)
	case 2:
		return *resource.NewQuantity(r.Int63n(1<<40), resource.BinarySI)
	}
	return resource.MustParse(kit.Pick(r, c19QuantityStrings))
}

var c19ResourceNames = []corev1.ResourceName{corev1.ResourceCPU, corev1.ResourceMemory, "hugepages-2Mi", "hugepages-1Gi", corev1.ResourceEphemeralStorage,
	BatchCPU, BatchMemory, ResourceGPUCore, ResourceGPUMemory, ResourceGPUMemoryRatio, ResourceRDMA, ResourceFPGA, ResourceNvidiaGPU, "example.com/odd-name_1"}

func c19ResourceList(r *kit.Rand, names []corev1.ResourceName) corev1.ResourceList {
	if r.Pct(5) {
		return nil
	}
	rl := corev1.ResourceList{}
	k := r.Range(0, 4)
	for i := 0; i < k; i++ {
		rl[kit.Pick(r, names)] = c19Quantity(r)
	}
	return rl
}

// c19CPUSet returns the string to write and the set it denotes.
func c19CPUSet(r *kit.Rand) (string, map[int]bool, string) {
	set := map[int]bool{}
	max := kit.Pick(r, []int{4, 8, 16, 64, 128, 256, 1024, 4096})
	switch r.Intn(5) {
	case 0: // empty
	case 1: // one block
		lo := r.Intn(max)
		hi := lo + r.Intn(max-lo)
		if hi-lo > 200 {
			hi = lo + 200
		}
		for i := lo; i <= hi; i++ {
			set[i] = true
		}
	case 2: // sibling pattern (cpu, cpu+max/2)
		k := r.Range(1, 8)
		for i := 0; i < k; i++ {
			c := r.Intn(max / 2)
			set[c], set[c+max/2] = true, true
		}
	default: // random sparse
		k := r.Range(1, 24)
		for i := 0; i < k; i++ {
			set[r.Intn(max)] = true
		}
	}
	ids := make([]int, 0, len(set))
	for id := range set {
		ids = append(ids, id)
	}
	sort.Ints(ids)
	if r.Pct(65) || len(ids) == 0 {
		// the form the scheduler writes: CPUSet.String()
		return cpuset.NewCPUSet(ids...).String(), set, "canonical"
	}
	// odd but legal Linux CPU-list forms of the same set
	var parts []string
	form := kit.Pick(r, []string{"unsorted-list", "degenerate-ranges", "overlapping-ranges", "repeated"})
	switch form {
	case "unsorted-list":
		for _, i := range r.Perm(len(ids)) {
			parts = append(parts, fmt.Sprint(ids[i]))
		}
	case "degenerate-ranges":
		for _, id := range ids {
			if r.Bool() {
				parts = append(parts, fmt.Sprintf("%d-%d", id, id))
			} else {
				parts = append(parts, fmt.Sprint(id))
			}
		}
	case "overlapping-ranges":
		// maximal runs, each emitted twice with a shifted split
		for i := 0; i < len(ids); {
			j := i
			for j+1 < len(ids) && ids[j+1] == ids[j]+1 {
				j++
			}
			mid := ids[i] + (ids[j]-ids[i])/2
			parts = append(parts, fmt.Sprintf("%d-%d", ids[i], ids[j]), fmt.Sprintf("%d-%d", mid, ids[j]))
			i = j + 1
		}
	default:
		for _, id := range ids {
			parts = append(parts, fmt.Sprint(id), fmt.Sprint(id))
		}
		kit.Shuffle(r, parts)
	}
	return strings.Join(parts, ","), set, form
}

func c19GenResourceStatus(r *kit.Rand) (*ResourceStatus, map[int]bool, string) {
	s, set, form := c19CPUSet(r)
	st := &ResourceStatus{CPUSet: s}
	k := kit.Pick(r, []int{0, 0, 1, 1, 2, 2, 3, 4, 8})
	nodeIDs := r.Perm(16)
	if r.Pct(10) {
		for i := range nodeIDs {
			nodeIDs[i] += kit.Pick(r, []int{64, 1000, 1 << 20}) // NUMA ids far from 0
		}
	}
	if r.Bool() {
		sort.Ints(nodeIDs[:k])
	}
	for i := 0; i < k; i++ {
		st.NUMANodeResources = append(st.NUMANodeResources, NUMANodeResource{Node: int32(nodeIDs[i]), Resources: c19ResourceList(r, c19ResourceNames[:7])})
	}
	return st, set, form
}

var c19OddStrings = []string{"", "0000:09:00.0", "GPU-6b6f1b1e-3b1f-4c58-9d5d-1a2b3c4d5e6f", "mlx5_0", "id with space", "quote\"inside", "back\\slash", "<&>", "ünïcödé-设备", "tab\there", "new\nline", strings.Repeat("x", 300)}

func c19GenDeviceAllocations(r *kit.Rand) DeviceAllocations {
	out := DeviceAllocations{}
	typesPool := []schedulingv1alpha1.DeviceType{schedulingv1alpha1.GPU, schedulingv1alpha1.RDMA, schedulingv1alpha1.FPGA, "xpu", "npu"}
	nt := kit.Pick(r, []int{0, 1, 1, 1, 2, 2, 3, 5})
	for _, ti := range r.Perm(len(typesPool))[:nt] {
		t := typesPool[ti]
		var list []*DeviceAllocation
		na := kit.Pick(r, []int{0, 1, 1, 1, 2, 2, 4, 8})
		for i := 0; i < na; i++ {
			a := &DeviceAllocation{Minor: int32(kit.Pick(r, []int{0, 0, 1, 2, 3, 7, 15, 127, 255, 65535})), Resources: c19ResourceList(r, c19ResourceNames[7:])}
			if r.Pct(60) {
				a.ID = kit.Pick(r, c19OddStrings)
			}
			if r.Pct(40) {
				a.Extension = &DeviceAllocationExtension{}
				nv := kit.Pick(r, []int{0, 1, 1, 2, 3})
				for j := 0; j < nv; j++ {
					a.Extension.VirtualFunctions = append(a.Extension.VirtualFunctions, VirtualFunction{Minor: kit.Pick(r, []int{0, 0, 1, 2, 63}), BusID: kit.Pick(r, c19OddStrings)})
				}
				if r.Pct(30) {
					a.Extension.GPUSharedResourceTemplate = kit.Pick(r, c19OddStrings)
				}
			}
			list = append(list, a)
		}
		out[t] = list
	}
	return out
}

type c19Ref struct {
	name string
	uid  types.UID
}

func c19GenReservationRef(r *kit.Rand) (metav1.Object, c19Ref) {
	ref := c19Ref{name: kit.Pick(r, []string{"reservation-a", "r", "a.b-c.d", strings.Repeat("n", 253), "ünïcödé", "with\"quote", "", "pod-as-reservation"}),
		uid: types.UID(kit.Pick(r, []string{"6b6f1b1e-3b1f-4c58-9d5d-1a2b3c4d5e6f", "uid-1", "", "UID\"q", strings.Repeat("u", 64)}))}
	if r.Pct(25) {
		// a reservation-operating pod can stand in for the Reservation object
		return &corev1.Pod{ObjectMeta: metav1.ObjectMeta{Name: ref.name, UID: ref.uid, Namespace: "ns"}}, ref
	}
	return &schedulingv1alpha1.Reservation{ObjectMeta: metav1.ObjectMeta{Name: ref.name, UID: ref.uid}}, ref
}

var c19OtherAnnotations = map[string]string{"example.com/other": "keep-me", AnnotationDeviceAllocateHint: `{"gpu":{}}`, "scheduling.koordinator.sh/unrelated": "{}"}

// c19Carrier builds the object that gets annotated: a pod or a reservation, with or without annotations.
func c19Carrier(r *kit.Rand) (metav1.Object, map[string]string) {
	var ann map[string]string
	kept := map[string]string{}
	if r.Pct(70) {
		ann = map[string]string{}
		for k, v := range c19OtherAnnotations {
			if r.Bool() {
				ann[k], kept[k] = v, v
			}
		}
	}
	if r.Pct(25) {
		return &schedulingv1alpha1.Reservation{ObjectMeta: metav1.ObjectMeta{Name: "r", Annotations: ann}}, kept
	}
	return &corev1.Pod{ObjectMeta: metav1.ObjectMeta{Name: "p", Namespace: "default", Annotations: ann}}, kept
}

// c19Persist returns the annotations as the next reader sees them: directly, or after the whole object
// went through its JSON form (what the API server stores and the informer hands out).
func c19Persist(c *kit.Case, r *kit.Rand, obj metav1.Object) map[string]string {
	if r.Bool() {
		return obj.GetAnnotations()
	}
	b, err := json.Marshal(obj)
	if err != nil {
		c.Harness("marshal carrier: %v", err)
	}
	var back metav1.Object
	switch obj.(type) {
	case *corev1.Pod:
		back = &corev1.Pod{}
	default:
		back = &schedulingv1alpha1.Reservation{}
	}
	if err := json.Unmarshal(b, back); err != nil {
		c.Harness("unmarshal carrier: %v", err)
	}
	c.Count("whole_object_json_round_trips", 1)
	return back.GetAnnotations()
}

// ---------------------------------------------------------------------------------------------
// equality

func c19DiffRL(a, b corev1.ResourceList) string {
	names := map[string]bool{}
	for k := range a {
		names[string(k)] = true
	}
	for k := range b {
		names[string(k)] = true
	}
	ks := make([]string, 0, len(names))
	for k := range names {
		ks = append(ks, k)
	}
	sort.Strings(ks)
	for _, k := range ks {
		qa, qb := a[corev1.ResourceName(k)], b[corev1.ResourceName(k)]
		if qa.Cmp(qb) != 0 {
			return fmt.Sprintf("%s: written %s, read %s", k, qa.String(), qb.String())
		}
	}
	return ""
}

func c19CheckResourceStatus(c *kit.Case, ann map[string]string, want *ResourceStatus, wantSet map[int]bool) {
	got, err := GetResourceStatus(ann)
	if err != nil || got == nil {
		c.Fail("C19/codec/resource-status/error", "GetResourceStatus fails on what SetResourceStatus wrote (%q): %v", ann[AnnotationResourceStatus], err)
	}
	parsed, err := cpuset.Parse(got.CPUSet)
	if err != nil {
		c.Fail("C19/codec/resource-status/cpuset", "cpuset written %q, read back %q which does not parse: %v", want.CPUSet, got.CPUSet, err)
	}
	if parsed.Size() != len(wantSet) {
		c.Fail("C19/codec/resource-status/cpuset", "cpuset written %q (%d CPUs), read back %q (%d CPUs)", want.CPUSet, len(wantSet), got.CPUSet, parsed.Size())
	}
	for id := range wantSet {
		if !parsed.Contains(id) {
			c.Fail("C19/codec/resource-status/cpuset", "cpuset written %q, read back %q: cpu %d is missing", want.CPUSet, got.CPUSet, id)
		}
	}
	if len(got.NUMANodeResources) != len(want.NUMANodeResources) {
		c.Fail("C19/codec/resource-status/numa-count", "%d per-NUMA entries written, %d read back (%q)", len(want.NUMANodeResources), len(got.NUMANodeResources), ann[AnnotationResourceStatus])
	}
	for i := range want.NUMANodeResources {
		w, g := want.NUMANodeResources[i], got.NUMANodeResources[i]
		if w.Node != g.Node {
			c.Fail("C19/codec/resource-status/numa-node", "per-NUMA entry %d: node %d written, %d read back", i, w.Node, g.Node)
		}
		if d := c19DiffRL(w.Resources, g.Resources); d != "" {
			c.Fail("C19/codec/resource-status/numa-amount", "per-NUMA entry %d (node %d): %s", i, w.Node, d)
		}
	}
	c.Count("resource_status_round_trips", 1)
}

func c19CheckDeviceAllocations(c *kit.Case, ann map[string]string, want DeviceAllocations) {
	got, err := GetDeviceAllocations(ann)
	if err != nil {
		c.Fail("C19/codec/device-allocations/error", "GetDeviceAllocations fails on what SetDeviceAllocations wrote (%q): %v", ann[AnnotationDeviceAllocated], err)
	}
	ts := map[schedulingv1alpha1.DeviceType]bool{}
	for t := range want {
		ts[t] = true
	}
	for t := range got {
		ts[t] = true
	}
	for t := range ts {
		w, g := want[t], got[t]
		if len(w) != len(g) {
			c.Fail("C19/codec/device-allocations/count", "device type %s: %d allocations written, %d read back (%q)", t, len(w), len(g), ann[AnnotationDeviceAllocated])
		}
		for i := range w {
			if w[i] == nil || g[i] == nil {
				if (w[i] == nil) != (g[i] == nil) {
					c.Fail("C19/codec/device-allocations/count", "device type %s allocation %d: nil-ness differs", t, i)
				}
				continue
			}
			if w[i].Minor != g[i].Minor {
				c.Fail("C19/codec/device-allocations/minor", "device type %s allocation %d: minor %d written, %d read back", t, i, w[i].Minor, g[i].Minor)
			}
			if w[i].ID != g[i].ID {
				c.Fail("C19/codec/device-allocations/id", "device type %s allocation %d: id %q written, %q read back", t, i, w[i].ID, g[i].ID)
			}
			if d := c19DiffRL(w[i].Resources, g[i].Resources); d != "" {
				c.Fail("C19/codec/device-allocations/amount", "device type %s allocation %d (minor %d): %s", t, i, w[i].Minor, d)
			}
			var wv, gv []VirtualFunction
			var wt, gt string
			if w[i].Extension != nil {
				wv, wt = w[i].Extension.VirtualFunctions, w[i].Extension.GPUSharedResourceTemplate
			}
			if g[i].Extension != nil {
				gv, gt = g[i].Extension.VirtualFunctions, g[i].Extension.GPUSharedResourceTemplate
			}
			if wt != gt {
				c.Fail("C19/codec/device-allocations/extension", "device type %s allocation %d: template %q written, %q read back", t, i, wt, gt)
			}
			if len(wv) != len(gv) {
				c.Fail("C19/codec/device-allocations/extension", "device type %s allocation %d: %d VFs written, %d read back", t, i, len(wv), len(gv))
			}
			for j := range wv {
				if wv[j] != gv[j] {
					c.Fail("C19/codec/device-allocations/extension", "device type %s allocation %d VF %d: %+v written, %+v read back", t, i, j, wv[j], gv[j])
				}
			}
		}
	}
	c.Count("device_allocations_round_trips", 1)
}

func c19CheckReservationAllocated(c *kit.Case, ann map[string]string, want c19Ref) {
	got, err := GetReservationAllocated(&corev1.Pod{ObjectMeta: metav1.ObjectMeta{Annotations: ann}})
	if err != nil || got == nil {
		c.Fail("C19/codec/reservation-allocated/error", "GetReservationAllocated fails on what SetReservationAllocated wrote (%q): %v", ann[AnnotationReservationAllocated], err)
	}
	if got.Name != want.name {
		c.Fail("C19/codec/reservation-allocated/name", "reservation name %q written, %q read back", want.name, got.Name)
	}
	if got.UID != want.uid {
		c.Fail("C19/codec/reservation-allocated/uid", "reservation uid %q written, %q read back", want.uid, got.UID)
	}
	c.Count("reservation_allocated_round_trips", 1)
}

func c19CheckKept(c *kit.Case, ann, kept map[string]string, where string) {
	for k, v := range kept {
		if ann[k] != v {
			c.Fail("C19/codec/interference", "%s: annotation %s was %q before, is %q after", where, k, v, ann[k])
		}
	}
}

func c19DevShape(a DeviceAllocations) string {
	ts := make([]string, 0, len(a))
	for t, l := range a {
		ext := 0
		for _, x := range l {
			if x != nil && x.Extension != nil {
				ext++
			}
		}
		ts = append(ts, fmt.Sprintf("%s%d/%d", t, len(l), ext))
	}
	sort.Strings(ts)
	return strings.Join(ts, ",")
}

// ---------------------------------------------------------------------------------------------
// units

func TestVerifC19CodecResourceStatus(t *testing.T) {
	kit.Run(t, kit.Config{Property: "C19", Unit: "codec-resource-status", Quick: 30000, Thorough: 1500000,
		Rule: "random CPU set (empty, block, sibling pattern, sparse; ids up to 4095) written as CPUSet.String() or as an odd legal CPU-list form (unsorted, degenerate / overlapping ranges, repeated ids), 0-8 per-NUMA entries with sparse node ids and boundary-biased quantities (0, milli, 2^53+-1, 2^62, binary/decimal suffixes), on a pod or reservation with or without other annotations, possibly overwriting an older status, read back directly or after a JSON trip of the whole object; distinct = (cpuset form, #CPUs class, #NUMA entries, carrier, overwrite); non-trivial = non-canonical cpuset form or at least two NUMA entries"},
		func(c *kit.Case) {
			r := c.R
			obj, kept := c19Carrier(r)
			overwrite := r.Pct(30)
			if overwrite {
				old, _, _ := c19GenResourceStatus(r)
				if err := SetResourceStatus(obj, old); err != nil {
					c.Fail("C19/codec/resource-status/error", "SetResourceStatus(%+v): %v", old, err)
				}
			}
			st, set, form := c19GenResourceStatus(r)
			c.Op("SetResourceStatus cpuset=%q (%s) numa=%d overwrite=%v", st.CPUSet, form, len(st.NUMANodeResources), overwrite)
			if err := SetResourceStatus(obj, st); err != nil {
				c.Fail("C19/codec/resource-status/error", "SetResourceStatus(%+v): %v", st, err)
			}
			ann := c19Persist(c, r, obj)
			c.Op("annotation %s", ann[AnnotationResourceStatus])
			c19CheckResourceStatus(c, ann, st, set)
			c19CheckKept(c, ann, kept, "SetResourceStatus")
			sz := "0"
			switch {
			case len(set) > 16:
				sz = ">16"
			case len(set) > 1:
				sz = "2-16"
			case len(set) == 1:
				sz = "1"
			}
			c.Seen(form, sz, len(st.NUMANodeResources), fmt.Sprintf("%T", obj), overwrite)
			c.Count("cpuset_form_"+form, 1)
			if form != "canonical" || len(st.NUMANodeResources) >= 2 {
				c.NonTrivial()
			}
			if c.K < 3 {
				c.Sample(map[string]any{"written": st, "annotation": ann[AnnotationResourceStatus]})
			}
		})
}

func TestVerifC19CodecDeviceAllocations(t *testing.T) {
	kit.Run(t, kit.Config{Property: "C19", Unit: "codec-device-allocations", Quick: 30000, Thorough: 1500000,
		Rule: "0-5 device types (gpu, rdma, fpga and unknown ones) with 0-8 allocations each: minors 0..65535, 0-4 resources with boundary-biased quantities incl. zero and fractional, ids / bus ids with quotes, backslashes, control characters, non-ASCII, 300 characters, extensions (nil, empty, 0-3 VFs incl. VF minor 0, template name), on a pod or reservation, possibly overwriting, read back directly or after a JSON trip of the whole object; distinct = shape (type:#allocations/#extensions), carrier; non-trivial = at least two device types or an allocation list longer than one"},
		func(c *kit.Case) {
			r := c.R
			obj, kept := c19Carrier(r)
			if r.Pct(30) {
				if err := SetDeviceAllocations(obj, c19GenDeviceAllocations(r)); err != nil {
					c.Fail("C19/codec/device-allocations/error", "SetDeviceAllocations: %v", err)
				}
			}
			da := c19GenDeviceAllocations(r)
			if err := SetDeviceAllocations(obj, da); err != nil {
				c.Fail("C19/codec/device-allocations/error", "SetDeviceAllocations: %v", err)
			}
			ann := c19Persist(c, r, obj)
			c.Op("SetDeviceAllocations shape=%s annotation %s", c19DevShape(da), ann[AnnotationDeviceAllocated])
			c19CheckDeviceAllocations(c, ann, da)
			c19CheckKept(c, ann, kept, "SetDeviceAllocations")
			c.Seen(c19DevShape(da), fmt.Sprintf("%T", obj))
			multi := len(da) >= 2
			for _, l := range da {
				if len(l) > 1 {
					multi = true
				}
			}
			if multi {
				c.NonTrivial()
			}
			if c.K < 3 {
				c.Sample(map[string]any{"annotation": ann[AnnotationDeviceAllocated]})
			}
		})
}

func TestVerifC19CodecReservationAllocated(t *testing.T) {
	kit.Run(t, kit.Config{Property: "C19", Unit: "codec-reservation-allocated", Quick: 10000, Thorough: 200000,
		Rule: "reservation (or reservation-operating pod) names and uids incl. empty, 253 characters, quotes, non-ASCII, written with SetReservationAllocated onto a pod with or without annotations, possibly overwriting an older assignment, read back directly or after a JSON trip of the whole pod; distinct = (name, uid, kind of reservation object, overwrite); non-trivial = overwrite or odd characters"},
		func(c *kit.Case) {
			r := c.R
			pod := &corev1.Pod{ObjectMeta: metav1.ObjectMeta{Name: "p", Namespace: "default"}}
			kept := map[string]string{}
			if r.Pct(70) {
				pod.Annotations = map[string]string{}
				for k, v := range c19OtherAnnotations {
					if r.Bool() {
						pod.Annotations[k], kept[k] = v, v
					}
				}
			}
			overwrite := r.Pct(30)
			if overwrite {
				old, _ := c19GenReservationRef(r)
				SetReservationAllocated(pod, old)
			}
			robj, ref := c19GenReservationRef(r)
			SetReservationAllocated(pod, robj)
			ann := c19Persist(c, r, pod)
			c.Op("SetReservationAllocated name=%q uid=%q -> %s", ref.name, ref.uid, ann[AnnotationReservationAllocated])
			c19CheckReservationAllocated(c, ann, ref)
			c19CheckKept(c, ann, kept, "SetReservationAllocated")
			c.Seen(ref.name, ref.uid, fmt.Sprintf("%T", robj), overwrite)
			if overwrite || strings.ContainsAny(ref.name+string(ref.uid), "\"ü") {
				c.NonTrivial()
			}
			if c.K < 2 {
				c.Sample(map[string]any{"name": ref.name, "uid": ref.uid, "annotation": ann[AnnotationReservationAllocated]})
			}
		})
}

// All three allocations (and the resource spec the NUMA plugin writes next to the status) on ONE object, in
// the order the PreBind plugins happen to run, some of them twice: each must read back as written last.
func TestVerifC19CodecCombined(t *testing.T) {
	kit.Run(t, kit.Config{Property: "C19", Unit: "codec-combined", Quick: 15000, Thorough: 600000,
		Rule: "3-7 writes (resource status, resource spec, device allocations, reservation assignment, in random order, with repeats) onto one pod, then every codec reads back the value written last; distinct = order of writes; non-trivial = every codec written at least once"},
		func(c *kit.Case) {
			r := c.R
			pod := &corev1.Pod{ObjectMeta: metav1.ObjectMeta{Name: "p", Namespace: "default"}}
			kept := map[string]string{}
			if r.Pct(60) {
				pod.Annotations = map[string]string{"example.com/other": "keep-me"}
				kept["example.com/other"] = "keep-me"
			}
			var st *ResourceStatus
			var set map[int]bool
			var da DeviceAllocations
			var ref *c19Ref
			var spec *ResourceSpec
			order := ""
			n := r.Range(3, 7)
			for i := 0; i < n; i++ {
				switch r.Intn(4) {
				case 0:
					st, set, _ = c19GenResourceStatus(r)
					if err := SetResourceStatus(pod, st); err != nil {
						c.Fail("C19/codec/resource-status/error", "SetResourceStatus: %v", err)
					}
					order += "S"
				case 1:
					da = c19GenDeviceAllocations(r)
					if err := SetDeviceAllocations(pod, da); err != nil {
						c.Fail("C19/codec/device-allocations/error", "SetDeviceAllocations: %v", err)
					}
					order += "D"
				case 2:
					robj, rf := c19GenReservationRef(r)
					SetReservationAllocated(pod, robj)
					ref = &rf
					order += "R"
				default:
					spec = &ResourceSpec{PreferredCPUBindPolicy: kit.Pick(r, []CPUBindPolicy{"", CPUBindPolicyFullPCPUs, CPUBindPolicySpreadByPCPUs}),
						RequiredCPUBindPolicy:       kit.Pick(r, []CPUBindPolicy{"", "", CPUBindPolicyFullPCPUs}),
						PreferredCPUExclusivePolicy: kit.Pick(r, []CPUExclusivePolicy{"", CPUExclusivePolicyNone, CPUExclusivePolicyPCPULevel, CPUExclusivePolicyNUMANodeLevel})}
					if err := SetResourceSpec(pod, spec); err != nil {
						c.Fail("C19/codec/resource-spec/error", "SetResourceSpec: %v", err)
					}
					order += "P"
				}
			}
			ann := c19Persist(c, r, pod)
			c.Op("writes %s", order)
			if st != nil {
				c19CheckResourceStatus(c, ann, st, set)
			}
			if da != nil {
				c19CheckDeviceAllocations(c, ann, da)
			}
			if ref != nil {
				c19CheckReservationAllocated(c, ann, *ref)
			}
			if spec != nil {
				got, err := GetResourceSpec(ann)
				if err != nil || got == nil || *got != *spec {
					c.Fail("C19/codec/resource-spec/value", "resource spec %+v written, %+v read back (err %v)", spec, got, err)
				}
				c.Count("resource_spec_round_trips", 1)
			}
			c19CheckKept(c, ann, kept, "combined writes "+order)
			c.Seen(order)
			if st != nil && da != nil && ref != nil && spec != nil {
				c.NonTrivial()
			}
		})
}
