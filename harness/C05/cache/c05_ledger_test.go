//go:build verif

package reservation

// C05 (a): ledger and index walker over histories on a real reservationCache.
//
// The workload is a small API world (reservation names and pod names that are created, updated, deleted and
// re-created with new uids on 2-3 nodes) plus the scheduler's own actions. Every API change produces a new
// object version that is queued per object; versions are delivered IN ORDER, at arbitrary later moments, to the
// package's real informer handlers (reservationEventHandler, podEventHandler). The scheduler-wide reservation
// handler lives in another package; the only thing it does to this cache is DeleteReservation, and that is
// emulated from its transition table (reservation_handler.go: available->terminated, available->unassigned,
// available->available with another uid, delete of a placed reservation), applied right before / right after
// the plugin handler or lagging behind it (the two are separate informer listeners).
//
// Causal rules (only histories the real system can produce):
//   * versions of one object are delivered in order, none is skipped; the only merged delivery is the re-list
//     shape "deleted and re-created under the same name" -> OnUpdate(old uid, new uid);
//   * status.nodeName of a reservation is set once (by the bind of its reserve pod) and never changes; a
//     terminated reservation stays terminated; spec.nodeName and the reservation-allocated annotation of a
//     pod are set once (PreBind patches the annotation, Bind sets the node) and only the scheduler that holds
//     the pod assumed removes the annotation again (Unreserve);
//   * a pod is reserved on a reservation only by a scheduling cycle that found the reservation in
//     ForEachMatchableReservationOnNode, that respects the allocate-once and restricted rules on what it saw,
//     and every Reserve is eventually followed by a successful bind or by Unreserve; cycles are sequential,
//     informer deliveries interleave with them; the scheduler only schedules the pod version it was delivered;
//   * a pod is bound to a reservation only while the reservation is Available in the API; pods bound by
//     another scheduler appear through the informer only;
//   * a pod's requests change only by an in-place resize of a bound pod whose binding was already delivered;
//   * the DeleteReservation of the scheduler-wide handler for an event never comes before the plugin handler
//     saw the previous event of that listener (it may lag arbitrarily).

import (
	"fmt"
	"sort"
	"strings"

	corev1 "k8s.io/api/core/v1"
	"k8s.io/apimachinery/pkg/api/resource"
	metav1 "k8s.io/apimachinery/pkg/apis/meta/v1"
	"k8s.io/apimachinery/pkg/types"
	fwktype "k8s.io/kube-scheduler/framework"

	apiext "github.com/koordinator-sh/koordinator/apis/extension"
	schedulingv1alpha1 "github.com/koordinator-sh/koordinator/apis/scheduling/v1alpha1"
	"github.com/koordinator-sh/koordinator/pkg/scheduler/frameworkext"
	kit "github.com/koordinator-sh/koordinator/pkg/verifkit"
)

type c05RsvSlot struct {
	name      string
	gen       int
	cur       *schedulingv1alpha1.Reservation   // API truth; nil = does not exist
	delivered *schedulingv1alpha1.Reservation   // informer store (last delivered version)
	queue     []*schedulingv1alpha1.Reservation // undelivered versions; nil entry = deleted
	assumed   *schedulingv1alpha1.Reservation   // object given to assumeReservation, binding in flight
}

type c05PodSlot struct {
	name      string
	gen       int
	operating bool
	cur       *corev1.Pod
	delivered *corev1.Pod
	queue     []*corev1.Pod // nil entry = deleted
}

// c05Flight: a pod this scheduler reserved on a reservation and whose binding has not finished.
type c05Flight struct {
	slot     *c05PodSlot
	pod      *corev1.Pod // the object the scheduler holds
	rUID     types.UID
	rName    string
	node     string
	prebound bool // PreBind patched the annotation in the API
}

type c05World struct {
	c     *kit.Case
	r     *kit.Rand
	cache *reservationCache
	rh    *reservationEventHandler
	ph    *podEventHandler
	nodes []string
	rsvs  []*c05RsvSlot
	pods  []*c05PodSlot
	// pending DeleteReservation calls of the scheduler-wide handler (FIFO)
	global  []*schedulingv1alpha1.Reservation
	flights []*c05Flight
	// shadow of "pod is currently assigned to reservation"
	fact    map[types.UID]types.UID           // pod uid -> reservation uid: the informer delivered the pod bound, live and annotated
	assumed map[types.UID]types.UID           // pod uid -> reservation uid: reserved by this scheduler, not yet confirmed / forgotten
	may     map[types.UID]types.UID           // pod uid -> reservation uid: either answer is accepted (pod deleted while its binding is in flight)
	reqs    map[types.UID]corev1.ResourceList // pod uid -> requests of the pod object that was assigned
	owner   map[types.UID]types.UID           // operating pod uid -> current owner uid (set once)
	live    map[types.UID]bool                // model: reservation uid has an entry in the cache
	// reservations that were made unavailable / removed while they had assigned pods (non-triviality)
	wentAway map[types.UID]bool
	// reservations the cache was handed before they had a node
	seenUnbound map[types.UID]bool
	// reservations that were re-placed on another node under the same uid
	moved map[types.UID]bool
	// dimsSince["r/p"]: the dimensions reserved without interruption since pod p was added to reservation r
	dimsSince map[string]map[corev1.ResourceName]bool
	uidSeq    int
	indexed   bool
	// the selector index configuration of the case
	idxPrefixes, idxKeys []string
}

func (w *c05World) newUID(prefix string) types.UID {
	w.uidSeq++
	return types.UID(fmt.Sprintf("%s-%d", prefix, w.uidSeq))
}

// the selector index configuration used by the ledger workload
const (
	c05IdxPrefix = "idx-"
	c05IdxKey    = "zone"
)

var c05RsvLabelPool = []map[string]string{nil, {"idx-a": "1"}, {"idx-b": "2", "zone": "z1"}, {"zone": "z2"}, {"other": "x"}, {"idx-a": "2", "zone": "z1", "other": "y"},
	{"idx-a": ""}, {"idx-a1": "1", "zone": ""}, {"zo": "z1", "idx-": "1"}}

// c05IndexConfigs: selector index configurations (the first one is used in half of the indexed cases):
// overlapping prefixes, blank / duplicate / padded entries (documented as ignored / trimmed), keys only,
// prefixes only, a key that is also matched by a prefix.
var c05IndexConfigs = []struct{ prefixes, keys []string }{
	{[]string{c05IdxPrefix}, []string{c05IdxKey}},
	{[]string{c05IdxPrefix, "idx-a"}, []string{c05IdxKey}},
	{[]string{" idx- ", "idx-", ""}, []string{" zone", "other", ""}},
	{nil, []string{c05IdxKey, "idx-a"}},
	{[]string{c05IdxPrefix, "zo"}, nil},
	{[]string{c05IdxPrefix}, []string{"idx-a"}},
}

// covered: the configuration makes the index cover label key k (exact key, or a key prefix).
func (w *c05World) covered(k string) bool {
	for _, x := range w.idxKeys {
		if x = strings.TrimSpace(x); x != "" && x == k {
			return true
		}
	}
	for _, x := range w.idxPrefixes {
		if x = strings.TrimSpace(x); x != "" && strings.HasPrefix(k, x) {
			return true
		}
	}
	return false
}

func (w *c05World) genReservation(name string) *schedulingv1alpha1.Reservation {
	r := w.r
	alloc := c05GenRequests(r, []int{90, 75, 30, 10})
	if len(alloc) == 0 {
		alloc[corev1.ResourceCPU] = resource.MustParse("4")
	}
	res := &schedulingv1alpha1.Reservation{
		ObjectMeta: metav1.ObjectMeta{Name: name, UID: w.newUID("r"), Annotations: map[string]string{}, Labels: map[string]string{}},
		Spec: schedulingv1alpha1.ReservationSpec{Template: c05TemplateR(r, alloc), TTL: &metav1.Duration{},
			Owners: []schedulingv1alpha1.ReservationOwner{{LabelSelector: &metav1.LabelSelector{MatchLabels: map[string]string{"app": "a"}}}}},
	}
	for k, v := range kit.Pick(r, c05RsvLabelPool) {
		res.Labels[k] = v
	}
	switch r.Weighted(20, 35, 45) {
	case 1:
		res.Spec.AllocatePolicy = schedulingv1alpha1.ReservationAllocatePolicyAligned
	case 2:
		res.Spec.AllocatePolicy = schedulingv1alpha1.ReservationAllocatePolicyRestricted
	}
	if r.Pct(65) {
		f := false
		res.Spec.AllocateOnce = &f
	} else if r.Bool() {
		t := true
		res.Spec.AllocateOnce = &t
	}
	if r.Pct(6) { // an owner specification the parser rejects: the reservation is never matchable
		res.Spec.Owners = append(res.Spec.Owners, schedulingv1alpha1.ReservationOwner{LabelSelector: &metav1.LabelSelector{
			MatchExpressions: []metav1.LabelSelectorRequirement{{Key: "app", Operator: metav1.LabelSelectorOpIn}}}})
	}
	c05GenOptions(r, res)
	return res
}

func c05RsvAvailable(res *schedulingv1alpha1.Reservation) bool {
	return res != nil && res.Status.NodeName != "" && res.Status.Phase == schedulingv1alpha1.ReservationAvailable
}

func c05RsvWaiting(res *schedulingv1alpha1.Reservation) bool {
	return res != nil && res.Status.NodeName != "" && res.Status.Phase == schedulingv1alpha1.ReservationWaiting
}

func c05RsvTerminated(res *schedulingv1alpha1.Reservation) bool {
	return res != nil && (res.Status.Phase == schedulingv1alpha1.ReservationFailed || res.Status.Phase == schedulingv1alpha1.ReservationSucceeded)
}

func c05RsvUnassigned(res *schedulingv1alpha1.Reservation) bool {
	return res != nil && res.Status.NodeName == "" && !c05RsvTerminated(res)
}

// c05MakeAvailable: what the bind of the reserve pod writes (status available on the node, allocatable = the
// template's request).
func c05MakeAvailable(res *schedulingv1alpha1.Reservation, node string) {
	res.Status.Phase = schedulingv1alpha1.ReservationAvailable
	res.Status.NodeName = node
	res.Status.Allocatable = c05PodRequests(&corev1.Pod{Spec: res.Spec.Template.Spec})
}

func c05PodAnnotated(p *corev1.Pod) types.UID {
	if p == nil {
		return ""
	}
	ra, err := apiext.GetReservationAllocated(p)
	if err != nil || ra == nil {
		return ""
	}
	return ra.UID
}

func c05PodTerminated(p *corev1.Pod) bool {
	return p.Status.Phase == corev1.PodSucceeded || p.Status.Phase == corev1.PodFailed
}

func c05IsOperating(p *corev1.Pod) bool {
	return p != nil && p.Labels[apiext.LabelPodOperatingMode] == string(apiext.ReservationPodOperatingMode)
}

// ---------------------------------------------------------------------------------------------
// shadow transitions (statement level: when is a pod "currently assigned" to a reservation)

func (w *c05World) dropReservation(uid types.UID) {
	had := false
	for p, r := range w.fact {
		if r == uid {
			delete(w.fact, p)
			had = true
		}
	}
	for p, r := range w.assumed {
		if r == uid {
			delete(w.assumed, p)
			had = true
		}
	}
	for p, r := range w.may {
		if r == uid {
			delete(w.may, p)
		}
	}
	delete(w.owner, uid)
	if had {
		w.wentAway[uid] = true
	}
	w.live[uid] = false
}

func (w *c05World) podGone(uid types.UID) {
	if r, ok := w.fact[uid]; ok {
		delete(w.fact, uid)
		w.noteLeft(r)
	}
	if r, ok := w.assumed[uid]; ok {
		// the binding is still in flight: the scheduler holds the assumption until it unreserves, the pod
		// itself no longer exists -> either answer is accepted until the Unreserve
		w.may[uid] = r
		delete(w.assumed, uid)
	}
	if w.live[uid] { // an operating pod that acted as a reservation
		w.dropReservation(uid)
	}
}

func (w *c05World) noteLeft(rUID types.UID) {
	if w.wentAway[rUID] {
		w.c.NonTrivial()
	}
}

// podDelivered: the informer handed (old -> new) to the pod handler; new == nil is a delete.
func (w *c05World) podDelivered(old, new *corev1.Pod) {
	if old != nil && (new == nil || old.UID != new.UID) {
		if w.wentAway[c05PodAnnotated(old)] {
			w.c.NonTrivial() // assign -> reservation unavailable / removed -> pod deleted
		}
		w.podGone(old.UID)
	}
	if new == nil {
		return
	}
	if c05PodTerminated(new) && w.wentAway[c05PodAnnotated(new)] {
		w.c.NonTrivial()
	}
	u := new.UID
	bound := new.Spec.NodeName != "" && !c05PodTerminated(new)
	if c05IsOperating(new) {
		if bound {
			w.live[u] = true
			if w.owner[u] == "" {
				if o, _ := apiext.GetReservationCurrentOwner(new.Annotations); o != nil {
					w.owner[u] = o.UID
				}
			}
		} else if w.live[u] {
			w.dropReservation(u)
		}
		return
	}
	rUID := c05PodAnnotated(new)
	if bound && rUID != "" && w.live[rUID] {
		w.fact[u] = rUID
		w.reqs[u] = c05PodRequests(new)
		if w.assumed[u] == rUID {
			delete(w.assumed, u)
		}
		delete(w.may, u)
		return
	}
	if r, ok := w.fact[u]; ok {
		delete(w.fact, u)
		w.noteLeft(r)
	}
}

// ---------------------------------------------------------------------------------------------
// the walker

func (w *c05World) assignedTo(rUID types.UID) (must map[types.UID]bool, may map[types.UID]bool) {
	must, may = map[types.UID]bool{}, map[types.UID]bool{}
	for p, r := range w.fact {
		if r == rUID {
			must[p] = true
		}
	}
	for p, r := range w.assumed {
		if r == rUID {
			must[p] = true
		}
	}
	for p, r := range w.may {
		if r == rUID {
			may[p] = true
		}
	}
	if o := w.owner[rUID]; o != "" {
		must[o] = true
	}
	return
}

func (w *c05World) check(where string) {
	c, cache := w.c, w.cache
	// model sanity: the harness must know which reservations have an entry
	for uid := range cache.reservationInfos {
		if !w.live[uid] {
			c.Harness("%s: cache holds reservation %s which the model does not expect", where, uid)
		}
	}
	for uid, l := range w.live {
		if l && cache.reservationInfos[uid] == nil {
			c.Harness("%s: model expects reservation %s in the cache", where, uid)
		}
	}
	// ledger
	uids := make([]string, 0, len(cache.reservationInfos))
	for uid := range cache.reservationInfos {
		uids = append(uids, string(uid))
	}
	sort.Strings(uids)
	totalAssigned := 0
	for _, s := range uids {
		uid := types.UID(s)
		ri := cache.reservationInfos[uid]
		if ri == nil {
			c.Fail("C05/index/nil-entry", "%s: reservationInfos[%s] is nil", where, uid)
		}
		c.Count("ledger_checks", 1)
		must, may := w.assignedTo(uid)
		for p := range must {
			if _, ok := ri.AssignedPods[p]; !ok {
				c.Fail("C05/ledger/assigned-missing", "%s: pod %s is assigned to reservation %s (%s) but is not in its AssignedPods %v", where, p, ri.GetName(), uid, c05Keys(ri.AssignedPods))
			}
		}
		for p := range ri.AssignedPods {
			if !must[p] && !may[p] {
				c.Fail("C05/ledger/assigned-stale", "%s: AssignedPods of reservation %s (%s) holds pod %s which is not assigned to it (assigned: %v)", where, ri.GetName(), uid, p, c05BoolKeys(must))
			}
		}
		totalAssigned += len(ri.AssignedPods)
		var dims map[corev1.ResourceName]bool
		ok := true
		if ri.Reservation != nil {
			dims, ok = c05Dims(ri.Reservation)
		} else {
			dims = map[corev1.ResourceName]bool{}
			for n := range c05PodRequests(ri.Pod) {
				dims[n] = true
			}
		}
		if !ok {
			c.Count("ledger_dims_undetermined", 1)
			continue
		}
		if cl := c05OptionsClass(ri.Reservation); cl != "" && len(ri.AssignedPods) > 0 {
			c.Count("ledger_checks_assigned_options_"+cl, 1)
		}
		want := corev1.ResourceList{}
		for p := range ri.AssignedPods {
			for n, q := range w.reqs[p] {
				if dims[n] {
					want[n] = c05Add(want[n], q)
				}
			}
		}
		names := map[corev1.ResourceName]bool{}
		for n := range want {
			names[n] = true
		}
		for n := range ri.Allocated {
			names[n] = true
		}
		for n := range names {
			wq, gq := want[n], ri.Allocated[n]
			if wq.Cmp(gq) != 0 {
				sig := "C05/ledger/allocated"
				if w.dimsGrew(uid, dims) {
					sig = "C05/ledger/allocated-after-dimensions-grew"
				}
				c.Fail(sig, "%s: reservation %s (%s) reports Allocated[%s]=%s but its %d assigned pods request %s in total in the reserved dimensions {%s} (Allocated=%s, sum=%s)",
					where, ri.GetName(), uid, n, gq.String(), len(ri.AssignedPods), wq.String(), c05DimsStr(dims), c05RL(ri.Allocated), c05RL(want))
			}
		}
		if len(ri.AssignedPods) > 0 {
			c.Count("ledger_checks_with_assigned_pods", 1)
		}
	}
	// per-node indexes
	c.Count("index_checks", 1)
	onNode := map[string]map[types.UID]bool{}
	for uid, ri := range cache.reservationInfos {
		if n := ri.GetNodeName(); n != "" {
			if onNode[n] == nil {
				onNode[n] = map[types.UID]bool{}
			}
			onNode[n][uid] = true
		}
	}
	for n, set := range onNode {
		for uid := range set {
			if _, ok := cache.reservationsOnNode[n][uid]; !ok {
				c.Fail("C05/index/missing-on-node", "%s: live reservation %s is placed on node %s but reservationsOnNode[%s] does not list it", where, uid, n, n)
			}
		}
	}
	dangling := func(index, n string, uid types.UID) {
		if cache.reservationInfos[uid] == nil && w.moved[uid] {
			c.Fail("C05/index/dangling-after-node-move/"+index, "%s: %s[%s] references reservation %s which no longer exists (the reservation was moved to another node under the same uid)", where, index, n, uid)
		}
		if cache.reservationInfos[uid] == nil {
			c.Fail("C05/index/dangling/"+index, "%s: %s[%s] references reservation %s which no longer exists", where, index, n, uid)
		}
	}
	for n, set := range cache.reservationsOnNode {
		for uid := range set {
			dangling("reservationsOnNode", n, uid)
			if !onNode[n][uid] {
				c.Count("index_entry_of_live_reservation_reporting_another_node", 1)
			}
		}
	}
	for n, set := range cache.matchableOnNode {
		for uid := range set {
			dangling("matchableOnNode", n, uid)
			if !cache.reservationInfos[uid].IsMatchable() {
				c.Count("matchable_index_holds_momentarily_unmatchable", 1)
			}
		}
	}
	for n, set := range cache.allocatedOnNode {
		for uid := range set {
			dangling("allocatedOnNode", n, uid)
		}
	}
	for uid, ri := range cache.reservationInfos {
		if n := ri.GetNodeName(); n != "" && ri.IsMatchable() {
			if _, ok := cache.matchableOnNode[n][uid]; !ok {
				c.Count("converse_misses_matchable_not_indexed", 1)
			}
		}
	}
	if cache.indexEnabled {
		for uid := range cache.indexEntryByUID {
			dangling("selectorIndex", "entry", uid)
		}
		for p, byNode := range cache.nodesByPrefix {
			for n, set := range byNode {
				for uid := range set {
					dangling("selectorIndex", p+"/"+n, uid)
				}
			}
		}
		for k, byValue := range cache.nodesByExactKV {
			for v, byNode := range byValue {
				for n, set := range byNode {
					for uid := range set {
						dangling("selectorIndex", k+"="+v+"/"+n, uid)
					}
				}
			}
		}
		if issues := cache.checkReservationSelectorIndexConsistency(); len(issues) > 0 {
			c.Count("selector_index_self_audit_issues", len(issues))
		}
		// completeness, through the read API: for every label of a live reservation placed on a node whose key
		// the case's configuration covers (exact key or key prefix), FilterByReservationSelector must take the
		// index path and offer the reservation's CURRENT node
		for uid, ri := range cache.reservationInfos {
			n := ri.GetNodeName()
			if n == "" {
				continue
			}
			for k, v := range ri.GetObject().GetLabels() {
				nodes, hit := cache.FilterByReservationSelector(map[string]string{k: v})
				if !w.covered(k) {
					if hit {
						c.Count("selector_index_hit_for_uncovered_key", 1)
					}
					continue
				}
				c.Count("selector_index_completeness_checks", 1)
				found := false
				for _, x := range nodes {
					if x == n {
						found = true
					}
				}
				if !hit || !found {
					c.Fail("C05/index/selector-missing", "%s: FilterByReservationSelector({%s: %q}) = %v (hit=%v) does not offer node %s on which live reservation %s carries that label (index prefixes %q keys %q)", where, k, v, nodes, hit, n, uid, w.idxPrefixes, w.idxKeys)
				}
			}
		}
		stale := func(bucket, n string, uid types.UID) {
			if ri := cache.reservationInfos[uid]; ri != nil && ri.GetNodeName() != n {
				c.Fail("C05/index/selector-stale-node", "%s: selector index %s lists reservation %s under node %s but it is placed on %q", where, bucket, uid, n, ri.GetNodeName())
			}
		}
		for p, byNode := range cache.nodesByPrefix {
			for n, set := range byNode {
				for uid := range set {
					stale("prefix "+p, n, uid)
				}
			}
		}
		for k, byValue := range cache.nodesByExactKV {
			for v, byNode := range byValue {
				for n, set := range byNode {
					for uid := range set {
						stale(k+"="+v, n, uid)
					}
				}
			}
		}
	}
	// the same through the cache's read API
	for _, n := range w.nodes {
		cache.ForEachMatchableReservationOnNode(n, func(ri *frameworkext.ReservationInfo) (bool, *fwktype.Status) {
			if ri == nil {
				c.Fail("C05/index/dangling/matchableOnNode", "%s: ForEachMatchableReservationOnNode(%s) handed a nil ReservationInfo to its callback", where, n)
			}
			return true, nil
		})
		listed := map[types.UID]bool{}
		for _, ri := range cache.ListAvailableReservationInfosOnNode(n, true) {
			listed[ri.UID()] = true
		}
		for uid := range onNode[n] {
			if !listed[uid] {
				c.Fail("C05/index/missing-on-node", "%s: ListAvailableReservationInfosOnNode(%s, all) does not list live reservation %s", where, n, uid)
			}
		}
	}
	for _, n := range cache.ListAllNodes(true) {
		if len(cache.matchableOnNode[n]) == 0 {
			c.Count("list_all_nodes_empty_node", 1)
		}
	}
	// remember, per assigned pod, which dimensions have been reserved ever since it was added
	since := map[string]map[corev1.ResourceName]bool{}
	for uid, ri := range cache.reservationInfos {
		var dims map[corev1.ResourceName]bool
		if ri.Reservation != nil {
			dims, _ = c05Dims(ri.Reservation)
		}
		for p := range ri.AssignedPods {
			key := c05PairKey(uid, p)
			cur := map[corev1.ResourceName]bool{}
			if old := w.dimsSince[key]; old != nil {
				for n := range old {
					if dims[n] {
						cur[n] = true
					}
				}
			} else {
				for n := range dims {
					cur[n] = true
				}
			}
			since[key] = cur
		}
	}
	w.dimsSince = since
	c.Seen(len(uids), minInt(totalAssigned, 6), len(cache.matchableOnNode), len(cache.allocatedOnNode), w.indexed, len(w.flights), len(w.global) > 0)
}

func minInt(a, b int) int {
	if a < b {
		return a
	}
	return b
}

func c05Keys(m map[types.UID]*frameworkext.PodRequirement) []string {
	out := make([]string, 0, len(m))
	for k := range m {
		out = append(out, string(k))
	}
	sort.Strings(out)
	return out
}

func c05BoolKeys(m map[types.UID]bool) []string {
	out := make([]string, 0, len(m))
	for k := range m {
		out = append(out, string(k))
	}
	sort.Strings(out)
	return out
}

// dimsGrew: a dimension reserved now was not reserved at some moment since a currently assigned pod was
// added. Only used to give that class of ledger violation its own signature.
func (w *c05World) dimsGrew(uid types.UID, now map[corev1.ResourceName]bool) bool {
	ri := w.cache.reservationInfos[uid]
	for p := range ri.AssignedPods {
		since := w.dimsSince[c05PairKey(uid, p)]
		if since == nil {
			continue
		}
		for n := range now {
			if !since[n] {
				return true
			}
		}
	}
	return false
}

func c05PairKey(r, p types.UID) string { return string(r) + "/" + string(p) }
