//go:build verif

package reservation

// operations of the C05 ledger / index workload (see c05_ledger_test.go for the world and the causal rules)

import (
	"fmt"
	"testing"

	corev1 "k8s.io/api/core/v1"
	metav1 "k8s.io/apimachinery/pkg/apis/meta/v1"
	"k8s.io/apimachinery/pkg/types"
	clientcache "k8s.io/client-go/tools/cache"
	fwktype "k8s.io/kube-scheduler/framework"

	apiext "github.com/koordinator-sh/koordinator/apis/extension"
	schedulingv1alpha1 "github.com/koordinator-sh/koordinator/apis/scheduling/v1alpha1"
	"github.com/koordinator-sh/koordinator/pkg/scheduler/apis/config"
	"github.com/koordinator-sh/koordinator/pkg/scheduler/frameworkext"
	kit "github.com/koordinator-sh/koordinator/pkg/verifkit"
)

func c05RsvStr(res *schedulingv1alpha1.Reservation) string {
	if res == nil {
		return "<deleted>"
	}
	once := "default"
	if res.Spec.AllocateOnce != nil {
		once = fmt.Sprint(*res.Spec.AllocateOnce)
	}
	return fmt.Sprintf("%s(%s) phase=%q node=%q policy=%q once=%s unsched=%v terminating=%v owners=%d labels=%v reserved=%s options=%q heldBack=%s",
		res.Name, res.UID, res.Status.Phase, res.Status.NodeName, res.Spec.AllocatePolicy, once, res.Spec.Unschedulable, res.DeletionTimestamp != nil,
		len(res.Spec.Owners), res.Labels, c05RL(c05Reserved(res)), res.Annotations[apiext.AnnotationReservationRestrictedOptions], c05RL(c05InnerReserved(res.Annotations)))
}

func c05PodStr(p *corev1.Pod) string {
	if p == nil {
		return "<deleted>"
	}
	return fmt.Sprintf("%s(%s) node=%q phase=%q reservation=%q operating=%v requests=%s", p.Name, p.UID, p.Spec.NodeName, p.Status.Phase, c05PodAnnotated(p), c05IsOperating(p), c05RL(c05PodRequests(p)))
}

func (w *c05World) pushRsv(s *c05RsvSlot) {
	if s.cur == nil {
		s.queue = append(s.queue, nil)
	} else {
		s.queue = append(s.queue, s.cur.DeepCopy())
	}
}

func (w *c05World) pushPod(s *c05PodSlot) {
	if s.cur == nil {
		s.queue = append(s.queue, nil)
	} else {
		s.queue = append(s.queue, s.cur.DeepCopy())
	}
}

func (w *c05World) inFlight(uid types.UID) *c05Flight {
	for _, f := range w.flights {
		if f.pod.UID == uid {
			return f
		}
	}
	return nil
}

func (w *c05World) removeFlight(f *c05Flight) {
	for i, x := range w.flights {
		if x == f {
			w.flights = append(w.flights[:i], w.flights[i+1:]...)
			return
		}
	}
}

// ---------------------------------------------------------------------------------------------
// reservations

func (w *c05World) opRsvCreate() bool {
	var cand []*c05RsvSlot
	for _, s := range w.rsvs {
		if s.cur == nil && s.assumed == nil {
			cand = append(cand, s)
		}
	}
	if len(cand) == 0 {
		return false
	}
	s := kit.Pick(w.r, cand)
	s.gen++
	s.cur = w.genReservation(s.name)
	mode := w.r.Weighted(50, 25, 25)
	switch mode {
	case 0: // pending, this scheduler will place it
		w.pushRsv(s)
	case 1: // placed by another scheduler, both versions arrive
		w.pushRsv(s)
		c05MakeAvailable(s.cur, kit.Pick(w.r, w.nodes))
		w.pushRsv(s)
	default: // placed by another scheduler, the informer sees it Available first
		c05MakeAvailable(s.cur, kit.Pick(w.r, w.nodes))
		w.pushRsv(s)
	}
	w.c.Op("api: create reservation %s", c05RsvStr(s.cur))
	w.c.Count("op_rsv_create", 1)
	return true
}

func (w *c05World) opRsvAssume() bool {
	var cand []*c05RsvSlot
	for _, s := range w.rsvs {
		if s.cur != nil && s.assumed == nil && c05RsvUnassigned(s.cur) && s.cur.DeletionTimestamp == nil &&
			s.delivered != nil && s.delivered.UID == s.cur.UID && c05RsvUnassigned(s.delivered) {
			cand = append(cand, s)
		}
	}
	if len(cand) == 0 {
		return false
	}
	s := kit.Pick(w.r, cand)
	obj := s.delivered.DeepCopy()
	obj.Status.NodeName = kit.Pick(w.r, w.nodes)
	w.c.Op("scheduler: Reserve of reserve pod -> assumeReservation(%s on %s)", obj.UID, obj.Status.NodeName)
	if w.seenUnbound[obj.UID] {
		w.c.Count("rsv_unbound_then_bound_in_cache", 1)
		if w.indexed && w.anyCovered(obj.Labels) {
			w.c.Count("rsv_unbound_then_bound_in_cache_indexed_labels", 1)
		}
	}
	w.cache.assumeReservation(obj)
	s.assumed = obj
	w.live[obj.UID] = true
	w.c.Count("op_rsv_assume", 1)
	return true
}

// opRsvSeenUnbound: the cache is handed the reservation while it has no node yet (updateReservation with the
// delivered, not yet placed object). The cache supports this order by contract (addToIndex: "Reservations not
// yet bound to a node are skipped ... They will be picked up on the subsequent updateReservation when the
// binding becomes available"; the package's TestReservationCacheIndexUnboundReservationSkipped does the same);
// today's plugin handler filters such objects out, so this is a cache-level history.
func (w *c05World) opRsvSeenUnbound() bool {
	var cand []*c05RsvSlot
	for _, s := range w.rsvs {
		if s.cur != nil && s.assumed == nil && s.delivered != nil && s.delivered.UID == s.cur.UID && c05RsvUnassigned(s.delivered) && !w.live[s.delivered.UID] {
			cand = append(cand, s)
		}
	}
	if len(cand) == 0 {
		return false
	}
	s := kit.Pick(w.r, cand)
	w.c.Op("cache: updateReservation(%s) before the reservation is placed", c05RsvStr(s.delivered))
	w.cache.updateReservation(s.delivered)
	w.live[s.delivered.UID] = true
	w.seenUnbound[s.delivered.UID] = true
	w.c.Count("op_rsv_seen_unbound", 1)
	return true
}

func (w *c05World) opRsvBindOK() bool {
	var cand []*c05RsvSlot
	for _, s := range w.rsvs {
		if s.assumed != nil && s.cur != nil && s.cur.UID == s.assumed.UID && c05RsvUnassigned(s.cur) {
			cand = append(cand, s)
		}
	}
	if len(cand) == 0 {
		return false
	}
	s := kit.Pick(w.r, cand)
	c05MakeAvailable(s.cur, s.assumed.Status.NodeName)
	if w.r.Pct(15) { // placed, but not yet ready for allocation
		s.cur.Status.Phase = schedulingv1alpha1.ReservationWaiting
		w.c.Count("op_rsv_bind_ok_waiting", 1)
	}
	w.pushRsv(s)
	s.assumed = nil
	w.c.Op("api: reserve pod bound -> %s", c05RsvStr(s.cur))
	w.c.Count("op_rsv_bind_ok", 1)
	return true
}

func (w *c05World) opRsvBindFail() bool {
	var cand []*c05RsvSlot
	for _, s := range w.rsvs {
		if s.assumed != nil {
			cand = append(cand, s)
		}
	}
	if len(cand) == 0 {
		return false
	}
	s := kit.Pick(w.r, cand)
	node := s.assumed.Status.NodeName
	var obj *schedulingv1alpha1.Reservation
	if s.delivered != nil { // Unreserve finds the reservation in the lister
		obj = s.delivered.DeepCopy()
		obj.Status.NodeName = node
	} else { // the reservation is gone: Unreserve builds a stand-in from the reserve pod
		obj = &schedulingv1alpha1.Reservation{ObjectMeta: metav1.ObjectMeta{Name: s.name, UID: s.assumed.UID, Namespace: "default"},
			Status: schedulingv1alpha1.ReservationStatus{NodeName: node}}
	}
	w.c.Op("scheduler: Unreserve of reserve pod -> forgetReservation(%s on %s, fromLister=%v)", obj.UID, node, s.delivered != nil)
	w.cache.forgetReservation(obj)
	w.dropReservation(obj.UID)
	s.assumed = nil
	w.c.Count("op_rsv_bind_fail", 1)
	return true
}

func (w *c05World) opRsvUpdate(dimsMayChange bool) bool {
	var cand []*c05RsvSlot
	for _, s := range w.rsvs {
		if s.cur != nil && !c05RsvTerminated(s.cur) {
			cand = append(cand, s)
		}
	}
	if len(cand) == 0 {
		return false
	}
	r := w.r
	s := kit.Pick(r, cand)
	before := s.cur.DeepCopy()
	res := s.cur
	what := ""
	if c05RsvWaiting(res) && r.Pct(50) {
		res.Status.Phase = schedulingv1alpha1.ReservationAvailable
		w.pushRsv(s)
		w.c.Op("api: waiting reservation became available -> %s", c05RsvStr(s.cur))
		w.c.Count("op_rsv_waiting_to_available", 1)
		return true
	}
	switch r.Weighted(18, 10, 12, 10, 12, 10, 14, 6, 8) {
	case 0:
		what = "labels"
		res.Labels = map[string]string{}
		for k, v := range kit.Pick(r, c05RsvLabelPool) {
			res.Labels[k] = v
		}
	case 1:
		what = "unschedulable"
		res.Spec.Unschedulable = !res.Spec.Unschedulable
	case 2:
		what = "allocate-once"
		v := !c05AllocateOnce(res)
		res.Spec.AllocateOnce = &v
	case 3:
		what = "policy"
		res.Spec.AllocatePolicy = kit.Pick(r, []schedulingv1alpha1.ReservationAllocatePolicy{schedulingv1alpha1.ReservationAllocatePolicyDefault,
			schedulingv1alpha1.ReservationAllocatePolicyAligned, schedulingv1alpha1.ReservationAllocatePolicyRestricted})
	case 4:
		what = "restricted options"
		if cl := c05GenOptions(r, res); res.Spec.AllocatePolicy == schedulingv1alpha1.ReservationAllocatePolicyRestricted {
			if must, _ := w.assignedTo(res.UID); len(must) > 0 {
				w.c.Count("op_update_options_with_assigned_"+cl, 1)
			}
		}
	case 5:
		what = "held back amount"
		inner := corev1.ResourceList{}
		if r.Pct(70) {
			for _, n := range c05SortedNames(c05Reserved(res)) {
				if r.Pct(50) {
					inner[n] = c05GenQuantity(r, n)
				}
			}
		}
		if r.Pct(20) {
			c05SetInnerReservedCPUs(res, inner, kit.Pick(r, []string{"0", "0-1", "1,3", "0-2,5"}))
		} else {
			c05SetInnerReserved(res, inner)
		}
	case 6:
		what = "reserved amounts"
		alloc := c05PodRequests(&corev1.Pod{Spec: res.Spec.Template.Spec})
		if r.Pct(15) { // resized to other resource names
			alloc = c05GenRequests(r, []int{90, 75, 30, 10})
			if len(alloc) == 0 {
				alloc[corev1.ResourceCPU] = c05GenQuantity(r, corev1.ResourceCPU)
			}
			delete(res.Annotations, apiext.AnnotationReservationRestrictedOptions)
		} else {
			for _, n := range c05SortedNames(alloc) {
				if r.Pct(50) {
					alloc[n] = c05GenQuantity(r, n)
				}
			}
		}
		res.Spec.Template = c05TemplateR(r, alloc)
		if res.Status.NodeName != "" {
			res.Status.Allocatable = alloc.DeepCopy()
		}
	case 7:
		what = "owners"
		if len(res.Spec.Owners) > 1 {
			res.Spec.Owners = res.Spec.Owners[:1]
		} else {
			res.Spec.Owners = append(res.Spec.Owners, schedulingv1alpha1.ReservationOwner{LabelSelector: &metav1.LabelSelector{
				MatchExpressions: []metav1.LabelSelectorRequirement{{Key: "app", Operator: metav1.LabelSelectorOpIn}}}})
		}
	default:
		what = "deletion timestamp"
		if res.DeletionTimestamp == nil {
			ts := metav1.Unix(1700000000, 0)
			res.DeletionTimestamp = &ts
		}
	}
	if !dimsMayChange {
		a, _ := c05Dims(before)
		b, _ := c05Dims(res)
		if c05DimsStr(a) != c05DimsStr(b) {
			s.cur = before
			return false
		}
	}
	w.pushRsv(s)
	w.c.Op("api: update reservation (%s) -> %s", what, c05RsvStr(s.cur))
	w.c.Count("op_rsv_update", 1)
	return true
}

// opRsvMove: a placed reservation is re-placed on another node under the same uid (the scheduler-wide handler
// documents this as an extended multi-scheduler case: "available -> available with different nodeName (node
// migration)", handled as delete-then-add). Only generated in the cases that enable node moves.
func (w *c05World) opRsvMove() bool {
	var cand []*c05RsvSlot
	for _, s := range w.rsvs {
		if c05RsvAvailable(s.cur) && s.cur.DeletionTimestamp == nil {
			cand = append(cand, s)
		}
	}
	if len(cand) == 0 || len(w.nodes) < 2 {
		return false
	}
	s := kit.Pick(w.r, cand)
	from := s.cur.Status.NodeName
	for {
		if n := kit.Pick(w.r, w.nodes); n != from {
			s.cur.Status.NodeName = n
			break
		}
	}
	w.moved[s.cur.UID] = true
	w.pushRsv(s)
	w.c.Op("api: reservation %s(%s) moved %s -> %s", s.cur.Name, s.cur.UID, from, s.cur.Status.NodeName)
	w.c.Count("op_rsv_node_move", 1)
	return true
}

func (w *c05World) opRsvTerminate() bool {
	var cand []*c05RsvSlot
	for _, s := range w.rsvs {
		if s.cur != nil && (c05RsvAvailable(s.cur) || c05RsvWaiting(s.cur) || c05RsvUnassigned(s.cur) && s.assumed == nil) {
			cand = append(cand, s)
		}
	}
	if len(cand) == 0 {
		return false
	}
	s := kit.Pick(w.r, cand)
	if c05RsvAvailable(s.cur) && w.r.Bool() {
		s.cur.Status.Phase = schedulingv1alpha1.ReservationSucceeded
	} else {
		s.cur.Status.Phase = schedulingv1alpha1.ReservationFailed
	}
	w.pushRsv(s)
	w.c.Op("api: reservation terminated -> %s", c05RsvStr(s.cur))
	w.c.Count("op_rsv_terminate", 1)
	return true
}

func (w *c05World) opRsvDelete() bool {
	var cand []*c05RsvSlot
	for _, s := range w.rsvs {
		if s.cur != nil {
			cand = append(cand, s)
		}
	}
	if len(cand) == 0 {
		return false
	}
	s := kit.Pick(w.r, cand)
	w.c.Op("api: delete reservation %s(%s)", s.cur.Name, s.cur.UID)
	s.cur = nil
	w.pushRsv(s)
	w.c.Count("op_rsv_delete", 1)
	return true
}

// c05GlobalEffect: the object the scheduler-wide reservation handler passes to DeleteReservation for the
// event (old -> new); nil when it does not touch the reservation cache.
func c05GlobalEffect(old, new *schedulingv1alpha1.Reservation) *schedulingv1alpha1.Reservation {
	if old == nil {
		return nil
	}
	if new == nil {
		if old.Status.NodeName != "" {
			return old
		}
		return nil
	}
	if c05RsvTerminated(old) && c05RsvTerminated(new) {
		return nil
	}
	switch {
	case c05RsvAvailable(old) && c05RsvAvailable(new):
		if old.UID != new.UID || old.Status.NodeName != new.Status.NodeName {
			return old
		}
	case c05RsvAvailable(old) && (c05RsvTerminated(new) || c05RsvUnassigned(new)):
		return old
	}
	return nil
}

func (w *c05World) applyGlobal(obj *schedulingv1alpha1.Reservation) {
	w.c.Op("informer(scheduler-wide handler): DeleteReservation(%s on %q)", obj.UID, obj.Status.NodeName)
	ri := w.cache.DeleteReservation(obj)
	if w.moved[obj.UID] && w.cache.reservationInfos[obj.UID] != nil {
		// a delete for an older placement that the cache did not apply to the reservation it now holds on
		// another node (only a tree that handles node moves that way gets here): the reservation stays
		w.c.Count("stale_delete_of_moved_reservation_kept", 1)
		return
	}
	if ri != nil && len(ri.AssignedPods) > 0 {
		w.c.Count("reservations_removed_with_assigned_pods", 1)
	}
	w.dropReservation(obj.UID)
	w.c.Count("op_global_delete_reservation", 1)
}

func (w *c05World) opGlobalDeliver() bool {
	if len(w.global) == 0 {
		return false
	}
	obj := w.global[0]
	w.global = w.global[1:]
	w.applyGlobal(obj)
	return true
}

func (w *c05World) opRsvDeliver() bool {
	var cand []*c05RsvSlot
	for _, s := range w.rsvs {
		if len(s.queue) > 0 {
			cand = append(cand, s)
		}
	}
	if len(cand) == 0 {
		return false
	}
	r := w.r
	s := kit.Pick(r, cand)
	old := s.delivered
	nv := s.queue[0]
	s.queue = s.queue[1:]
	merged := false
	if nv == nil && old != nil && len(s.queue) > 0 && s.queue[0] != nil && r.Pct(40) {
		// re-list: deleted and re-created under the same name arrives as one update
		nv = s.queue[0]
		s.queue = s.queue[1:]
		merged = true
	}
	s.delivered = nv
	if old == nil && nv == nil {
		w.c.Op("informer: reservation %s created and deleted before it was seen", s.name)
		return true
	}
	effect := c05GlobalEffect(old, nv)
	order := 0 // 0: plugin handler then scheduler-wide handler; 1: the other way round; 2: scheduler-wide handler lags
	if effect != nil {
		order = r.Weighted(45, 25, 30)
		if len(w.global) > 0 {
			order = 2
		}
		if order == 1 {
			w.applyGlobal(effect)
		}
	}
	active := func(x *schedulingv1alpha1.Reservation) bool {
		return x.Status.NodeName != "" && (x.Status.Phase == schedulingv1alpha1.ReservationAvailable || x.Status.Phase == schedulingv1alpha1.ReservationWaiting)
	}
	switch {
	case old == nil:
		w.c.Op("informer(plugin handler): OnAdd %s", c05RsvStr(nv))
		w.rh.OnAdd(nv, false)
		if active(nv) {
			w.live[nv.UID] = true
		}
		w.c.Count("op_rsv_deliver_add", 1)
	case nv == nil:
		var obj interface{} = old
		unknown := r.Pct(30)
		if unknown {
			obj = clientcache.DeletedFinalStateUnknown{Key: old.Name, Obj: old}
		}
		w.c.Op("informer(plugin handler): OnDelete %s(%s) finalStateUnknown=%v", old.Name, old.UID, unknown)
		w.markUnavailable(old.UID)
		w.rh.OnDelete(obj)
		w.c.Count("op_rsv_deliver_delete", 1)
	default:
		w.c.Op("informer(plugin handler): OnUpdate %s(%s) -> %s merged=%v", old.Name, old.UID, c05RsvStr(nv), merged)
		if active(nv) && w.seenUnbound[nv.UID] && w.live[nv.UID] {
			if ri := w.cache.reservationInfos[nv.UID]; ri != nil && ri.GetNodeName() == "" {
				w.c.Count("rsv_unbound_then_bound_in_cache", 1)
				if w.indexed && w.anyCovered(nv.Labels) {
					w.c.Count("rsv_unbound_then_bound_in_cache_indexed_labels", 1)
				}
			}
		}
		if !active(nv) {
			w.markUnavailable(nv.UID)
		}
		w.rh.OnUpdate(old, nv)
		if active(nv) {
			w.live[nv.UID] = true
		}
		w.c.Count("op_rsv_deliver_update", 1)
		if merged {
			w.c.Count("op_rsv_deliver_update_new_uid", 1)
		}
	}
	if effect != nil {
		switch order {
		case 0:
			w.applyGlobal(effect)
		case 2:
			w.global = append(w.global, effect)
			w.c.Count("global_handler_lagging", 1)
		}
	}
	return true
}

// markUnavailable notes (for the non-triviality rule) that a reservation with assigned pods stopped being
// available.
func (w *c05World) markUnavailable(uid types.UID) {
	if !w.live[uid] {
		return
	}
	must, _ := w.assignedTo(uid)
	if len(must) > 0 {
		w.wentAway[uid] = true
		w.c.Count("reservations_made_unavailable_with_assigned_pods", 1)
	}
}

// ---------------------------------------------------------------------------------------------
// pods

func (w *c05World) opPodCreate() bool {
	var cand []*c05PodSlot
	for _, s := range w.pods {
		if s.cur == nil {
			cand = append(cand, s)
		}
	}
	if len(cand) == 0 {
		return false
	}
	r := w.r
	s := kit.Pick(r, cand)
	s.gen++
	rl := c05GenRequests(r, []int{80, 65, 25, 10})
	p := &corev1.Pod{ObjectMeta: metav1.ObjectMeta{Namespace: "default", Name: s.name, UID: w.newUID("p"), Labels: map[string]string{"app": "a"}, Annotations: map[string]string{}},
		Spec: corev1.PodSpec{Containers: c05Containers(r, rl)}, Status: corev1.PodStatus{Phase: corev1.PodPending}}
	c05Shape(r, &p.Spec)
	if len(p.Spec.InitContainers) > 0 || p.Spec.Overhead != nil {
		w.c.Count("op_pod_create_init_or_overhead", 1)
	}
	s.cur = p
	if s.operating {
		p.Labels[apiext.LabelPodOperatingMode] = string(apiext.ReservationPodOperatingMode)
		_ = apiext.SetReservationOwners(p, []schedulingv1alpha1.ReservationOwner{{LabelSelector: &metav1.LabelSelector{MatchLabels: map[string]string{"app": "a"}}}})
		w.pushPod(s)
		// scheduled like any pod, then started
		p.Spec.NodeName = kit.Pick(r, w.nodes)
		if r.Pct(70) {
			p.Status.Phase = corev1.PodRunning
			p.Status.Conditions = []corev1.PodCondition{{Type: corev1.PodReady, Status: corev1.ConditionTrue}}
		}
		w.pushPod(s)
	} else {
		w.pushPod(s)
	}
	w.c.Op("api: create pod %s", c05PodStr(s.cur))
	w.c.Count("op_pod_create", 1)
	return true
}

// fitsShadow: the restricted rule evaluated on what the scheduling cycle saw (clone) with the requests the
// harness knows; used only to keep the generated history inside what a correct scheduler does.
func (w *c05World) fitsShadow(res *schedulingv1alpha1.Reservation, assigned []types.UID, req corev1.ResourceList) bool {
	if res.Spec.AllocatePolicy != schedulingv1alpha1.ReservationAllocatePolicyRestricted {
		return true
	}
	dims, ok := c05Dims(res)
	if !ok {
		return false
	}
	reserved, inner := c05Reserved(res), c05InnerReserved(res.Annotations)
	for n := range dims {
		rq, has := req[n]
		if !has || rq.IsZero() {
			continue
		}
		sum := rq.DeepCopy()
		for _, p := range assigned {
			sum.Add(w.reqs[p][n])
		}
		if sum.Cmp(c05Sub(reserved[n], inner[n])) > 0 {
			return false
		}
	}
	return true
}

func (w *c05World) opPodSchedule(deliverSome func()) bool {
	var cand []*c05PodSlot
	for _, s := range w.pods {
		if !s.operating && s.cur != nil && s.delivered != nil && s.delivered.UID == s.cur.UID && s.cur.Spec.NodeName == "" &&
			s.delivered.Spec.NodeName == "" && s.cur.DeletionTimestamp == nil && w.inFlight(s.cur.UID) == nil && c05PodAnnotated(s.cur) == "" {
			cand = append(cand, s)
		}
	}
	if len(cand) == 0 {
		return false
	}
	r := w.r
	s := kit.Pick(r, cand)
	pod := s.delivered.DeepCopy()
	req := c05PodRequests(pod)
	// BeforePreFilter: what the cycle sees
	var seen []*frameworkext.ReservationInfo
	for _, n := range w.nodes {
		w.cache.ForEachMatchableReservationOnNode(n, func(ri *frameworkext.ReservationInfo) (bool, *fwktype.Status) {
			if ri == nil {
				w.c.Fail("C05/index/dangling/matchableOnNode", "scheduling cycle of pod %s: ForEachMatchableReservationOnNode(%s) handed a nil ReservationInfo to its callback", pod.UID, n)
			}
			seen = append(seen, ri.Clone())
			return true, nil
		})
	}
	// go map order inside ForEach: sort what was seen
	sortRInfos(seen)
	var ok []*frameworkext.ReservationInfo
	for _, ri := range seen {
		if !ri.MatchOwners(pod) || ri.IsUnschedulable() {
			continue
		}
		if ri.Reservation == nil { // a reservation-operating-mode pod: always allocate-once, never Restricted
			if len(ri.AssignedPods) > 0 {
				w.c.Count("cycle_skipped_allocate_once_taken", 1)
				continue
			}
			w.c.Count("cycle_operating_pod_reservation_usable", 1)
			ok = append(ok, ri)
			continue
		}
		if c05AllocateOnce(ri.Reservation) && len(ri.AssignedPods) > 0 {
			w.c.Count("cycle_skipped_allocate_once_taken", 1)
			continue
		}
		var assigned []types.UID
		for p := range ri.AssignedPods {
			assigned = append(assigned, p)
		}
		if !w.fitsShadow(ri.Reservation, assigned, req) {
			w.c.Count("cycle_skipped_restricted_full", 1)
			continue
		}
		ok = append(ok, ri)
	}
	if len(ok) == 0 {
		w.c.Op("scheduler: cycle of pod %s(%s): %d reservations seen, none usable", pod.Name, pod.UID, len(seen))
		w.c.Count("op_pod_schedule_no_candidate", 1)
		return true
	}
	ri := kit.Pick(r, ok)
	if r.Pct(35) {
		deliverSome()
	}
	err := w.cache.assumePods(ri.UID(), []*corev1.Pod{pod})
	w.c.Op("scheduler: Reserve pod %s(%s) requests %s on reservation %s(%s) node %s -> err=%v", pod.Name, pod.UID, c05RL(req), ri.GetName(), ri.UID(), ri.GetNodeName(), err)
	if err != nil {
		w.c.Count("op_pod_reserve_refused", 1)
		return true
	}
	w.c.Count("op_pod_reserve", 1)
	if ri.Reservation == nil {
		w.c.Count("op_pod_reserve_on_operating_pod", 1)
	}
	if !w.live[ri.UID()] {
		w.c.Harness("assumePods succeeded on reservation %s which the model believes is not in the cache", ri.UID())
	}
	w.assumed[pod.UID] = ri.UID()
	w.reqs[pod.UID] = req
	w.flights = append(w.flights, &c05Flight{slot: s, pod: pod, rUID: ri.UID(), rName: ri.GetName(), node: ri.GetNodeName()})
	return true
}

func (w *c05World) anyCovered(labels map[string]string) bool {
	for k := range labels {
		if w.covered(k) {
			return true
		}
	}
	return false
}

func sortRInfos(xs []*frameworkext.ReservationInfo) {
	for i := 1; i < len(xs); i++ {
		for j := i; j > 0 && xs[j].UID() < xs[j-1].UID(); j-- {
			xs[j], xs[j-1] = xs[j-1], xs[j]
		}
	}
}

func (w *c05World) opPodPreBind() bool {
	var cand []*c05Flight
	for _, f := range w.flights {
		if !f.prebound && f.slot.cur != nil && f.slot.cur.UID == f.pod.UID && f.slot.cur.Spec.NodeName == "" {
			cand = append(cand, f)
		}
	}
	if len(cand) == 0 {
		return false
	}
	f := kit.Pick(w.r, cand)
	apiext.SetReservationAllocated(f.slot.cur, &schedulingv1alpha1.Reservation{ObjectMeta: metav1.ObjectMeta{Name: f.rName, UID: f.rUID}})
	f.prebound = true
	w.pushPod(f.slot)
	w.c.Op("api: PreBind patched pod %s(%s) with reservation-allocated %s", f.pod.Name, f.pod.UID, f.rUID)
	w.c.Count("op_pod_prebind", 1)
	return true
}

func (w *c05World) opPodBindOK() bool {
	var cand []*c05Flight
	for _, f := range w.flights {
		if f.slot.cur != nil && f.slot.cur.UID == f.pod.UID && f.slot.cur.Spec.NodeName == "" {
			cand = append(cand, f)
		}
	}
	if len(cand) == 0 {
		return false
	}
	f := kit.Pick(w.r, cand)
	cur := f.slot.cur
	if !f.prebound {
		apiext.SetReservationAllocated(cur, &schedulingv1alpha1.Reservation{ObjectMeta: metav1.ObjectMeta{Name: f.rName, UID: f.rUID}})
		if w.r.Bool() { // PreBind's patch arrives as its own version
			w.pushPod(f.slot)
		}
	}
	cur.Spec.NodeName = f.node
	cur.Status.Phase = corev1.PodRunning
	w.pushPod(f.slot)
	w.removeFlight(f)
	w.c.Op("api: pod %s(%s) bound to %s with reservation %s", cur.Name, cur.UID, f.node, f.rUID)
	w.c.Count("op_pod_bind_ok", 1)
	return true
}

func (w *c05World) opPodBindFail() bool {
	if len(w.flights) == 0 {
		return false
	}
	r := w.r
	f := kit.Pick(r, w.flights)
	uid := f.pod.UID
	viaForget := r.Pct(40)
	if viaForget { // the framework's ForgetPod runs the plugin's forget handler with the assumed pod
		held := f.pod.DeepCopy()
		if f.prebound && r.Bool() {
			apiext.SetReservationAllocated(held, &schedulingv1alpha1.Reservation{ObjectMeta: metav1.ObjectMeta{Name: f.rName, UID: f.rUID}})
		}
		w.ph.deletePod(held)
	}
	w.c.Op("scheduler: binding of pod %s(%s) failed -> forgetHandler=%v, Unreserve forgetPods(%s)", f.pod.Name, uid, viaForget, f.rUID)
	w.cache.forgetPods(f.rUID, []*corev1.Pod{f.pod})
	if cur := f.slot.cur; f.prebound && cur != nil && cur.UID == uid && cur.Spec.NodeName == "" {
		delete(cur.Annotations, apiext.AnnotationReservationAllocated)
		w.pushPod(f.slot)
	}
	if w.assumed[uid] == f.rUID {
		delete(w.assumed, uid)
		w.noteLeft(f.rUID)
	}
	delete(w.may, uid)
	w.removeFlight(f)
	w.c.Count("op_pod_bind_fail", 1)
	return true
}

// opPodForeignBind: another scheduler binds a pending pod to a reservation that is Available in the API.
func (w *c05World) opPodForeignBind() bool {
	var pods []*c05PodSlot
	for _, s := range w.pods {
		if !s.operating && s.cur != nil && s.cur.Spec.NodeName == "" && w.inFlight(s.cur.UID) == nil && c05PodAnnotated(s.cur) == "" {
			pods = append(pods, s)
		}
	}
	if len(pods) == 0 {
		return false
	}
	r := w.r
	s := kit.Pick(r, pods)
	req := c05PodRequests(s.cur)
	var rs []*schedulingv1alpha1.Reservation
	for _, rs0 := range w.rsvs {
		res := rs0.cur
		if !c05RsvAvailable(res) || res.Spec.Unschedulable || res.DeletionTimestamp != nil || len(res.Spec.Owners) != 1 {
			continue
		}
		busy := false
		for _, f := range w.flights {
			if f.rUID == res.UID {
				busy = true
			}
		}
		if busy {
			continue
		}
		// what the API shows as assigned to it
		sum := corev1.ResourceList{}
		n := 0
		for _, ps := range w.pods {
			if ps.cur != nil && ps.cur.Spec.NodeName != "" && !c05PodTerminated(ps.cur) && c05PodAnnotated(ps.cur) == res.UID {
				n++
				for name, q := range c05PodRequests(ps.cur) {
					sum[name] = c05Add(sum[name], q)
				}
			}
		}
		if c05AllocateOnce(res) && n > 0 {
			continue
		}
		if res.Spec.AllocatePolicy == schedulingv1alpha1.ReservationAllocatePolicyRestricted {
			dims, ok := c05Dims(res)
			fits := ok
			reserved, inner := c05Reserved(res), c05InnerReserved(res.Annotations)
			for name := range dims {
				rq, has := req[name]
				if !has || rq.IsZero() {
					continue
				}
				total := c05Add(sum[name], rq)
				if total.Cmp(c05Sub(reserved[name], inner[name])) > 0 {
					fits = false
				}
			}
			if !fits {
				continue
			}
		}
		rs = append(rs, res)
	}
	if len(rs) == 0 {
		return false
	}
	res := kit.Pick(r, rs)
	apiext.SetReservationAllocated(s.cur, res)
	s.cur.Spec.NodeName = res.Status.NodeName
	s.cur.Status.Phase = corev1.PodRunning
	w.pushPod(s)
	w.c.Op("api: another scheduler bound pod %s(%s) to %s with reservation %s(%s)", s.cur.Name, s.cur.UID, res.Status.NodeName, res.Name, res.UID)
	w.c.Count("op_pod_foreign_bind", 1)
	return true
}

func (w *c05World) opPodMutate() bool {
	var cand []*c05PodSlot
	for _, s := range w.pods {
		if s.cur != nil {
			cand = append(cand, s)
		}
	}
	if len(cand) == 0 {
		return false
	}
	r := w.r
	s := kit.Pick(r, cand)
	cur := s.cur
	bound := cur.Spec.NodeName != "" && !c05PodTerminated(cur)
	kind := r.Weighted(30, 20, 25, 25, 10)
	switch {
	case kind == 4 && cur.DeletionTimestamp == nil:
		ts := metav1.Unix(1700000000, 0)
		cur.DeletionTimestamp = &ts
		w.pushPod(s)
		w.c.Op("api: pod %s(%s) is terminating (deletion timestamp set)", cur.Name, cur.UID)
		w.c.Count("op_pod_terminating", 1)
	case kind == 1 && bound && !s.operating && len(s.queue) == 0 && s.delivered != nil && s.delivered.UID == cur.UID && s.delivered.Spec.NodeName != "":
		rl := c05GenRequests(r, []int{80, 65, 25, 10})
		cur.Spec.Containers = c05Containers(r, rl)
		w.pushPod(s)
		w.c.Op("api: in-place resize of pod %s(%s) -> %s", cur.Name, cur.UID, c05RL(c05PodRequests(cur)))
		w.c.Count("op_pod_resize", 1)
	case kind == 2 && bound:
		cur.Status.Phase = kit.Pick(r, []corev1.PodPhase{corev1.PodSucceeded, corev1.PodFailed})
		w.pushPod(s)
		w.c.Op("api: pod %s(%s) terminated (%s)", cur.Name, cur.UID, cur.Status.Phase)
		w.c.Count("op_pod_terminate", 1)
	case kind == 3 && s.operating && bound:
		if r.Bool() && cur.Annotations[apiext.AnnotationReservationCurrentOwner] == "" {
			_ = apiext.SetReservationCurrentOwner(cur.Annotations, &corev1.ObjectReference{Namespace: "default", Name: "owner", UID: w.newUID("owner")})
			w.c.Op("api: operating pod %s(%s) got a current owner", cur.Name, cur.UID)
		} else {
			ready := corev1.ConditionTrue
			if r.Bool() {
				ready = corev1.ConditionFalse
			}
			cur.Status.Phase = corev1.PodRunning
			cur.Status.Conditions = []corev1.PodCondition{{Type: corev1.PodReady, Status: ready}}
			w.c.Op("api: operating pod %s(%s) ready=%s", cur.Name, cur.UID, ready)
		}
		w.pushPod(s)
		w.c.Count("op_operating_pod_update", 1)
	default:
		if cur.Labels["extra"] == "" {
			cur.Labels["extra"] = "1"
		} else {
			delete(cur.Labels, "extra")
		}
		w.pushPod(s)
		w.c.Op("api: pod %s(%s) label change", cur.Name, cur.UID)
		w.c.Count("op_pod_label", 1)
	}
	return true
}

func (w *c05World) opPodDelete() bool {
	var cand []*c05PodSlot
	for _, s := range w.pods {
		if s.cur != nil {
			cand = append(cand, s)
		}
	}
	if len(cand) == 0 {
		return false
	}
	s := kit.Pick(w.r, cand)
	w.c.Op("api: delete pod %s(%s)", s.cur.Name, s.cur.UID)
	s.cur = nil
	w.pushPod(s)
	w.c.Count("op_pod_delete", 1)
	return true
}

// opPodRecreatedMerged: a pod that is bound to a reservation is deleted and re-created under the same name, the
// new incarnation is reserved on the SAME reservation and bound, and the pod handler receives delete + add as one
// update whose old and new objects carry different uids, both annotated with that reservation. The quantifier
// ("all sequences of ... pod assume / forget / add / update / delete against reservations") covers this order of
// cache operations; with a single informer feeding both the scheduler and the handler the new incarnation is
// normally unknown to the scheduler before the merged event, so this is a cache-level history like
// opRsvSeenUnbound. What must hold afterwards is decided by the statement alone: only the new incarnation is
// assigned.
func (w *c05World) opPodRecreatedMerged() bool {
	r := w.r
	var cand []*c05PodSlot
	for _, s := range w.pods {
		if s.operating || s.cur == nil || s.delivered == nil || len(s.queue) != 0 || s.cur.UID != s.delivered.UID || w.inFlight(s.cur.UID) != nil {
			continue
		}
		rUID := w.fact[s.cur.UID]
		if rUID == "" || !w.live[rUID] || s.delivered.Spec.NodeName == "" || c05PodTerminated(s.delivered) {
			continue
		}
		ri := w.cache.reservationInfos[rUID]
		if ri == nil || ri.Reservation == nil || c05AllocateOnce(ri.Reservation) || ri.IsTerminating() || !ri.IsAvailable() {
			continue
		}
		cand = append(cand, s)
	}
	if len(cand) == 0 {
		return false
	}
	s := kit.Pick(r, cand)
	old := s.delivered
	rUID := w.fact[old.UID]
	ri := w.cache.reservationInfos[rUID]
	// the new incarnation
	np := old.DeepCopy()
	np.UID = w.newUID("p")
	np.Spec.NodeName = ""
	np.Status.Phase = corev1.PodPending
	np.DeletionTimestamp = nil
	delete(np.Annotations, apiext.AnnotationReservationAllocated)
	if r.Bool() {
		np.Spec.Containers = c05Containers(r, c05GenRequests(r, []int{80, 65, 25, 10}))
	}
	req := c05PodRequests(np)
	var assigned []types.UID
	for p := range ri.AssignedPods {
		assigned = append(assigned, p)
	}
	if !w.fitsShadow(ri.Reservation, assigned, req) {
		return false
	}
	s.gen++
	if err := w.cache.assumePods(rUID, []*corev1.Pod{np.DeepCopy()}); err != nil {
		return false
	}
	w.assumed[np.UID] = rUID
	w.reqs[np.UID] = req
	bound := np.DeepCopy()
	apiext.SetReservationAllocated(bound, &schedulingv1alpha1.Reservation{ObjectMeta: metav1.ObjectMeta{Name: ri.GetName(), UID: rUID}})
	bound.Spec.NodeName = ri.GetNodeName()
	bound.Status.Phase = corev1.PodRunning
	w.c.Op("api+scheduler: pod %s re-created (%s -> %s), reserved on the same reservation %s and bound; informer(pod handler): merged OnUpdate %s -> %s", old.Name, old.UID, bound.UID, rUID, c05PodStr(old), c05PodStr(bound))
	w.ph.OnUpdate(old, bound)
	s.cur, s.delivered = bound.DeepCopy(), bound
	w.podDelivered(old, bound)
	w.c.Count("op_pod_recreated_same_reservation_merged_update", 1)
	return true
}

// opResync: the informer re-delivers an object it already delivered (periodic resync / an update that
// changed nothing the handlers look at): OnUpdate(obj, obj).
func (w *c05World) opResync() bool {
	if w.r.Bool() {
		var cand []*c05RsvSlot
		for _, s := range w.rsvs {
			if s.delivered != nil && len(w.global) == 0 {
				cand = append(cand, s)
			}
		}
		if len(cand) == 0 {
			return false
		}
		s := kit.Pick(w.r, cand)
		w.c.Op("informer(plugin handler): resync OnUpdate %s unchanged", c05RsvStr(s.delivered))
		w.rh.OnUpdate(s.delivered, s.delivered)
		if x := s.delivered; x.Status.NodeName != "" && (x.Status.Phase == schedulingv1alpha1.ReservationAvailable || x.Status.Phase == schedulingv1alpha1.ReservationWaiting) {
			w.live[x.UID] = true
		}
		w.c.Count("op_rsv_resync", 1)
		return true
	}
	var cand []*c05PodSlot
	for _, s := range w.pods {
		if s.delivered != nil {
			cand = append(cand, s)
		}
	}
	if len(cand) == 0 {
		return false
	}
	s := kit.Pick(w.r, cand)
	w.c.Op("informer(pod handler): resync OnUpdate %s unchanged", c05PodStr(s.delivered))
	w.ph.OnUpdate(s.delivered, s.delivered)
	w.podDelivered(s.delivered, s.delivered)
	w.c.Count("op_pod_resync", 1)
	return true
}

func (w *c05World) opPodDeliver() bool {
	var cand []*c05PodSlot
	for _, s := range w.pods {
		if len(s.queue) > 0 {
			cand = append(cand, s)
		}
	}
	if len(cand) == 0 {
		return false
	}
	r := w.r
	s := kit.Pick(r, cand)
	old := s.delivered
	nv := s.queue[0]
	s.queue = s.queue[1:]
	merged := false
	if nv == nil && old != nil && len(s.queue) > 0 && s.queue[0] != nil && r.Pct(40) {
		nv = s.queue[0]
		s.queue = s.queue[1:]
		merged = true
	}
	s.delivered = nv
	switch {
	case old == nil && nv == nil:
		w.c.Op("informer: pod %s created and deleted before it was seen", s.name)
		return true
	case old == nil:
		w.c.Op("informer(pod handler): OnAdd %s", c05PodStr(nv))
		w.ph.OnAdd(nv, false)
		w.c.Count("op_pod_deliver_add", 1)
	case nv == nil:
		var obj interface{} = old
		unknown := r.Pct(30)
		if unknown {
			obj = clientcache.DeletedFinalStateUnknown{Key: "default/" + old.Name, Obj: old}
		}
		w.c.Op("informer(pod handler): OnDelete %s finalStateUnknown=%v", c05PodStr(old), unknown)
		w.ph.OnDelete(obj)
		w.c.Count("op_pod_deliver_delete", 1)
	default:
		w.c.Op("informer(pod handler): OnUpdate %s -> %s merged=%v", c05PodStr(old), c05PodStr(nv), merged)
		w.ph.OnUpdate(old, nv)
		w.c.Count("op_pod_deliver_update", 1)
		if merged {
			w.c.Count("op_pod_deliver_update_new_uid", 1)
		}
	}
	w.podDelivered(old, nv)
	return true
}

// ---------------------------------------------------------------------------------------------

func TestVerifC05Ledger(t *testing.T) {
	kit.Run(t, kit.Config{Property: "C05", Unit: "ledger", Quick: 4000, Thorough: 120000,
		Rule: "histories of 60-200 operations over 3-6 reservation names and 4-10 pod names (one of them a reservation-operating-mode pod in 30% of the cases) on 2-3 nodes: API create / update (labels, unschedulable, allocate-once, policy, restricted options, held-back amount, reserved amounts, owners, deletion timestamp) / terminate / delete / re-create with a new uid, the cache seeing a reservation before it is placed (updateReservation without a node, then bound with unchanged labels), in-order informer deliveries to the real plugin handlers with the scheduler-wide DeleteReservation before / after / lagging, scheduling cycles (matchable lookup, allocate-once and restricted gates, interleaved deliveries, assumePods), PreBind, bind, Unreserve (with and without the forget handler), binds by another scheduler, resize, terminate, delete; selector index enabled in half of the cases; 30% of the cases may change the reserved dimensions of a live reservation; ledger + index walker after every operation; distinct = (#live reservations, #assigned pods, #nodes with matchable, #nodes with allocated, index enabled, #bindings in flight, scheduler-wide handler lagging); non-trivial = a pod left (delete / terminate / Unreserve) a reservation that had before been made unavailable or removed while it had assigned pods"},
		func(c *kit.Case) {
			r := c.R
			nm := newNominator(nil, nil)
			cache := newReservationCache(nil)
			w := &c05World{c: c, r: r, cache: cache,
				rh: &reservationEventHandler{cache: cache, rrNominator: nm}, ph: &podEventHandler{cache: cache, nominator: nm},
				fact: map[types.UID]types.UID{}, assumed: map[types.UID]types.UID{}, may: map[types.UID]types.UID{}, reqs: map[types.UID]corev1.ResourceList{},
				owner: map[types.UID]types.UID{}, live: map[types.UID]bool{}, wentAway: map[types.UID]bool{}, dimsSince: map[string]map[corev1.ResourceName]bool{}, seenUnbound: map[types.UID]bool{}, moved: map[types.UID]bool{}}
			w.indexed = r.Bool()
			if w.indexed {
				cfg := c05IndexConfigs[0]
				if r.Bool() {
					cfg = kit.Pick(r, c05IndexConfigs[1:])
					c.Count("cases_with_unusual_index_config", 1)
				}
				w.idxPrefixes, w.idxKeys = cfg.prefixes, cfg.keys
				cache.setReservationSelectorIndexConfig(&config.ReservationSelectorIndexArgs{Enabled: true, KeyPrefixes: cfg.prefixes, Keys: cfg.keys})
			}
			// sizes: mostly the small universe (2-3 nodes, 3-6 reservation names, 4-10 pod names); a fifth of
			// the cases is wider (1-5 nodes, 2-8 reservation names, 3-14 pod names)
			wide := r.Pct(20)
			nn, nr, np := r.Range(2, 3), r.Range(3, 6), r.Range(4, 10)
			if wide {
				nn, nr, np = r.Range(1, 5), r.Range(2, 8), r.Range(3, 14)
				c.Count("cases_wide_universe", 1)
				if nn == 1 {
					c.Count("cases_single_node", 1)
				}
			}
			for i := 0; i < nn; i++ {
				w.nodes = append(w.nodes, fmt.Sprintf("node-%d", i))
			}
			for i := 0; i < nr; i++ {
				w.rsvs = append(w.rsvs, &c05RsvSlot{name: fmt.Sprintf("rsv-%d", i)})
			}
			for i := 0; i < np; i++ {
				w.pods = append(w.pods, &c05PodSlot{name: fmt.Sprintf("pod-%d", i)})
			}
			if r.Pct(30) {
				w.pods[0].operating = true
			}
			dimsMayChange := r.Pct(30)
			nodeMoves := r.Pct(10)
			c.Op("nodes=%v reservations=%d pods=%d operatingPod=%v selectorIndex=%v prefixes=%q keys=%q dimsMayChange=%v nodeMoves=%v", w.nodes, len(w.rsvs), len(w.pods), w.pods[0].operating, w.indexed, w.idxPrefixes, w.idxKeys, dimsMayChange, nodeMoves)
			deliverSome := func() {
				for i, n := 0, r.Range(1, 2); i < n; i++ {
					did := false
					switch r.Intn(3) {
					case 0:
						did = w.opRsvDeliver()
					case 1:
						did = w.opPodDeliver()
					default:
						did = w.opGlobalDeliver()
					}
					if did {
						w.check("after a delivery inside a scheduling cycle")
					}
				}
			}
			nops := r.Range(60, 200)
			if r.Pct(10) {
				nops = r.Range(200, 320)
				c.Count("cases_long_history", 1)
			}
			for step := 0; step < nops; step++ {
				done := false
				for try := 0; try < 6 && !done; try++ {
					switch r.Weighted(7, 5, 5, 2, 8, 3, 3, 16, 6, 9, 13, 4, 8, 4, 3, 7, 4, 18, 4, 4, 3) {
					case 20:
						done = w.opPodRecreatedMerged()
					case 19:
						done = w.opResync()
					case 18:
						if nodeMoves && r.Pct(40) {
							done = w.opRsvMove()
						} else {
							done = w.opRsvSeenUnbound()
						}
					case 0:
						done = w.opRsvCreate()
					case 1:
						done = w.opRsvAssume()
					case 2:
						done = w.opRsvBindOK()
					case 3:
						done = w.opRsvBindFail()
					case 4:
						done = w.opRsvUpdate(dimsMayChange)
					case 5:
						done = w.opRsvTerminate()
					case 6:
						done = w.opRsvDelete()
					case 7:
						done = w.opRsvDeliver()
					case 8:
						done = w.opGlobalDeliver()
					case 9:
						done = w.opPodCreate()
					case 10:
						done = w.opPodSchedule(deliverSome)
					case 11:
						done = w.opPodPreBind()
					case 12:
						done = w.opPodBindOK()
					case 13:
						done = w.opPodBindFail()
					case 14:
						done = w.opPodForeignBind()
					case 15:
						done = w.opPodMutate()
					case 16:
						done = w.opPodDelete()
					default:
						done = w.opPodDeliver()
					}
				}
				if !done {
					c.Count("op_none_applicable", 1)
					continue
				}
				w.check(fmt.Sprintf("after step %d", step))
			}
			if c.K < 2 {
				liveN := 0
				for _, l := range w.live {
					if l {
						liveN++
					}
				}
				c.Sample(map[string]any{"nodes": len(w.nodes), "reservation_names": len(w.rsvs), "pod_names": len(w.pods), "operations": nops, "live_reservations_at_end": liveN, "assigned_at_end": len(w.fact) + len(w.assumed)})
			}
		})
}
