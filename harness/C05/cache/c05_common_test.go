//go:build verif

package reservation

// C05 monitors inside the reservation plugin package (see /verif/DESIGN.md section 4, C05). This file holds what
// the three workloads share: the independent owner matcher, the recomputation of a pod's request and of a
// reservation's reserved dimensions from the API objects, and the value pools.

import (
	"encoding/json"
	"fmt"
	"sort"
	"strings"

	corev1 "k8s.io/api/core/v1"
	"k8s.io/apimachinery/pkg/api/resource"
	metav1 "k8s.io/apimachinery/pkg/apis/meta/v1"
	"k8s.io/klog/v2"

	apiext "github.com/koordinator-sh/koordinator/apis/extension"
	schedulingv1alpha1 "github.com/koordinator-sh/koordinator/apis/scheduling/v1alpha1"
	kit "github.com/koordinator-sh/koordinator/pkg/verifkit"
)

func init() {
	klog.SetOutput(c05Discard{})
	klog.LogToStderr(false)
}

type c05Discard struct{}

func (c05Discard) Write(p []byte) (int, error) { return len(p), nil }

// ---------------------------------------------------------------------------------------------
// independent owner matcher (from the API documentation of ReservationOwner: "Multiple owner selectors are
// ORed", "Multiple field selectors are ANDed"; an absent part of an entry does not constrain; no entries match
// nothing; an empty entry matches everything). Where the documentation is silent the matcher takes the WEAKER
// reading (it says "match" more often), because only "matched by koordinator => matcher agrees" is a verdict:
// object reference = namespace / name / uid only; a nil controller flag on a pod's owner reference reads as
// false; label selectors have plain set semantics, a term with an unknown operator is unsatisfiable.

func c05Match(owners []schedulingv1alpha1.ReservationOwner, pod *corev1.Pod) bool {
	for i := range owners {
		o := &owners[i]
		if c05MatchObject(o.Object, pod) && c05MatchController(o.Controller, pod) && c05MatchSelector(o.LabelSelector, pod.Labels) {
			return true
		}
	}
	return false
}

func c05MatchObject(ref *corev1.ObjectReference, pod *corev1.Pod) bool {
	if ref == nil {
		return true
	}
	if ref.Namespace != "" && ref.Namespace != pod.Namespace {
		return false
	}
	if ref.Name != "" && ref.Name != pod.Name {
		return false
	}
	if ref.UID != "" && ref.UID != pod.UID {
		return false
	}
	return true
}

func c05MatchController(ref *schedulingv1alpha1.ReservationControllerReference, pod *corev1.Pod) bool {
	if ref == nil {
		return true
	}
	if ref.Namespace != "" && ref.Namespace != pod.Namespace {
		return false
	}
	for _, o := range pod.OwnerReferences {
		if ref.UID != "" && ref.UID != o.UID {
			continue
		}
		if ref.Name != "" && ref.Name != o.Name {
			continue
		}
		if ref.Kind != "" && ref.Kind != o.Kind {
			continue
		}
		if ref.APIVersion != "" && ref.APIVersion != o.APIVersion {
			continue
		}
		if ref.Controller != nil {
			oc := o.Controller != nil && *o.Controller
			if oc != *ref.Controller {
				continue
			}
		}
		return true
	}
	return false
}

func c05MatchSelector(sel *metav1.LabelSelector, lbls map[string]string) bool {
	if sel == nil {
		return true
	}
	for k, v := range sel.MatchLabels {
		if got, ok := lbls[k]; !ok || got != v {
			return false
		}
	}
	for _, e := range sel.MatchExpressions {
		got, has := lbls[e.Key]
		in := false
		for _, v := range e.Values {
			if has && v == got {
				in = true
			}
		}
		switch e.Operator {
		case metav1.LabelSelectorOpIn:
			if !in {
				return false
			}
		case metav1.LabelSelectorOpNotIn:
			if in {
				return false
			}
		case metav1.LabelSelectorOpExists:
			if !has {
				return false
			}
		case metav1.LabelSelectorOpDoesNotExist:
			if has {
				return false
			}
		default:
			return false
		}
	}
	return true
}

// ---------------------------------------------------------------------------------------------
// values

var (
	c05CPU = []string{"0", "1m", "100m", "250m", "0.5", "500m", "999m", "1", "1001m", "1.5", "1500m", "2", "3", "4", "7", "8", "16", "64"}
	c05Mem = []string{"0", "1", "100M", "128Mi", "1Gi", "1G", "1536Mi", "0.5Gi", "1.5Gi", "2Gi", "2.5Gi", "4Gi", "8Gi", "64Gi", "9007199254740993", "4611686018427387904", "10000000000000000000"}
	c05GPU = []string{"0", "1", "2", "4"}
	c05Ext = []string{"0", "1", "1000", "1500", "4000", "32000"}
)

const (
	c05GPUName corev1.ResourceName = "example.com/gpu"
	c05ExtName corev1.ResourceName = "kubernetes.io/batch-cpu"
)

var c05ResNames = []corev1.ResourceName{corev1.ResourceCPU, corev1.ResourceMemory, c05GPUName, corev1.ResourceEphemeralStorage, c05ExtName}

func c05GenQuantity(r *kit.Rand, name corev1.ResourceName) resource.Quantity {
	switch name {
	case corev1.ResourceCPU:
		return resource.MustParse(kit.Pick(r, c05CPU))
	case c05GPUName:
		return resource.MustParse(kit.Pick(r, c05GPU))
	case c05ExtName:
		return resource.MustParse(kit.Pick(r, c05Ext))
	default:
		return resource.MustParse(kit.Pick(r, c05Mem))
	}
}

// c05GenRequests: a random subset of the resource names (pct[i] = probability of name i), possibly empty.
func c05GenRequests(r *kit.Rand, pct []int) corev1.ResourceList {
	rl := corev1.ResourceList{}
	for i, n := range c05ResNames {
		p := 8 // names beyond the given probabilities
		if i < len(pct) {
			p = pct[i]
		}
		if r.Pct(p) {
			rl[n] = c05GenQuantity(r, n)
		}
	}
	return rl
}

func c05SortedNames(rl corev1.ResourceList) []corev1.ResourceName {
	names := make([]string, 0, len(rl))
	for n := range rl {
		names = append(names, string(n))
	}
	sort.Strings(names)
	out := make([]corev1.ResourceName, len(names))
	for i, n := range names {
		out[i] = corev1.ResourceName(n)
	}
	return out
}

// c05Containers spreads a request list over one or two regular containers (no init containers, no overhead:
// the pod's request is then the plain sum over its containers).
func c05Containers(r *kit.Rand, rl corev1.ResourceList) []corev1.Container {
	cs := []corev1.Container{{Name: "c0", Resources: corev1.ResourceRequirements{Requests: corev1.ResourceList{}}}}
	if r.Pct(30) {
		cs = append(cs, corev1.Container{Name: "c1", Resources: corev1.ResourceRequirements{Requests: corev1.ResourceList{}}})
	}
	for _, n := range c05SortedNames(rl) {
		q := rl[n]
		if len(cs) == 2 && r.Pct(40) && n != c05GPUName {
			one := resource.MustParse("1")
			if n == corev1.ResourceCPU {
				one = resource.MustParse("1m")
			}
			if q.Cmp(one) > 0 {
				rest := q.DeepCopy()
				rest.Sub(one)
				cs[0].Resources.Requests[n] = one
				cs[1].Resources.Requests[n] = rest
				continue
			}
		}
		cs[r.Intn(len(cs))].Resources.Requests[n] = q
	}
	return cs
}

// c05PodRequests: the pod's request, recomputed from the pod object by the Kubernetes rule for the effective
// request of a pod: per resource the larger of (sum over the regular containers) and (the largest init
// container), plus the pod overhead. Restartable (sidecar) init containers and pod-level resources are not
// generated.
func c05PodRequests(p *corev1.Pod) corev1.ResourceList {
	out := corev1.ResourceList{}
	if p == nil {
		return out
	}
	for _, ct := range p.Spec.Containers {
		for n, q := range ct.Resources.Requests {
			cur := out[n]
			cur.Add(q)
			out[n] = cur
		}
	}
	for _, ct := range p.Spec.InitContainers {
		for n, q := range ct.Resources.Requests {
			if cur, ok := out[n]; !ok || q.Cmp(cur) > 0 {
				out[n] = q.DeepCopy()
			}
		}
	}
	for n, q := range p.Spec.Overhead {
		cur := out[n]
		cur.Add(q)
		out[n] = cur
	}
	return out
}

// c05Shape gives a pod spec, with modest weight, the shapes whose request is not the plain container sum: an
// init container (15%) and a pod overhead (10%).
func c05Shape(r *kit.Rand, spec *corev1.PodSpec) {
	if r.Pct(15) {
		rl := c05GenRequests(r, []int{60, 50, 15, 10})
		spec.InitContainers = []corev1.Container{{Name: "init", Resources: corev1.ResourceRequirements{Requests: rl}}}
	}
	if r.Pct(10) {
		spec.Overhead = corev1.ResourceList{corev1.ResourceCPU: resource.MustParse(kit.Pick(r, []string{"1m", "100m", "250m"})),
			corev1.ResourceMemory: resource.MustParse(kit.Pick(r, []string{"1", "64Mi", "128Mi"}))}
	}
}

// c05TemplateR: the same reserved amounts spread over one or two containers.
func c05TemplateR(r *kit.Rand, rl corev1.ResourceList) *corev1.PodTemplateSpec {
	return &corev1.PodTemplateSpec{Spec: corev1.PodSpec{Containers: c05Containers(r, rl)}}
}

func c05Template(rl corev1.ResourceList) *corev1.PodTemplateSpec {
	return &corev1.PodTemplateSpec{Spec: corev1.PodSpec{Containers: []corev1.Container{{Name: "main", Resources: corev1.ResourceRequirements{Requests: rl.DeepCopy()}}}}}
}

// c05Reserved: what the reservation reserved, from the reservation object: the status allocatable once it is
// Available on a node, otherwise the template's request.
func c05Reserved(res *schedulingv1alpha1.Reservation) corev1.ResourceList {
	if res.Status.Phase == schedulingv1alpha1.ReservationAvailable && res.Status.NodeName != "" {
		return res.Status.Allocatable
	}
	if res.Spec.Template != nil {
		return c05PodRequests(&corev1.Pod{Spec: res.Spec.Template.Spec})
	}
	return nil
}

// c05Dims: the reservation's reserved dimensions. For the Restricted policy the restricted-options annotation
// narrows them to the listed resources ("if no resources configured, by default the resources equal all
// reserved resources by the Reservation"). A list that names nothing the reservation reserves is not covered by
// the documentation: then the statement is taken as worded (all reserved resources). ok=false only for an
// unparsable annotation.
func c05Dims(res *schedulingv1alpha1.Reservation) (dims map[corev1.ResourceName]bool, ok bool) {
	dims = map[corev1.ResourceName]bool{}
	for n := range c05Reserved(res) {
		dims[n] = true
	}
	if res.Spec.AllocatePolicy != schedulingv1alpha1.ReservationAllocatePolicyRestricted {
		return dims, true
	}
	s := res.Annotations[apiext.AnnotationReservationRestrictedOptions]
	if s == "" {
		return dims, true
	}
	var opt struct {
		Resources []corev1.ResourceName `json:"resources"`
	}
	if err := json.Unmarshal([]byte(s), &opt); err != nil {
		return dims, false
	}
	if len(opt.Resources) == 0 {
		return dims, true
	}
	narrowed := map[corev1.ResourceName]bool{}
	for _, n := range opt.Resources {
		if dims[n] {
			narrowed[n] = true
		}
	}
	if len(narrowed) == 0 {
		// The list names nothing the reservation reserves (a resource it does not hold, a mis-cased name).
		// The documentation of the annotation does not say what that means, so the statement applies as it is
		// worded: the reservation is Restricted and its reserved dimensions are the resources it reserves.
		return dims, true
	}
	return narrowed, true
}

// c05OptionsClass: how the restricted-options annotation of a Restricted reservation relates to what it
// reserves ("" for other policies): none / empty / subset / partial / disjoint (incl. mis-cased names).
func c05OptionsClass(res *schedulingv1alpha1.Reservation) string {
	if res == nil || res.Spec.AllocatePolicy != schedulingv1alpha1.ReservationAllocatePolicyRestricted {
		return ""
	}
	s := res.Annotations[apiext.AnnotationReservationRestrictedOptions]
	if s == "" {
		return "none"
	}
	var opt struct {
		Resources []corev1.ResourceName `json:"resources"`
	}
	if err := json.Unmarshal([]byte(s), &opt); err != nil {
		return "unparsable"
	}
	if len(opt.Resources) == 0 {
		return "empty"
	}
	reserved := c05Reserved(res)
	in, out := 0, 0
	for _, n := range opt.Resources {
		if _, ok := reserved[n]; ok {
			in++
		} else {
			out++
		}
	}
	switch {
	case in == 0:
		return "disjoint"
	case out > 0:
		return "partial"
	}
	return "subset"
}

// c05InnerReserved: the amount held back inside the reservation (node-reservation annotation on the
// reservation object), resources only.
func c05InnerReserved(annotations map[string]string) corev1.ResourceList {
	s := annotations[apiext.AnnotationNodeReservation]
	if s == "" {
		return nil
	}
	var nr struct {
		Resources    corev1.ResourceList `json:"resources"`
		ReservedCPUs string              `json:"reservedCPUs"`
	}
	if err := json.Unmarshal([]byte(s), &nr); err != nil {
		return nil
	}
	out := nr.Resources
	if nr.ReservedCPUs != "" { // "reserved cpus need to be reserved, such as 1-6, or 2,4,6,8": that many CPUs
		n, ok := c05CountCPUs(nr.ReservedCPUs)
		if !ok {
			return nil
		}
		if out == nil {
			out = corev1.ResourceList{}
		}
		out[corev1.ResourceCPU] = *resource.NewQuantity(int64(n), resource.DecimalSI)
	}
	return out
}

// c05CountCPUs counts the CPUs of a list such as "1-6" or "2,4,6,8".
func c05CountCPUs(s string) (int, bool) {
	seen := map[int]bool{}
	for _, part := range strings.Split(s, ",") {
		var a, b int
		if n, err := fmt.Sscanf(part, "%d-%d", &a, &b); err == nil && n == 2 {
			for x := a; x <= b; x++ {
				seen[x] = true
			}
			continue
		}
		if _, err := fmt.Sscanf(part, "%d", &a); err != nil {
			return 0, false
		}
		seen[a] = true
	}
	return len(seen), true
}

func c05SetInnerReserved(obj metav1.Object, rl corev1.ResourceList) {
	c05SetInnerReservedCPUs(obj, rl, "")
}

func c05SetInnerReservedCPUs(obj metav1.Object, rl corev1.ResourceList, reservedCPUs string) {
	a := obj.GetAnnotations()
	if a == nil {
		a = map[string]string{}
	}
	if len(rl) == 0 && reservedCPUs == "" {
		delete(a, apiext.AnnotationNodeReservation)
	} else {
		b, _ := json.Marshal(apiext.NodeReservation{Resources: rl, ReservedCPUs: reservedCPUs})
		a[apiext.AnnotationNodeReservation] = string(b)
	}
	obj.SetAnnotations(a)
}

// c05GenOptions sets / replaces / removes the restricted-options annotation and returns the class of what it
// wrote: "none" (annotation removed), "empty" (no resources configured), "subset" (only reserved resources),
// "partial" (reserved resources plus names the reservation does not reserve), "duplicates", "disjoint" (a
// non-empty list naming nothing the reservation reserves, e.g. a resource it does not hold) and "miscased"
// (disjoint by a wrong case: "CPU", "Memory").
func c05GenOptions(r *kit.Rand, res *schedulingv1alpha1.Reservation) string {
	if res.Annotations == nil {
		res.Annotations = map[string]string{}
	}
	if r.Pct(40) {
		delete(res.Annotations, apiext.AnnotationReservationRestrictedOptions)
		return "none"
	}
	reserved := c05PodRequests(&corev1.Pod{Spec: res.Spec.Template.Spec})
	var names, foreign []corev1.ResourceName
	for _, n := range c05ResNames {
		if _, ok := reserved[n]; ok {
			names = append(names, n)
		} else {
			foreign = append(foreign, n)
		}
	}
	foreign = append(foreign, "nvidia.com/gpu", "hugepages-2Mi")
	if len(names) == 0 {
		return "none"
	}
	opt := &apiext.ReservationRestrictedOptions{}
	first := kit.Pick(r, names)
	class := ""
	switch r.Weighted(44, 8, 12, 10, 14, 12) {
	case 0:
		class = "subset"
		opt.Resources = append(opt.Resources, first)
		for _, n := range names {
			if n != first && r.Pct(30) {
				opt.Resources = append(opt.Resources, n)
			}
		}
	case 1:
		class = "empty"
		opt.Resources = []corev1.ResourceName{}
	case 2:
		class = "partial"
		opt.Resources = append(opt.Resources, kit.Pick(r, foreign), first)
		if r.Bool() {
			opt.Resources = append(opt.Resources, "CPU")
		}
	case 3:
		class = "duplicates"
		opt.Resources = append(opt.Resources, first, first)
		if r.Bool() {
			opt.Resources = append(opt.Resources, kit.Pick(r, names), first)
		}
	case 4:
		class = "disjoint"
		opt.Resources = append(opt.Resources, kit.Pick(r, foreign))
		if r.Bool() {
			opt.Resources = append(opt.Resources, kit.Pick(r, foreign))
		}
	default:
		class = "miscased"
		opt.Resources = append(opt.Resources, kit.Pick(r, []corev1.ResourceName{"CPU", "Memory", "Cpu"}))
		if r.Bool() {
			opt.Resources = append(opt.Resources, "MEMORY")
		}
	}
	_ = apiext.SetReservationRestrictedOptions(res, opt)
	return class
}

// c05AllocateOnce: "Defaults to true" (API documentation of ReservationSpec.AllocateOnce).
func c05AllocateOnce(res *schedulingv1alpha1.Reservation) bool {
	return res.Spec.AllocateOnce == nil || *res.Spec.AllocateOnce
}

func c05RL(rl corev1.ResourceList) string {
	var b strings.Builder
	b.WriteString("{")
	for i, n := range c05SortedNames(rl) {
		if i > 0 {
			b.WriteString(" ")
		}
		q := rl[n]
		fmt.Fprintf(&b, "%s=%s", n, q.String())
	}
	b.WriteString("}")
	return b.String()
}

func c05DimsStr(d map[corev1.ResourceName]bool) string {
	names := make([]string, 0, len(d))
	for n := range d {
		names = append(names, string(n))
	}
	sort.Strings(names)
	return strings.Join(names, ",")
}

func c05OwnersStr(o []schedulingv1alpha1.ReservationOwner) string {
	b, _ := json.Marshal(o)
	return string(b)
}

func c05Sub(a, b resource.Quantity) resource.Quantity {
	x := a.DeepCopy()
	x.Sub(b)
	return x
}

func c05Add(a, b resource.Quantity) resource.Quantity {
	x := a.DeepCopy()
	x.Add(b)
	return x
}
