//go:build verif

package reservation

// C05 (b): the restricted fit check. fitsReservation (and fitsNodeAndReservation on a node that is never the
// bottleneck) is called on generated (reservation state, pod request, preemptible amount) triples. The
// reservation state is built through the real constructors (NewReservationInfo + AddAssignedPod); the oracle
// recomputes, from the pod objects the harness assigned, the sum the statement speaks of and asserts only
//
//	accepted  =>  for every reserved dimension the pod requests:  sum(non-victim assigned pods) + request <= reserved
//
// (the converse is counted as converse_misses_fit_rejected).

import (
	"fmt"
	"testing"

	corev1 "k8s.io/api/core/v1"
	"k8s.io/apimachinery/pkg/api/resource"
	metav1 "k8s.io/apimachinery/pkg/apis/meta/v1"
	"k8s.io/apimachinery/pkg/types"
	fwktype "k8s.io/kube-scheduler/framework"
	"k8s.io/kubernetes/pkg/scheduler/framework"

	schedulingv1alpha1 "github.com/koordinator-sh/koordinator/apis/scheduling/v1alpha1"
	"github.com/koordinator-sh/koordinator/pkg/scheduler/frameworkext"
	kit "github.com/koordinator-sh/koordinator/pkg/verifkit"
)

func c05BigNode() fwktype.NodeInfo {
	node := &corev1.Node{ObjectMeta: metav1.ObjectMeta{Name: "n0"}, Status: corev1.NodeStatus{Allocatable: corev1.ResourceList{
		corev1.ResourceCPU:              resource.MustParse("1000000"),
		corev1.ResourceMemory:           *resource.NewQuantity(1<<62, resource.BinarySI),
		corev1.ResourceEphemeralStorage: *resource.NewQuantity(1<<62, resource.BinarySI),
		c05GPUName:                      resource.MustParse("100000"),
		corev1.ResourcePods:             resource.MustParse("100000"),
	}}}
	ni := framework.NewNodeInfo()
	ni.SetNode(node)
	return ni
}

func c05Unit(n corev1.ResourceName) resource.Quantity {
	if n == corev1.ResourceCPU {
		return resource.MustParse("1m")
	}
	return resource.MustParse("1")
}

func TestVerifC05Fit(t *testing.T) {
	node := c05BigNode()
	kit.Run(t, kit.Config{Property: "C05", Unit: "fit", Quick: 60000, Thorough: 1500000,
		Rule: "restricted reservation (random reserved resources, optional pods capacity, restricted options, inner reserved amount) with 0-4 assigned pods added through AddAssignedPod, victims = random subset of the assigned pods (preemptible = their summed requests + pod count), pod request biased to remaining-1 / remaining / remaining+1 unit in one reserved dimension; 40% of the calls go through fitsNodeAndReservation on a node that always fits; distinct = (#dims, pods capacity, inner reserved, #assigned, #victims, entry point, boundary class, accepted, fits); non-trivial = at least one assigned pod and a request within one unit of the remaining amount"},
		func(c *kit.Case) {
			r := c.R
			alloc := c05GenRequests(r, []int{90, 75, 35, 15})
			if len(alloc) == 0 {
				alloc[corev1.ResourceCPU] = resource.MustParse("4")
			}
			podsCap := int64(-1)
			if r.Pct(35) {
				podsCap = int64(r.Range(1, 4))
				alloc[corev1.ResourcePods] = *resource.NewQuantity(podsCap, resource.DecimalSI)
			}
			f := false
			res := &schedulingv1alpha1.Reservation{
				ObjectMeta: metav1.ObjectMeta{Name: "r", UID: "r-uid", Annotations: map[string]string{}},
				Spec: schedulingv1alpha1.ReservationSpec{Template: c05Template(alloc), Owners: []schedulingv1alpha1.ReservationOwner{{}},
					AllocateOnce: &f, AllocatePolicy: schedulingv1alpha1.ReservationAllocatePolicyRestricted},
				Status: schedulingv1alpha1.ReservationStatus{Phase: schedulingv1alpha1.ReservationAvailable, NodeName: "n0", Allocatable: alloc.DeepCopy()},
			}
			c05GenOptions(r, res)
			inner := corev1.ResourceList{}
			if r.Pct(35) {
				for _, n := range c05SortedNames(alloc) {
					if n != corev1.ResourcePods && r.Pct(60) {
						q := c05GenQuantity(r, n)
						if a := alloc[n]; q.Cmp(a) > 0 && r.Pct(90) {
							q = a.DeepCopy()
						}
						inner[n] = q
					}
				}
				c05SetInnerReserved(res, inner)
			}
			ri := frameworkext.NewReservationInfo(res)
			dims, ok := c05Dims(res)
			if !ok {
				c.Harness("dimensions undetermined for a generated reservation")
			}
			k := r.Weighted(25, 30, 25, 15, 5)
			type apod struct {
				uid    types.UID
				req    corev1.ResourceList
				victim bool
			}
			var assigned []*apod
			for i := 0; i < k; i++ {
				rl := c05GenRequests(r, []int{80, 65, 30, 15})
				p := &corev1.Pod{ObjectMeta: metav1.ObjectMeta{Namespace: "default", Name: fmt.Sprintf("a%d", i), UID: types.UID(fmt.Sprintf("a-%d", i))},
					Spec: corev1.PodSpec{NodeName: "n0", Containers: c05Containers(r, rl)}}
				ri.AddAssignedPod(p)
				assigned = append(assigned, &apod{uid: p.UID, req: c05PodRequests(p)})
			}
			// victims: pods of this reservation that a preemption would remove
			var preemptible corev1.ResourceList
			victims := 0
			if k > 0 && r.Pct(40) {
				preemptible = corev1.ResourceList{}
				for _, a := range assigned {
					if r.Pct(50) {
						a.victim = true
						victims++
						for n, q := range a.req {
							preemptible[n] = c05Add(preemptible[n], q)
						}
					}
				}
				preemptible[corev1.ResourcePods] = *resource.NewQuantity(int64(victims), resource.DecimalSI)
				if victims == 0 && r.Bool() {
					preemptible = nil
				}
			}
			// the sum the statement speaks of: requests of the pods that stay assigned, per reserved dimension
			used := corev1.ResourceList{}
			for _, a := range assigned {
				if a.victim {
					continue
				}
				for n, q := range a.req {
					if dims[n] {
						used[n] = c05Add(used[n], q)
					}
				}
			}
			// request: random, then one reserved dimension is moved to the boundary
			req := c05GenRequests(r, []int{75, 60, 30, 15})
			boundary := "far"
			var dimList []corev1.ResourceName
			for _, n := range c05ResNames {
				if dims[n] {
					dimList = append(dimList, n)
				}
			}
			if len(dimList) > 0 && r.Pct(60) {
				n := kit.Pick(r, dimList)
				remaining := c05Sub(c05Sub(alloc[n], inner[n]), used[n])
				switch r.Intn(3) {
				case 0:
					remaining.Sub(c05Unit(n))
					boundary = "below"
				case 1:
					boundary = "at"
				default:
					remaining.Add(c05Unit(n))
					boundary = "above"
				}
				if remaining.Sign() > 0 {
					req[n] = remaining
				} else {
					boundary = "far"
				}
			}
			pod := &corev1.Pod{ObjectMeta: metav1.ObjectMeta{Namespace: "default", Name: "incoming", UID: "incoming"}, Spec: corev1.PodSpec{Containers: c05Containers(r, req)}}
			req = c05PodRequests(pod)

			entry := "fitsReservation"
			var reasons []string
			accepted := false
			if r.Pct(60) {
				reasons = fitsReservation(req, ri, preemptible, r.Bool(), nil, nil)
				accepted = len(reasons) == 0
			} else {
				entry = "fitsNodeAndReservation"
				skipNode := r.Bool()
				var preemptibleRes fwktype.Resource = dummyResource
				if preemptible != nil {
					preemptibleRes = framework.NewResource(preemptible)
				}
				byNode, byRsv := fitsNodeAndReservation(framework.NewResource(req), nil, nil, preemptibleRes, ri.GetAvailable(), req, preemptible, pod, ri, node, 1, r.Bool(), skipNode, nil, nil)
				if len(byNode) > 0 {
					c.Harness("the big node did not fit: %v", byNode)
				}
				reasons = byRsv
				accepted = len(byNode) == 0 && len(byRsv) == 0
			}

			// oracle
			fits, fitsInner, fitsPods := true, true, true
			why := ""
			for _, n := range dimList {
				rq, has := req[n]
				if !has || rq.IsZero() {
					continue
				}
				sum := c05Add(used[n], rq)
				if sum.Cmp(alloc[n]) > 0 {
					fits = false
					why += fmt.Sprintf(" %s: assigned %s + request %s > reserved %s;", n, c05QS(used[n]), rq.String(), c05QS(alloc[n]))
				}
				if capn := c05Sub(alloc[n], inner[n]); sum.Cmp(capn) > 0 {
					fitsInner = false
					why += fmt.Sprintf(" %s: assigned %s + request %s > reserved %s - held back %s;", n, c05QS(used[n]), rq.String(), c05QS(alloc[n]), c05QS(inner[n]))
				}
			}
			if podsCap >= 0 && int64(k-victims)+1 > podsCap {
				fitsPods = false
				why += fmt.Sprintf(" pods: %d assigned - %d victims + 1 > %d;", k, victims, podsCap)
			}
			c.Op("reserved=%s options=%q heldBack=%s assigned=%d victims=%d preemptible=%s used=%s request=%s entry=%s accepted=%v reasons=%v", c05RL(alloc),
				res.Annotations["scheduling.koordinator.sh/reservation-restricted-options"], c05RL(inner), k, victims, c05RL(preemptible), c05RL(used), c05RL(req), entry, accepted, reasons)
			c.Count("fit_checks", 1)
			if accepted {
				c.Count("fit_accepted", 1)
			} else {
				c.Count("fit_rejected", 1)
			}
			if boundary != "far" {
				c.Count("fit_boundary_"+boundary, 1)
				if k > 0 {
					c.NonTrivial()
				}
			}
			if victims > 0 {
				c.Count("fit_with_victims", 1)
			}
			c.Seen(len(dimList), podsCap >= 0, len(inner) > 0, k, victims, entry, boundary, accepted, fits && fitsInner && fitsPods)
			if accepted && !fits {
				c.Fail("C05/fit/over-reserved", "%s accepted a pod that does not fit the restricted reservation:%s", entry, why)
			}
			if accepted && !fitsInner {
				c.Fail("C05/fit/over-reserved-minus-held-back", "%s accepted a pod that does not fit what the restricted reservation keeps allocatable:%s", entry, why)
			}
			if accepted && !fitsPods {
				c.Fail("C05/fit/over-pods", "%s accepted a pod beyond the reservation's pod capacity:%s", entry, why)
			}
			if !accepted && fits && fitsInner && fitsPods {
				c.Count("converse_misses_fit_rejected", 1)
			}
			if c.K < 3 {
				c.Sample(map[string]any{"reserved": c05RL(alloc), "assigned_sum": c05RL(used), "request": c05RL(req), "victims": victims, "accepted": accepted})
			}
		})
}

func c05QS(q resource.Quantity) string { return q.String() }
