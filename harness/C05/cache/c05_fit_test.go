//go:build verif

package reservation

// C05 (b): the restricted fit check. fitsReservation (and fitsNodeAndReservation on a node that is never the
// bottleneck) is called on generated (reservation state, pod request, preemptible amount) triples. The
// reservation state is built through the real constructors (NewReservationInfo + AddAssignedPod); the oracle
// recomputes, from the pod objects the harness assigned, the sum the statement speaks of and asserts only
//
//	accepted  =>  for every reserved dimension the pod requests:  max(0, sum(assigned pods) - preemptible) + request <= reserved
//
// (the converse is counted as converse_misses_fit_rejected). In 75% of the triples the victims are a subset of the
// assigned pods (then the first term is exactly the sum of the pods that stay). In 25% the preemptible amount
// additionally contains a victim that is only NOMINATED to the reservation (a preemption dry run finds it through
// GetNominatedReservation; it is not part of Allocated), so that for one or more reserved resources the
// preemptible amount exceeds the allocated amount by one unit or by a lot, also with nothing allocated at all:
// what stays can never be negative, so in particular accepted => request <= reserved.

import (
	"fmt"
	"strings"
	"testing"

	"k8s.io/apimachinery/pkg/util/sets"

	corev1 "k8s.io/api/core/v1"
	"k8s.io/apimachinery/pkg/api/resource"
	metav1 "k8s.io/apimachinery/pkg/apis/meta/v1"
	"k8s.io/apimachinery/pkg/types"
	fwktype "k8s.io/kube-scheduler/framework"
	"k8s.io/kubernetes/pkg/scheduler/framework"

	schedulingv1alpha1 "github.com/koordinator-sh/koordinator/apis/scheduling/v1alpha1"
	"github.com/koordinator-sh/koordinator/pkg/scheduler/frameworkext"
	kit "github.com/koordinator-sh/koordinator/pkg/verifkit"
)

func c05BigNode() fwktype.NodeInfo {
	node := &corev1.Node{ObjectMeta: metav1.ObjectMeta{Name: "n0"}, Status: corev1.NodeStatus{Allocatable: corev1.ResourceList{
		corev1.ResourceCPU:              resource.MustParse("1000000"),
		corev1.ResourceMemory:           *resource.NewQuantity(1<<62, resource.BinarySI),
		corev1.ResourceEphemeralStorage: *resource.NewQuantity(1<<62, resource.BinarySI),
		c05GPUName:                      resource.MustParse("100000"),
		c05ExtName:                      resource.MustParse("100000000"),
		corev1.ResourcePods:             resource.MustParse("100000"),
	}}}
	ni := framework.NewNodeInfo()
	ni.SetNode(node)
	return ni
}

func c05Unit(n corev1.ResourceName) resource.Quantity {
	if n == corev1.ResourceCPU {
		return resource.MustParse("1m")
	}
	return resource.MustParse("1")
}

func TestVerifC05Fit(t *testing.T) {
	node := c05BigNode()
	kit.Run(t, kit.Config{Property: "C05", Unit: "fit", Quick: 60000, Thorough: 1500000,
		Rule: "restricted reservation (random reserved resources, optional pods capacity 0-4, amounts from 0 / 1m up to 2^62, five resource names, held-back amount also as a cpu list, 14% with extended resources ignored by plugin args (skipped by the oracle), pods with init containers / overhead, restricted options incl. lists that are disjoint from / partially overlap / duplicate / mis-case the reserved resources, edited on the live reservation in 30%, inner reserved amount) with 0-8 assigned pods added through AddAssignedPod; 75%: victims = random subset of the assigned pods (preemptible = their summed requests + pod count); 25%: victims = subset of the assigned pods plus a pod that is only nominated to the reservation, sized so that in 1..all reserved resources preemptible = allocated + 1 unit or + a lot (a third of these with no assigned pod at all); pod request biased to remaining-1 / remaining / remaining+1 unit / far above in one reserved dimension (remaining = reserved - held back - max(0, allocated - preemptible)); 40% of the calls go through fitsNodeAndReservation on a node that always fits; distinct = (#dims, pods capacity, inner reserved, #assigned, #victims, victim mode, excess class, entry point, boundary class, accepted, fits); non-trivial = a request within one unit of the remaining amount with at least one assigned pod or with a preemptible amount above the allocated amount"},
		func(c *kit.Case) {
			r := c.R
			alloc := c05GenRequests(r, []int{90, 75, 35, 15})
			if len(alloc) == 0 {
				alloc[corev1.ResourceCPU] = resource.MustParse("4")
			}
			podsCap := int64(-1)
			if r.Pct(35) {
				podsCap = int64(r.Range(1, 4))
				if r.Pct(6) {
					podsCap = 0 // a reservation that holds no pod slot at all
				}
				alloc[corev1.ResourcePods] = *resource.NewQuantity(podsCap, resource.DecimalSI)
			}
			f := false
			res := &schedulingv1alpha1.Reservation{
				ObjectMeta: metav1.ObjectMeta{Name: "r", UID: "r-uid", Annotations: map[string]string{}},
				Spec: schedulingv1alpha1.ReservationSpec{Template: c05TemplateR(r, alloc), Owners: []schedulingv1alpha1.ReservationOwner{{}},
					AllocateOnce: &f, AllocatePolicy: schedulingv1alpha1.ReservationAllocatePolicyRestricted},
				Status: schedulingv1alpha1.ReservationStatus{Phase: schedulingv1alpha1.ReservationAvailable, NodeName: "n0", Allocatable: alloc.DeepCopy()},
			}
			c05GenOptions(r, res)
			inner := corev1.ResourceList{}
			if r.Pct(35) {
				for _, n := range c05SortedNames(alloc) {
					if n != corev1.ResourcePods && r.Pct(60) {
						q := c05GenQuantity(r, n)
						if a := alloc[n]; q.Cmp(a) > 0 && r.Pct(90) {
							q = a.DeepCopy()
						}
						inner[n] = q
					}
				}
				if r.Pct(20) { // the held-back CPUs given as a cpu list
					c05SetInnerReservedCPUs(res, inner, kit.Pick(r, []string{"0", "0-1", "1,3", "0-2,5"}))
					c.Count("fit_held_back_as_cpu_list", 1)
				} else {
					c05SetInnerReserved(res, inner)
				}
				inner = c05InnerReserved(res.Annotations) // the oracle reads the object
				if inner == nil {
					inner = corev1.ResourceList{}
				}
			}
			// plugin args: extended resources (by name or by group) the fit check is configured to ignore; the
			// statement does not decide those dimensions, the oracle skips them
			var ignoredResources, ignoredGroups sets.Set[string]
			ignoredDim := map[corev1.ResourceName]bool{}
			switch r.Weighted(86, 5, 5, 4) {
			case 1:
				ignoredResources = sets.New(string(c05GPUName))
				ignoredDim[c05GPUName] = true
			case 2:
				ignoredGroups = sets.New("example.com")
				ignoredDim[c05GPUName] = true
			case 3:
				ignoredResources = sets.New(string(c05ExtName), "unrelated.io/x")
				ignoredGroups = sets.New("unrelated.io")
				ignoredDim[c05ExtName] = true
			}
			ri := frameworkext.NewReservationInfo(res)
			k := r.Weighted(22, 27, 22, 14, 6, 3, 2, 2, 2)
			// victim mode: "subset" = victims are assigned pods; "above" = a nominated-only victim makes the
			// preemptible amount exceed the allocated amount
			mode := "subset"
			if r.Pct(25) {
				mode = "above"
				if r.Pct(33) {
					k = 0 // nothing allocated at all
				}
			}
			type apod struct {
				uid    types.UID
				req    corev1.ResourceList
				victim bool
			}
			var assigned []*apod
			for i := 0; i < k; i++ {
				rl := c05GenRequests(r, []int{80, 65, 30, 15})
				p := &corev1.Pod{ObjectMeta: metav1.ObjectMeta{Namespace: "default", Name: fmt.Sprintf("a%d", i), UID: types.UID(fmt.Sprintf("a-%d", i))},
					Spec: corev1.PodSpec{NodeName: "n0", Containers: c05Containers(r, rl)}}
				c05Shape(r, &p.Spec)
				ri.AddAssignedPod(p)
				assigned = append(assigned, &apod{uid: p.UID, req: c05PodRequests(p)})
			}
			// 30%: the restricted-options annotation of the live reservation is edited after the pods were assigned
			optionsUpdated := false
			if r.Pct(30) {
				res = res.DeepCopy()
				c05GenOptions(r, res)
				ri.UpdateReservation(res)
				optionsUpdated = true
			}
			dims, ok := c05Dims(res)
			if !ok {
				c.Harness("dimensions undetermined for a generated reservation")
			}
			optClass := c05OptionsClass(res)
			var dimList []corev1.ResourceName
			for _, n := range c05ResNames {
				if dims[n] {
					dimList = append(dimList, n)
				}
			}
			// what all assigned pods request, per reserved dimension (recomputed from the pod objects)
			allocatedSum := corev1.ResourceList{}
			for _, a := range assigned {
				for n, q := range a.req {
					if dims[n] {
						allocatedSum[n] = c05Add(allocatedSum[n], q)
					}
				}
			}
			// victims: pods a preemption dry run would remove
			var preemptible corev1.ResourceList
			victims := 0 // assigned pods among the victims
			victimPods := int64(0)
			excess := "none"
			aboveDims := map[corev1.ResourceName]bool{}
			if mode == "subset" {
				if k > 0 && r.Pct(40) {
					preemptible = corev1.ResourceList{}
					for _, a := range assigned {
						if r.Pct(50) {
							a.victim = true
							victims++
							for n, q := range a.req {
								preemptible[n] = c05Add(preemptible[n], q)
							}
						}
					}
					victimPods = int64(victims)
					preemptible[corev1.ResourcePods] = *resource.NewQuantity(victimPods, resource.DecimalSI)
					if victims == 0 && r.Bool() {
						preemptible = nil
					}
				}
			} else {
				preemptible = corev1.ResourceList{}
				all := r.Pct(30)
				for _, a := range assigned {
					if all || r.Pct(50) {
						a.victim = true
						victims++
						for n, q := range a.req {
							preemptible[n] = c05Add(preemptible[n], q)
						}
					}
				}
				// the nominated-only victim: in the chosen reserved dimensions it requests what is still missing
				// to reach the allocated amount plus one unit / plus a lot
				excess = kit.Pick(r, []string{"unit", "lot"})
				first := kit.Pick(r, dimList)
				nominatedReq := c05GenRequests(r, []int{30, 30, 15, 10})
				for _, n := range dimList {
					if n != first && !r.Pct(35) {
						continue
					}
					aboveDims[n] = true
					gap := c05Sub(allocatedSum[n], preemptible[n])
					if gap.Sign() < 0 {
						gap = resource.Quantity{}
					}
					if excess == "unit" {
						gap.Add(c05Unit(n))
					} else {
						gap.Add(c05Lot(n))
						gap.Add(alloc[n])
					}
					nominatedReq[n] = gap
				}
				for n, q := range nominatedReq {
					preemptible[n] = c05Add(preemptible[n], q)
				}
				victimPods = int64(victims) + 1
				preemptible[corev1.ResourcePods] = *resource.NewQuantity(victimPods, resource.DecimalSI)
			}
			// the sum the statement speaks of, with the victims gone: never negative
			used := corev1.ResourceList{}
			above := false
			for _, n := range dimList {
				u := c05Sub(allocatedSum[n], preemptible[n])
				if u.Sign() < 0 {
					u = resource.Quantity{}
				}
				used[n] = u
				if pq := preemptible[n]; pq.Cmp(allocatedSum[n]) > 0 {
					above = true
				}
			}
			// pod-level reading: requests of the assigned pods that are not victims (equal to `used` when the
			// victims are a subset of the assigned pods; only reported as a note otherwise)
			staying := corev1.ResourceList{}
			for _, a := range assigned {
				if a.victim {
					continue
				}
				for n, q := range a.req {
					if dims[n] {
						staying[n] = c05Add(staying[n], q)
					}
				}
			}
			if mode == "subset" {
				for _, n := range dimList {
					if sq := staying[n]; sq.Cmp(used[n]) != 0 {
						c.Harness("subset victims: staying sum %s != allocated - preemptible %s for %s", c05QS(staying[n]), c05QS(used[n]), n)
					}
				}
			}
			// request: random, then one reserved dimension is moved to the boundary
			req := c05GenRequests(r, []int{75, 60, 30, 15})
			boundary := "far"
			if len(dimList) > 0 && (mode == "above" && r.Pct(85) || mode == "subset" && r.Pct(60)) {
				n := kit.Pick(r, dimList)
				if mode == "above" && r.Pct(80) {
					for _, d := range dimList { // prefer a dimension in which preemptible exceeds allocated
						if aboveDims[d] {
							n = d
							break
						}
					}
				}
				remaining := c05Sub(c05Sub(alloc[n], inner[n]), used[n])
				classes := 3
				if mode == "above" {
					classes = 4
				}
				switch r.Intn(classes) {
				case 0:
					remaining.Sub(c05Unit(n))
					boundary = "below"
				case 1:
					boundary = "at"
				case 2:
					remaining.Add(c05Unit(n))
					boundary = "above"
				default: // larger than the whole reservation
					remaining.Add(alloc[n])
					remaining.Add(c05Lot(n))
					boundary = "far_above"
				}
				if remaining.Sign() > 0 {
					req[n] = remaining
				} else {
					boundary = "far"
				}
			}
			pod := &corev1.Pod{ObjectMeta: metav1.ObjectMeta{Namespace: "default", Name: "incoming", UID: "incoming"}, Spec: corev1.PodSpec{Containers: c05Containers(r, req)}}
			if r.Pct(10) {
				c05Shape(r, &pod.Spec)
			}
			req = c05PodRequests(pod)
			// amounts near the 64-bit range: the node part of the check is skipped (only the reservation is under test)
			huge := false
			limit := *resource.NewQuantity(1<<60, resource.BinarySI)
			for _, rl := range []corev1.ResourceList{req, preemptible, alloc} {
				for _, q := range rl {
					if q.Cmp(limit) > 0 {
						huge = true
					}
				}
			}
			if huge {
				c.Count("fit_with_huge_amounts", 1)
			}

			entry := "fitsReservation"
			var reasons []string
			accepted := false
			if r.Pct(60) {
				reasons = fitsReservation(req, ri, preemptible, r.Bool(), ignoredResources, ignoredGroups)
				accepted = len(reasons) == 0
			} else {
				entry = "fitsNodeAndReservation"
				skipNode := r.Bool() || huge
				var preemptibleRes fwktype.Resource = dummyResource
				if preemptible != nil {
					preemptibleRes = framework.NewResource(preemptible)
				}
				byNode, byRsv := fitsNodeAndReservation(framework.NewResource(req), nil, nil, preemptibleRes, ri.GetAvailable(), req, preemptible, pod, ri, node, 1, r.Bool(), skipNode, ignoredResources, ignoredGroups)
				if len(byNode) > 0 {
					c.Harness("the big node did not fit: %v", byNode)
				}
				reasons = byRsv
				accepted = len(byNode) == 0 && len(byRsv) == 0
			}

			// oracle
			fits, fitsInner, fitsPods := true, true, true
			why := ""
			for _, n := range dimList {
				rq, has := req[n]
				if !has || rq.IsZero() {
					continue
				}
				if ignoredDim[n] {
					c.Count("fit_dimension_ignored_by_plugin_args", 1)
					continue
				}
				sum := c05Add(used[n], rq)
				if sum.Cmp(alloc[n]) > 0 {
					fits = false
					why += fmt.Sprintf(" %s: assigned %s + request %s > reserved %s;", n, c05QS(used[n]), rq.String(), c05QS(alloc[n]))
				}
				if capn := c05Sub(alloc[n], inner[n]); sum.Cmp(capn) > 0 {
					fitsInner = false
					why += fmt.Sprintf(" %s: assigned %s + request %s > reserved %s - held back %s;", n, c05QS(used[n]), rq.String(), c05QS(alloc[n]), c05QS(inner[n]))
				}
			}
			stayPods := int64(k) - victimPods
			if stayPods < 0 {
				stayPods = 0
			}
			if podsCap >= 0 && stayPods+1 > podsCap {
				fitsPods = false
				why += fmt.Sprintf(" pods: %d assigned - %d victims + 1 > %d;", k, victimPods, podsCap)
			}
			// note only: the pod-level reading when a nominated-only victim is mixed with assigned pods that stay
			overStaying := false
			for _, n := range dimList {
				if rq, has := req[n]; has && !rq.IsZero() && !ignoredDim[n] {
					if sum := c05Add(staying[n], rq); sum.Cmp(c05Sub(alloc[n], inner[n])) > 0 {
						overStaying = true
					}
				}
			}
			c.Op("reserved=%s options=%q heldBack=%s assigned=%d allocated=%s victimMode=%s assignedVictims=%d preemptible=%s excess=%s staysAfterPreemption=%s request=%s boundary=%s entry=%s accepted=%v reasons=%v", c05RL(alloc),
				res.Annotations["scheduling.koordinator.sh/reservation-restricted-options"], c05RL(inner), k, c05RL(allocatedSum), mode, victims, c05RL(preemptible), excess, c05RL(used), c05RL(req), boundary, entry, accepted, reasons)
			c.Count("fit_checks", 1)
			if accepted {
				c.Count("fit_accepted", 1)
			} else {
				c.Count("fit_rejected", 1)
			}
			if boundary != "far" {
				c.Count("fit_boundary_"+boundary, 1)
				if boundary != "far_above" && (k > 0 || above) {
					c.NonTrivial()
				}
			}
			if victims > 0 {
				c.Count("fit_with_victims", 1)
			}
			if podsCap == 0 {
				c.Count("fit_pods_capacity_zero", 1)
			}
			if k >= 5 {
				c.Count("fit_with_5_to_8_assigned_pods", 1)
			}
			c.Count("fit_options_"+optClass, 1)
			if optClass == "disjoint" {
				if accepted {
					c.Count("fit_options_disjoint_accepted", 1)
				} else {
					c.Count("fit_options_disjoint_rejected", 1)
				}
				if boundary != "far" {
					c.Count("fit_options_disjoint_boundary", 1)
				}
			}
			if optionsUpdated {
				c.Count("fit_options_updated_on_live_reservation", 1)
				if k > 0 {
					c.Count("fit_options_updated_with_assigned_pods", 1)
				}
			}
			if above {
				c.Count("fit_preemptible_above_allocated", 1)
				c.Count("fit_preemptible_above_allocated_by_"+excess, 1)
				if k == 0 {
					c.Count("fit_preemptible_above_allocated_nothing_allocated", 1)
				}
				if accepted {
					c.Count("fit_preemptible_above_allocated_accepted", 1)
				} else {
					c.Count("fit_preemptible_above_allocated_rejected", 1)
				}
				c.Count("fit_preemptible_above_allocated_boundary_"+boundary, 1)
				if !accepted && (boundary == "above" || boundary == "far_above") {
					c.Count("fit_preemptible_above_allocated_rejected_over_reserved", 1)
				}
				if accepted && overStaying {
					// accepted although the assigned pods that are not victims plus the request exceed what is
					// reserved: the nominated-only victim's amount was credited against pods that stay
					c.Count("note_accepted_over_pods_that_stay_with_nominated_victim", 1)
				}
			}
			c.Seen(len(dimList), podsCap, len(inner) > 0, minInt(k, 5), minInt(victims, 3), len(ignoredDim) > 0, huge, mode, excess, entry, boundary, accepted, fits && fitsInner && fitsPods, optClass, optionsUpdated)
			if accepted && !fits {
				c.Fail("C05/fit/over-reserved", "%s accepted a pod that does not fit the restricted reservation:%s", entry, why)
			}
			if accepted && !fitsInner {
				c.Fail("C05/fit/over-reserved-minus-held-back", "%s accepted a pod that does not fit what the restricted reservation keeps allocatable:%s", entry, why)
			}
			if accepted && !fitsPods && int64(k)-victimPods < 0 {
				c.Fail("C05/fit/over-pods/preempted-pod-count-above-assigned", "%s accepted a pod beyond the reservation's pod capacity (more victims than assigned pods: a nominated-only victim was credited as a free pod slot):%s", entry, why)
			}
			if accepted && !fitsPods {
				c.Fail("C05/fit/over-pods", "%s accepted a pod beyond the reservation's pod capacity:%s", entry, why)
			}
			if !accepted && fits && fitsInner && fitsPods {
				c.Count("converse_misses_fit_rejected", 1)
			}
			// The fit check only answers a question. Afterwards the reservation must still report as allocated
			// the summed requests of its assigned pods (quantities held in apimachinery's big-decimal form --
			// a binary suffix with a fraction such as 1.5Gi, values beyond int64 -- share their digits between
			// copies of the Quantity struct), and asking the same question again must again satisfy
			// accepted => fits.
			for _, n := range dimList {
				if q, ok := ri.Allocated[n]; ok && c05BigDecimalForm(q) {
					c.Count("fit_allocated_in_big_decimal_form", 1)
					if victims > 0 {
						c.Count("fit_allocated_in_big_decimal_form_with_assigned_victims", 1)
					}
					break
				}
			}
			names := map[corev1.ResourceName]bool{}
			for n := range ri.Allocated {
				names[n] = true
			}
			for n := range allocatedSum {
				names[n] = true
			}
			c.Count("fit_ledger_checks_after_fit", 1)
			if victims > 0 {
				c.Count("fit_ledger_checks_after_fit_with_assigned_victims", 1)
			}
			for n := range names {
				got, want := ri.Allocated[n], allocatedSum[n]
				if got.Cmp(want) != 0 {
					c.Fail("C05/ledger/allocated-changed-by-fit-check", "after %s the reservation reports Allocated[%s]=%s but its %d assigned pods request %s (preemptible %s)", entry, n, got.String(), k, want.String(), c05RL(preemptible))
				}
			}
			again := fitsReservation(req, ri, preemptible, false, ignoredResources, ignoredGroups)
			if len(again) == 0 && !(fits && fitsInner) {
				c.Fail("C05/fit/over-reserved", "a repeated %s call accepted a pod that does not fit the restricted reservation:%s", entry, why)
			}
			if c.K < 3 {
				c.Sample(map[string]any{"reserved": c05RL(alloc), "allocated": c05RL(allocatedSum), "preemptible": c05RL(preemptible), "stays": c05RL(used), "request": c05RL(req), "victim_mode": mode, "accepted": accepted})
			}
		})
}

func c05QS(q resource.Quantity) string { return q.String() }

// c05BigDecimalForm: the quantity is held in apimachinery's big-decimal form (not as a scaled int64).
func c05BigDecimalForm(q resource.Quantity) bool {
	return !strings.Contains(fmt.Sprintf("%#v", q), "(*inf.Dec)(nil)")
}

// c05Lot: "a lot" of a resource (far more than any generated reservation holds of it, small enough that sums
// stay exact and below the big node).
func c05Lot(n corev1.ResourceName) resource.Quantity {
	switch n {
	case corev1.ResourceCPU:
		return resource.MustParse("1000")
	case c05GPUName:
		return resource.MustParse("100")
	case c05ExtName:
		return resource.MustParse("100000")
	default:
		return resource.MustParse("9007199254740993")
	}
}
