//go:build verif

package reservation

// C05 (c): allocate-once nomination gate, owner matching and the restricted rule end to end, on a Plugin built
// with the package's own suite. Per case the plugin gets a fresh reservationCache and nominator; reservations
// are added as the informer handler does (updateReservation); pods are scheduled one cycle after the other
// (scheduling cycles are sequential in the real scheduler) through the real BeforePreFilter -> Filter ->
// [PreScore] -> [ReservationNominate] -> Reserve, the framework's clean-up of the nomination after Reserve is
// replayed, and the cycle ends with a bind (the pod stays assigned, the informer confirms it) or Unreserve.
// Between cycles assigned pods are deleted through the pod handler, reservations are completed (Succeeded +
// DeleteReservation) or added. The node snapshot is rebuilt before every cycle from the live objects (nodes
// that are never the bottleneck, the reserve pod of every cached reservation, every assigned pod).
//
// Oracles: a reservation in the cycle's matched set / the nominated reservation satisfies the independent owner
// matcher (unless the pod ignores reservations); FilterNominateReservation never passes, and nomination never
// returns, an allocate-once reservation that already has an assigned pod other than the pod itself; a pod let
// into a Restricted reservation fits: sum(assigned) + request <= reserved in every reserved dimension.

import (
	"context"
	"fmt"
	"sort"
	"testing"

	corev1 "k8s.io/api/core/v1"
	"k8s.io/apimachinery/pkg/api/resource"
	metav1 "k8s.io/apimachinery/pkg/apis/meta/v1"
	"k8s.io/apimachinery/pkg/types"
	fwktype "k8s.io/kube-scheduler/framework"
	"k8s.io/kubernetes/pkg/scheduler/framework"

	apiext "github.com/koordinator-sh/koordinator/apis/extension"
	schedulingv1alpha1 "github.com/koordinator-sh/koordinator/apis/scheduling/v1alpha1"
	"github.com/koordinator-sh/koordinator/pkg/scheduler/apis/config"
	"github.com/koordinator-sh/koordinator/pkg/scheduler/frameworkext"
	reservationutil "github.com/koordinator-sh/koordinator/pkg/util/reservation"
	kit "github.com/koordinator-sh/koordinator/pkg/verifkit"
)

type c05NPod struct {
	pod      *corev1.Pod
	req      corev1.ResourceList
	affinity string
	affName  string // reservation name of a by-name affinity
	affGroup string // group label value of a by-selector / by-terms affinity
	ignored  bool
	node     string    // bound / assumed on
	rUID     types.UID // assigned to
	deleted  bool
}

type c05NRsv struct {
	res  *schedulingv1alpha1.Reservation
	gone bool
}

func c05NOwners(r *kit.Rand) []schedulingv1alpha1.ReservationOwner {
	pool := []schedulingv1alpha1.ReservationOwner{
		{},
		{LabelSelector: &metav1.LabelSelector{MatchLabels: map[string]string{"app": "a"}}},
		{LabelSelector: &metav1.LabelSelector{MatchLabels: map[string]string{"app": "b"}}},
		{LabelSelector: &metav1.LabelSelector{MatchExpressions: []metav1.LabelSelectorRequirement{{Key: "team", Operator: metav1.LabelSelectorOpIn, Values: []string{"x", "y"}}}}},
		{LabelSelector: &metav1.LabelSelector{MatchExpressions: []metav1.LabelSelectorRequirement{{Key: "tier", Operator: metav1.LabelSelectorOpExists}}}},
		{Object: &corev1.ObjectReference{Namespace: "default", Name: "pod-1"}},
		{Object: &corev1.ObjectReference{Namespace: "ns1"}},
		{Controller: &schedulingv1alpha1.ReservationControllerReference{OwnerReference: metav1.OwnerReference{Kind: "ReplicaSet", Name: "rs-a"}}},
		{Controller: &schedulingv1alpha1.ReservationControllerReference{OwnerReference: metav1.OwnerReference{Kind: "ReplicaSet", Name: "rs-b"}, Namespace: "default"},
			LabelSelector: &metav1.LabelSelector{MatchLabels: map[string]string{"app": "a"}}},
		{Object: &corev1.ObjectReference{Namespace: "default"}, LabelSelector: &metav1.LabelSelector{MatchLabels: map[string]string{"app": "b"}}},
	}
	n := r.Weighted(0, 65, 30, 5)
	var out []schedulingv1alpha1.ReservationOwner
	for i := 0; i < n; i++ {
		o := kit.Pick(r, pool)
		out = append(out, *o.DeepCopy())
	}
	return out
}

func c05NGenRsv(r *kit.Rand, i int, nodes []string) *schedulingv1alpha1.Reservation {
	alloc := corev1.ResourceList{
		corev1.ResourceCPU:    resource.MustParse(kit.Pick(r, []string{"2", "4", "6", "8"})),
		corev1.ResourceMemory: resource.MustParse(kit.Pick(r, []string{"4Gi", "4.5Gi", "8Gi", "16Gi"})),
	}
	if r.Pct(25) {
		alloc[c05GPUName] = resource.MustParse(kit.Pick(r, []string{"1", "2"}))
	}
	res := &schedulingv1alpha1.Reservation{
		ObjectMeta: metav1.ObjectMeta{Name: fmt.Sprintf("rsv-%d", i), UID: types.UID(fmt.Sprintf("r-%d", i)), Annotations: map[string]string{},
			Labels: map[string]string{"rsv-group": kit.Pick(r, []string{"g1", "g2"})}},
		Spec: schedulingv1alpha1.ReservationSpec{Template: c05Template(alloc), TTL: &metav1.Duration{}, Owners: c05NOwners(r)},
	}
	switch r.Weighted(15, 40, 45) {
	case 1:
		res.Spec.AllocatePolicy = schedulingv1alpha1.ReservationAllocatePolicyAligned
	case 2:
		res.Spec.AllocatePolicy = schedulingv1alpha1.ReservationAllocatePolicyRestricted
		c05GenOptions(r, res)
	}
	switch r.Weighted(35, 25, 40) {
	case 1:
		t := true
		res.Spec.AllocateOnce = &t
	case 2:
		f := false
		res.Spec.AllocateOnce = &f
	}
	if r.Pct(8) {
		res.Spec.Unschedulable = true
	}
	if r.Pct(10) {
		res.Spec.Taints = []corev1.Taint{{Key: "dedicated", Value: "x", Effect: corev1.TaintEffectNoSchedule}}
	}
	if r.Pct(20) {
		res.Labels[apiext.LabelReservationOrder] = kit.Pick(r, []string{"1", "2", "3"})
	}
	c05MakeAvailable(res, kit.Pick(r, nodes))
	return res
}

func c05NGenPod(r *kit.Rand, i int, rsvNames []string) *c05NPod {
	req := corev1.ResourceList{}
	if r.Pct(90) {
		req[corev1.ResourceCPU] = resource.MustParse(kit.Pick(r, []string{"500m", "1", "2", "3", "4"}))
	}
	if r.Pct(80) {
		req[corev1.ResourceMemory] = resource.MustParse(kit.Pick(r, []string{"0.5Gi", "1Gi", "1.5Gi", "2Gi", "4Gi", "8Gi"}))
	}
	if r.Pct(15) {
		req[c05GPUName] = resource.MustParse("1")
	}
	p := &corev1.Pod{ObjectMeta: metav1.ObjectMeta{Namespace: kit.Pick(r, []string{"default", "default", "ns1"}), Name: fmt.Sprintf("pod-%d", i),
		UID: types.UID(fmt.Sprintf("p-%d", i)), Labels: map[string]string{}, Annotations: map[string]string{}},
		Spec: corev1.PodSpec{Containers: c05Containers(r, req)}, Status: corev1.PodStatus{Phase: corev1.PodPending}}
	if r.Pct(75) {
		p.Labels["app"] = kit.Pick(r, []string{"a", "a", "b"})
	}
	if r.Pct(40) {
		p.Labels["team"] = kit.Pick(r, []string{"x", "z"})
	}
	if r.Pct(30) {
		p.Labels["tier"] = "t"
	}
	if r.Pct(45) {
		t := true
		p.OwnerReferences = []metav1.OwnerReference{{APIVersion: "apps/v1", Kind: "ReplicaSet", Name: kit.Pick(r, []string{"rs-a", "rs-b"}), UID: "rs-uid", Controller: &t}}
	}
	np := &c05NPod{pod: p}
	switch r.Weighted(50, 18, 14, 12, 6) {
	case 1:
		np.affinity = "selector"
		np.affGroup = kit.Pick(r, []string{"g1", "g2"})
		_ = apiext.SetReservationAffinity(p, &apiext.ReservationAffinity{ReservationSelector: map[string]string{"rsv-group": np.affGroup}})
	case 2:
		np.affinity = "name"
		np.affName = kit.Pick(r, rsvNames)
		_ = apiext.SetReservationAffinity(p, &apiext.ReservationAffinity{Name: np.affName})
	case 3:
		np.affinity = "terms"
		np.affGroup = kit.Pick(r, []string{"g1", "g2"})
		_ = apiext.SetReservationAffinity(p, &apiext.ReservationAffinity{RequiredDuringSchedulingIgnoredDuringExecution: &apiext.ReservationAffinitySelector{
			ReservationSelectorTerms: []corev1.NodeSelectorTerm{{MatchExpressions: []corev1.NodeSelectorRequirement{{Key: "rsv-group", Operator: corev1.NodeSelectorOpIn,
				Values: []string{np.affGroup}}}}}}})
	case 4:
		np.ignored = true
		p.Labels[apiext.LabelReservationIgnored] = "true"
	}
	if np.affinity != "" && r.Pct(35) { // tolerations inside the reservation affinity
		if aff, _ := apiext.GetReservationAffinity(p.Annotations); aff != nil {
			if r.Bool() {
				aff.Tolerations = append(aff.Tolerations, corev1.Toleration{Key: "dedicated", Operator: corev1.TolerationOpExists, Effect: corev1.TaintEffectNoSchedule})
			}
			if r.Bool() {
				aff.Tolerations = append(aff.Tolerations, corev1.Toleration{Key: corev1.TaintNodeUnschedulable, Operator: corev1.TolerationOpExists, Effect: corev1.TaintEffectNoSchedule})
			}
			_ = apiext.SetReservationAffinity(p, aff)
		}
	}
	if r.Pct(8) {
		_ = apiext.SetExactMatchReservationSpec(p, &apiext.ExactMatchReservationSpec{ResourceNames: []corev1.ResourceName{corev1.ResourceCPU}})
	}
	c05Shape(r, &p.Spec)
	np.req = c05PodRequests(p)
	return np
}

func TestVerifC05Nominate(t *testing.T) {
	nodeNames := []string{"node-0", "node-1", "node-2"}
	var nodes []*corev1.Node
	for _, n := range nodeNames {
		nodes = append(nodes, &corev1.Node{ObjectMeta: metav1.ObjectMeta{Name: n}, Status: corev1.NodeStatus{Allocatable: corev1.ResourceList{
			corev1.ResourceCPU:              resource.MustParse("100000"),
			corev1.ResourceMemory:           *resource.NewQuantity(1<<55, resource.BinarySI),
			corev1.ResourceEphemeralStorage: *resource.NewQuantity(1<<55, resource.BinarySI),
			c05GPUName:                      resource.MustParse("10000"),
			corev1.ResourcePods:             resource.MustParse("10000"),
		}}})
	}
	suit := newPluginTestSuitWith(t, nil, nodes)
	p, err := suit.pluginFactory()
	if err != nil {
		t.Fatalf("plugin factory: %v", err)
	}
	pl := p.(*Plugin)
	lister, ok := pl.handle.SnapshotSharedLister().(*fakeSharedLister)
	if !ok {
		t.Fatalf("unexpected snapshot lister %T", pl.handle.SnapshotSharedLister())
	}
	ctx := context.TODO()
	// the listers the plugin and its nominator read (informers are never started: the stores are filled by hand)
	rsvStore := suit.extenderFactory.KoordinatorSharedInformerFactory().Scheduling().V1alpha1().Reservations().Informer().GetIndexer()
	podStore := suit.fw.SharedInformerFactory().Core().V1().Pods().Informer().GetIndexer()

	kit.Run(t, kit.Config{Property: "C05", Unit: "nominate", Quick: 6000, Thorough: 200000,
		Rule: "2-5 (10%: 6-8) Available reservations, 10% tainted, 20% with a reservation-order label (owner specification of 1-3 entries from a pool of label / object / controller selectors, allocate-once default / true / false, default / Aligned / Restricted policy, group label, 8% unschedulable) on 1-3 of 3 nodes that never limit, per case with / without listers for the nominator, selector index, SkipReservationFitsNode, LazyReservationRestore (AfterPreFilter), 5-9 pods (labels, owner references, namespaces, init containers / overhead, tolerations in the affinity, exact-match spec; 44% with a reservation affinity by selector, by name or by terms; 6% ignoring reservations), 8-20 steps: sequential scheduling cycles through the real plugin entry points ending in bind or Unreserve, deletion of assigned pods, completion of reservations, new reservations, edits of the restricted-options annotation of live Restricted reservations (incl. disjoint / mis-cased / duplicate lists), preemption dry runs (BeforePreFilter of a preemptor with a reservation affinity requesting reserved-1 / reserved / reserved+1 unit / far above of a Restricted reservation, RemovePod extension for a victim that is only nominated to the reservation and requests more than it has allocated, Filter); distinct = (#reservations, affinity kind, #matched on the node, allocate-once reservation with a pod among the matched, PreScore used, ReservationNominate used, outcome, policy and allocate-once of the nominated reservation); non-trivial = a cycle whose matched set contained an allocate-once reservation that already had an assigned pod"},
		func(c *kit.Case) {
			r := c.R
			cache := newReservationCache(pl.rLister)
			// configuration: listers for the nominator (60%), selector index (50%), the feature-gated plugin
			// switches SkipReservationFitsNode (30%) and LazyReservationRestore (25%)
			withListers := r.Pct(60)
			nm := newNominator(nil, nil)
			if withListers {
				nm = newNominator(pl.podLister, pl.rLister)
			}
			indexed := r.Bool()
			if indexed {
				if r.Bool() {
					cache.setReservationSelectorIndexConfig(&config.ReservationSelectorIndexArgs{Enabled: true, KeyPrefixes: []string{"rsv-"}})
				} else {
					cache.setReservationSelectorIndexConfig(&config.ReservationSelectorIndexArgs{Enabled: true, Keys: []string{"rsv-group"}})
				}
			}
			pl.enableSkipReservationFitsNode = r.Pct(30)
			pl.enableLazyReservationRestore = r.Pct(25)
			lazy := pl.enableLazyReservationRestore
			pl.reservationCache, pl.nominator = cache, nm
			ph := &podEventHandler{cache: cache, nominator: nm}
			// 1-3 of the nodes hold reservations (one node concentrates every reservation on it)
			nodeNames := nodeNames[:r.Weighted(0, 15, 25, 60)]
			c.Op("config: listers=%v selectorIndex=%v skipFitsNode=%v lazyRestore=%v nodes=%v", withListers, indexed, pl.enableSkipReservationFitsNode, lazy, nodeNames)
			if indexed {
				c.Count("cases_with_selector_index", 1)
			}
			if lazy {
				c.Count("cases_with_lazy_restore", 1)
			}
			if pl.enableSkipReservationFitsNode {
				c.Count("cases_with_skip_fits_node", 1)
			}
			if len(nodeNames) == 1 {
				c.Count("cases_single_node", 1)
			}
			var rsvs []*c05NRsv
			var rsvNames []string
			addRsv := func() {
				res := c05NGenRsv(r, len(rsvs), nodeNames)
				rsvs = append(rsvs, &c05NRsv{res: res})
				rsvNames = append(rsvNames, res.Name)
				cache.updateReservation(res)
				c.Op("informer: reservation added %s owners=%s", c05RsvStr(res), c05OwnersStr(res.Spec.Owners))
			}
			nrsv := r.Range(2, 5)
			if r.Pct(10) {
				nrsv = r.Range(6, 8)
			}
			for i := 0; i < nrsv; i++ {
				addRsv()
			}
			var pods []*c05NPod
			for i, n := 0, r.Range(5, 9); i < n; i++ {
				np := c05NGenPod(r, i, rsvNames)
				pods = append(pods, np)
				c.Op("pod %s/%s(%s) labels=%v ownerRefs=%d affinity=%q %s ignored=%v requests=%s", np.pod.Namespace, np.pod.Name, np.pod.UID, np.pod.Labels, len(np.pod.OwnerReferences),
					np.affinity, np.pod.Annotations[apiext.AnnotationReservationAffinity], np.ignored, c05RL(np.req))
			}
			rsvByUID := func(uid types.UID) *c05NRsv {
				for _, x := range rsvs {
					if x.res.UID == uid {
						return x
					}
				}
				return nil
			}
			refreshSnapshot := func() {
				var snapPods []*corev1.Pod
				for _, x := range rsvs {
					if !x.gone {
						snapPods = append(snapPods, reservationutil.NewReservePod(x.res))
					}
				}
				for _, np := range pods {
					if !np.deleted && np.node != "" {
						snapPods = append(snapPods, np.pod)
					}
				}
				*lister = *newFakeSharedLister(snapPods, nodes, false)
				// the informer stores: live reservations, existing pods
				var rs, ps []interface{}
				for _, x := range rsvs {
					if !x.gone {
						rs = append(rs, x.res)
					}
				}
				for _, np := range pods {
					if !np.deleted {
						ps = append(ps, np.pod)
					}
				}
				_ = rsvStore.Replace(rs, "")
				_ = podStore.Replace(ps, "")
			}
			liveAssigned := func(uid types.UID, except types.UID) []types.UID {
				ri := cache.reservationInfos[uid]
				if ri == nil {
					return nil
				}
				var out []string
				for p := range ri.AssignedPods {
					if p != except {
						out = append(out, string(p))
					}
				}
				sort.Strings(out)
				res := make([]types.UID, len(out))
				for i, s := range out {
					res[i] = types.UID(s)
				}
				return res
			}
			reqOf := func(uid types.UID) corev1.ResourceList {
				for _, np := range pods {
					if np.pod.UID == uid {
						return np.req
					}
				}
				c.Harness("unknown assigned pod %s", uid)
				return nil
			}
			// checkNominated: the oracles on a reservation that was nominated for / let the pod in
			checkNominated := func(where string, np *c05NPod, ri *frameworkext.ReservationInfo, others []types.UID) {
				res := ri.Reservation
				c.Count("nominated_checked", 1)
				if c05AllocateOnce(res) && len(others) > 0 {
					c.Fail("C05/allocate-once/nominated", "%s: allocate-once reservation %s(%s) already has assigned pod(s) %v and was nominated for pod %s(%s) (affinity=%q)",
						where, res.Name, res.UID, others, np.pod.Name, np.pod.UID, np.affinity)
				}
				if !c05Match(res.Spec.Owners, np.pod) {
					c.Fail("C05/owners/nominated-non-owner", "%s: reservation %s(%s) with owner specification %s was nominated for pod %s/%s (labels %v, ownerRefs %v), which does not satisfy it",
						where, res.Name, res.UID, c05OwnersStr(res.Spec.Owners), np.pod.Namespace, np.pod.Name, np.pod.Labels, np.pod.OwnerReferences)
				}
				if res.Spec.AllocatePolicy == schedulingv1alpha1.ReservationAllocatePolicyRestricted {
					dims, ok := c05Dims(res)
					if !ok {
						return
					}
					reserved := c05Reserved(res)
					for n := range dims {
						rq, has := np.req[n]
						if !has || rq.IsZero() {
							continue
						}
						sum := rq.DeepCopy()
						for _, o := range others {
							sum.Add(reqOf(o)[n])
						}
						c.Count("restricted_admissions_checked", 1)
						if c05OptionsClass(res) == "disjoint" {
							c.Count("restricted_admissions_checked_options_disjoint", 1)
						}
						if sum.Cmp(reserved[n]) > 0 {
							c.Fail("C05/fit/admitted-over-reserved", "%s: pod %s(%s) requesting %s was let into restricted reservation %s(%s) reserving %s although the pods already assigned (%v) plus the request need %s of %s",
								where, np.pod.Name, np.pod.UID, c05RL(np.req), res.Name, res.UID, c05RL(reserved), others, sum.String(), n)
						}
					}
				}
			}
			// dryRun: a preemption dry run at plugin level. A preemptor that must allocate from a reservation
			// (it carries a reservation affinity) and whose request in one restricted dimension is
			// reserved-1 / reserved / reserved+1 unit / far above is pre-filtered; then the plugin's RemovePod
			// extension is called for a victim that is only NOMINATED to the restricted reservation (found
			// through GetNominatedReservation, not part of Allocated) and that requests more than the
			// reservation has allocated; then the reservation Filter runs. Filter passed => some reservation
			// the Filter considered lets the preemptor in: not Restricted, or in every restricted dimension
			// max(0, sum(assigned) - preemptible) + request <= reserved.
			// checkLedger: every live reservation reports as allocated the summed requests of its assigned pods
			// in its reserved dimensions (the questions asked by Filter / dry runs must not change that)
			checkLedger := func(where string) {
				for _, x := range rsvs {
					ri := cache.reservationInfos[x.res.UID]
					if x.gone || ri == nil {
						continue
					}
					dims, ok := c05Dims(ri.Reservation)
					if !ok {
						continue
					}
					want := corev1.ResourceList{}
					for p := range ri.AssignedPods {
						for n, qn := range reqOf(p) {
							if dims[n] {
								want[n] = c05Add(want[n], qn)
							}
						}
					}
					names := map[corev1.ResourceName]bool{}
					for n := range want {
						names[n] = true
					}
					for n := range ri.Allocated {
						names[n] = true
					}
					c.Count("nominate_ledger_checks", 1)
					for n := range names {
						g, wq := ri.Allocated[n], want[n]
						if g.Cmp(wq) != 0 {
							c.Fail("C05/ledger/allocated", "%s: reservation %s(%s) reports Allocated[%s]=%s but its %d assigned pods request %s in the reserved dimensions {%s}", where, x.res.Name, x.res.UID, n, g.String(), len(ri.AssignedPods), wq.String(), c05DimsStr(dims))
						}
					}
				}
			}
			dryRun := func(step int) {
				// pairs (preemptor class, restricted reservation) that plausibly match (80%), or any pair
				type pair struct {
					np *c05NPod
					x  *c05NRsv
				}
				var pairs, anyPairs []pair
				for _, np := range pods {
					if np.deleted || np.node != "" || np.affinity == "" || np.ignored {
						continue
					}
					for _, x := range rsvs {
						if x.gone || x.res.Spec.AllocatePolicy != schedulingv1alpha1.ReservationAllocatePolicyRestricted {
							continue
						}
						anyPairs = append(anyPairs, pair{np, x})
						if c05Match(x.res.Spec.Owners, np.pod) && !x.res.Spec.Unschedulable &&
							(np.affName == x.res.Name || np.affGroup != "" && np.affGroup == x.res.Labels["rsv-group"]) {
							pairs = append(pairs, pair{np, x})
						}
					}
				}
				if len(anyPairs) == 0 {
					return
				}
				pr := kit.Pick(r, anyPairs)
				if len(pairs) > 0 && r.Pct(80) {
					pr = kit.Pick(r, pairs)
				}
				np, x := pr.np, pr.x
				res := x.res
				dims, ok := c05Dims(res)
				if !ok {
					return
				}
				reserved := c05Reserved(res)
				var dimList []corev1.ResourceName
				for _, n := range c05ResNames {
					if dims[n] {
						dimList = append(dimList, n)
					}
				}
				if len(dimList) == 0 {
					return
				}
				node := res.Status.NodeName
				// the preemptor: same identity class as the picked pod, other request
				q := np.pod.DeepCopy()
				q.Name, q.UID = np.pod.Name+"-preemptor", np.pod.UID+"-preemptor"
				qreq := corev1.ResourceList{}
				dim := kit.Pick(r, dimList)
				class := kit.Pick(r, []string{"below", "at", "above", "far_above"})
				amount := reserved[dim].DeepCopy()
				switch class {
				case "below":
					amount.Sub(c05Unit(dim))
				case "above":
					amount.Add(c05Unit(dim))
				case "far_above":
					amount.Add(reserved[dim])
					amount.Add(c05Lot(dim))
				}
				if amount.Sign() <= 0 {
					return
				}
				qreq[dim] = amount
				q.Spec.Containers = []corev1.Container{{Name: "c0", Resources: corev1.ResourceRequirements{Requests: qreq}}}
				// the nominated-only victim requests, in every restricted dimension, what the reservation has
				// allocated plus one unit / plus a lot
				sumAssigned := corev1.ResourceList{}
				for _, o := range liveAssigned(res.UID, "") {
					for n, qn := range reqOf(o) {
						if dims[n] {
							sumAssigned[n] = c05Add(sumAssigned[n], qn)
						}
					}
				}
				excess := kit.Pick(r, []string{"unit", "lot"})
				vreq := corev1.ResourceList{}
				for _, n := range dimList {
					v := sumAssigned[n].DeepCopy()
					if excess == "unit" {
						v.Add(c05Unit(n))
					} else {
						v.Add(c05Lot(n))
					}
					vreq[n] = v
				}
				victim := &corev1.Pod{ObjectMeta: metav1.ObjectMeta{Namespace: "default", Name: "nominated-victim", UID: types.UID(fmt.Sprintf("victim-%d", step))},
					Spec: corev1.PodSpec{Containers: []corev1.Container{{Name: "c0", Resources: corev1.ResourceRequirements{Requests: vreq}}}}}
				// half of the dry runs (when the reservation has an assigned pod) remove a pod that IS assigned to
				// the reservation instead: the credited amount is that pod's request
				assignedVictim := false
				if as := liveAssigned(res.UID, ""); len(as) > 0 && r.Bool() {
					for _, np2 := range pods {
						if np2.pod.UID == as[0] && !np2.deleted {
							victim, assignedVictim = np2.pod, true
							vreq = corev1.ResourceList{}
							for n, qn := range np2.req {
								vreq[n] = qn
							}
						}
					}
				}
				refreshSnapshot()
				cs := framework.NewCycleState()
				if _, _, st := pl.BeforePreFilter(ctx, cs, q); !st.IsSuccess() {
					return
				}
				if lazy {
					if st := pl.AfterPreFilter(ctx, cs, q, &fwktype.PreFilterResult{}); !st.IsSuccess() {
						return
					}
				}
				state := getStateData(cs)
				var considered []*frameworkext.ReservationInfo
				target := false
				if nrs := state.nodeReservationStates[node]; nrs != nil {
					for _, ri := range nrs.matchedOrIgnored {
						if np.affName != "" && ri.GetName() != np.affName {
							continue // a by-name affinity makes the Filter look at that reservation only
						}
						considered = append(considered, ri)
						if ri.UID() == res.UID {
							target = true
						}
					}
				}
				if !target {
					c.Count("preempt_dryrun_reservation_not_matched", 1)
					return
				}
				live := cache.getReservationInfoByUID(res.UID)
				if !assignedVictim {
					_ = podStore.Add(victim)
					pl.nominator.AddNominatedReservation(victim, node, live)
					_ = podStore.Delete(victim)
				}
				nodeInfo, _ := lister.Get(node)
				victimInfo, err := framework.NewPodInfo(victim)
				if err != nil {
					c.Harness("NewPodInfo: %v", err)
				}
				if st := pl.RemovePod(ctx, cs, q, victimInfo, nodeInfo); !st.IsSuccess() {
					c.Harness("RemovePod extension failed: %v", st.Message())
				}
				fst := pl.Filter(ctx, cs, q, nodeInfo)
				pl.AddPod(ctx, cs, q, victimInfo, nodeInfo)
				if !assignedVictim {
					pl.DeleteNominatedReservePodOrReservation(victim)
				}
				pl.DeleteNominatedReservePodOrReservation(q)
				if assignedVictim {
					c.Count("preempt_dryrun_assigned_victim", 1)
				}
				checkLedger(fmt.Sprintf("step %d after a preemption dry run (victim assigned=%v)", step, assignedVictim))
				// oracle
				lets := false
				for _, ri := range considered {
					rr := ri.Reservation
					if rr.Spec.AllocatePolicy != schedulingv1alpha1.ReservationAllocatePolicyRestricted {
						lets = true
						continue
					}
					rdims, ok := c05Dims(rr)
					if !ok {
						lets = true
						continue
					}
					fits := true
					for n := range rdims {
						rq, has := qreq[n]
						if !has || rq.IsZero() {
							continue
						}
						stays := resource.Quantity{}
						for _, o := range liveAssigned(rr.UID, "") {
							stays.Add(reqOf(o)[n])
						}
						if rr.UID == res.UID {
							stays.Sub(vreq[n])
							if stays.Sign() < 0 {
								stays = resource.Quantity{}
							}
						}
						stays.Add(rq)
						if stays.Cmp(c05Reserved(rr)[n]) > 0 {
							fits = false
						}
					}
					if fits {
						lets = true
					}
				}
				c.Op("step %d preemption dry run: preemptor %s requests %s (%s of reserved %s), victim nominated to %s(%s) requests %s (allocated %s), considered=%d -> Filter passed=%v %s", step, q.Name,
					c05RL(qreq), class, c05RL(reserved), res.Name, res.UID, c05RL(vreq), c05RL(sumAssigned), len(considered), fst.IsSuccess(), fst.Message())
				c.Count("preempt_dryrun_filters", 1)
				c.Count("preempt_dryrun_request_"+class, 1)
				if len(sumAssigned) == 0 {
					c.Count("preempt_dryrun_nothing_allocated", 1)
				}
				c.Seen("dryrun", class, excess, len(considered), len(sumAssigned) == 0, fst.IsSuccess(), lets)
				if fst.IsSuccess() {
					c.Count("preempt_dryrun_filter_passed", 1)
					if !lets {
						c.Fail("C05/fit/filter-passed-over-reserved", "preemption dry run: Filter passed preemptor %s requesting %s although none of the %d reservations it considered on %s lets it in (restricted reservation %s(%s) reserves %s, has %s allocated, nominated-only victim requests %s)",
							q.Name, c05RL(qreq), len(considered), node, res.Name, res.UID, c05RL(reserved), c05RL(sumAssigned), c05RL(vreq))
					}
				} else {
					c.Count("preempt_dryrun_filter_rejected", 1)
					if class == "above" || class == "far_above" {
						c.Count("preempt_dryrun_rejected_over_reserved", 1)
					}
					if lets {
						c.Count("converse_misses_dryrun_filter_rejected", 1)
					}
				}
			}
			sawTakenOnce := false
			nsteps := r.Range(8, 20)
			for step := 0; step < nsteps; step++ {
				switch r.Weighted(62, 12, 6, 7, 8, 5) {
				case 4:
					dryRun(step)
					continue
				case 5: // the restricted-options annotation of a live Restricted reservation is edited
					var cand []*c05NRsv
					for _, x := range rsvs {
						if !x.gone && x.res.Spec.AllocatePolicy == schedulingv1alpha1.ReservationAllocatePolicyRestricted {
							cand = append(cand, x)
						}
					}
					if len(cand) == 0 {
						continue
					}
					x := kit.Pick(r, cand)
					x.res = x.res.DeepCopy()
					cl := c05GenOptions(r, x.res)
					c.Op("step %d informer: reservation %s(%s) restricted options -> %q (%s)", step, x.res.Name, x.res.UID, x.res.Annotations[apiext.AnnotationReservationRestrictedOptions], cl)
					cache.updateReservation(x.res)
					c.Count("op_reservation_options_updated", 1)
					if len(liveAssigned(x.res.UID, "")) > 0 {
						c.Count("op_reservation_options_updated_with_assigned_"+cl, 1)
					}
					continue
				case 1: // an assigned pod is deleted
					var cand []*c05NPod
					for _, np := range pods {
						if !np.deleted && np.rUID != "" {
							cand = append(cand, np)
						}
					}
					if len(cand) == 0 {
						continue
					}
					np := kit.Pick(r, cand)
					c.Op("step %d informer: pod %s(%s) deleted (was assigned to %s)", step, np.pod.Name, np.pod.UID, np.rUID)
					ph.OnDelete(np.pod)
					np.deleted = true
					c.Count("op_pod_deleted", 1)
					continue
				case 2: // a reservation completes
					var cand []*c05NRsv
					for _, x := range rsvs {
						if !x.gone {
							cand = append(cand, x)
						}
					}
					if len(cand) <= 1 {
						continue
					}
					x := kit.Pick(r, cand)
					done := x.res.DeepCopy()
					done.Status.Phase = schedulingv1alpha1.ReservationSucceeded
					c.Op("step %d informer: reservation %s(%s) succeeded and is removed", step, x.res.Name, x.res.UID)
					cache.updateReservationIfExists(done)
					cache.DeleteReservation(x.res)
					x.gone = true
					for _, np := range pods {
						if np.rUID == x.res.UID {
							np.rUID = "" // stays on its node, no longer tracked against a reservation
						}
					}
					c.Count("op_reservation_completed", 1)
					continue
				case 3:
					if len(rsvs) < 10 {
						addRsv()
						c.Count("op_reservation_added", 1)
					}
					continue
				}
				// a scheduling cycle
				var cand []*c05NPod
				for _, np := range pods {
					if !np.deleted && np.node == "" {
						cand = append(cand, np)
					}
				}
				if len(cand) == 0 {
					continue
				}
				np := kit.Pick(r, cand)
				pod := np.pod
				refreshSnapshot()
				cs := framework.NewCycleState()
				_, _, st := pl.BeforePreFilter(ctx, cs, pod)
				if !st.IsSuccess() {
					c.Op("step %d cycle of %s: BeforePreFilter failed: %v", step, pod.Name, st.Message())
					c.Count("cycle_before_prefilter_failed", 1)
					continue
				}
				if lazy {
					if st := pl.AfterPreFilter(ctx, cs, pod, &fwktype.PreFilterResult{}); !st.IsSuccess() {
						c.Count("cycle_after_prefilter_failed", 1)
						continue
					}
				}
				state := getStateData(cs)
				var candNodes []string
				for _, n := range nodeNames {
					nrs := state.nodeReservationStates[n]
					if nrs == nil {
						continue
					}
					if len(nrs.matchedOrIgnored) > 0 {
						candNodes = append(candNodes, n)
					}
					for _, ri := range nrs.matchedOrIgnored {
						c.Count("matched_checked", 1)
						if !np.ignored && !c05Match(ri.Reservation.Spec.Owners, pod) {
							c.Fail("C05/owners/matched-non-owner", "cycle of pod %s/%s (labels %v, ownerRefs %v): reservation %s(%s) with owner specification %s is in the matched set of node %s",
								pod.Namespace, pod.Name, pod.Labels, pod.OwnerReferences, ri.GetName(), ri.UID(), c05OwnersStr(ri.Reservation.Spec.Owners), n)
						}
					}
				}
				node := kit.Pick(r, nodeNames)
				if len(candNodes) > 0 && r.Pct(90) {
					node = kit.Pick(r, candNodes)
				}
				var matched []*frameworkext.ReservationInfo
				if nrs := state.nodeReservationStates[node]; nrs != nil {
					matched = append(matched, nrs.matchedOrIgnored...)
				}
				sortRInfos(matched)
				takenOnce := false
				for _, ri := range matched {
					if c05AllocateOnce(ri.Reservation) && len(ri.AssignedPods) > 0 {
						takenOnce = true
					}
				}
				if takenOnce && !np.ignored {
					sawTakenOnce = true
					c.Count("cycles_with_taken_allocate_once_among_matched", 1)
				}
				nodeInfo, _ := lister.Get(node)
				fst := pl.Filter(ctx, cs, pod, nodeInfo)
				if !fst.IsSuccess() {
					c.Op("step %d cycle of %s on %s: matched=%d Filter rejected: %v", step, pod.Name, node, len(matched), fst.Message())
					c.Count("cycle_filter_rejected", 1)
					pl.DeleteNominatedReservePodOrReservation(pod) // the error handler's clean-up
					c.Seen(len(rsvs), np.affinity, minInt(len(matched), 3), takenOnce, "filter-rejected")
					continue
				}
				usePreScore, useNominate := r.Pct(50), r.Pct(35)
				if usePreScore {
					pl.PreScore(ctx, cs, pod, lister.nodeInfos)
				}
				// the gate, directly
				if !np.ignored {
					for _, ri := range matched {
						gst := pl.FilterNominateReservation(ctx, cs, pod, ri, node)
						c.Count("nominate_filter_calls", 1)
						if gst.IsSuccess() {
							c.Count("nominate_filter_passed", 1)
							if c05AllocateOnce(ri.Reservation) && len(ri.AssignedPods) > 0 {
								c.Fail("C05/allocate-once/nominate-filter-passed", "FilterNominateReservation passed allocate-once reservation %s(%s) which already has assigned pods %v for pod %s", ri.GetName(), ri.UID(), c05Keys(ri.AssignedPods), pod.Name)
							}
						} else {
							c.Count("nominate_filter_rejected", 1)
							if c05AllocateOnce(ri.Reservation) && len(ri.AssignedPods) > 0 {
								c.Count("nominate_filter_rejected_taken_allocate_once", 1)
							}
						}
					}
				}
				before := map[types.UID][]types.UID{}
				for _, x := range rsvs {
					if !x.gone {
						before[x.res.UID] = liveAssigned(x.res.UID, pod.UID)
					}
				}
				if useNominate {
					nst := pl.ReservationNominate(ctx, cs, pod, node)
					if nst.IsSuccess() && !np.ignored {
						if ri := pl.GetNominatedReservation(pod, node); ri != nil {
							c.Op("step %d cycle of %s on %s: ReservationNominate -> %s(%s)", step, pod.Name, node, ri.GetName(), ri.UID())
							checkNominated("ReservationNominate", np, ri, before[ri.UID()])
						}
					}
				}
				rst := pl.Reserve(ctx, cs, pod, node)
				pl.DeleteNominatedReservePodOrReservation(pod) // RunReservePluginsReserve's clean-up
				outcome := "reserve-failed"
				var nominated *frameworkext.ReservationInfo
				if rst.IsSuccess() {
					outcome = "no-reservation"
					if state.assumed != nil {
						outcome = "nominated"
						nominated = state.assumed
					}
				}
				c.Op("step %d cycle of %s(%s) on %s: matched=%d preScore=%v nominatePhase=%v -> %s %s", step, pod.Name, pod.UID, node, len(matched), usePreScore, useNominate, outcome,
					func() string {
						if nominated != nil {
							return fmt.Sprintf("%s(%s) othersAssigned=%v", nominated.GetName(), nominated.UID(), before[nominated.UID()])
						}
						if !rst.IsSuccess() {
							return rst.Message()
						}
						return ""
					}())
				c.Count("cycle_"+outcome, 1)
				if nominated != nil {
					c.Seen(len(rsvs), np.affinity, minInt(len(matched), 3), takenOnce, usePreScore, useNominate, outcome, nominated.Reservation.Spec.AllocatePolicy, c05AllocateOnce(nominated.Reservation))
					checkNominated("Reserve", np, nominated, before[nominated.UID()])
				} else {
					c.Seen(len(rsvs), np.affinity, minInt(len(matched), 3), takenOnce, usePreScore, useNominate, outcome)
				}
				if !rst.IsSuccess() {
					pl.Unreserve(ctx, cs, pod, node)
					continue
				}
				if nominated != nil && r.Pct(30) {
					c.Op("step %d binding of %s failed: Unreserve", step, pod.Name)
					pl.Unreserve(ctx, cs, pod, node)
					c.Count("cycle_unreserved", 1)
					if x := liveAssigned(nominated.UID(), ""); containsUID(x, pod.UID) {
						c.Fail("C05/ledger/assigned-stale", "after Unreserve pod %s is still assigned to reservation %s", pod.UID, nominated.UID())
					}
					continue
				}
				// bound: the informer confirms
				old := pod.DeepCopy()
				pod.Spec.NodeName = node
				pod.Status.Phase = corev1.PodRunning
				np.node = node
				if nominated != nil {
					apiext.SetReservationAllocated(pod, nominated.Reservation)
					np.rUID = nominated.UID()
					if x := rsvByUID(np.rUID); x == nil || x.gone {
						c.Harness("nominated reservation %s is not live", np.rUID)
					}
				}
				ph.OnUpdate(old, pod)
				c.Count("cycle_bound", 1)
			}
			if sawTakenOnce {
				c.NonTrivial()
			}
			if c.K < 2 {
				c.Sample(map[string]any{"reservations": len(rsvs), "pods": len(pods), "steps": nsteps})
			}
		})
}

func containsUID(xs []types.UID, u types.UID) bool {
	for _, x := range xs {
		if x == u {
			return true
		}
	}
	return false
}
