//go:build verif

package frameworkext

// C05 monitors at the ReservationInfo level (see /verif/DESIGN.md section 4, C05):
//
//   - owners:       ReservationInfo.MatchOwners against an independent owner matcher written from the API
//                   documentation of ReservationOwner (verdict: MatchOwners true => matcher true).
//   - rinfo-ledger: AddAssignedPod / RemoveAssignedPod / UpdateReservation histories on one ReservationInfo;
//                   after every step Allocated must equal the sum over AssignedPods of the pod's requests in the
//                   reservation's reserved dimensions, and AssignedPods must equal the shadow assignment set.

import (
	"encoding/json"
	"fmt"
	"sort"
	"strings"
	"testing"

	corev1 "k8s.io/api/core/v1"
	"k8s.io/apimachinery/pkg/api/resource"
	metav1 "k8s.io/apimachinery/pkg/apis/meta/v1"
	"k8s.io/apimachinery/pkg/types"
	"k8s.io/klog/v2"

	apiext "github.com/koordinator-sh/koordinator/apis/extension"
	schedulingv1alpha1 "github.com/koordinator-sh/koordinator/apis/scheduling/v1alpha1"
	kit "github.com/koordinator-sh/koordinator/pkg/verifkit"
)

func init() {
	klog.SetOutput(c05Discard{})
	klog.LogToStderr(false)
}

type c05Discard struct{}

func (c05Discard) Write(p []byte) (int, error) { return len(p), nil }

// ---------------------------------------------------------------------------------------------
// independent owner matcher (from the API documentation: "Multiple owner selectors are ORed", "Multiple field
// selectors are ANDed"; an absent part of an entry does not constrain; no entries match nothing; an empty entry
// matches everything). Where the documentation is silent the matcher is deliberately the WEAKER reading (it says
// "match" more often), because only "MatchOwners true => matcher true" is a verdict:
//   * object reference: only namespace / name / uid identify a pod (kind, apiVersion, resourceVersion, fieldPath
//     do not discriminate between pods and are ignored),
//   * controller reference: a nil `controller` flag on the pod's owner reference reads as false,
//   * label selector: plain set semantics evaluated term by term; a term that cannot be interpreted (unknown
//     operator) is unsatisfiable.

func c05Match(owners []schedulingv1alpha1.ReservationOwner, pod *corev1.Pod) bool {
	for i := range owners {
		o := &owners[i]
		if c05MatchObject(o.Object, pod) && c05MatchController(o.Controller, pod) && c05MatchSelector(o.LabelSelector, pod.Labels) {
			return true
		}
	}
	return false
}

func c05MatchObject(ref *corev1.ObjectReference, pod *corev1.Pod) bool {
	if ref == nil {
		return true
	}
	if ref.Namespace != "" && ref.Namespace != pod.Namespace {
		return false
	}
	if ref.Name != "" && ref.Name != pod.Name {
		return false
	}
	if ref.UID != "" && ref.UID != pod.UID {
		return false
	}
	return true
}

func c05MatchController(ref *schedulingv1alpha1.ReservationControllerReference, pod *corev1.Pod) bool {
	if ref == nil {
		return true
	}
	if ref.Namespace != "" && ref.Namespace != pod.Namespace {
		return false
	}
	for _, o := range pod.OwnerReferences {
		if ref.UID != "" && ref.UID != o.UID {
			continue
		}
		if ref.Name != "" && ref.Name != o.Name {
			continue
		}
		if ref.Kind != "" && ref.Kind != o.Kind {
			continue
		}
		if ref.APIVersion != "" && ref.APIVersion != o.APIVersion {
			continue
		}
		if ref.Controller != nil {
			oc := o.Controller != nil && *o.Controller
			if oc != *ref.Controller {
				continue
			}
		}
		return true
	}
	return false
}

func c05MatchSelector(sel *metav1.LabelSelector, lbls map[string]string) bool {
	if sel == nil {
		return true
	}
	for k, v := range sel.MatchLabels {
		if got, ok := lbls[k]; !ok || got != v {
			return false
		}
	}
	for _, e := range sel.MatchExpressions {
		got, has := lbls[e.Key]
		in := false
		for _, v := range e.Values {
			if has && v == got {
				in = true
			}
		}
		switch e.Operator {
		case metav1.LabelSelectorOpIn:
			if !in {
				return false
			}
		case metav1.LabelSelectorOpNotIn:
			if in {
				return false
			}
		case metav1.LabelSelectorOpExists:
			if !has {
				return false
			}
		case metav1.LabelSelectorOpDoesNotExist:
			if has {
				return false
			}
		default:
			return false
		}
	}
	return true
}

// ---------------------------------------------------------------------------------------------
// generators

var (
	c05LabelKeys = []string{"app", "team", "tier"}
	c05LabelVals = []string{"a", "b", "x", ""}
	c05Namespace = []string{"default", "ns1"}
	c05PodNames  = []string{"p0", "p1", "p2", "p3"}
	c05PodUIDs   = []types.UID{"u0", "u1", "u2", "u3"}
	c05CtlKinds  = []string{"ReplicaSet", "StatefulSet"}
	c05CtlNames  = []string{"rs-a", "rs-b"}
	c05CtlUIDs   = []types.UID{"c1", "c2"}
)

func c05GenLabels(r *kit.Rand) map[string]string {
	if r.Pct(10) {
		return nil
	}
	m := map[string]string{}
	for _, k := range c05LabelKeys {
		if r.Pct(55) {
			m[k] = kit.Pick(r, c05LabelVals)
		}
	}
	return m
}

func c05GenOwnerPod(r *kit.Rand) *corev1.Pod {
	p := &corev1.Pod{ObjectMeta: metav1.ObjectMeta{
		Namespace: kit.Pick(r, c05Namespace), Name: kit.Pick(r, c05PodNames), UID: kit.Pick(r, c05PodUIDs), Labels: c05GenLabels(r),
	}}
	if r.Pct(30) {
		p.TypeMeta = metav1.TypeMeta{APIVersion: "v1", Kind: "Pod"}
	}
	for n := r.Weighted(40, 45, 15); n > 0; n-- {
		o := metav1.OwnerReference{APIVersion: "apps/v1", Kind: kit.Pick(r, c05CtlKinds), Name: kit.Pick(r, c05CtlNames), UID: kit.Pick(r, c05CtlUIDs)}
		if r.Pct(20) {
			b := r.Bool()
			o.BlockOwnerDeletion = &b
		}
		switch r.Intn(3) {
		case 0:
			t := true
			o.Controller = &t
		case 1:
			f := false
			o.Controller = &f
		}
		p.OwnerReferences = append(p.OwnerReferences, o)
	}
	return p
}

func c05GenSelector(r *kit.Rand) *metav1.LabelSelector {
	s := &metav1.LabelSelector{}
	for n := r.Weighted(35, 45, 20); n > 0; n-- {
		if s.MatchLabels == nil {
			s.MatchLabels = map[string]string{}
		}
		s.MatchLabels[kit.Pick(r, c05LabelKeys)] = kit.Pick(r, c05LabelVals)
	}
	for n := r.Weighted(50, 35, 15); n > 0; n-- {
		e := metav1.LabelSelectorRequirement{Key: kit.Pick(r, c05LabelKeys)}
		switch r.Weighted(30, 25, 20, 20, 5) {
		case 0:
			e.Operator = metav1.LabelSelectorOpIn
			for m := r.Range(1, 3); m > 0; m-- {
				e.Values = append(e.Values, kit.Pick(r, c05LabelVals))
			}
		case 1:
			e.Operator = metav1.LabelSelectorOpNotIn
			for m := r.Range(1, 2); m > 0; m-- {
				e.Values = append(e.Values, kit.Pick(r, c05LabelVals))
			}
		case 2:
			e.Operator = metav1.LabelSelectorOpExists
		case 3:
			e.Operator = metav1.LabelSelectorOpDoesNotExist
		default: // a spec the parser rejects: In without values, Exists with values, unknown operator
			switch r.Intn(3) {
			case 0:
				e.Operator = metav1.LabelSelectorOpIn
			case 1:
				e.Operator = metav1.LabelSelectorOpExists
				e.Values = []string{"a"}
			default:
				e.Operator = "Near"
				e.Values = []string{"a"}
			}
		}
		s.MatchExpressions = append(s.MatchExpressions, e)
	}
	return s
}

func c05GenOwners(r *kit.Rand) []schedulingv1alpha1.ReservationOwner {
	n := r.Weighted(8, 48, 28, 10, 4, 2)
	var owners []schedulingv1alpha1.ReservationOwner
	for i := 0; i < n; i++ {
		var o schedulingv1alpha1.ReservationOwner
		if r.Pct(35) {
			ref := &corev1.ObjectReference{}
			if r.Pct(50) {
				ref.Namespace = kit.Pick(r, c05Namespace)
			}
			if r.Pct(60) {
				ref.Name = kit.Pick(r, c05PodNames)
			}
			if r.Pct(40) {
				ref.UID = kit.Pick(r, c05PodUIDs)
			}
			if r.Pct(25) {
				ref.Kind = "Pod"
			}
			if r.Pct(25) {
				ref.APIVersion = "v1"
			}
			if r.Pct(15) { // fields that do not identify a pod
				ref.ResourceVersion = "12345"
				ref.FieldPath = "spec.containers{main}"
			}
			o.Object = ref
		}
		if r.Pct(35) {
			ref := &schedulingv1alpha1.ReservationControllerReference{}
			if r.Pct(30) {
				ref.Namespace = kit.Pick(r, c05Namespace)
			}
			if r.Pct(60) {
				ref.Kind = kit.Pick(r, c05CtlKinds)
			}
			if r.Pct(60) {
				ref.Name = kit.Pick(r, c05CtlNames)
			}
			if r.Pct(30) {
				ref.UID = kit.Pick(r, c05CtlUIDs)
			}
			if r.Pct(30) {
				ref.APIVersion = "apps/v1"
			}
			switch r.Intn(4) {
			case 0:
				t := true
				ref.Controller = &t
			case 1:
				f := false
				ref.Controller = &f
			}
			if r.Pct(15) {
				b := r.Bool()
				ref.BlockOwnerDeletion = &b
			}
			o.Controller = ref
		}
		if r.Pct(60) {
			o.LabelSelector = c05GenSelector(r)
		}
		owners = append(owners, o)
	}
	return owners
}

var (
	c05CPU = []string{"0", "1m", "100m", "250m", "0.5", "500m", "999m", "1", "1001m", "1.5", "1500m", "2", "3", "4", "7", "8", "16", "64"}
	c05Mem = []string{"0", "1", "100M", "128Mi", "1Gi", "1G", "1536Mi", "0.5Gi", "1.5Gi", "2Gi", "2.5Gi", "4Gi", "8Gi", "64Gi", "9007199254740993", "4611686018427387904", "10000000000000000000"}
	c05GPU = []string{"0", "1", "2", "4"}
	c05Ext = []string{"0", "1", "1000", "1500", "4000", "32000"}
)

const (
	c05GPUName corev1.ResourceName = "example.com/gpu"
	c05ExtName corev1.ResourceName = "kubernetes.io/batch-cpu"
)

var c05ResNames = []corev1.ResourceName{corev1.ResourceCPU, corev1.ResourceMemory, c05GPUName, corev1.ResourceEphemeralStorage, c05ExtName}

func c05GenQuantity(r *kit.Rand, name corev1.ResourceName) resource.Quantity {
	switch name {
	case corev1.ResourceCPU:
		return resource.MustParse(kit.Pick(r, c05CPU))
	case c05GPUName:
		return resource.MustParse(kit.Pick(r, c05GPU))
	case c05ExtName:
		return resource.MustParse(kit.Pick(r, c05Ext))
	default:
		return resource.MustParse(kit.Pick(r, c05Mem))
	}
}

// c05GenRequests: a random subset of the resource names, possibly empty (a best-effort pod).
func c05GenRequests(r *kit.Rand, pNames []int) corev1.ResourceList {
	rl := corev1.ResourceList{}
	for i, n := range c05ResNames {
		p := 8 // names beyond the given probabilities
		if i < len(pNames) {
			p = pNames[i]
		}
		if r.Pct(p) {
			rl[n] = c05GenQuantity(r, n)
		}
	}
	return rl
}

// c05SplitContainers spreads a request list over one or two regular containers (no init containers, no overhead:
// the pod's request is then the plain sum over its containers).
func c05SplitContainers(r *kit.Rand, rl corev1.ResourceList) []corev1.Container {
	cs := []corev1.Container{{Name: "c0", Resources: corev1.ResourceRequirements{Requests: corev1.ResourceList{}}}}
	if r.Pct(30) {
		cs = append(cs, corev1.Container{Name: "c1", Resources: corev1.ResourceRequirements{Requests: corev1.ResourceList{}}})
	}
	names := make([]string, 0, len(rl))
	for n := range rl {
		names = append(names, string(n))
	}
	sort.Strings(names)
	for _, n := range names {
		q := rl[corev1.ResourceName(n)]
		if len(cs) == 2 && r.Pct(40) && q.Sign() > 0 && corev1.ResourceName(n) != c05GPUName {
			// split a/b with a = 1 unit
			one := resource.MustParse("1")
			if corev1.ResourceName(n) == corev1.ResourceCPU {
				one = resource.MustParse("1m")
			}
			if q.Cmp(one) > 0 {
				rest := q.DeepCopy()
				rest.Sub(one)
				cs[0].Resources.Requests[corev1.ResourceName(n)] = one
				cs[1].Resources.Requests[corev1.ResourceName(n)] = rest
				continue
			}
		}
		cs[r.Intn(len(cs))].Resources.Requests[corev1.ResourceName(n)] = q
	}
	return cs
}

// c05PodRequests: the pod's request, recomputed from the pod object by the Kubernetes rule for the effective
// request of a pod: per resource the larger of (sum over the regular containers) and (the largest init
// container), plus the pod overhead. Restartable (sidecar) init containers and pod-level resources are not
// generated.
func c05PodRequests(p *corev1.Pod) corev1.ResourceList {
	out := corev1.ResourceList{}
	if p == nil {
		return out
	}
	for _, ct := range p.Spec.Containers {
		for n, q := range ct.Resources.Requests {
			cur := out[n]
			cur.Add(q)
			out[n] = cur
		}
	}
	for _, ct := range p.Spec.InitContainers {
		for n, q := range ct.Resources.Requests {
			if cur, ok := out[n]; !ok || q.Cmp(cur) > 0 {
				out[n] = q.DeepCopy()
			}
		}
	}
	for n, q := range p.Spec.Overhead {
		cur := out[n]
		cur.Add(q)
		out[n] = cur
	}
	return out
}

// c05Shape gives a pod spec, with modest weight, the shapes whose request is not the plain container sum: an
// init container (15%) and a pod overhead (10%).
func c05Shape(r *kit.Rand, spec *corev1.PodSpec) {
	if r.Pct(15) {
		rl := c05GenRequests(r, []int{60, 50, 15, 10})
		spec.InitContainers = []corev1.Container{{Name: "init", Resources: corev1.ResourceRequirements{Requests: rl}}}
	}
	if r.Pct(10) {
		spec.Overhead = corev1.ResourceList{corev1.ResourceCPU: resource.MustParse(kit.Pick(r, []string{"1m", "100m", "250m"})),
			corev1.ResourceMemory: resource.MustParse(kit.Pick(r, []string{"1", "64Mi", "128Mi"}))}
	}
}

// c05Dims: the reservation's reserved dimensions, from the reservation object. The reserved resources are the
// status allocatable once the reservation is Available on a node, otherwise the template's request. For the
// Restricted policy the restricted-options annotation narrows them to the listed resources ("if no resources
// configured, by default the resources equal all reserved resources by the Reservation"). A list that names
// nothing the reservation reserves is not covered by the documentation: then the statement is taken as worded
// (all reserved resources). ok=false only for an unparsable annotation.
func c05Reserved(res *schedulingv1alpha1.Reservation) corev1.ResourceList {
	if res.Status.Phase == schedulingv1alpha1.ReservationAvailable && res.Status.NodeName != "" {
		return res.Status.Allocatable
	}
	if res.Spec.Template != nil {
		return c05PodRequests(&corev1.Pod{Spec: res.Spec.Template.Spec})
	}
	return nil
}

func c05Dims(res *schedulingv1alpha1.Reservation) (dims map[corev1.ResourceName]bool, ok bool) {
	reserved := c05Reserved(res)
	dims = map[corev1.ResourceName]bool{}
	for n := range reserved {
		dims[n] = true
	}
	if res.Spec.AllocatePolicy != schedulingv1alpha1.ReservationAllocatePolicyRestricted {
		return dims, true
	}
	s := res.Annotations[apiext.AnnotationReservationRestrictedOptions]
	if s == "" {
		return dims, true
	}
	var opt struct {
		Resources []corev1.ResourceName `json:"resources"`
	}
	if err := json.Unmarshal([]byte(s), &opt); err != nil {
		return dims, false
	}
	if len(opt.Resources) == 0 {
		return dims, true
	}
	narrowed := map[corev1.ResourceName]bool{}
	for _, n := range opt.Resources {
		if dims[n] {
			narrowed[n] = true
		}
	}
	if len(narrowed) == 0 {
		// The list names nothing the reservation reserves (a resource it does not hold, a mis-cased name).
		// The documentation of the annotation does not say what that means, so the statement applies as it is
		// worded: the reservation is Restricted and its reserved dimensions are the resources it reserves.
		return dims, true
	}
	return narrowed, true
}

// c05OptionsClass: how the restricted-options annotation of a Restricted reservation relates to what it
// reserves ("" for other policies): none / empty / subset / partial / disjoint (incl. mis-cased names).
func c05OptionsClass(res *schedulingv1alpha1.Reservation) string {
	if res == nil || res.Spec.AllocatePolicy != schedulingv1alpha1.ReservationAllocatePolicyRestricted {
		return ""
	}
	s := res.Annotations[apiext.AnnotationReservationRestrictedOptions]
	if s == "" {
		return "none"
	}
	var opt struct {
		Resources []corev1.ResourceName `json:"resources"`
	}
	if err := json.Unmarshal([]byte(s), &opt); err != nil {
		return "unparsable"
	}
	if len(opt.Resources) == 0 {
		return "empty"
	}
	reserved := c05Reserved(res)
	in, out := 0, 0
	for _, n := range opt.Resources {
		if _, ok := reserved[n]; ok {
			in++
		} else {
			out++
		}
	}
	switch {
	case in == 0:
		return "disjoint"
	case out > 0:
		return "partial"
	}
	return "subset"
}

func c05RL(rl corev1.ResourceList) string {
	names := make([]string, 0, len(rl))
	for n := range rl {
		names = append(names, string(n))
	}
	sort.Strings(names)
	var b strings.Builder
	b.WriteString("{")
	for i, n := range names {
		if i > 0 {
			b.WriteString(" ")
		}
		q := rl[corev1.ResourceName(n)]
		fmt.Fprintf(&b, "%s=%s", n, q.String())
	}
	b.WriteString("}")
	return b.String()
}

func c05DimsStr(d map[corev1.ResourceName]bool) string {
	names := make([]string, 0, len(d))
	for n := range d {
		names = append(names, string(n))
	}
	sort.Strings(names)
	return strings.Join(names, ",")
}

func c05OwnersStr(o []schedulingv1alpha1.ReservationOwner) string {
	b, _ := json.Marshal(o)
	return string(b)
}

// c05TemplateR: the same reserved amounts spread over one or two containers.
func c05TemplateR(r *kit.Rand, rl corev1.ResourceList) *corev1.PodTemplateSpec {
	return &corev1.PodTemplateSpec{Spec: corev1.PodSpec{Containers: c05SplitContainers(r, rl)}}
}

func c05Template(rl corev1.ResourceList) *corev1.PodTemplateSpec {
	return &corev1.PodTemplateSpec{Spec: corev1.PodSpec{Containers: []corev1.Container{{Name: "main", Resources: corev1.ResourceRequirements{Requests: rl.DeepCopy()}}}}}
}

// ---------------------------------------------------------------------------------------------
// (a) owners

func TestVerifC05Owners(t *testing.T) {
	kit.Run(t, kit.Config{Property: "C05", Unit: "owners", Quick: 100000, Thorough: 2000000,
		Rule: "random owner specification (0-5 entries; object ref / controller ref / label selector each present or absent, partially filled; 5% of selector terms unparsable) x random pod (namespace, name, uid, labels, 0-2 owner references), ReservationInfo built by NewReservationInfo, by UpdateReservation over a different spec, or by NewReservationInfoFromPod (owners annotation); distinct = (shape of every entry, construction path, MatchOwners, matcher); non-trivial = specification with at least one non-empty entry"},
		func(c *kit.Case) {
			r := c.R
			owners := c05GenOwners(r)
			pod := c05GenOwnerPod(r)
			path := r.Weighted(60, 25, 15)
			var ri *ReservationInfo
			res := &schedulingv1alpha1.Reservation{
				ObjectMeta: metav1.ObjectMeta{Name: "r", UID: "r-uid"},
				Spec: schedulingv1alpha1.ReservationSpec{Template: c05Template(corev1.ResourceList{corev1.ResourceCPU: resource.MustParse("4")}),
					Owners: owners},
				Status: schedulingv1alpha1.ReservationStatus{Phase: schedulingv1alpha1.ReservationAvailable, NodeName: "n0",
					Allocatable: corev1.ResourceList{corev1.ResourceCPU: resource.MustParse("4")}},
			}
			switch path {
			case 0:
				ri = NewReservationInfo(res)
			case 1:
				other := res.DeepCopy()
				other.Spec.Owners = c05GenOwners(r)
				ri = NewReservationInfo(other)
				ri.UpdateReservation(res)
			default:
				op := &corev1.Pod{ObjectMeta: metav1.ObjectMeta{Name: "op", Namespace: "default", UID: "op-uid",
					Labels: map[string]string{apiext.LabelPodOperatingMode: string(apiext.ReservationPodOperatingMode)}},
					Spec: corev1.PodSpec{NodeName: "n0"}}
				if err := apiext.SetReservationOwners(op, owners); err != nil {
					c.Harness("SetReservationOwners: %v", err)
				}
				ri = NewReservationInfoFromPod(op)
			}
			got := ri.MatchOwners(pod)
			want := c05Match(owners, pod)
			c.Op("path=%d owners=%s pod={ns=%s name=%s uid=%s labels=%v ownerRefs=%v} MatchOwners=%v matcher=%v parseError=%v",
				path, c05OwnersStr(owners), pod.Namespace, pod.Name, pod.UID, pod.Labels, pod.OwnerReferences, got, want, ri.ParseError)
			shape := ""
			nonEmpty := false
			for _, o := range owners {
				shape += fmt.Sprintf("[%v%v%v]", o.Object != nil, o.Controller != nil, o.LabelSelector != nil)
				if o.Object != nil || o.Controller != nil || o.LabelSelector != nil {
					nonEmpty = true
				}
			}
			if nonEmpty {
				c.NonTrivial()
			}
			c.Seen(shape, path, got, want, ri.ParseError != nil, len(pod.OwnerReferences), len(pod.Labels))
			c.Count("owner_checks", 1)
			if got {
				c.Count("owner_matched", 1)
			} else {
				c.Count("owner_not_matched", 1)
			}
			if ri.ParseError != nil {
				c.Count("owner_spec_unparsable", 1)
			}
			if len(owners) == 0 {
				c.Count("owner_spec_empty", 1)
			}
			if got && !want {
				c.Fail("C05/owners/matched-non-owner", "MatchOwners accepted pod %s/%s (uid %s, labels %v, ownerRefs %v) for owner specification %s, which the pod does not satisfy",
					pod.Namespace, pod.Name, pod.UID, pod.Labels, pod.OwnerReferences, c05OwnersStr(owners))
			}
			if !got && want {
				c.Count("converse_misses_owner_not_matched", 1)
				if ri.ParseError != nil {
					c.Count("converse_misses_owner_not_matched_unparsable", 1)
				}
			}
			if c.K < 3 {
				c.Sample(map[string]any{"owners": c05OwnersStr(owners), "pod_labels": pod.Labels, "pod": pod.Namespace + "/" + pod.Name, "match": got})
			}
		})
}

// ---------------------------------------------------------------------------------------------
// (b) ledger of one ReservationInfo
//
// Causal rules: a pod uid is added at most once until it is removed (a repeated add is the informer confirming
// an assumed pod: same uid, same requests); removing an unknown pod happens (forget after delete); the
// reservation object is updated only with newer versions of the same reservation (same uid); a pod's requests
// are immutable while it is assigned.

func c05GenReservation(r *kit.Rand) *schedulingv1alpha1.Reservation {
	alloc := c05GenRequests(r, []int{90, 75, 35, 15})
	if len(alloc) == 0 {
		alloc[corev1.ResourceCPU] = resource.MustParse("4")
	}
	res := &schedulingv1alpha1.Reservation{
		ObjectMeta: metav1.ObjectMeta{Name: "r", UID: "r-uid", Annotations: map[string]string{}},
		Spec: schedulingv1alpha1.ReservationSpec{Template: c05TemplateR(r, alloc),
			Owners: []schedulingv1alpha1.ReservationOwner{{}}},
		Status: schedulingv1alpha1.ReservationStatus{Phase: schedulingv1alpha1.ReservationAvailable, NodeName: "n0", Allocatable: alloc.DeepCopy()},
	}
	switch r.Weighted(30, 30, 40) {
	case 1:
		res.Spec.AllocatePolicy = schedulingv1alpha1.ReservationAllocatePolicyAligned
	case 2:
		res.Spec.AllocatePolicy = schedulingv1alpha1.ReservationAllocatePolicyRestricted
	}
	if r.Pct(50) {
		f := false
		res.Spec.AllocateOnce = &f
	}
	c05GenOptions(r, res)
	return res
}

// c05GenOptions sets / replaces / removes the restricted-options annotation and returns the class of what it
// wrote: "none" (annotation removed), "empty" (no resources configured), "subset" (only reserved resources),
// "partial" (reserved resources plus names the reservation does not reserve), "duplicates", "disjoint" (a
// non-empty list naming nothing the reservation reserves, e.g. a resource it does not hold) and "miscased"
// (disjoint by a wrong case: "CPU", "Memory").
func c05GenOptions(r *kit.Rand, res *schedulingv1alpha1.Reservation) string {
	if res.Annotations == nil {
		res.Annotations = map[string]string{}
	}
	if r.Pct(40) {
		delete(res.Annotations, apiext.AnnotationReservationRestrictedOptions)
		return "none"
	}
	reserved := c05PodRequests(&corev1.Pod{Spec: res.Spec.Template.Spec})
	var names, foreign []corev1.ResourceName
	for _, n := range c05ResNames {
		if _, ok := reserved[n]; ok {
			names = append(names, n)
		} else {
			foreign = append(foreign, n)
		}
	}
	foreign = append(foreign, "nvidia.com/gpu", "hugepages-2Mi")
	if len(names) == 0 {
		return "none"
	}
	opt := &apiext.ReservationRestrictedOptions{}
	first := kit.Pick(r, names)
	class := ""
	switch r.Weighted(44, 8, 12, 10, 14, 12) {
	case 0:
		class = "subset"
		opt.Resources = append(opt.Resources, first)
		for _, n := range names {
			if n != first && r.Pct(30) {
				opt.Resources = append(opt.Resources, n)
			}
		}
	case 1:
		class = "empty"
		opt.Resources = []corev1.ResourceName{}
	case 2:
		class = "partial"
		opt.Resources = append(opt.Resources, kit.Pick(r, foreign), first)
		if r.Bool() {
			opt.Resources = append(opt.Resources, "CPU")
		}
	case 3:
		class = "duplicates"
		opt.Resources = append(opt.Resources, first, first)
		if r.Bool() {
			opt.Resources = append(opt.Resources, kit.Pick(r, names), first)
		}
	case 4:
		class = "disjoint"
		opt.Resources = append(opt.Resources, kit.Pick(r, foreign))
		if r.Bool() {
			opt.Resources = append(opt.Resources, kit.Pick(r, foreign))
		}
	default:
		class = "miscased"
		opt.Resources = append(opt.Resources, kit.Pick(r, []corev1.ResourceName{"CPU", "Memory", "Cpu"}))
		if r.Bool() {
			opt.Resources = append(opt.Resources, "MEMORY")
		}
	}
	_ = apiext.SetReservationRestrictedOptions(res, opt)
	return class
}

type c05LPod struct {
	pod *corev1.Pod
	req corev1.ResourceList
}

func c05CheckLedger(c *kit.Case, where string, ri *ReservationInfo, res *schedulingv1alpha1.Reservation, assigned map[types.UID]*c05LPod, dimsGrew bool) {
	c.Count("ledger_checks", 1)
	// assignment set
	for uid := range assigned {
		if _, ok := ri.AssignedPods[uid]; !ok {
			c.Fail("C05/ledger/assigned-missing", "%s: pod %s is assigned to the reservation but is not in AssignedPods", where, uid)
		}
	}
	for uid := range ri.AssignedPods {
		if _, ok := assigned[uid]; !ok {
			c.Fail("C05/ledger/assigned-stale", "%s: AssignedPods holds pod %s which is not assigned to the reservation", where, uid)
		}
	}
	dims, ok := c05Dims(res)
	if !ok {
		c.Count("ledger_dims_undetermined", 1)
		return
	}
	if cl := c05OptionsClass(res); cl != "" && len(assigned) > 0 {
		c.Count("ledger_checks_assigned_options_"+cl, 1)
	}
	want := corev1.ResourceList{}
	for _, p := range assigned {
		for n, q := range p.req {
			if dims[n] {
				cur := want[n]
				cur.Add(q)
				want[n] = cur
			}
		}
	}
	names := map[corev1.ResourceName]bool{}
	for n := range want {
		names[n] = true
	}
	for n := range ri.Allocated {
		names[n] = true
	}
	for n := range names {
		w := want[n]
		g := ri.Allocated[n]
		if w.Cmp(g) != 0 {
			sig := "C05/ledger/allocated"
			if dimsGrew {
				sig = "C05/ledger/allocated-after-dimensions-grew"
			}
			c.Fail(sig, "%s: Allocated[%s]=%s but the %d assigned pods request %s in total in the reserved dimensions {%s} (Allocated=%s, want=%s)",
				where, n, g.String(), len(assigned), w.String(), c05DimsStr(dims), c05RL(ri.Allocated), c05RL(want))
		}
	}
}

func TestVerifC05RInfoLedger(t *testing.T) {
	kit.Run(t, kit.Config{Property: "C05", Unit: "rinfo-ledger", Quick: 6000, Thorough: 150000,
		Rule: "histories of 20-80 add / repeated add / remove / remove-unknown / update-reservation (allocatable amounts, allocatable names, policy, restricted options, phase) operations (10%: 80-200) on one ReservationInfo over 3-7 pods (15%: 8-12; init containers / overhead with modest weight) with boundary-biased requests up to 2^62; oracle after every step; distinct = (op, policy, #dims, #assigned, dims changed); non-trivial = a history in which an assigned pod was removed after the reservation object had been updated"},
		func(c *kit.Case) {
			r := c.R
			res := c05GenReservation(r)
			ri := NewReservationInfo(res)
			c.Op("new reservation policy=%q allocatable=%s options=%q", res.Spec.AllocatePolicy, c05RL(res.Status.Allocatable), res.Annotations[apiext.AnnotationReservationRestrictedOptions])
			npods := r.Range(3, 7)
			if r.Pct(15) {
				npods = r.Range(8, 12)
			}
			pods := make([]*c05LPod, npods)
			for i := range pods {
				rl := c05GenRequests(r, []int{80, 70, 30, 15})
				p := &corev1.Pod{ObjectMeta: metav1.ObjectMeta{Namespace: "default", Name: fmt.Sprintf("p%d", i), UID: types.UID(fmt.Sprintf("pod-%d", i))},
					Spec: corev1.PodSpec{Containers: c05SplitContainers(r, rl)}}
				c05Shape(r, &p.Spec)
				if len(p.Spec.InitContainers) > 0 || p.Spec.Overhead != nil {
					c.Count("ledger_pods_with_init_or_overhead", 1)
				}
				pods[i] = &c05LPod{pod: p, req: c05PodRequests(p)}
				c.Op("pod %d requests %s (%d containers)", i, c05RL(pods[i].req), len(p.Spec.Containers))
			}
			assigned := map[types.UID]*c05LPod{}
			// dimsSince[uid] = the dimensions that have been reserved without interruption since the pod was
			// added; grew() = some dimension reserved now was not reserved at some moment since a currently
			// assigned pod was added (used only to give that class of violation its own signature)
			dimsSince := map[types.UID]map[corev1.ResourceName]bool{}
			changed, removedAfterChange := false, false
			grew := func() bool {
				now, _ := c05Dims(res)
				for uid := range assigned {
					for n := range now {
						if !dimsSince[uid][n] {
							return true
						}
					}
				}
				return false
			}
			// 30% of the histories change the reserved dimensions of the live reservation (allocatable names,
			// policy, restricted options); the others only change amounts and phase
			dimsMayChange := r.Pct(30)
			nops := r.Range(20, 80)
			if r.Pct(10) {
				nops = r.Range(80, 200)
			}
			for step := 0; step < nops; step++ {
				op := r.Weighted(34, 6, 26, 6, 28)
				where := ""
				switch op {
				case 0, 1: // add (1: repeated add of an assigned pod)
					var p *c05LPod
					if op == 1 && len(assigned) > 0 {
						uids := make([]string, 0, len(assigned))
						for u := range assigned {
							uids = append(uids, string(u))
						}
						sort.Strings(uids)
						p = assigned[types.UID(kit.Pick(r, uids))]
					} else {
						p = kit.Pick(r, pods)
					}
					where = fmt.Sprintf("step %d add %s", step, p.pod.UID)
					c.Op("%s", where)
					ri.AddAssignedPod(p.pod.DeepCopy())
					if _, ok := assigned[p.pod.UID]; !ok {
						assigned[p.pod.UID] = p
						d, _ := c05Dims(res)
						dimsSince[p.pod.UID] = d
						c.Count("op_add", 1)
					} else {
						c.Count("op_add_repeated", 1)
					}
				case 2, 3: // remove (3: a pod that is not assigned)
					p := kit.Pick(r, pods)
					where = fmt.Sprintf("step %d remove %s", step, p.pod.UID)
					c.Op("%s", where)
					ri.RemoveAssignedPod(p.pod.DeepCopy())
					if _, ok := assigned[p.pod.UID]; ok {
						delete(assigned, p.pod.UID)
						delete(dimsSince, p.pod.UID)
						c.Count("op_remove", 1)
						if changed {
							removedAfterChange = true
						}
					} else {
						c.Count("op_remove_unknown", 1)
					}
				default: // update the reservation object
					before, _ := c05Dims(res)
					res = res.DeepCopy()
					kind := r.Weighted(30, 15, 20, 25, 10)
					if !dimsMayChange && kind >= 1 && kind <= 3 {
						kind = 0
					}
					switch kind {
					case 0: // amounts
						for n := range res.Status.Allocatable {
							if r.Pct(50) {
								res.Status.Allocatable[n] = c05GenQuantity(r, n)
							}
						}
						res.Spec.Template = c05Template(res.Status.Allocatable)
					case 1: // names (a resized / re-templated reservation)
						alloc := c05GenRequests(r, []int{90, 75, 35, 15})
						if len(alloc) == 0 {
							alloc[corev1.ResourceCPU] = resource.MustParse("2")
						}
						res.Status.Allocatable = alloc
						res.Spec.Template = c05Template(alloc)
						c05GenOptions(r, res)
					case 2: // policy
						res.Spec.AllocatePolicy = kit.Pick(r, []schedulingv1alpha1.ReservationAllocatePolicy{schedulingv1alpha1.ReservationAllocatePolicyDefault,
							schedulingv1alpha1.ReservationAllocatePolicyAligned, schedulingv1alpha1.ReservationAllocatePolicyRestricted})
					case 3: // restricted options
						if cl := c05GenOptions(r, res); len(assigned) > 0 && res.Spec.AllocatePolicy == schedulingv1alpha1.ReservationAllocatePolicyRestricted {
							c.Count("op_update_options_with_assigned_"+cl, 1)
						}
					default: // phase
						if res.Status.Phase == schedulingv1alpha1.ReservationAvailable {
							res.Status.Phase = kit.Pick(r, []schedulingv1alpha1.ReservationPhase{schedulingv1alpha1.ReservationSucceeded, schedulingv1alpha1.ReservationFailed})
						}
					}
					where = fmt.Sprintf("step %d update policy=%q phase=%s allocatable=%s options=%q", step, res.Spec.AllocatePolicy, res.Status.Phase,
						c05RL(res.Status.Allocatable), res.Annotations[apiext.AnnotationReservationRestrictedOptions])
					c.Op("%s", where)
					ri.UpdateReservation(res)
					c.Count("op_update", 1)
					after, _ := c05Dims(res)
					changed = true
					if c05DimsStr(before) != c05DimsStr(after) {
						c.Count("op_update_dims_changed", 1)
					}
					for uid := range assigned {
						for n := range dimsSince[uid] {
							if !after[n] {
								delete(dimsSince[uid], n)
							}
						}
					}
				}
				d, _ := c05Dims(res)
				g := grew()
				if g {
					c.Count("states_with_grown_dimensions", 1)
				}
				c.Seen(op, res.Spec.AllocatePolicy, len(d), len(assigned), g)
				c05CheckLedger(c, where, ri, res, assigned, g)
			}
			if removedAfterChange {
				c.NonTrivial()
			}
			if c.K < 2 {
				c.Sample(map[string]any{"allocatable": c05RL(res.Status.Allocatable), "policy": string(res.Spec.AllocatePolicy), "assigned_at_end": len(assigned), "allocated_at_end": c05RL(ri.Allocated)})
			}
		})
}
