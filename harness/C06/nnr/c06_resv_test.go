//go:build verif

package nodenumaresource

// C06, unit resv-cycle: the allocation ledger under scheduling cycles of the real Plugin on a node that
// carries reservations with per-NUMA (and cpuset) allocations and owner pods allocated inside them.
//
// One node, a real Plugin (built through the package's own test suite: framework handle, extender,
// topology manager, fake reservation nominator), a NUMA topology policy on the node (label) or on the pods.
// The history is a sequence of
//   - scheduling cycles, step by step as the scheduler runs them for one candidate node:
//     PreRestoreReservation, RestoreReservation(matched, unmatched), PreFilter, Filter (-> NUMA topology
//     manager Admit -> GetPodTopologyHints -> resourceManager.GetTopologyHints -> Allocate dry runs),
//     FilterNominateReservation, PreScore/Score, and then either nothing (the pod went elsewhere / stayed
//     pending: an evaluation only) or Reserve (books the pod) optionally followed by Unreserve;
//     cycles are run for reserve pods (creating a reservation), for pods that match 1..n reservations
//     (one of them nominated), for pods that match none, and for reservation-ignoring pods;
//   - pod deletions, reservation deletions (the owners stay), informer echoes (Update with the same
//     allocation rebuilt from the annotations).
//
// Causal rules: matched = the reservations of the node the pod matches, unmatched = the others that have
// at least one assigned pod (for a reserve pod: all reservations are passed as unmatched) - as the
// reservation plugin's BeforePreFilter computes them; ReservationInfo.AssignedPods of R = the live pods
// that were booked with R nominated; ReservationInfos are passed as clones.
//
// Oracle, after EVERY step including the read-only ones (evaluating a node changes nothing): the book
// check of c06_restart_test.go - every booked pod/reserve pod is in the ledger with exactly what it was
// booked with (the harness keeps its own deep copies), per-CPU ref count = number of holders, no CPU
// held by more real pods than the sharing limit, per-NUMA ledger amounts = sum over the live bookings.
// NOT asserted here: ledger <= NUMA capacity and the "never more than the node had free" clause - with
// reservations the reserve pod and the owners inside it are both booked by design, and what is free for
// a pod depends on which reservations it may consume.

import (
	"context"
	"encoding/json"
	"fmt"
	"sort"
	"testing"

	corev1 "k8s.io/api/core/v1"
	"k8s.io/apimachinery/pkg/api/resource"
	metav1 "k8s.io/apimachinery/pkg/apis/meta/v1"
	"k8s.io/apimachinery/pkg/types"
	fwktype "k8s.io/kube-scheduler/framework"
	k8sschedconfig "k8s.io/kubernetes/pkg/scheduler/apis/config"
	"k8s.io/kubernetes/pkg/scheduler/framework"
	st "k8s.io/kubernetes/pkg/scheduler/testing"
	"k8s.io/utils/ptr"

	"github.com/koordinator-sh/koordinator/apis/extension"
	schedulingv1alpha1 "github.com/koordinator-sh/koordinator/apis/scheduling/v1alpha1"
	schedulingconfig "github.com/koordinator-sh/koordinator/pkg/scheduler/apis/config"
	"github.com/koordinator-sh/koordinator/pkg/scheduler/frameworkext"
	"github.com/koordinator-sh/koordinator/pkg/scheduler/frameworkext/schedulingphase"
	reservationutil "github.com/koordinator-sh/koordinator/pkg/util/reservation"
	kit "github.com/koordinator-sh/koordinator/pkg/verifkit"
)

type c06Resv struct {
	r      *schedulingv1alpha1.Reservation
	rInfo  *frameworkext.ReservationInfo
	owners map[types.UID]*corev1.Pod
}

type c06PodShape struct {
	milli     int64
	mem       int64
	huge      int64
	cpuset    bool
	lse       bool
	bind      extension.CPUBindPolicy
	required  bool
	excl      extension.CPUExclusivePolicy
	ignored   bool
	policy    extension.NUMATopologyPolicy
	exclusive extension.NumaTopologyExclusive
	prio      int32
}

func (s c06PodShape) String() string {
	return fmt.Sprintf("cpu=%dm mem=%d huge=%d cpuset=%v lse=%v bind=%s required=%v excl=%s ignoreReservations=%v podPolicy=%q numaExclusive=%q prio=%d", s.milli, s.mem, s.huge, s.cpuset, s.lse, s.bind, s.required, s.excl, s.ignored, s.policy, s.exclusive, s.prio)
}

func c06ShapeMeta(s c06PodShape) (map[string]string, map[string]string) {
	labels := map[string]string{extension.LabelPodQoS: string(extension.QoSLS)}
	annotations := map[string]string{}
	if s.cpuset {
		labels[extension.LabelPodQoS] = string(extension.QoSLSR)
		if s.lse {
			labels[extension.LabelPodQoS] = string(extension.QoSLSE)
		}
		spec := &extension.ResourceSpec{PreferredCPUExclusivePolicy: s.excl}
		if s.required {
			spec.RequiredCPUBindPolicy = s.bind
		} else {
			spec.PreferredCPUBindPolicy = s.bind
		}
		holder := &metav1.ObjectMeta{}
		_ = extension.SetResourceSpec(holder, spec)
		for k, v := range holder.Annotations {
			annotations[k] = v
		}
	}
	if s.ignored {
		labels[extension.LabelReservationIgnored] = "true"
	}
	if s.policy != "" || s.exclusive != "" {
		numaSpec, _ := json.Marshal(extension.NUMATopologySpec{NUMATopologyPolicy: s.policy, SingleNUMANodeExclusive: s.exclusive})
		annotations[extension.AnnotationNUMATopologySpec] = string(numaSpec)
	}
	return labels, annotations
}

func c06ShapeSpec(s c06PodShape) corev1.PodSpec {
	reqs := corev1.ResourceList{corev1.ResourceCPU: *resource.NewMilliQuantity(s.milli, resource.DecimalSI)}
	if s.mem > 0 {
		reqs[corev1.ResourceMemory] = *resource.NewQuantity(s.mem, resource.BinarySI)
	}
	if s.huge > 0 {
		reqs[c06Hugepages] = *resource.NewQuantity(s.huge, resource.BinarySI)
	}
	return corev1.PodSpec{
		Priority:   ptr.To[int32](s.prio),
		Containers: []corev1.Container{{Name: "main", Resources: corev1.ResourceRequirements{Requests: reqs}}},
	}
}

func TestVerifC06ReservationCycles(t *testing.T) {
	kit.Run(t, kit.Config{Property: "C06", Unit: "resv-cycle", Quick: 260, Thorough: 9000,
		Rule: "one node with a real Plugin (package test suite), NUMA topology policy single-numa-node/restricted/best-effort on the node (label or NodeResourceTopology) or on the pods (with NUMA-exclusive preferred/required), 1-4 sockets / 1-6 NUMA nodes with ids contiguous, with holes, interleaved or offset, 1/2/4 threads, three cpu-id layouts, reserved CPUs (scattered/whole cores/whole NUMA node/lowest ids), cpu/memory(/hugepages) zones, maxRefCount 1-3, 20% CPU amplification 1.1/1.5/2/3, node cpu-bind-policy and numa-allocate-strategy labels, plugin args (default bind policy, NUMA scoring strategy); 18-40 steps: scheduling cycles run step by step (PreRestoreReservation, RestoreReservation, PreFilter, Filter incl. topology-manager hints, FilterNominateReservation, Score, then evaluation-only or Reserve, sometimes Unreserve; when Filter refuses, 60%: the preemption dry run RemovePod(1-3 lower-priority victims)/Filter/AddPod/Filter on the cloned state) for reserve pods, owner pods matching 1-n reservations (default/aligned/restricted allocate policy), unrelated pods and reservation-ignoring pods, NUMA-amount-only (LS) and cpuset (LSR/LSE; all bind and exclusive policies, preferred or required) shapes; pod deletions, reservation deletions, informer echoes; book oracle after every step including the read-only ones; distinct = (numa nodes, policy, step kind, #matched, #unmatched, max owners of a restored reservation, shape class, outcome); non-trivial = a node was evaluated while a restored reservation had >= 2 owner pods or >= 2 reservations were matched"},
		func(c *kit.Case) {
			r := c.R
			ctx := context.TODO()
			// ---- node
			// at most 6 NUMA nodes: GetTopologyHints evaluates every subset of them
			tp := c06Topo{sockets: kit.Pick(r, []int{1, 1, 1, 2, 2, 2, 3, 4}), nodesPerSocket: kit.Pick(r, []int{1, 1, 2}), coresPerNode: r.Range(2, 6), threads: kit.Pick(r, []int{1, 2, 2, 4})}
			if tp.sockets*tp.nodesPerSocket > 6 {
				tp.nodesPerSocket = 1
			}
			tp.layout = r.Weighted(50, 30, 20)
			if r.Pct(10) {
				tp.idGap, tp.idBase = kit.Pick(r, []int{1, 3, 7}), kit.Pick(r, []int{0, 1, 64})
			}
			tp.nodeMode = r.Weighted(64, 14, 14, 8)
			tp.socketMode = r.Weighted(90, 10)
			tp.coreMode = r.Weighted(50, 30, 20)
			tp = c06BuildTopo(tp, nil)
			topo := tp.topo
			memPerNode := int64(kit.Pick(r, []int{64, 256, 1000}))
			reserved := c06GenReserved(r, tp)
			numaRes := c06GenNUMARes(r, tp, reserved, memPerNode)
			policies := []extension.NUMATopologyPolicy{extension.NUMATopologyPolicySingleNUMANode, extension.NUMATopologyPolicyRestricted, extension.NUMATopologyPolicyBestEffort}
			nodePolicy := kit.Pick(r, policies)
			podLevel := r.Pct(20)
			capacity := map[corev1.ResourceName]string{"cpu": fmt.Sprint(topo.NumCPUs), "memory": fmt.Sprint(memPerNode * int64(topo.NumNodes)), "pods": "200"}
			node := st.MakeNode().Name(c06NodeName).Capacity(capacity).Obj()
			ratio := extension.Ratio(1)
			if r.Pct(20) {
				// CPU amplification: node annotation + amplified allocatable, as the node resource controller/webhook publish it
				ratio = kit.Pick(r, []extension.Ratio{1.1, 1.5, 2, 3})
				node = makeNode(c06NodeName, capacity, ratio)
			}
			viaLabel := r.Bool()
			if !podLevel && viaLabel {
				extension.SetNodeNUMATopologyPolicy(node, nodePolicy)
			}
			if node.Labels == nil {
				node.Labels = map[string]string{}
			}
			if r.Pct(12) {
				// the node demands cpu binding for every pod with whole CPUs (label, or the kubelet's static policy)
				node.Labels[extension.LabelNodeCPUBindPolicy] = string(kit.Pick(r, []extension.NodeCPUBindPolicy{extension.NodeCPUBindPolicyFullPCPUsOnly, extension.NodeCPUBindPolicySpreadByPCPUs}))
			}
			if r.Pct(30) {
				node.Labels[extension.LabelNodeNUMAAllocateStrategy] = string(kit.Pick(r, c06Strategies))
			}
			suit := newPluginTestSuit(t, nil, []*corev1.Node{node})
			// plugin arguments: default bind policy and NUMA scoring strategy are configuration, not constants
			if r.Pct(25) {
				suit.nodeNUMAResourceArgs.DefaultCPUBindPolicy = schedulingconfig.CPUBindPolicySpreadByPCPUs
			}
			if r.Pct(50) {
				suit.nodeNUMAResourceArgs.NUMAScoringStrategy = &schedulingconfig.ScoringStrategy{
					Type: kit.Pick(r, []schedulingconfig.ScoringStrategyType{schedulingconfig.MostAllocated, schedulingconfig.LeastAllocated}),
					Resources: []k8sschedconfig.ResourceSpec{{Name: string(corev1.ResourceCPU), Weight: 1}, {Name: string(corev1.ResourceMemory), Weight: int64(r.Range(1, 3))}},
				}
			}
			p, err := suit.proxyNew(ctx, suit.nodeNUMAResourceArgs, suit.Handle)
			if err != nil {
				c.Harness("plugin: %v", err)
			}
			pl := p.(*Plugin)
			rm, ok := pl.resourceManager.(*resourceManager)
			if !ok {
				c.Harness("unexpected resource manager %T", pl.resourceManager)
			}
			nominator, ok := pl.handle.GetReservationNominator().(*frameworkext.FakeNominator)
			if !ok {
				c.Harness("unexpected nominator %T", pl.handle.GetReservationNominator())
			}
			maxRef := kit.Pick(r, []int{1, 1, 1, 1, 2, 3})
			pl.topologyOptionsManager.UpdateTopologyOptions(c06NodeName, func(o *TopologyOptions) {
				o.CPUTopology = topo
				o.MaxRefCount = maxRef
				o.ReservedCPUs = reserved
				for _, nr := range numaRes {
					o.NUMANodeResources = append(o.NUMANodeResources, NUMANodeResource{Node: nr.Node, Resources: nr.Resources.DeepCopy()})
				}
				if !podLevel && !viaLabel {
					o.NUMATopologyPolicy = nodePolicy // as reported by the NodeResourceTopology
				}
			})
			nodeInfo, _ := suit.Handle.SnapshotSharedLister().NodeInfos().Get(c06NodeName)
			if nodeInfo == nil || nodeInfo.Node() == nil {
				c.Harness("node missing from the snapshot")
			}
			c.Op("node topo=%s reserved=%s numa=%s policy=%s (podLevel=%v viaLabel=%v) maxRef=%d cpuAmplification=%v labels=%v defaultBind=%s", tp, reserved.String(), c06NUMAResStr(numaRes), nodePolicy, podLevel, viaLabel, maxRef, ratio, node.Labels, suit.nodeNUMAResourceArgs.DefaultCPUBindPolicy)
			if !reserved.IsEmpty() {
				c.Count("resv_rounds_with_reserved_cpus", 1)
			}
			if tp.nodeMode != 0 {
				c.Count("resv_rounds_numa_ids_not_0_to_k", 1)
			}
			if ratio > 1 {
				c.Count("resv_rounds_with_cpu_amplification", 1)
			}

			book := c06NewBook()
			spec := c06LedgerSpec{topo: topo, maxRef: maxRef, reserved: reserved, numaCap: numaRes, capacity: false}
			check := func(where string) { c06CheckBook(c, rm, c06NodeName, spec, book, where) }

			var resvs []*c06Resv
			pods := map[types.UID]*corev1.Pod{} // live real pods
			ownerOf := map[types.UID]*c06Resv{}
			seq := 0

			genShape := func(forReservation bool) c06PodShape {
				s := c06PodShape{prio: int32(r.Range(int(extension.PriorityProdValueMin), int(extension.PriorityProdValueMax)))}
				s.cpuset = r.Pct(25)
				maxCPU := maxInt(1, topo.CPUsPerNode())
				if r.Pct(10) {
					maxCPU = maxInt(1, topo.NumCPUs/2) // larger than one NUMA node
				}
				if forReservation {
					s.milli = int64(r.Range(1, maxCPU)) * 1000
					s.mem = int64(r.Range(0, int(memPerNode/2)))
				} else {
					s.milli = int64(kit.Pick(r, []int{500, 1000, 1000, 1500, 2000, 3000}))
					s.mem = int64(r.Range(0, int(memPerNode/4)))
				}
				if s.cpuset {
					s.milli = (s.milli + 999) / 1000 * 1000
					s.bind = kit.Pick(r, []extension.CPUBindPolicy{extension.CPUBindPolicyFullPCPUs, extension.CPUBindPolicySpreadByPCPUs, extension.CPUBindPolicyDefault, extension.CPUBindPolicyConstrainedBurst})
					s.required = r.Pct(30)
					s.lse = r.Pct(20)
					s.excl = kit.Pick(r, []extension.CPUExclusivePolicy{"", "", extension.CPUExclusivePolicyNone, extension.CPUExclusivePolicyPCPULevel, extension.CPUExclusivePolicyNUMANodeLevel})
				}
				if r.Pct(10) {
					s.huge = int64(r.Range(1, 8))
				}
				if !forReservation {
					s.ignored = r.Pct(8)
				}
				if podLevel {
					s.policy = kit.Pick(r, append([]extension.NUMATopologyPolicy{""}, policies...))
				}
				if r.Pct(12) {
					s.exclusive = kit.Pick(r, []extension.NumaTopologyExclusive{extension.NumaTopologyExclusivePreferred, extension.NumaTopologyExclusiveRequired})
				}
				return s
			}
			liveResvs := func() []*c06Resv { return resvs }
			uidsOf := func(rs []*c06Resv) []string {
				var out []string
				for _, x := range rs {
					out = append(out, x.r.Name)
				}
				return out
			}

			// preemptEval: the pod did not fit; the preemption dry run of PostFilter for this node: the plugin's
			// RemovePod for 1-3 lower-priority victims, Filter on the cloned state, AddPod for one reprieved victim,
			// Filter again. Nothing is booked. The reservation a victim was allocated from is told by the reservation
			// cache; the test suite has none and the plugin then asks the nominator, so the owners are registered there
			// for the duration of the evaluation.
			preemptEval := func(cs fwktype.CycleState, pod *corev1.Pod) {
				var cands []types.UID
				for uid, v := range pods {
					if *v.Spec.Priority < *pod.Spec.Priority {
						cands = append(cands, uid)
					}
				}
				if len(cands) == 0 {
					return
				}
				sort.Slice(cands, func(i, j int) bool { return cands[i] < cands[j] })
				kit.Shuffle(r, cands)
				if len(cands) > 3 {
					cands = cands[:3]
				}
				cands = cands[:r.Range(1, len(cands))]
				cs2 := cs.Clone()
				schedulingphase.RecordPhase(cs2, schedulingphase.PostFilter)
				for uid, o := range ownerOf {
					nominator.AddNominatedReservation(pods[uid], c06NodeName, o.rInfo.Clone())
				}
				defer func() {
					for uid := range ownerOf {
						nominator.RemoveNominatedReservations(pods[uid])
					}
				}()
				c.Op("  preemption dry run: victims %v", cands)
				for _, uid := range cands {
					pi, _ := framework.NewPodInfo(pods[uid])
					pl.RemovePod(ctx, cs2, pod, pi, nodeInfo)
					check("after RemovePod(" + string(uid) + ") in the preemption dry run for " + pod.Name)
				}
				s := pl.Filter(ctx, cs2, pod, nodeInfo)
				check("after Filter in the preemption dry run for " + pod.Name)
				c.Count("resv_preemption_dry_runs", 1)
				if s.IsSuccess() {
					c.Count("resv_preemption_dry_runs_fit", 1)
				}
				pi, _ := framework.NewPodInfo(pods[cands[0]])
				pl.AddPod(ctx, cs2, pod, pi, nodeInfo)
				check("after AddPod(" + string(cands[0]) + ") in the preemption dry run for " + pod.Name)
				pl.Filter(ctx, cs2, pod, nodeInfo)
				check("after the second Filter in the preemption dry run for " + pod.Name)
			}

			// cycle runs one scheduling cycle of pod for this node. commit=false stops after the read-only steps.
			cycle := func(kind string, pod *corev1.Pod, shape c06PodShape, matched, unmatched []*c06Resv, nominated *c06Resv, commit bool) {
				maxOwners := 0
				for _, x := range append(append([]*c06Resv{}, matched...), unmatched...) {
					if len(x.owners) > maxOwners {
						maxOwners = len(x.owners)
					}
				}
				if maxOwners >= 2 || len(matched) >= 2 {
					c.NonTrivial()
					c.Count("resv_cycles_with_shared_numa_contributors", 1)
				}
				nom := ""
				if nominated != nil {
					nom = nominated.r.Name
				}
				c.Op("cycle %s pod=%s {%s} matched=%v unmatched=%v nominated=%q commit=%v", kind, pod.Name, shape, uidsOf(matched), uidsOf(unmatched), nom, commit)
				outcome := "?"
				defer func() {
					c.Seen("resv", topo.NumNodes, tp.nodeMode, nodePolicy, podLevel, ratio > 1, !reserved.IsEmpty(), kind, len(matched), len(unmatched), maxOwners, shape.cpuset, shape.required, shape.ignored, shape.policy, commit, outcome)
				}()
				cs := framework.NewCycleState()
				if s := pl.PreRestoreReservation(ctx, cs, pod); !s.IsSuccess() {
					outcome = "prerestore-failed"
					return
				}
				if len(matched)+len(unmatched) > 0 {
					var m, u []*frameworkext.ReservationInfo
					for _, x := range matched {
						m = append(m, x.rInfo.Clone())
					}
					for _, x := range unmatched {
						u = append(u, x.rInfo.Clone())
					}
					_, s := pl.RestoreReservation(ctx, cs, pod, m, u, nodeInfo)
					c.Count("resv_restore_calls", 1)
					check("after RestoreReservation for " + pod.Name)
					if !s.IsSuccess() {
						outcome = "restore-failed"
						return
					}
				}
				_, s := pl.PreFilter(ctx, cs, pod, nil)
				if !s.IsSuccess() {
					outcome = "prefilter:" + s.Code().String()
					c.Op("  PreFilter -> %s %s", s.Code(), s.Message())
					return
				}
				s = pl.Filter(ctx, cs, pod, nodeInfo)
				c.Count("resv_filter_calls", 1)
				check("after Filter for " + pod.Name)
				if !s.IsSuccess() {
					outcome = "filtered"
					c.Count("resv_filter_rejected", 1)
					c.Op("  Filter -> %s %s", s.Code(), s.Message())
					if r.Pct(60) {
						preemptEval(cs, pod)
					}
					return
				}
				if nominated != nil {
					s = pl.FilterNominateReservation(ctx, cs, pod, nominated.rInfo.Clone(), c06NodeName)
					c.Count("resv_filter_nominate_calls", 1)
					check("after FilterNominateReservation for " + pod.Name)
					if !s.IsSuccess() {
						outcome = "nominate-filtered"
						c.Op("  FilterNominateReservation -> %s %s", s.Code(), s.Message())
						return
					}
					nominator.AddNominatedReservation(pod, c06NodeName, nominated.rInfo.Clone())
					defer nominator.RemoveNominatedReservations(pod)
				}
				if r.Pct(50) {
					if ps := pl.PreScore(ctx, cs, pod, []fwktype.NodeInfo{nodeInfo}); ps.IsSuccess() {
						pl.Score(ctx, cs, pod, nodeInfo)
						c.Count("resv_score_calls", 1)
						check("after Score for " + pod.Name)
					}
				}
				if !commit {
					outcome = "evaluated"
					c.Count("resv_evaluations_only", 1)
					return
				}
				s = pl.Reserve(ctx, cs, pod, c06NodeName)
				state, _ := getPreFilterState(cs)
				if !s.IsSuccess() {
					outcome = "reserve-failed"
					c.Count("resv_reserve_failed", 1)
					c.Op("  Reserve -> %s %s", s.Code(), s.Message())
					check("after failed Reserve of " + pod.Name)
					return
				}
				if state == nil || state.allocation == nil {
					outcome = "reserved-nothing"
					c.Op("  Reserve -> ok, nothing to book")
					check("after Reserve (nothing booked) of " + pod.Name)
					return
				}
				if state.allocation.UID != pod.UID {
					c.Fail("C06/reserve/wrong-pod", "Reserve of pod %s booked an allocation under uid %s", pod.UID, state.allocation.UID)
				}
				book.allocs[pod.UID] = c06CopyAlloc(state.allocation)
				c.Op("  Reserve -> ok %s", c06AllocStr(state.allocation))
				// a required full-core / spread policy that is reported satisfied really is. Required: by the pod
				// (annotation; "Default" means the plugin's configured default) or by the node (label)
				if got := state.allocation.CPUSet; !got.IsEmpty() {
					eff := schedulingconfig.CPUBindPolicy("")
					switch extension.NodeCPUBindPolicy(node.Labels[extension.LabelNodeCPUBindPolicy]) {
					case extension.NodeCPUBindPolicyFullPCPUsOnly:
						eff = schedulingconfig.CPUBindPolicyFullPCPUs
					case extension.NodeCPUBindPolicySpreadByPCPUs:
						eff = schedulingconfig.CPUBindPolicySpreadByPCPUs
					default:
						if shape.cpuset && shape.required {
							eff = schedulingconfig.CPUBindPolicy(shape.bind)
							if eff == schedulingconfig.CPUBindPolicyDefault {
								eff = suit.nodeNUMAResourceArgs.DefaultCPUBindPolicy
							}
						}
					}
					if eff == schedulingconfig.CPUBindPolicyFullPCPUs {
						c.Count("resv_required_fullpcpus_reserved", 1)
						if !c06FullCores(topo, got) {
							c.Fail("C06/allocate/fullpcpus-not-satisfied", "Reserve of %s: required FullPCPUs reported satisfied but %s does not consist of whole cores", pod.Name, got.String())
						}
					}
					if eff == schedulingconfig.CPUBindPolicySpreadByPCPUs {
						c.Count("resv_required_spread_reserved", 1)
						if !c06OnePerCore(topo, got) {
							c.Fail("C06/allocate/spread-not-satisfied", "Reserve of %s: required SpreadByPCPUs reported satisfied but %s has two CPUs of one core", pod.Name, got.String())
						}
					}
					if int64(got.Size())*1000 != shape.milli {
						c.Fail("C06/allocate/wrong-count", "Reserve of %s booked cpuset %s (%d CPUs), the pod requests %dm", pod.Name, got.String(), got.Size(), shape.milli)
					}
				}
				c.Count("resv_reserved", 1)
				if len(state.allocation.NUMANodeResources) > 0 {
					c.Count("resv_reserved_with_numa_amounts", 1)
				}
				outcome = "reserved"
				if kind == "reserve-pod" {
					book.reserve[pod.UID] = true
				} else {
					pods[pod.UID] = pod
					if nominated != nil {
						nominated.rInfo.AddAssignedPod(pod)
						nominated.owners[pod.UID] = pod
						ownerOf[pod.UID] = nominated
						c.Count("resv_owner_pods_booked", 1)
					}
				}
				check("after Reserve of " + pod.Name)
				if kind != "reserve-pod" && r.Pct(8) {
					// binding failed: Unreserve
					pl.Unreserve(ctx, cs, pod, c06NodeName)
					c.Op("  Unreserve %s", pod.Name)
					delete(book.allocs, pod.UID)
					delete(pods, pod.UID)
					if o := ownerOf[pod.UID]; o != nil {
						o.rInfo.RemoveAssignedPod(pod)
						delete(o.owners, pod.UID)
						delete(ownerOf, pod.UID)
					}
					outcome = "unreserved"
					check("after Unreserve of " + pod.Name)
				}
			}

			sortedPods := func() []types.UID {
				out := make([]types.UID, 0, len(pods))
				for uid := range pods {
					out = append(out, uid)
				}
				sort.Slice(out, func(i, j int) bool { return out[i] < out[j] })
				return out
			}

			nsteps := r.Range(18, 40)
			for step := 0; step < nsteps; step++ {
				w := []int{14, 40, 12, 14, 5, 8, 7}
				if len(resvs) == 0 {
					w = []int{60, 10, 10, 10, 0, 5, 5}
				} else if len(resvs) >= 3 {
					w[0] = 2
				}
				switch k := r.Weighted(w...); k {
				case 0: // a new reservation is scheduled onto the node (its reserve pod goes through the cycle)
					seq++
					shape := genShape(true)
					labels, annotations := c06ShapeMeta(shape)
					rsv := &schedulingv1alpha1.Reservation{
						ObjectMeta: metav1.ObjectMeta{Name: fmt.Sprintf("resv-%d", seq), UID: types.UID(fmt.Sprintf("resv-uid-%d", seq))},
						Spec: schedulingv1alpha1.ReservationSpec{
							AllocatePolicy: kit.Pick(r, []schedulingv1alpha1.ReservationAllocatePolicy{
								schedulingv1alpha1.ReservationAllocatePolicyDefault, schedulingv1alpha1.ReservationAllocatePolicyDefault,
								schedulingv1alpha1.ReservationAllocatePolicyAligned, schedulingv1alpha1.ReservationAllocatePolicyRestricted}),
							Template: &corev1.PodTemplateSpec{ObjectMeta: metav1.ObjectMeta{Labels: labels, Annotations: annotations}, Spec: c06ShapeSpec(shape)},
						},
					}
					reservePod := reservationutil.NewReservePod(rsv)
					before := len(book.allocs)
					cycle("reserve-pod", reservePod, shape, nil, liveResvs(), nil, true)
					if len(book.allocs) > before {
						rsv.Status.NodeName = c06NodeName
						rsv.Status.Phase = schedulingv1alpha1.ReservationAvailable
						resvs = append(resvs, &c06Resv{r: rsv, rInfo: frameworkext.NewReservationInfo(rsv), owners: map[types.UID]*corev1.Pod{}})
						c.Count("resv_reservations_booked", 1)
					}
				case 1, 2, 3: // 1: a pod matching >= 1 reservation is scheduled; 2: only evaluated; 3: unrelated pod
					seq++
					shape := genShape(false)
					labels, annotations := c06ShapeMeta(shape)
					pod := &corev1.Pod{ObjectMeta: metav1.ObjectMeta{Name: fmt.Sprintf("pod-%d", seq), Namespace: "default", UID: types.UID(fmt.Sprintf("pod-uid-%d", seq)), Labels: labels, Annotations: annotations}, Spec: c06ShapeSpec(shape)}
					var matched, unmatched []*c06Resv
					for _, x := range resvs {
						if k != 3 && r.Pct(65) {
							matched = append(matched, x)
						} else if len(x.owners) > 0 {
							unmatched = append(unmatched, x)
						}
					}
					var nominated *c06Resv
					if len(matched) > 0 && !shape.ignored && r.Pct(85) {
						nominated = kit.Pick(r, matched)
					}
					kind := "pod"
					if len(matched) > 0 {
						kind = "matching-pod"
					}
					if shape.ignored {
						kind = "ignoring-pod"
					}
					cycle(kind, pod, shape, matched, unmatched, nominated, k != 2 && r.Pct(85))
				case 4: // a reservation is deleted / expires; its owners keep running
					x := kit.Pick(r, resvs)
					c.Op("delete reservation %s (owners=%d)", x.r.Name, len(x.owners))
					rm.Release(c06NodeName, x.r.UID)
					delete(book.allocs, x.r.UID)
					delete(book.reserve, x.r.UID)
					for uid := range x.owners {
						delete(ownerOf, uid)
					}
					var rest []*c06Resv
					for _, y := range resvs {
						if y != x {
							rest = append(rest, y)
						}
					}
					resvs = rest
					c.Count("resv_reservations_deleted", 1)
					check("after deleting reservation " + x.r.Name)
				case 5: // a pod is deleted
					uids := sortedPods()
					if len(uids) == 0 {
						continue
					}
					uid := kit.Pick(r, uids)
					pod := pods[uid]
					c.Op("delete pod %s (owner of %v)", pod.Name, ownerOf[uid] != nil)
					rm.Release(c06NodeName, uid)
					delete(book.allocs, uid)
					delete(pods, uid)
					if o := ownerOf[uid]; o != nil {
						o.rInfo.RemoveAssignedPod(pod)
						delete(o.owners, uid)
						delete(ownerOf, uid)
					}
					c.Count("resv_pods_deleted", 1)
					check("after deleting pod " + pod.Name)
				case 6: // informer echo of a booked pod / reservation
					uids := book.uids()
					if len(uids) == 0 {
						continue
					}
					uid := kit.Pick(r, uids)
					c.Op("informer echo of %s", uid)
					rm.Update(c06NodeName, c06CopyAlloc(book.allocs[uid]))
					check("after informer echo of " + string(uid))
				}
			}
			// everything goes away
			for _, uid := range book.uids() {
				rm.Release(c06NodeName, uid)
				delete(book.allocs, uid)
			}
			c.Op("release all")
			check("after releasing everything")
			na := rm.GetNodeAllocation(c06NodeName)
			for n, res := range na.allocatedResources {
				for name, q := range res.Resources {
					if !q.IsZero() {
						c.Fail("C06/ledger/not-empty", "after releasing every pod NUMA node %d still accounts %s=%s", n, name, q.String())
					}
				}
			}
			if len(na.allocatedCPUs) != 0 || len(na.allocatedPods) != 0 {
				c.Fail("C06/ledger/not-empty", "after releasing every pod the ledger still holds %d CPUs / %d pods", len(na.allocatedCPUs), len(na.allocatedPods))
			}
			c.Count("resv_rounds", 1)
			if c.K < 2 {
				ops := c.Ops()
				if len(ops) > 14 {
					ops = ops[:14]
				}
				c.Sample(ops)
			}
		})
}
