//go:build verif

package nodenumaresource

// C06 monitors: CPU-set picking (takeCPUs / takePreferredCPUs), the node allocation ledger under
// Allocate/Update/Release histories on a real resourceManager, and the NUMA split
// (tryBestToDistributeEvenly). See /verif/DESIGN.md section 4, C06.

import (
	"fmt"
	"sort"
	"sync"
	"testing"

	corev1 "k8s.io/api/core/v1"
	"k8s.io/apimachinery/pkg/api/resource"
	metav1 "k8s.io/apimachinery/pkg/apis/meta/v1"
	"k8s.io/apimachinery/pkg/types"
	"k8s.io/klog/v2"

	schedulingconfig "github.com/koordinator-sh/koordinator/pkg/scheduler/apis/config"
	"github.com/koordinator-sh/koordinator/pkg/scheduler/frameworkext/topologymanager"
	"github.com/koordinator-sh/koordinator/pkg/util/bitmask"
	"github.com/koordinator-sh/koordinator/pkg/util/cpuset"
	kit "github.com/koordinator-sh/koordinator/pkg/verifkit"
)

func init() {
	klog.SetOutput(discardWriter{})
	klog.LogToStderr(false)
}

type discardWriter struct{}

func (discardWriter) Write(p []byte) (int, error) { return len(p), nil }

// ---------------------------------------------------------------------------------------------
// topology generation

type c06Topo struct {
	sockets, nodesPerSocket, coresPerNode, threads int
	sparse                                          bool
	topo                                            *CPUTopology
}

func (t c06Topo) String() string {
	return fmt.Sprintf("%dx%dx%dx%d sparse=%v", t.sockets, t.nodesPerSocket, t.coresPerNode, t.threads, t.sparse)
}

// c06GenTopo builds a topology through the package's own builder. With sparse ids the logical CPU
// ids follow the usual Linux layout (thread siblings are cpu and cpu+N/threads) instead of being
// adjacent.
func c06GenTopo(r *kit.Rand) c06Topo {
	t := c06Topo{
		sockets:        kit.Pick(r, []int{1, 1, 2, 2, 2, 3, 4}),
		nodesPerSocket: kit.Pick(r, []int{1, 1, 2, 2, 4}),
		coresPerNode:   r.Range(1, 8),
		threads:        kit.Pick(r, []int{1, 2, 2, 2, 4}),
		sparse:         r.Pct(40),
	}
	b := NewCPUTopologyBuilder()
	cores := t.sockets * t.nodesPerSocket * t.coresPerNode
	coreID := 0
	for s := 0; s < t.sockets; s++ {
		for n := 0; n < t.nodesPerSocket; n++ {
			nodeID := s*t.nodesPerSocket + n
			for c := 0; c < t.coresPerNode; c++ {
				for p := 0; p < t.threads; p++ {
					cpuID := coreID*t.threads + p
					if t.sparse {
						cpuID = p*cores + coreID
					}
					b.AddCPUInfo(s, nodeID, coreID, cpuID)
				}
				coreID++
			}
		}
	}
	t.topo = b.Result()
	return t
}

var c06BindPolicies = []schedulingconfig.CPUBindPolicy{
	schedulingconfig.CPUBindPolicyDefault, schedulingconfig.CPUBindPolicyFullPCPUs,
	schedulingconfig.CPUBindPolicySpreadByPCPUs, schedulingconfig.CPUBindPolicyConstrainedBurst,
}
var c06ExclPolicies = []schedulingconfig.CPUExclusivePolicy{
	schedulingconfig.CPUExclusivePolicyNone, schedulingconfig.CPUExclusivePolicyPCPULevel, schedulingconfig.CPUExclusivePolicyNUMANodeLevel,
}
var c06Strategies = []schedulingconfig.NUMAAllocateStrategy{
	schedulingconfig.NUMAMostAllocated, schedulingconfig.NUMALeastAllocated, schedulingconfig.NUMADistributeEvenly,
}

func c06FullCores(topo *CPUTopology, cpus cpuset.CPUSet) bool {
	// every touched core is completely inside the set
	for _, cpu := range cpus.ToSliceNoSort() {
		core := topo.CPUDetails[cpu].CoreID
		for id, info := range topo.CPUDetails {
			if info.CoreID == core && !cpus.Contains(id) {
				return false
			}
		}
	}
	return true
}

func c06OnePerCore(topo *CPUTopology, cpus cpuset.CPUSet) bool {
	seen := map[int]bool{}
	for _, cpu := range cpus.ToSliceNoSort() {
		core := topo.CPUDetails[cpu].CoreID
		if seen[core] {
			return false
		}
		seen[core] = true
	}
	return true
}

// ---------------------------------------------------------------------------------------------
// (a) takeCPUs / takePreferredCPUs

func TestVerifC06TakeCPUs(t *testing.T) {
	kit.Run(t, kit.Config{Property: "C06", Unit: "takecpus", Quick: 20000, Thorough: 1000000,
		Rule: "random topology (sockets x numa x cores x threads, dense or sibling-sparse ids), random per-CPU ref counts/exclusive marks, reserved set, maxRefCount 1-3, all bind/exclusive policies and NUMA strategies, request 1..avail+1; distinct = (topology, policy, exclusive, strategy, maxRef, request, free-pattern class, outcome); non-trivial = asymmetric free set (some but not all CPUs free)"},
		func(c *kit.Case) {
			r := c.R
			tp := c06GenTopo(r)
			topo := tp.topo
			maxRef := kit.Pick(r, []int{1, 1, 1, 2, 3})
			all := topo.CPUDetails.CPUs().ToSlice()
			allocated := NewCPUDetails()
			fill := r.Intn(101)
			for _, id := range all {
				if r.Pct(fill) {
					info := topo.CPUDetails[id]
					info.RefCount = r.Range(1, maxRef)
					info.ExclusivePolicy = kit.Pick(r, c06ExclPolicies)
					allocated[id] = info
				}
			}
			full := allocated.CPUs().Filter(func(id int) bool { return allocated[id].RefCount >= maxRef })
			reserved := cpuset.NewCPUSet()
			if r.Pct(30) {
				b := cpuset.NewCPUSetBuilder()
				for _, id := range all {
					if r.Pct(15) {
						b.Add(id)
					}
				}
				reserved = b.Result()
			}
			available := topo.CPUDetails.CPUs().Difference(full).Difference(reserved)
			if r.Pct(25) && topo.NumNodes > 1 {
				// restricted to one NUMA node as allocateCPUSet does
				available = available.Intersection(topo.CPUDetails.CPUsInNUMANodes(r.Intn(topo.NumNodes)))
			}
			n := r.Range(1, available.Size()+1)
			bind := kit.Pick(r, c06BindPolicies)
			excl := kit.Pick(r, c06ExclPolicies)
			strat := kit.Pick(r, c06Strategies)
			preferred := cpuset.NewCPUSet()
			usePreferred := r.Pct(30)
			if usePreferred {
				b := cpuset.NewCPUSetBuilder()
				for _, id := range all {
					if r.Pct(30) {
						b.Add(id)
					}
				}
				preferred = b.Result()
			}
			c.Op("topo=%s maxRef=%d allocated=%v reserved=%s available=%s n=%d bind=%s excl=%s strat=%s preferred=%v(%s)",
				tp, maxRef, c06Details(allocated), reserved.String(), available.String(), n, bind, excl, strat, usePreferred, preferred.String())
			var res cpuset.CPUSet
			var err error
			if usePreferred {
				res, err = takePreferredCPUs(topo, maxRef, available, preferred, allocated, n, bind, excl, strat)
			} else {
				res, err = takeCPUs(topo, maxRef, available, allocated, n, bind, excl, strat)
			}
			freeClass := "all"
			if available.Size() == 0 {
				freeClass = "none"
			} else if available.Size() < len(all) {
				freeClass = "partial"
				c.NonTrivial()
			}
			c.Seen(tp.String(), bind, excl, strat, maxRef, n, freeClass, err == nil)
			if err != nil {
				c.Count("takecpus_fail", 1)
				if available.Size() >= n {
					c.Count("converse_misses_fail_with_enough_available", 1)
				}
				return
			}
			c.Count("takecpus_ok", 1)
			if res.Size() != n {
				c.Fail("C06/takecpus/wrong-count", "takeCPUs succeeded with %d CPUs (%s), requested %d", res.Size(), res.String(), n)
			}
			if !res.IsSubsetOf(available) {
				c.Fail("C06/takecpus/not-available", "takeCPUs returned %s, not a subset of the available set %s", res.String(), available.String())
			}
			if !res.Intersection(reserved).IsEmpty() {
				c.Fail("C06/takecpus/reserved", "takeCPUs returned reserved CPUs %s", res.Intersection(reserved).String())
			}
			if c.K < 3 {
				c.Sample(map[string]any{"topology": tp.String(), "available": available.String(), "request": n, "bind": bind, "exclusive": excl, "result": res.String()})
			}
		})
}

func c06Details(d CPUDetails) string {
	ids := d.CPUs().ToSlice()
	s := ""
	for _, id := range ids {
		s += fmt.Sprintf("%d:r%d:%s ", id, d[id].RefCount, d[id].ExclusivePolicy)
	}
	return s
}

// ---------------------------------------------------------------------------------------------
// (b) ledger under Allocate -> Update -> Release histories on a real resourceManager

type c06Pod struct {
	uid   types.UID
	alloc *PodAllocation // nil when not live
}

func TestVerifC06Ledger(t *testing.T) {
	kit.Run(t, kit.Config{Property: "C06", Unit: "ledger", Quick: 400, Thorough: 12000,
		Rule: "histories of 50-300 allocate(+commit)/re-allocate/release/double-release/release-unknown operations over 3-10 pods on one node of a real resourceManager, random topology, maxRefCount 1-3, reserved CPUs, NUMA hints over random subsets; oracle after every step; distinct = (topology, maxRef, op, policy, outcome, live pods); non-trivial = case in which an allocation was refused for lack of CPUs and a later one succeeded after a release"},
		func(c *kit.Case) {
			r := c.R
			tp := c06GenTopo(r)
			topo := tp.topo
			maxRef := kit.Pick(r, []int{1, 1, 1, 2, 3})
			reserved := cpuset.NewCPUSet()
			if r.Pct(40) {
				b := cpuset.NewCPUSetBuilder()
				for id := range topo.CPUDetails {
					if r.Pct(12) {
						b.Add(id)
					}
				}
				reserved = b.Result()
			}
			memPerNode := int64(kit.Pick(r, []int{16, 64, 100, 1 << 20}))
			var numaRes []NUMANodeResource
			for n := 0; n < topo.NumNodes; n++ {
				numaRes = append(numaRes, NUMANodeResource{Node: n, Resources: corev1.ResourceList{
					corev1.ResourceCPU:    *resource.NewMilliQuantity(int64(topo.CPUsPerNode())*1000, resource.DecimalSI),
					corev1.ResourceMemory: *resource.NewQuantity(memPerNode, resource.BinarySI),
				}})
			}
			tom := NewTopologyOptionsManager()
			const nodeName = "n0"
			tom.UpdateTopologyOptions(nodeName, func(o *TopologyOptions) {
				o.CPUTopology = topo
				o.MaxRefCount = maxRef
				o.ReservedCPUs = reserved
				o.NUMANodeResources = numaRes
			})
			rm := &resourceManager{
				numaAllocateStrategy:   kit.Pick(r, c06Strategies),
				topologyOptionsManager: tom,
				nodeAllocations:        map[string]*NodeAllocation{},
			}
			node := &corev1.Node{ObjectMeta: metav1.ObjectMeta{Name: nodeName}}
			c.Op("topo=%s maxRef=%d reserved=%s mem/node=%d strategy=%s", tp, maxRef, reserved.String(), memPerNode, rm.numaAllocateStrategy)
			npods := r.Range(3, 10)
			pods := make([]*c06Pod, npods)
			for i := range pods {
				pods[i] = &c06Pod{uid: types.UID(fmt.Sprintf("pod-%d", i))}
			}
			nops := r.Range(50, 300)
			refusedOnce, okAfterRefuse := false, false
			check := func(where string) {
				na := rm.GetNodeAllocation(nodeName)
				na.lock.RLock()
				defer na.lock.RUnlock()
				holders := map[int]int{}
				sumRes := map[int]corev1.ResourceList{}
				live := 0
				for _, p := range pods {
					if p.alloc == nil {
						continue
					}
					live++
					for _, id := range p.alloc.CPUSet.ToSliceNoSort() {
						holders[id]++
					}
					for _, nr := range p.alloc.NUMANodeResources {
						if sumRes[nr.Node] == nil {
							sumRes[nr.Node] = corev1.ResourceList{}
						}
						for name, q := range nr.Resources {
							cur := sumRes[nr.Node][name]
							cur.Add(q)
							sumRes[nr.Node][name] = cur
						}
					}
				}
				if len(na.allocatedPods) != live {
					c.Fail("C06/ledger/pods", "%s: ledger holds %d pods, %d are live", where, len(na.allocatedPods), live)
				}
				for id := range topo.CPUDetails {
					h := holders[id]
					ref := 0
					if info, ok := na.allocatedCPUs[id]; ok {
						ref = info.RefCount
					}
					if ref != h {
						c.Fail("C06/ledger/refcount", "%s: cpu %d is held by %d live pods but the ledger's ref count is %d", where, id, h, ref)
					}
					if h > maxRef {
						c.Fail("C06/ledger/over-shared", "%s: cpu %d is held by %d pods, sharing limit %d", where, id, h, maxRef)
					}
					if h > 0 && reserved.Contains(id) {
						c.Fail("C06/ledger/reserved", "%s: reserved cpu %d is held by a pod", where, id)
					}
				}
				for id := range na.allocatedCPUs {
					if _, ok := topo.CPUDetails[id]; !ok {
						c.Fail("C06/ledger/unknown-cpu", "%s: ledger holds cpu %d that is not in the topology", where, id)
					}
				}
				for n := 0; n < topo.NumNodes; n++ {
					var led corev1.ResourceList
					if na.allocatedResources[n] != nil {
						led = na.allocatedResources[n].Resources
					}
					for _, name := range []corev1.ResourceName{corev1.ResourceCPU, corev1.ResourceMemory} {
						a, b := led[name], sumRes[n][name]
						if a.Cmp(b) != 0 {
							c.Fail("C06/ledger/numa-amount", "%s: NUMA node %d ledger %s=%s, live pods hold %s", where, n, name, a.String(), b.String())
						}
					}
					// never more than the node has
					for _, nr := range numaRes {
						if nr.Node == n {
							for name, capQ := range nr.Resources {
								a := led[name]
								if a.Cmp(capQ) > 0 {
									c.Fail("C06/ledger/numa-over", "%s: NUMA node %d ledger %s=%s exceeds its capacity %s", where, n, name, a.String(), capQ.String())
								}
							}
						}
					}
				}
				c.Count("ledger_checks", 1)
			}
			for op := 0; op < nops; op++ {
				p := kit.Pick(r, pods)
				switch k := r.Weighted(55, 30, 5, 5, 5); k {
				case 0: // allocate (for a new pod) or re-allocate (update of an existing pod) + commit
					ncpu := r.Range(1, maxInt(1, topo.NumCPUs/2))
					if r.Pct(10) {
						ncpu = topo.NumCPUs + 1 - reserved.Size()
					}
					bind := kit.Pick(r, c06BindPolicies)
					required := r.Pct(35) && (bind == schedulingconfig.CPUBindPolicyFullPCPUs || bind == schedulingconfig.CPUBindPolicySpreadByPCPUs)
					excl := kit.Pick(r, c06ExclPolicies)
					mem := int64(r.Range(0, int(minI64(memPerNode, 64))))
					opts := &ResourceOptions{
						numCPUsNeeded:         ncpu,
						requestCPUBind:        true,
						requiredCPUBindPolicy: required,
						cpuBindPolicy:         bind,
						cpuExclusivePolicy:    excl,
						topologyOptions:       tom.GetTopologyOptions(nodeName),
					}
					reqs := corev1.ResourceList{corev1.ResourceCPU: *resource.NewQuantity(int64(ncpu), resource.DecimalSI)}
					if mem > 0 {
						reqs[corev1.ResourceMemory] = *resource.NewQuantity(mem, resource.BinarySI)
					}
					opts.requests = reqs.DeepCopy()
					opts.originalRequests = reqs.DeepCopy()
					var hintBits []int
					if r.Pct(60) {
						for n := 0; n < topo.NumNodes; n++ {
							if r.Pct(60) {
								hintBits = append(hintBits, n)
							}
						}
						if len(hintBits) == 0 {
							hintBits = []int{r.Intn(topo.NumNodes)}
						}
						m, _ := bitmask.NewBitMask(hintBits...)
						opts.hint = topologymanager.NUMATopologyHint{NUMANodeAffinity: m}
					}
					pod := &corev1.Pod{ObjectMeta: metav1.ObjectMeta{UID: p.uid, Name: string(p.uid), Namespace: "default"}}
					// pre-state for the oracle
					availBefore, _, _ := rm.GetAvailableCPUs(nodeName)
					freeBefore, _, _ := rm.getAvailableNUMANodeResources(nodeName, opts.topologyOptions, nil)
					alloc, status := rm.Allocate(node, pod, opts)
					c.Op("allocate %s cpus=%d mem=%d bind=%s required=%v excl=%s hint=%v (existing=%v) -> ok=%v %s", p.uid, ncpu, mem, bind, required, excl, hintBits, p.alloc != nil, status.IsSuccess(), c06AllocStr(alloc))
					c.Seen(tp.String(), maxRef, "alloc", bind, required, excl, len(hintBits), status.IsSuccess(), c06Live(pods))
					if !status.IsSuccess() {
						c.Count("allocate_refused", 1)
						if availBefore.Size() < ncpu {
							refusedOnce = true
						}
						break
					}
					c.Count("allocate_ok", 1)
					if refusedOnce {
						okAfterRefuse = true
					}
					if alloc.CPUSet.Size() != ncpu {
						c.Fail("C06/allocate/wrong-count", "Allocate succeeded with cpuset %s (%d CPUs), requested %d", alloc.CPUSet.String(), alloc.CPUSet.Size(), ncpu)
					}
					if !alloc.CPUSet.IsSubsetOf(availBefore) {
						c.Fail("C06/allocate/not-free", "Allocate returned %s, CPUs free for this pod were %s", alloc.CPUSet.String(), availBefore.String())
					}
					if required && bind == schedulingconfig.CPUBindPolicyFullPCPUs && !c06FullCores(topo, alloc.CPUSet) {
						c.Fail("C06/allocate/fullpcpus-not-satisfied", "required FullPCPUs reported satisfied but %s does not consist of whole cores", alloc.CPUSet.String())
					}
					if required && bind == schedulingconfig.CPUBindPolicySpreadByPCPUs && !c06OnePerCore(topo, alloc.CPUSet) {
						c.Fail("C06/allocate/spread-not-satisfied", "required SpreadByPCPUs reported satisfied but %s has two CPUs of one core", alloc.CPUSet.String())
					}
					if opts.hint.NUMANodeAffinity != nil {
						c06CheckSplit(c, "allocate", reqs, freeBefore, hintBits, alloc.NUMANodeResources)
						// does the cpuset follow the per-NUMA cpu amounts? (counted, not a verdict: the
						// statement does not relate the two)
						perNode := map[int]int{}
						for _, id := range alloc.CPUSet.ToSliceNoSort() {
							perNode[topo.CPUDetails[id].NodeID]++
						}
						for _, nr := range alloc.NUMANodeResources {
							q := nr.Resources[corev1.ResourceCPU]
							if int64(perNode[nr.Node])*1000 != q.MilliValue() {
								c.Count("cpuset_vs_numa_amount_mismatch", 1)
							}
						}
					}
					rm.Update(nodeName, alloc)
					p.alloc = alloc
				case 1: // release
					c.Op("release %s (live=%v)", p.uid, p.alloc != nil)
					rm.Release(nodeName, p.uid)
					if p.alloc != nil {
						c.Count("release_live", 1)
					} else {
						c.Count("release_not_live", 1)
					}
					p.alloc = nil
				case 2: // duplicate commit of the same allocation (informer echo)
					if p.alloc != nil {
						c.Op("update-same %s", p.uid)
						cp := *p.alloc
						rm.Update(nodeName, &cp)
						c.Count("update_same", 1)
					}
				case 3: // release of a pod the manager never saw
					c.Op("release unknown")
					rm.Release(nodeName, types.UID("ghost"))
				case 4: // double release
					c.Op("release twice %s", p.uid)
					rm.Release(nodeName, p.uid)
					rm.Release(nodeName, p.uid)
					p.alloc = nil
				}
				check(fmt.Sprintf("after op %d", op))
			}
			for _, p := range pods {
				rm.Release(nodeName, p.uid)
				p.alloc = nil
			}
			c.Op("release all")
			check("after releasing everything")
			na := rm.GetNodeAllocation(nodeName)
			if len(na.allocatedCPUs) != 0 || len(na.allocatedPods) != 0 {
				c.Fail("C06/ledger/not-empty", "after releasing every pod the ledger still holds %d CPUs / %d pods", len(na.allocatedCPUs), len(na.allocatedPods))
			}
			for n, res := range na.allocatedResources {
				for name, q := range res.Resources {
					if !q.IsZero() {
						c.Fail("C06/ledger/not-empty", "after releasing every pod NUMA node %d still accounts %s=%s", n, name, q.String())
					}
				}
			}
			if okAfterRefuse {
				c.NonTrivial()
			}
			if c.K < 2 {
				ops := c.Ops()
				if len(ops) > 12 {
					ops = ops[:12]
				}
				c.Sample(ops)
			}
		})
}

func c06Live(pods []*c06Pod) int {
	n := 0
	for _, p := range pods {
		if p.alloc != nil {
			n++
		}
	}
	return n
}

func c06AllocStr(a *PodAllocation) string {
	if a == nil {
		return ""
	}
	s := "cpuset=" + a.CPUSet.String()
	for _, nr := range a.NUMANodeResources {
		s += fmt.Sprintf(" numa%d=%s", nr.Node, c06RL(nr.Resources))
	}
	return s
}

func c06RL(rl corev1.ResourceList) string {
	names := make([]string, 0, len(rl))
	for n := range rl {
		names = append(names, string(n))
	}
	sort.Strings(names)
	s := "{"
	for _, n := range names {
		q := rl[corev1.ResourceName(n)]
		s += n + ":" + q.String() + " "
	}
	return s + "}"
}

func maxInt(a, b int) int {
	if a > b {
		return a
	}
	return b
}

func minI64(a, b int64) int64 {
	if a < b {
		return a
	}
	return b
}

// c06CheckSplit checks a successful NUMA split: exact totals, each share within the node's free
// amount, only hinted nodes used.
func c06CheckSplit(c *kit.Case, where string, requests corev1.ResourceList, free map[int]corev1.ResourceList, hint []int, result []NUMANodeResource) {
	hinted := map[int]bool{}
	for _, h := range hint {
		hinted[h] = true
	}
	reported := map[corev1.ResourceName]bool{}
	for _, rl := range free {
		for n := range rl {
			reported[n] = true
		}
	}
	sum := corev1.ResourceList{}
	seenNode := map[int]bool{}
	for _, nr := range result {
		if seenNode[nr.Node] {
			c.Fail("C06/numa-split/duplicate-node", "%s: NUMA node %d appears twice in the result", where, nr.Node)
		}
		seenNode[nr.Node] = true
		if !hinted[nr.Node] {
			c.Fail("C06/numa-split/unhinted-node", "%s: NUMA node %d is used but the hint names %v", where, nr.Node, hint)
		}
		for name, q := range nr.Resources {
			if q.Sign() < 0 {
				c.Fail("C06/numa-split/negative", "%s: NUMA node %d gets negative %s=%s", where, nr.Node, name, q.String())
			}
			f := free[nr.Node][name]
			if q.Cmp(f) > 0 {
				c.Fail("C06/numa-split/over-node-free", "%s: NUMA node %d gives %s=%s but only %s was free", where, nr.Node, name, q.String(), f.String())
			}
			cur := sum[name]
			cur.Add(q)
			sum[name] = cur
		}
	}
	for name, q := range requests {
		if !reported[name] {
			continue
		}
		s := sum[name]
		if s.Cmp(q) != 0 {
			c.Fail("C06/numa-split/wrong-total", "%s: request %s=%s but the NUMA nodes hand out %s in total", where, name, q.String(), s.String())
		}
	}
	for name, s := range sum {
		if _, ok := requests[name]; !ok && !s.IsZero() {
			c.Fail("C06/numa-split/unrequested", "%s: %s=%s handed out but not requested", where, name, s.String())
		}
	}
}

// ---------------------------------------------------------------------------------------------
// (c) tryBestToDistributeEvenly: exhaustive small scope + sampled large scope

var c06FreeVals = []int64{0, 1, 2, 5, 10}

// c06Distribute runs one (free vector, hint, request) input for a divisible resource and applies
// the soundness and completeness oracles.
func c06Distribute(c *kit.Case, ids []int, free []int64, hint []int, resName corev1.ResourceName, req int64, milli bool) {
	mk := func(v int64) resource.Quantity {
		if resName == corev1.ResourceCPU {
			if milli {
				return *resource.NewMilliQuantity(v, resource.DecimalSI)
			}
			return *resource.NewMilliQuantity(v*1000, resource.DecimalSI)
		}
		return *resource.NewQuantity(v, resource.BinarySI)
	}
	total := map[int]corev1.ResourceList{}
	freeCopy := map[int]corev1.ResourceList{}
	for i, id := range ids {
		total[id] = corev1.ResourceList{resName: mk(free[i])}
		freeCopy[id] = corev1.ResourceList{resName: mk(free[i])}
	}
	m, err := bitmask.NewBitMask(hint...)
	if err != nil {
		c.Harness("bitmask: %v", err)
	}
	opts := &ResourceOptions{hint: topologymanager.NUMATopologyHint{NUMANodeAffinity: m}}
	requests := corev1.ResourceList{resName: mk(req)}
	result, reasons := tryBestToDistributeEvenly(requests.DeepCopy(), total, opts)
	var sumFree int64
	for i, id := range ids {
		for _, h := range hint {
			if h == id {
				sumFree += free[i]
			}
		}
	}
	where := fmt.Sprintf("ids=%v free=%v hint=%v %s request=%d(milli=%v)", ids, free, hint, resName, req, milli)
	if len(reasons) == 0 {
		c.Count("split_ok", 1)
		c06CheckSplit(c, where, corev1.ResourceList{resName: mk(req)}, freeCopy, hint, result)
		if sumFree < req {
			c.Fail("C06/numa-split/over-commit", "%s: succeeded although the hinted nodes have only %d free", where, sumFree)
		}
	} else {
		c.Count("split_refused", 1)
		if sumFree >= req {
			c.Fail("C06/numa-split/incomplete", "%s: refused (%v) although the hinted NUMA nodes together have %d free of a freely divisible resource", where, reasons, sumFree)
		}
	}
	if len(hint) > 0 && hint[0] != ids[0] {
		c.Count("hints_not_starting_at_first_node", 1)
	}
	for i, id := range ids {
		// the input map must not be consumed by the call (it is the scheduler's view of free resources)
		q := total[id][resName]
		w := mk(free[i])
		if q.Cmp(w) != 0 {
			c.Count("input_free_map_mutated", 1)
		}
	}
}

func c06Subsets(ids []int) [][]int {
	var out [][]int
	for m := 1; m < 1<<len(ids); m++ {
		var s []int
		for i, id := range ids {
			if m&(1<<i) != 0 {
				s = append(s, id)
			}
		}
		out = append(out, s)
	}
	return out
}

// Exhaustive: N in 2..4 NUMA nodes (ids 0..N-1), free in {0,1,2,5,10}^N, every non-empty hint,
// request 0..20, memory. One kit case = one (N, free vector); 25+125+625 = 775 cases.
func TestVerifC06DistributeExhaustive(t *testing.T) {
	const space = 25 + 125 + 625
	kit.Run(t, kit.Config{Property: "C06", Unit: "distribute-exhaustive", Quick: space, Thorough: space, Exhaustive: true,
		Rule: "exhaustive: 2-4 NUMA nodes x free amount in {0,1,2,5,10} per node x every non-empty hint subset x memory request 0..20, run on the real tryBestToDistributeEvenly; distinct = (sorted free multiset restricted to the hint, request, outcome); every input is checked for soundness and, memory being freely divisible, completeness"},
		func(c *kit.Case) {
			k := c.K
			n := 2
			switch {
			case k < 25:
			case k < 150:
				n, k = 3, k-25
			default:
				n, k = 4, k-150
			}
			free := make([]int64, n)
			ids := make([]int, n)
			for i := 0; i < n; i++ {
				free[i] = c06FreeVals[k%5]
				k /= 5
				ids[i] = i
			}
			cnt := 0
			for _, hint := range c06Subsets(ids) {
				var hf []int64
				for _, h := range hint {
					hf = append(hf, free[h])
				}
				sort.Slice(hf, func(i, j int) bool { return hf[i] < hf[j] })
				for req := int64(0); req <= 20; req++ {
					c06Distribute(c, ids, free, hint, corev1.ResourceMemory, req, false)
					cnt++
					c.Seen(hf, req)
				}
			}
			c.Evals(cnt - 1)
			c.NonTrivial()
			if c.K == 777%space || c.K == 30 {
				c.Sample(map[string]any{"numa_ids": ids, "free": free, "hints": "every non-empty subset", "requests": "0..20", "resource": "memory"})
			}
		})
}

func TestVerifC06DistributeSampled(t *testing.T) {
	kit.Run(t, kit.Config{Property: "C06", Unit: "distribute-sampled", Quick: 20000, Thorough: 600000,
		Rule: "sampled: 2-6 NUMA nodes with arbitrary (sparse, unordered) ids, free amounts boundary-biased up to 2^40, random non-empty hint subset, memory or non-bound milli-CPU, request around the hinted free sum (sum-1, sum, sum+1, random); distinct = (#nodes, |hint|, hint starts at lowest id?, resource, request class, outcome); non-trivial = hint not starting at the lowest node id"},
		func(c *kit.Case) {
			r := c.R
			n := r.Range(2, 6)
			pool := r.Perm(12)
			ids := append([]int(nil), pool[:n]...)
			if r.Pct(50) {
				sort.Ints(ids)
			}
			free := make([]int64, n)
			for i := range free {
				switch r.Intn(6) {
				case 0:
					free[i] = 0
				case 1:
					free[i] = int64(r.Range(1, 10))
				case 2:
					free[i] = int64(r.Range(1, 4000))
				case 3:
					free[i] = 1 << uint(r.Range(10, 40))
				case 4:
					free[i] = (1 << uint(r.Range(10, 40))) - 1
				default:
					free[i] = int64(r.Range(0, 64)) * 1000
				}
			}
			var hint []int
			var sum int64
			for i, id := range ids {
				if r.Pct(55) {
					hint = append(hint, id)
					sum += free[i]
				}
			}
			if len(hint) == 0 {
				i := r.Intn(n)
				hint = []int{ids[i]}
				sum = free[i]
			}
			var req int64
			cls := r.Intn(5)
			switch cls {
			case 0:
				req = sum
			case 1:
				req = sum - 1
			case 2:
				req = sum + 1
			case 3:
				req = r.Int63n(sum + 1)
			default:
				req = sum/2 + 1
			}
			if req < 0 {
				req = 0
			}
			resName := corev1.ResourceMemory
			milli := false
			if r.Pct(40) {
				resName = corev1.ResourceCPU
				milli = true
			}
			minID := ids[0]
			for _, id := range ids {
				if id < minID {
					minID = id
				}
			}
			sort.Ints(hint)
			startsLow := hint[0] == minID
			if !startsLow {
				c.NonTrivial()
			}
			c.Op("ids=%v free=%v hint=%v res=%s req=%d", ids, free, hint, resName, req)
			c.Seen(n, len(hint), startsLow, resName, cls, sum >= req)
			c06Distribute(c, ids, free, hint, resName, req, milli)
			if c.K < 2 {
				c.Sample(map[string]any{"numa_ids": ids, "free": free, "hint": hint, "resource": resName, "request": req})
			}
		})
}

// ---------------------------------------------------------------------------------------------
// (d) allocations delivered before the node's topology (scheduler restart), then concurrent use.
//
// After a restart a bound pod can reach the resource manager before the NodeResourceTopology of its
// node; the manager keeps such allocations and applies them once the topology is valid. In this unit
// the informer goroutine (queries + Release of deleted pods, Update of late pods) races the scheduling
// goroutine (GetAvailableCPUs / GetAllocatedCPUSet) right after the topology arrived. Causal rules:
// every pod is delivered once; a pod is released only after it was delivered; cpusets of the pods are
// disjoint (they were allocated by a correct scheduler before the restart). Oracle at quiescence: the
// ledger equals the pods that were delivered and not released, whatever the interleaving was (every
// serial order of these calls gives that same end state). Function-entry yield points (tools/instr)
// in GetTopologyOptions / NodeAllocation.update / release widen the windows between the manager's
// critical sections.
func TestVerifC06PendingConcurrent(t *testing.T) {
	kit.Run(t, kit.Config{Property: "C06", Unit: "pending-conc", Quick: 2500, Thorough: 60000,
		Rule: "restart replay: 2-6 bound pods with disjoint cpusets are delivered (Update) before the node's topology is valid, optionally after an event that created the node's allocation entry early; then the topology arrives and 3 goroutines race: scheduler reads (GetAvailableCPUs, GetAllocatedCPUSet), informer releases of a subset of the pods, informer delivery of late pods; yields at function entries; oracle at quiescence = ledger equals delivered-and-not-released pods; distinct = interleaving signature; non-trivial = at least one release raced a read"},
		func(c *kit.Case) {
			r := c.R
			tp := c06GenTopo(r)
			topo := tp.topo
			all := topo.CPUDetails.CPUs().ToSlice()
			if len(all) < 4 {
				return
			}
			tom := NewTopologyOptionsManager()
			const nodeName = "n0"
			rm := &resourceManager{numaAllocateStrategy: kit.Pick(r, c06Strategies), topologyOptionsManager: tom, nodeAllocations: map[string]*NodeAllocation{}}
			npods := r.Range(2, 6)
			perm := r.Perm(len(all))
			type pendPod struct {
				alloc    *PodAllocation
				late     bool // delivered by the informer goroutine after the topology arrived
				released bool
			}
			pods := make([]*pendPod, 0, npods)
			next := 0
			for i := 0; i < npods && next < len(all); i++ {
				k := r.Range(1, maxInt(1, len(all)/npods))
				b := cpuset.NewCPUSetBuilder()
				for j := 0; j < k && next < len(all); j++ {
					b.Add(all[perm[next]])
					next++
				}
				pods = append(pods, &pendPod{alloc: &PodAllocation{UID: types.UID(fmt.Sprintf("pod-%d", i)), Name: fmt.Sprintf("pod-%d", i), Namespace: "default", CPUSet: b.Result()}, late: r.Pct(20)})
			}
			early := r.Pct(50)
			if early {
				// an event that touches the node before its topology is known (terminated pod of the initial list,
				// delete of an unknown pod): creates the node's allocation entry early
				rm.Release(nodeName, types.UID("ghost"))
				c.Op("release ghost (entry created before topology)")
			}
			for _, p := range pods {
				if !p.late {
					rm.Update(nodeName, p.alloc)
					c.Op("update %s cpus=%s (before topology)", p.alloc.UID, p.alloc.CPUSet.String())
				}
			}
			tom.UpdateTopologyOptions(nodeName, func(o *TopologyOptions) {
				o.CPUTopology = topo
				o.MaxRefCount = 1
			})
			c.Op("topology arrives: %s", tp)
			var toRelease []*pendPod
			for _, p := range pods {
				if !p.late && r.Pct(50) {
					toRelease = append(toRelease, p)
				}
			}
			kit.EnableYield(r.Fork())
			var wg sync.WaitGroup
			start := make(chan struct{})
			reads := r.Range(1, 4)
			wg.Add(3)
			go func() { // scheduling goroutine
				defer wg.Done()
				<-start
				for i := 0; i < reads; i++ {
					rm.GetAvailableCPUs(nodeName)
					rm.GetAllocatedCPUSet(nodeName, pods[i%len(pods)].alloc.UID)
				}
			}()
			go func() { // pod informer: deletions
				defer wg.Done()
				<-start
				for _, p := range toRelease {
					rm.GetAllocatedCPUSet(nodeName, p.alloc.UID)
					rm.Release(nodeName, p.alloc.UID)
				}
			}()
			go func() { // pod informer: late deliveries
				defer wg.Done()
				<-start
				for _, p := range pods {
					if p.late {
						rm.Update(nodeName, p.alloc)
					}
				}
			}()
			close(start)
			wg.Wait()
			sig := kit.DisableYield()
			for _, p := range toRelease {
				p.released = true
				c.Op("released %s (concurrently)", p.alloc.UID)
			}
			c.Seen("pending-conc", sig)
			c.Count("pending_conc_rounds", 1)
			c.Count("pending_conc_releases", len(toRelease))
			if len(toRelease) > 0 {
				c.NonTrivial()
			}
			// quiescent oracle through the manager's API and the ledger
			avail, _, err := rm.GetAvailableCPUs(nodeName)
			if err != nil {
				c.Harness("GetAvailableCPUs: %v", err)
			}
			na := rm.GetNodeAllocation(nodeName)
			na.lock.RLock()
			defer na.lock.RUnlock()
			live := 0
			for _, p := range pods {
				held, ok := na.allocatedPods[p.alloc.UID]
				if p.released {
					if ok {
						c.Fail("C06/pending/released-pod-still-recorded", "pod %s was released (deleted) but the ledger still records it with cpus %s", p.alloc.UID, held.CPUSet.String())
					}
					if !p.alloc.CPUSet.IsSubsetOf(avail) {
						c.Fail("C06/pending/released-cpus-not-free", "pod %s was released but its cpus %s are not available (available %s)", p.alloc.UID, p.alloc.CPUSet.String(), avail.String())
					}
					continue
				}
				live++
				if !ok {
					c.Fail("C06/pending/allocation-lost", "pod %s (cpus %s) was delivered and never released, but the ledger does not record it (available %s)", p.alloc.UID, p.alloc.CPUSet.String(), avail.String())
				}
				if !held.CPUSet.Equals(p.alloc.CPUSet) {
					c.Fail("C06/pending/wrong-cpus", "pod %s recorded with cpus %s, delivered %s", p.alloc.UID, held.CPUSet.String(), p.alloc.CPUSet.String())
				}
				if !avail.Intersection(p.alloc.CPUSet).IsEmpty() {
					c.Fail("C06/pending/held-cpus-available", "cpus %s of live pod %s are reported available (%s)", avail.Intersection(p.alloc.CPUSet).String(), p.alloc.UID, avail.String())
				}
			}
			if len(na.allocatedPods) != live {
				c.Fail("C06/pending/ledger-pods", "ledger holds %d pods, %d are live", len(na.allocatedPods), live)
			}
			for id, info := range na.allocatedCPUs {
				holders := 0
				for _, p := range pods {
					if !p.released && p.alloc.CPUSet.Contains(id) {
						holders++
					}
				}
				if info.RefCount != holders {
					c.Fail("C06/pending/refcount", "cpu %d: ref count %d, held by %d live pods", id, info.RefCount, holders)
				}
			}
			c.Count("pending_conc_checks", 1)
		})
}
