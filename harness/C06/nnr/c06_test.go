//go:build verif

package nodenumaresource

// C06 monitors: CPU-set picking (takeCPUs / takePreferredCPUs), the node allocation ledger under
// Allocate/Update/Release histories on a real resourceManager, and the NUMA split
// (tryBestToDistributeEvenly). See /verif/DESIGN.md section 4, C06.

import (
	"fmt"
	"sort"
	"sync"
	"testing"

	corev1 "k8s.io/api/core/v1"
	"k8s.io/apimachinery/pkg/api/resource"
	metav1 "k8s.io/apimachinery/pkg/apis/meta/v1"
	"k8s.io/apimachinery/pkg/types"
	"k8s.io/klog/v2"

	"github.com/koordinator-sh/koordinator/apis/extension"
	schedulingconfig "github.com/koordinator-sh/koordinator/pkg/scheduler/apis/config"
	"github.com/koordinator-sh/koordinator/pkg/scheduler/frameworkext/topologymanager"
	"github.com/koordinator-sh/koordinator/pkg/util/bitmask"
	"github.com/koordinator-sh/koordinator/pkg/util/cpuset"
	kit "github.com/koordinator-sh/koordinator/pkg/verifkit"
)

func init() {
	klog.SetOutput(discardWriter{})
	klog.LogToStderr(false)
}

type discardWriter struct{}

func (discardWriter) Write(p []byte) (int, error) { return len(p), nil }

// ---------------------------------------------------------------------------------------------
// topology generation

type c06Topo struct {
	sockets, nodesPerSocket, coresPerNode, threads int
	sparse                                          bool // kept for the log: layout != dense
	layout                                          int  // 0 dense (siblings adjacent), 1 sibling-sparse (cpu, cpu+N/threads), 2 cores numbered round-robin over the NUMA nodes
	idGap, idBase                                   int  // cpu id = idBase + x + x/idGap (idGap 0: no holes): ids with holes / not starting at 0
	nodeMode                                        int  // NUMA node ids: 0 = 0..k-1 grouped by socket, 1 = with holes (2i+1), 2 = interleaved over the sockets, 3 = offset (i+3)
	socketMode                                      int  // socket ids: 0 = 0..k-1, 1 = with holes (2s+1)
	coreMode                                        int  // core ids: 0 = unique over the machine, 1 = restart at 0 in every socket, 2 = restart + stride 2 (holes, as the kernel reports)
	offline                                         int  // number of logical CPUs that are offline (not reported): asymmetric topology
	nodeIDs                                         []int
	topo                                            *CPUTopology
}

func (t c06Topo) String() string {
	return fmt.Sprintf("%dx%dx%dx%d layout=%d idgap=%d/%d nodeids=%v sockmode=%d coremode=%d offline=%d", t.sockets, t.nodesPerSocket, t.coresPerNode, t.threads, t.layout, t.idGap, t.idBase, t.nodeIDs, t.socketMode, t.coreMode, t.offline)
}

// regular: the topology is a full product sockets x NUMA nodes x cores x threads (the quantifier's space).
// With offline CPUs it is not; koordinator derives CPUs-per-core/-node by division, so the policy clauses
// are only counted there, not asserted.
func (t c06Topo) regular() bool { return t.offline == 0 }

// Class is the coarse shape used for the distinct-state evidence.
func (t c06Topo) Class() string {
	return fmt.Sprintf("%dx%dx%dx%d/%d/%d/%v", t.sockets, t.nodesPerSocket, t.coresPerNode, t.threads, t.layout, t.nodeMode, t.offline > 0)
}

// c06GenReserved draws the node's reserved CPUs (kubelet reserved / node reservation / system QoS): none,
// scattered CPUs, whole cores, one whole NUMA node, or the lowest ids (the usual "0-3").
func c06GenReserved(r *kit.Rand, tp c06Topo) cpuset.CPUSet {
	topo := tp.topo
	all := topo.CPUDetails.CPUs().ToSlice()
	b := cpuset.NewCPUSetBuilder()
	switch r.Weighted(58, 20, 10, 5, 7) {
	case 1:
		for _, id := range all {
			if r.Pct(12) {
				b.Add(id)
			}
		}
	case 2:
		for _, core := range topo.CPUDetails.Cores().ToSlice() {
			if r.Pct(15) {
				b.Add(topo.CPUDetails.CPUsInCores(core).ToSliceNoSort()...)
			}
		}
	case 3:
		if len(tp.nodeIDs) > 1 {
			b.Add(topo.CPUDetails.CPUsInNUMANodes(kit.Pick(r, tp.nodeIDs)).ToSliceNoSort()...)
		}
	case 4:
		k := r.Range(1, 4)
		for i := 0; i < k && i < len(all); i++ {
			b.Add(all[i])
		}
	}
	return b.Result()
}

// c06CountTopo records which of the rarer topology dimensions a case drew (evidence).
func c06CountTopo(c *kit.Case, t c06Topo) {
	if t.sockets >= 3 {
		c.Count("topo_sockets_ge_3", 1)
	}
	if t.nodeMode != 0 {
		c.Count("topo_numa_ids_not_0_to_k", 1)
	}
	if t.layout == 2 || t.idGap > 0 {
		c.Count("topo_cpu_ids_interleaved_or_with_holes", 1)
	}
	if t.coreMode != 0 || t.socketMode != 0 {
		c.Count("topo_core_or_socket_ids_kernel_style", 1)
	}
	if t.offline > 0 {
		c.Count("topo_irregular_offline_cpus", 1)
	}
	if t.threads >= 4 {
		c.Count("topo_threads_ge_4", 1)
	}
}

// cpusIn returns the number of CPUs of NUMA node id.
func (t c06Topo) cpusIn(node int) int { return t.topo.CPUDetails.CPUsInNUMANodes(node).Size() }

// c06GenTopo draws a topology shape; c06BuildTopo builds it through the package's own builder.
// Dimensions: 1-4 sockets, 1/2/4 NUMA nodes per socket, 1-8 (rarely up to 24) cores per node, 1/2/4 (rarely 8)
// threads; three logical-CPU numbering layouts, optionally with holes / an offset in the CPU ids; NUMA node
// ids contiguous, with holes, interleaved over the sockets or offset; socket ids with holes; core ids unique
// or restarting per socket (with holes), as the kernel reports them; rarely 1-3 CPUs offline.
func c06GenTopo(r *kit.Rand) c06Topo {
	t := c06Topo{
		sockets:        kit.Pick(r, []int{1, 1, 2, 2, 2, 3, 4}),
		nodesPerSocket: kit.Pick(r, []int{1, 1, 2, 2, 4}),
		coresPerNode:   r.Range(1, 8),
		threads:        kit.Pick(r, []int{1, 2, 2, 2, 4}),
	}
	if r.Pct(3) {
		t.threads = 8
	}
	if r.Pct(3) {
		t.coresPerNode = r.Range(9, 24)
	}
	for t.sockets*t.nodesPerSocket*t.coresPerNode*t.threads > 192 {
		t.coresPerNode = (t.coresPerNode + 1) / 2
	}
	t.layout = r.Weighted(45, 35, 20)
	if r.Pct(15) {
		t.idGap = kit.Pick(r, []int{1, 3, 7})
		t.idBase = kit.Pick(r, []int{0, 1, 64})
	}
	t.nodeMode = r.Weighted(64, 14, 14, 8)
	t.socketMode = r.Weighted(90, 10)
	t.coreMode = r.Weighted(50, 30, 20)
	if r.Pct(6) {
		t.offline = r.Range(1, 3)
	}
	return c06BuildTopo(t, r)
}

// c06BuildTopo builds the CPUTopology of the shape. r is only used to choose the offline CPUs.
func c06BuildTopo(t c06Topo, r *kit.Rand) c06Topo {
	t.sparse = t.layout != 0
	type cpu struct{ socket, node, core, id int }
	var cpus []cpu
	totalNodes := t.sockets * t.nodesPerSocket
	cores := totalNodes * t.coresPerNode
	t.nodeIDs = nil
	for s := 0; s < t.sockets; s++ {
		socketID := s
		if t.socketMode == 1 {
			socketID = 2*s + 1
		}
		for n := 0; n < t.nodesPerSocket; n++ {
			nodeIdx := s*t.nodesPerSocket + n
			nodeID := nodeIdx
			switch t.nodeMode {
			case 1:
				nodeID = 2*nodeIdx + 1
			case 2:
				nodeID = n*t.sockets + s
			case 3:
				nodeID = nodeIdx + 3
			}
			t.nodeIDs = append(t.nodeIDs, nodeID)
			for c := 0; c < t.coresPerNode; c++ {
				coreIdx := nodeIdx*t.coresPerNode + c // position of the core in the machine
				coreID := coreIdx
				switch t.coreMode {
				case 1:
					coreID = n*t.coresPerNode + c
				case 2:
					coreID = 2 * (n*t.coresPerNode + c)
				}
				for p := 0; p < t.threads; p++ {
					x := coreIdx*t.threads + p
					switch t.layout {
					case 1:
						x = p*cores + coreIdx
					case 2:
						x = p*cores + c*totalNodes + nodeIdx
					}
					if t.idGap > 0 {
						x = t.idBase + x + x/t.idGap
					}
					cpus = append(cpus, cpu{socketID, nodeID, coreID, x})
				}
			}
		}
	}
	sort.Ints(t.nodeIDs)
	if t.offline >= len(cpus) {
		t.offline = len(cpus) - 1
	}
	off := map[int]bool{}
	if t.offline > 0 && r != nil {
		for _, i := range r.Perm(len(cpus))[:t.offline] {
			off[i] = true
		}
		// a NUMA node whose CPUs are all offline disappears from the CPU topology: keep at least one CPU per node
		left := map[int]int{}
		for i, c := range cpus {
			if !off[i] {
				left[c.node]++
			}
		}
		for i, c := range cpus {
			if off[i] && left[c.node] == 0 {
				off[i] = false
				left[c.node]++
			}
		}
		t.offline = len(off)
		for i := range off {
			if !off[i] {
				t.offline--
			}
		}
	} else {
		t.offline = 0
	}
	b := NewCPUTopologyBuilder()
	for i, c := range cpus {
		if !off[i] {
			b.AddCPUInfo(c.socket, c.node, c.core, c.id)
		}
	}
	t.topo = b.Result()
	return t
}

var c06BindPolicies = []schedulingconfig.CPUBindPolicy{
	schedulingconfig.CPUBindPolicyDefault, schedulingconfig.CPUBindPolicyFullPCPUs,
	schedulingconfig.CPUBindPolicySpreadByPCPUs, schedulingconfig.CPUBindPolicyConstrainedBurst,
}
var c06ExclPolicies = []schedulingconfig.CPUExclusivePolicy{
	schedulingconfig.CPUExclusivePolicyNone, schedulingconfig.CPUExclusivePolicyPCPULevel, schedulingconfig.CPUExclusivePolicyNUMANodeLevel,
}
var c06Strategies = []schedulingconfig.NUMAAllocateStrategy{
	schedulingconfig.NUMAMostAllocated, schedulingconfig.NUMALeastAllocated, schedulingconfig.NUMADistributeEvenly,
}

func c06FullCores(topo *CPUTopology, cpus cpuset.CPUSet) bool {
	// every touched core is completely inside the set
	for _, cpu := range cpus.ToSliceNoSort() {
		core := topo.CPUDetails[cpu].CoreID
		for id, info := range topo.CPUDetails {
			if info.CoreID == core && !cpus.Contains(id) {
				return false
			}
		}
	}
	return true
}

func c06OnePerCore(topo *CPUTopology, cpus cpuset.CPUSet) bool {
	seen := map[int]bool{}
	for _, cpu := range cpus.ToSliceNoSort() {
		core := topo.CPUDetails[cpu].CoreID
		if seen[core] {
			return false
		}
		seen[core] = true
	}
	return true
}

// ---------------------------------------------------------------------------------------------
// (a) takeCPUs / takePreferredCPUs

func TestVerifC06TakeCPUs(t *testing.T) {
	kit.Run(t, kit.Config{Property: "C06", Unit: "takecpus", Quick: 14000, Thorough: 1000000,
		Rule: "random topology (1-4 sockets x 1/2/4 numa x 1-24 cores x 1/2/4/8 threads; three cpu-id layouts, ids with holes/offset; NUMA ids contiguous/with holes/interleaved over sockets/offset; socket ids with holes; core ids unique or restarting per socket; 6% with 1-3 CPUs offline), random per-CPU ref counts/exclusive marks, reserved set (scattered, whole cores, a whole NUMA node, lowest ids), maxRefCount 1-4, all bind/exclusive policies and NUMA strategies, request 0..avail+1; distinct = (topology, policy, exclusive, strategy, maxRef, request, free-pattern class, outcome); non-trivial = asymmetric free set (some but not all CPUs free)"},
		func(c *kit.Case) {
			r := c.R
			tp := c06GenTopo(r)
			topo := tp.topo
			c06CountTopo(c, tp)
			maxRef := kit.Pick(r, []int{1, 1, 1, 1, 2, 2, 3, 4})
			all := topo.CPUDetails.CPUs().ToSlice()
			allocated := NewCPUDetails()
			fill := r.Intn(101)
			for _, id := range all {
				if r.Pct(fill) {
					info := topo.CPUDetails[id]
					info.RefCount = r.Range(1, maxRef)
					info.ExclusivePolicy = kit.Pick(r, c06ExclPolicies)
					allocated[id] = info
				}
			}
			full := allocated.CPUs().Filter(func(id int) bool { return allocated[id].RefCount >= maxRef })
			reserved := c06GenReserved(r, tp)
			available := topo.CPUDetails.CPUs().Difference(full).Difference(reserved)
			if r.Pct(25) && topo.NumNodes > 1 {
				// restricted to one NUMA node as allocateCPUSet does
				available = available.Intersection(topo.CPUDetails.CPUsInNUMANodes(kit.Pick(r, tp.nodeIDs)))
			}
			n := r.Range(1, available.Size()+1)
			if r.Pct(1) {
				n = 0 // allocateCPUSet asks for 0 CPUs of a NUMA node whose share is 0
			}
			bind := kit.Pick(r, c06BindPolicies)
			excl := kit.Pick(r, c06ExclPolicies)
			strat := kit.Pick(r, c06Strategies)
			preferred := cpuset.NewCPUSet()
			usePreferred := r.Pct(30)
			if usePreferred {
				b := cpuset.NewCPUSetBuilder()
				for _, id := range all {
					if r.Pct(30) {
						b.Add(id)
					}
				}
				preferred = b.Result()
			}
			c.Op("topo=%s maxRef=%d allocated=%v reserved=%s available=%s n=%d bind=%s excl=%s strat=%s preferred=%v(%s)",
				tp, maxRef, c06Details(allocated), reserved.String(), available.String(), n, bind, excl, strat, usePreferred, preferred.String())
			var res cpuset.CPUSet
			var err error
			if usePreferred {
				res, err = takePreferredCPUs(topo, maxRef, available, preferred, allocated, n, bind, excl, strat)
			} else {
				res, err = takeCPUs(topo, maxRef, available, allocated, n, bind, excl, strat)
			}
			freeClass := "all"
			if available.Size() == 0 {
				freeClass = "none"
			} else if available.Size() < len(all) {
				freeClass = "partial"
				c.NonTrivial()
			}
			c.Seen(tp.Class(), bind, excl, strat, maxRef, n, freeClass, err == nil)
			if err != nil {
				c.Count("takecpus_fail", 1)
				if available.Size() >= n {
					c.Count("converse_misses_fail_with_enough_available", 1)
				}
				return
			}
			c.Count("takecpus_ok", 1)
			if res.Size() != n {
				c.Fail("C06/takecpus/wrong-count", "takeCPUs succeeded with %d CPUs (%s), requested %d", res.Size(), res.String(), n)
			}
			if !res.IsSubsetOf(available) {
				c.Fail("C06/takecpus/not-available", "takeCPUs returned %s, not a subset of the available set %s", res.String(), available.String())
			}
			if !res.Intersection(reserved).IsEmpty() {
				c.Fail("C06/takecpus/reserved", "takeCPUs returned reserved CPUs %s", res.Intersection(reserved).String())
			}
			if c.K < 3 {
				c.Sample(map[string]any{"topology": tp.String(), "available": available.String(), "request": n, "bind": bind, "exclusive": excl, "result": res.String()})
			}
		})
}

func c06Details(d CPUDetails) string {
	ids := d.CPUs().ToSlice()
	s := ""
	for _, id := range ids {
		s += fmt.Sprintf("%d:r%d:%s ", id, d[id].RefCount, d[id].ExclusivePolicy)
	}
	return s
}

// ---------------------------------------------------------------------------------------------
// (b) ledger under Allocate -> Update -> Release histories on a real resourceManager

type c06Pod struct {
	uid   types.UID
	alloc *PodAllocation // nil when not live
}

// c06Hugepages is the third resource kind some NUMA zones report (and some do not).
const c06Hugepages = corev1.ResourceName("hugepages-2Mi")

// c06GenNUMARes draws the per-NUMA capacities as the NodeResourceTopology handler computes them: cpu = the
// node's CPUs minus the reserved ones, memory, and (30%) hugepages on some of the nodes only.
func c06GenNUMARes(r *kit.Rand, tp c06Topo, reserved cpuset.CPUSet, memPerNode int64) []NUMANodeResource {
	var numaRes []NUMANodeResource
	huge := r.Pct(30)
	for _, n := range tp.nodeIDs {
		free := tp.topo.CPUDetails.CPUsInNUMANodes(n).Difference(reserved).Size()
		rl := corev1.ResourceList{
			corev1.ResourceCPU:    *resource.NewMilliQuantity(int64(free)*1000, resource.DecimalSI),
			corev1.ResourceMemory: *resource.NewQuantity(memPerNode, resource.BinarySI),
		}
		if huge && r.Pct(70) {
			rl[c06Hugepages] = *resource.NewQuantity(int64(kit.Pick(r, []int{0, 8, 32})), resource.BinarySI)
		}
		numaRes = append(numaRes, NUMANodeResource{Node: n, Resources: rl})
	}
	return numaRes
}

// c06ModelFree recomputes what is free per NUMA node from the capacities and the live pods' allocations.
func c06ModelFree(numaRes []NUMANodeResource, live []*PodAllocation) map[int]corev1.ResourceList {
	free := map[int]corev1.ResourceList{}
	for _, nr := range numaRes {
		free[nr.Node] = nr.Resources.DeepCopy()
	}
	for _, a := range live {
		for _, nr := range a.NUMANodeResources {
			for name, q := range nr.Resources {
				cur, ok := free[nr.Node][name]
				if !ok {
					continue
				}
				cur.Sub(q)
				if cur.Sign() < 0 {
					cur = *resource.NewQuantity(0, cur.Format)
				}
				free[nr.Node][name] = cur
			}
		}
	}
	return free
}

// c06WholeCPUsFree: the whole CPUs the hinted NUMA nodes have left according to the live pods' bookings.
func c06WholeCPUsFree(free map[int]corev1.ResourceList, hint []int) int {
	n := 0
	for _, h := range hint {
		q := free[h][corev1.ResourceCPU]
		n += int(q.MilliValue() / 1000)
	}
	return n
}

// c06DivisibleEnough: every requested resource that some NUMA node reports has enough free over the hinted nodes.
func c06DivisibleEnough(reqs corev1.ResourceList, free map[int]corev1.ResourceList, hint []int) bool {
	for name, q := range reqs {
		reported := false
		for _, rl := range free {
			if _, ok := rl[name]; ok {
				reported = true
			}
		}
		if !reported {
			continue
		}
		var sum resource.Quantity
		for _, h := range hint {
			sum.Add(free[h][name])
		}
		if sum.Cmp(q) < 0 {
			return false
		}
	}
	return true
}

// c06CheckCPUSetResult applies the result clauses of a successful cpuset Allocate: exact count, only CPUs that were free
// for the pod, a required policy that is reported satisfied really is, and a sound NUMA split.
func c06CheckCPUSetResult(c *kit.Case, tp c06Topo, where string, ncpu int, bind schedulingconfig.CPUBindPolicy, required bool, reqs corev1.ResourceList,
	alloc *PodAllocation, availBefore cpuset.CPUSet, frees []map[int]corev1.ResourceList, hintBits []int) {
	topo := tp.topo
	if alloc.CPUSet.Size() != ncpu {
		c.Fail("C06/allocate/wrong-count", "%s: Allocate succeeded with cpuset %s (%d CPUs), requested %d", where, alloc.CPUSet.String(), alloc.CPUSet.Size(), ncpu)
	}
	if !alloc.CPUSet.IsSubsetOf(availBefore) {
		c.Fail("C06/allocate/not-free", "%s: Allocate returned %s, CPUs free for this pod were %s", where, alloc.CPUSet.String(), availBefore.String())
	}
	if required && bind == schedulingconfig.CPUBindPolicyFullPCPUs && !c06FullCores(topo, alloc.CPUSet) {
		if tp.regular() {
			c.Fail("C06/allocate/fullpcpus-not-satisfied", "%s: required FullPCPUs reported satisfied but %s does not consist of whole cores", where, alloc.CPUSet.String())
		}
		c.Count("irregular_topology_policy_mismatch", 1)
	}
	if required && bind == schedulingconfig.CPUBindPolicySpreadByPCPUs && !c06OnePerCore(topo, alloc.CPUSet) {
		if tp.regular() {
			c.Fail("C06/allocate/spread-not-satisfied", "%s: required SpreadByPCPUs reported satisfied but %s has two CPUs of one core", where, alloc.CPUSet.String())
		}
		c.Count("irregular_topology_policy_mismatch", 1)
	}
	if len(hintBits) > 0 {
		for _, free := range frees {
			c06CheckSplit(c, where, reqs, free, hintBits, alloc.NUMANodeResources)
		}
	}
}

func TestVerifC06Ledger(t *testing.T) {
	kit.Run(t, kit.Config{Property: "C06", Unit: "ledger", Quick: 310, Thorough: 12000,
		Rule: "histories of 50-300 allocate(+commit)/re-allocate/release/double-release/release-unknown operations over 3-10 pods on one node of a real resourceManager, random topology (all dimensions of c06GenTopo incl. NUMA ids with holes), maxRefCount 1-4, reserved CPUs (scattered/whole cores/whole NUMA node/lowest ids), per-NUMA cpu+memory(+hugepages on some nodes), NUMA strategy from the manager default or the node label, cpuset requests (any size incl. not a multiple of the threads per core, 20% exactly the whole CPUs the hinted NUMA nodes have left; preferred or required policy) and per history 0/20/40% NUMA-amount-only requests (whole or fractional milli-CPU, memory, hugepages), NUMA hints over random subsets of the real node ids; 25% of the histories start with shared-pool pods that leave 1-6 whole CPUs per NUMA node; 35% of the allocate steps are preceded by three evaluation-only Allocate calls (required FullPCPUs/SpreadByPCPUs over >= 2 hinted NUMA nodes, sized at or just below what they have left); oracle after every step; distinct = (topology class, maxRef, op, policy, outcome, live pods); non-trivial = case in which an allocation was refused for lack of CPUs and a later one succeeded after a release"},
		func(c *kit.Case) {
			r := c.R
			tp := c06GenTopo(r)
			topo := tp.topo
			c06CountTopo(c, tp)
			maxRef := kit.Pick(r, []int{1, 1, 1, 1, 2, 2, 3, 4})
			reserved := c06GenReserved(r, tp)
			memPerNode := int64(kit.Pick(r, []int{16, 64, 100, 1 << 20}))
			numaRes := c06GenNUMARes(r, tp, reserved, memPerNode)
			tom := NewTopologyOptionsManager()
			const nodeName = "n0"
			tom.UpdateTopologyOptions(nodeName, func(o *TopologyOptions) {
				o.CPUTopology = topo
				o.MaxRefCount = maxRef
				o.ReservedCPUs = reserved
				o.NUMANodeResources = numaRes
			})
			rm := &resourceManager{
				numaAllocateStrategy:   kit.Pick(r, c06Strategies),
				topologyOptionsManager: tom,
				nodeAllocations:        map[string]*NodeAllocation{},
			}
			node := &corev1.Node{ObjectMeta: metav1.ObjectMeta{Name: nodeName}}
			if r.Pct(30) {
				node.Labels = map[string]string{extension.LabelNodeNUMAAllocateStrategy: string(kit.Pick(r, c06Strategies))}
			}
			c.Op("topo=%s maxRef=%d reserved=%s numa=%s strategy=%s nodeLabels=%v", tp, maxRef, reserved.String(), c06NUMAResStr(numaRes), rm.numaAllocateStrategy, node.Labels)
			npods := r.Range(3, 10)
			pods := make([]*c06Pod, npods)
			for i := range pods {
				pods[i] = &c06Pod{uid: types.UID(fmt.Sprintf("pod-%d", i))}
			}
			nops := r.Range(50, 300)
			// share of pods without cpu binding in this history: none (pure cpuset node), some, many
			numaOnlyPct := kit.Pick(r, []int{0, 0, 20, 20, 40})
			refusedOnce, okAfterRefuse := false, false
			check := func(where string) {
				na := rm.GetNodeAllocation(nodeName)
				na.lock.RLock()
				defer na.lock.RUnlock()
				holders := map[int]int{}
				sumRes := map[int]corev1.ResourceList{}
				live := 0
				for _, p := range pods {
					if p.alloc == nil {
						continue
					}
					live++
					for _, id := range p.alloc.CPUSet.ToSliceNoSort() {
						holders[id]++
					}
					for _, nr := range p.alloc.NUMANodeResources {
						if sumRes[nr.Node] == nil {
							sumRes[nr.Node] = corev1.ResourceList{}
						}
						for name, q := range nr.Resources {
							cur := sumRes[nr.Node][name]
							cur.Add(q)
							sumRes[nr.Node][name] = cur
						}
					}
				}
				if len(na.allocatedPods) != live {
					c.Fail("C06/ledger/pods", "%s: ledger holds %d pods, %d are live", where, len(na.allocatedPods), live)
				}
				for id := range topo.CPUDetails {
					h := holders[id]
					ref := 0
					if info, ok := na.allocatedCPUs[id]; ok {
						ref = info.RefCount
					}
					if ref != h {
						c.Fail("C06/ledger/refcount", "%s: cpu %d is held by %d live pods but the ledger's ref count is %d", where, id, h, ref)
					}
					if h > maxRef {
						c.Fail("C06/ledger/over-shared", "%s: cpu %d is held by %d pods, sharing limit %d", where, id, h, maxRef)
					}
					if h > 0 && reserved.Contains(id) {
						c.Fail("C06/ledger/reserved", "%s: reserved cpu %d is held by a pod", where, id)
					}
				}
				for id := range na.allocatedCPUs {
					if _, ok := topo.CPUDetails[id]; !ok {
						c.Fail("C06/ledger/unknown-cpu", "%s: ledger holds cpu %d that is not in the topology", where, id)
					}
				}
				led := map[int]corev1.ResourceList{}
				for n, res := range na.allocatedResources {
					if res != nil {
						led[n] = res.Resources
					}
				}
				// every NUMA node (real ids, not 0..k-1) and every resource kind
				if n, name, differ := c06AmountsDiffer(led, sumRes); differ {
					a, b := led[n][name], sumRes[n][name]
					c.Fail("C06/ledger/numa-amount", "%s: NUMA node %d ledger %s=%s, live pods hold %s", where, n, name, a.String(), b.String())
				}
				// never more than the node has
				for _, nr := range numaRes {
					for name, capQ := range nr.Resources {
						a := led[nr.Node][name]
						if a.Cmp(capQ) > 0 {
							c.Fail("C06/ledger/numa-over", "%s: NUMA node %d ledger %s=%s exceeds its capacity %s", where, nr.Node, name, a.String(), capQ.String())
						}
					}
				}
				for n := range led {
					known := false
					for _, id := range tp.nodeIDs {
						if id == n {
							known = true
						}
					}
					if !known {
						c.Fail("C06/ledger/unknown-numa-node", "%s: the ledger accounts amounts on NUMA node %d, the node has %v", where, n, tp.nodeIDs)
					}
				}
				c.Count("ledger_checks", 1)
			}
			// 25%: the node starts nearly full at the NUMA level: shared-pool pods (no cpu binding, placed with a NUMA
			// policy) have consumed all but 1-6 whole CPUs of every NUMA node while no cpuset is taken yet. They are booked
			// through the real Allocate+Update and take part in the history like every other pod.
			if r.Pct(25) {
				for _, nr := range numaRes {
					capQ := nr.Resources[corev1.ResourceCPU]
					left := int64(r.Range(1, 6)) * 1000
					if capQ.MilliValue() <= left {
						continue
					}
					sp := &c06Pod{uid: types.UID(fmt.Sprintf("shared-%d", nr.Node))}
					m, _ := bitmask.NewBitMask(nr.Node)
					reqs := corev1.ResourceList{corev1.ResourceCPU: *resource.NewMilliQuantity(capQ.MilliValue()-left, resource.DecimalSI)}
					opts := &ResourceOptions{requests: reqs.DeepCopy(), originalRequests: reqs.DeepCopy(), topologyOptions: tom.GetTopologyOptions(nodeName),
						hint: topologymanager.NUMATopologyHint{NUMANodeAffinity: m}}
					alloc, status := rm.Allocate(node, &corev1.Pod{ObjectMeta: metav1.ObjectMeta{UID: sp.uid, Name: string(sp.uid), Namespace: "default"}}, opts)
					c.Op("prefill %s reqs=%s hint=[%d] -> ok=%v %s", sp.uid, c06RL(reqs), nr.Node, status.IsSuccess(), c06AllocStr(alloc))
					if !status.IsSuccess() {
						c.Fail("C06/numa-split/incomplete", "Allocate of a pod without cpu binding refused (%s) on an empty node: request %s on NUMA node %d with capacity %s", status.Message(), c06RL(reqs), nr.Node, c06RL(nr.Resources))
					}
					c06CheckSplit(c, "prefill", reqs, c06ModelFree(numaRes, nil), []int{nr.Node}, alloc.NUMANodeResources)
					rm.Update(nodeName, alloc)
					sp.alloc = alloc
					pods = append(pods, sp)
					check("after prefill of NUMA node " + fmt.Sprint(nr.Node))
				}
				c.Count("ledger_histories_numa_nearly_full", 1)
			}
			for op := 0; op < nops; op++ {
				p := kit.Pick(r, pods)
				switch k := r.Weighted(55, 30, 5, 5, 5); k {
				case 0: // allocate (for a new pod) or re-allocate (update of an existing pod) + commit
					cpuBind := !r.Pct(numaOnlyPct)
					ncpu := r.Range(1, maxInt(1, topo.NumCPUs/2))
					if r.Pct(10) {
						ncpu = topo.NumCPUs + 1 - reserved.Size()
					}
					exactFill := cpuBind && r.Pct(20) // boundary: ask for exactly what the hinted NUMA nodes have left (set below)
					bind := kit.Pick(r, c06BindPolicies)
					required := r.Pct(45) && (bind == schedulingconfig.CPUBindPolicyFullPCPUs || bind == schedulingconfig.CPUBindPolicySpreadByPCPUs)
					excl := kit.Pick(r, c06ExclPolicies)
					mem := int64(r.Range(0, int(minI64(memPerNode, 64))))
					var reqs corev1.ResourceList
					var opts *ResourceOptions
					if cpuBind {
						opts = &ResourceOptions{
							numCPUsNeeded:         ncpu,
							requestCPUBind:        true,
							requiredCPUBindPolicy: required,
							cpuBindPolicy:         bind,
							cpuExclusivePolicy:    excl,
							topologyOptions:       tom.GetTopologyOptions(nodeName),
						}
						reqs = corev1.ResourceList{corev1.ResourceCPU: *resource.NewQuantity(int64(ncpu), resource.DecimalSI)}
					} else {
						// a pod without cpu binding (LS): only per-NUMA amounts, milli-CPU granularity
						ncpu, required = 0, false
						// mostly whole CPUs (shared-pool pods leave odd and even amounts), some fractional
						milli := int64(kit.Pick(r, []int{1000, 1000, 1000, 2000, 3000, 3000, 5000, 7000, 1, 250, 500, 1500, 2500, 7777}))
						opts = &ResourceOptions{cpuBindPolicy: bind, topologyOptions: tom.GetTopologyOptions(nodeName)}
						reqs = corev1.ResourceList{corev1.ResourceCPU: *resource.NewMilliQuantity(milli, resource.DecimalSI)}
					}
					if mem > 0 {
						reqs[corev1.ResourceMemory] = *resource.NewQuantity(mem, resource.BinarySI)
					}
					if r.Pct(15) {
						reqs[c06Hugepages] = *resource.NewQuantity(int64(r.Range(1, 10)), resource.BinarySI)
					}
					if r.Pct(10) {
						reqs[corev1.ResourceEphemeralStorage] = *resource.NewQuantity(1<<30, resource.BinarySI) // never reported per NUMA node
					}
					opts.requests = reqs.DeepCopy()
					opts.originalRequests = reqs.DeepCopy()
					var hintBits []int
					if r.Pct(60) || !cpuBind {
						for _, n := range tp.nodeIDs {
							if r.Pct(60) {
								hintBits = append(hintBits, n)
							}
						}
						if len(hintBits) == 0 {
							hintBits = []int{kit.Pick(r, tp.nodeIDs)}
						}
						m, _ := bitmask.NewBitMask(hintBits...)
						opts.hint = topologymanager.NUMATopologyHint{NUMANodeAffinity: m}
					}
					pod := &corev1.Pod{ObjectMeta: metav1.ObjectMeta{UID: p.uid, Name: string(p.uid), Namespace: "default"}}
					// pre-state for the oracle
					availBefore, _, _ := rm.GetAvailableCPUs(nodeName)
					freeBefore, _, _ := rm.getAvailableNUMANodeResources(nodeName, opts.topologyOptions, nil)
					var liveAllocs []*PodAllocation
					for _, q := range pods {
						if q.alloc != nil {
							liveAllocs = append(liveAllocs, q.alloc)
						}
					}
					modelFree := c06ModelFree(numaRes, liveAllocs)
					if exactFill && len(hintBits) > 0 {
						if n := c06WholeCPUsFree(modelFree, hintBits); n > 0 {
							ncpu = n
							opts.numCPUsNeeded = n
							reqs[corev1.ResourceCPU] = *resource.NewQuantity(int64(n), resource.DecimalSI)
							opts.requests = reqs.DeepCopy()
							opts.originalRequests = reqs.DeepCopy()
							c.Count("allocate_exact_fill_of_hinted_nodes", 1)
						}
					}
					// The scheduler evaluates many pods on this node that it never books here (Filter dry runs). 35% of the
					// time, three such evaluations on the present state: a required FullPCPUs / SpreadByPCPUs request over a
					// hint of >= 2 NUMA nodes (when there are), sized at / just below what the hinted nodes have left.
					if r.Pct(35) {
						for i := 0; i < 3; i++ {
							var ph []int
							for _, n := range tp.nodeIDs {
								if r.Pct(70) {
									ph = append(ph, n)
								}
							}
							if len(ph) < 2 {
								ph = append([]int(nil), tp.nodeIDs...)
							}
							pbind := kit.Pick(r, []schedulingconfig.CPUBindPolicy{schedulingconfig.CPUBindPolicyFullPCPUs, schedulingconfig.CPUBindPolicySpreadByPCPUs})
							left := c06WholeCPUsFree(modelFree, ph)
							pn := left
							switch r.Intn(4) {
							case 0:
								pn = left - r.Range(1, maxInt(1, topo.CPUsPerCore()))
							case 1:
								pn = r.Range(1, maxInt(1, left))
							}
							if pn < 1 {
								continue
							}
							preqs := corev1.ResourceList{corev1.ResourceCPU: *resource.NewQuantity(int64(pn), resource.DecimalSI)}
							pm, _ := bitmask.NewBitMask(ph...)
							popts := &ResourceOptions{numCPUsNeeded: pn, requestCPUBind: true, requiredCPUBindPolicy: true, cpuBindPolicy: pbind,
								cpuExclusivePolicy: kit.Pick(r, c06ExclPolicies), topologyOptions: tom.GetTopologyOptions(nodeName),
								requests: preqs.DeepCopy(), originalRequests: preqs.DeepCopy(), hint: topologymanager.NUMATopologyHint{NUMANodeAffinity: pm}}
							palloc, pstatus := rm.Allocate(node, &corev1.Pod{ObjectMeta: metav1.ObjectMeta{UID: "probe", Name: "probe", Namespace: "default"}}, popts)
							c.Count("ledger_required_policy_probes", 1)
							if pstatus.IsSuccess() {
								c.Count("ledger_required_policy_probes_ok", 1)
								where := fmt.Sprintf("evaluation only: cpus=%d required %s hint=%v -> %s", pn, pbind, ph, c06AllocStr(palloc))
								c.Op("%s", where)
								c06CheckCPUSetResult(c, tp, where, pn, pbind, true, preqs, palloc, availBefore, []map[int]corev1.ResourceList{freeBefore, modelFree}, ph)
							}
						}
					}
					alloc, status := rm.Allocate(node, pod, opts)
					c.Op("allocate %s cpuBind=%v cpus=%d reqs=%s bind=%s required=%v excl=%s hint=%v (existing=%v) -> ok=%v %s", p.uid, cpuBind, ncpu, c06RL(reqs), bind, required, excl, hintBits, p.alloc != nil, status.IsSuccess(), c06AllocStr(alloc))
					c.Seen(tp.Class(), maxRef, "alloc", cpuBind, bind, required, excl, len(hintBits), status.IsSuccess(), c06Live(pods))
					if !status.IsSuccess() {
						c.Count("allocate_refused", 1)
						if cpuBind && availBefore.Size() < ncpu {
							refusedOnce = true
						}
						if !cpuBind {
							c.Count("allocate_numa_only_refused", 1)
							// completeness: milli-CPU without binding, memory and hugepages are freely divisible
							if c06DivisibleEnough(reqs, modelFree, hintBits) {
								c.Fail("C06/numa-split/incomplete", "Allocate of a pod without cpu binding refused (%s) although the hinted NUMA nodes %v have enough free of every requested resource: request %s, free %s", status.Message(), hintBits, c06RL(reqs), c06FreeStr(modelFree))
							}
						}
						break
					}
					c.Count("allocate_ok", 1)
					if refusedOnce {
						okAfterRefuse = true
					}
					if alloc.CPUSet.Size() != ncpu {
						c.Fail("C06/allocate/wrong-count", "Allocate succeeded with cpuset %s (%d CPUs), requested %d", alloc.CPUSet.String(), alloc.CPUSet.Size(), ncpu)
					}
					if !alloc.CPUSet.IsSubsetOf(availBefore) {
						c.Fail("C06/allocate/not-free", "Allocate returned %s, CPUs free for this pod were %s", alloc.CPUSet.String(), availBefore.String())
					}
					if required && bind == schedulingconfig.CPUBindPolicyFullPCPUs && !c06FullCores(topo, alloc.CPUSet) {
						if tp.regular() {
							c.Fail("C06/allocate/fullpcpus-not-satisfied", "required FullPCPUs reported satisfied but %s does not consist of whole cores", alloc.CPUSet.String())
						}
						c.Count("irregular_topology_policy_mismatch", 1)
					}
					if required && bind == schedulingconfig.CPUBindPolicySpreadByPCPUs && !c06OnePerCore(topo, alloc.CPUSet) {
						if tp.regular() {
							c.Fail("C06/allocate/spread-not-satisfied", "required SpreadByPCPUs reported satisfied but %s has two CPUs of one core", alloc.CPUSet.String())
						}
						c.Count("irregular_topology_policy_mismatch", 1)
					}
					if opts.hint.NUMANodeAffinity != nil {
						c06CheckSplit(c, "allocate", reqs, freeBefore, hintBits, alloc.NUMANodeResources)
						// the same against the free amounts recomputed from the live pods
						c06CheckSplit(c, "allocate (free recomputed from the live pods)", reqs, modelFree, hintBits, alloc.NUMANodeResources)
						if !cpuBind {
							c.Count("allocate_numa_only_ok", 1)
						}
						// does the cpuset follow the per-NUMA cpu amounts? (counted, not a verdict: the
						// statement does not relate the two)
						perNode := map[int]int{}
						for _, id := range alloc.CPUSet.ToSliceNoSort() {
							perNode[topo.CPUDetails[id].NodeID]++
						}
						for _, nr := range alloc.NUMANodeResources {
							q := nr.Resources[corev1.ResourceCPU]
							if cpuBind && int64(perNode[nr.Node])*1000 != q.MilliValue() {
								c.Count("cpuset_vs_numa_amount_mismatch", 1)
							}
						}
					}
					rm.Update(nodeName, alloc)
					p.alloc = alloc
				case 1: // release
					c.Op("release %s (live=%v)", p.uid, p.alloc != nil)
					rm.Release(nodeName, p.uid)
					if p.alloc != nil {
						c.Count("release_live", 1)
					} else {
						c.Count("release_not_live", 1)
					}
					p.alloc = nil
				case 2: // duplicate commit of the same allocation (informer echo)
					if p.alloc != nil {
						c.Op("update-same %s", p.uid)
						cp := *p.alloc
						rm.Update(nodeName, &cp)
						c.Count("update_same", 1)
					}
				case 3: // release of a pod the manager never saw
					c.Op("release unknown")
					rm.Release(nodeName, types.UID("ghost"))
				case 4: // double release
					c.Op("release twice %s", p.uid)
					rm.Release(nodeName, p.uid)
					rm.Release(nodeName, p.uid)
					p.alloc = nil
				}
				check(fmt.Sprintf("after op %d", op))
			}
			for _, p := range pods {
				rm.Release(nodeName, p.uid)
				p.alloc = nil
			}
			c.Op("release all")
			check("after releasing everything")
			na := rm.GetNodeAllocation(nodeName)
			if len(na.allocatedCPUs) != 0 || len(na.allocatedPods) != 0 {
				c.Fail("C06/ledger/not-empty", "after releasing every pod the ledger still holds %d CPUs / %d pods", len(na.allocatedCPUs), len(na.allocatedPods))
			}
			for n, res := range na.allocatedResources {
				for name, q := range res.Resources {
					if !q.IsZero() {
						c.Fail("C06/ledger/not-empty", "after releasing every pod NUMA node %d still accounts %s=%s", n, name, q.String())
					}
				}
			}
			if okAfterRefuse {
				c.NonTrivial()
			}
			if c.K < 2 {
				ops := c.Ops()
				if len(ops) > 12 {
					ops = ops[:12]
				}
				c.Sample(ops)
			}
		})
}

func c06NUMAResStr(nrs []NUMANodeResource) string {
	s := ""
	for _, nr := range nrs {
		s += fmt.Sprintf("%d=%s ", nr.Node, c06RL(nr.Resources))
	}
	return s
}

func c06FreeStr(free map[int]corev1.ResourceList) string {
	ids := make([]int, 0, len(free))
	for n := range free {
		ids = append(ids, n)
	}
	sort.Ints(ids)
	s := ""
	for _, n := range ids {
		s += fmt.Sprintf("%d=%s ", n, c06RL(free[n]))
	}
	return s
}

func c06Live(pods []*c06Pod) int {
	n := 0
	for _, p := range pods {
		if p.alloc != nil {
			n++
		}
	}
	return n
}

func c06AllocStr(a *PodAllocation) string {
	if a == nil {
		return ""
	}
	s := "cpuset=" + a.CPUSet.String()
	for _, nr := range a.NUMANodeResources {
		s += fmt.Sprintf(" numa%d=%s", nr.Node, c06RL(nr.Resources))
	}
	return s
}

func c06RL(rl corev1.ResourceList) string {
	names := make([]string, 0, len(rl))
	for n := range rl {
		names = append(names, string(n))
	}
	sort.Strings(names)
	s := "{"
	for _, n := range names {
		q := rl[corev1.ResourceName(n)]
		s += n + ":" + q.String() + " "
	}
	return s + "}"
}

func maxInt(a, b int) int {
	if a > b {
		return a
	}
	return b
}

func minI64(a, b int64) int64 {
	if a < b {
		return a
	}
	return b
}

// c06CheckSplit checks a successful NUMA split: exact totals, each share within the node's free
// amount, only hinted nodes used.
func c06CheckSplit(c *kit.Case, where string, requests corev1.ResourceList, free map[int]corev1.ResourceList, hint []int, result []NUMANodeResource) {
	hinted := map[int]bool{}
	for _, h := range hint {
		hinted[h] = true
	}
	reported := map[corev1.ResourceName]bool{}
	for _, rl := range free {
		for n := range rl {
			reported[n] = true
		}
	}
	sum := corev1.ResourceList{}
	seenNode := map[int]bool{}
	for _, nr := range result {
		if seenNode[nr.Node] {
			c.Fail("C06/numa-split/duplicate-node", "%s: NUMA node %d appears twice in the result", where, nr.Node)
		}
		seenNode[nr.Node] = true
		if !hinted[nr.Node] {
			c.Fail("C06/numa-split/unhinted-node", "%s: NUMA node %d is used but the hint names %v", where, nr.Node, hint)
		}
		for name, q := range nr.Resources {
			if q.Sign() < 0 {
				c.Fail("C06/numa-split/negative", "%s: NUMA node %d gets negative %s=%s", where, nr.Node, name, q.String())
			}
			f := free[nr.Node][name]
			if q.Cmp(f) > 0 {
				c.Fail("C06/numa-split/over-node-free", "%s: NUMA node %d gives %s=%s but only %s was free", where, nr.Node, name, q.String(), f.String())
			}
			cur := sum[name]
			cur.Add(q)
			sum[name] = cur
		}
	}
	for name, q := range requests {
		if !reported[name] {
			continue
		}
		s := sum[name]
		if s.Cmp(q) != 0 {
			c.Fail("C06/numa-split/wrong-total", "%s: request %s=%s but the NUMA nodes hand out %s in total", where, name, q.String(), s.String())
		}
	}
	for name, s := range sum {
		if _, ok := requests[name]; !ok && !s.IsZero() {
			c.Fail("C06/numa-split/unrequested", "%s: %s=%s handed out but not requested", where, name, s.String())
		}
	}
}

// ---------------------------------------------------------------------------------------------
// (c) tryBestToDistributeEvenly: exhaustive small scope + sampled large scope

var c06FreeVals = []int64{0, 1, 2, 5, 10}

// c06Distribute runs one (free vector, hint, request) input for a divisible resource and applies
// the soundness and completeness oracles.
func c06Distribute(c *kit.Case, ids []int, free []int64, hint []int, resName corev1.ResourceName, req int64, milli bool) {
	mk := func(v int64) resource.Quantity {
		if resName == corev1.ResourceCPU {
			if milli {
				return *resource.NewMilliQuantity(v, resource.DecimalSI)
			}
			return *resource.NewMilliQuantity(v*1000, resource.DecimalSI)
		}
		return *resource.NewQuantity(v, resource.BinarySI)
	}
	total := map[int]corev1.ResourceList{}
	freeCopy := map[int]corev1.ResourceList{}
	for i, id := range ids {
		total[id] = corev1.ResourceList{resName: mk(free[i])}
		freeCopy[id] = corev1.ResourceList{resName: mk(free[i])}
	}
	m, err := bitmask.NewBitMask(hint...)
	if err != nil {
		c.Harness("bitmask: %v", err)
	}
	opts := &ResourceOptions{hint: topologymanager.NUMATopologyHint{NUMANodeAffinity: m}}
	requests := corev1.ResourceList{resName: mk(req)}
	result, reasons := tryBestToDistributeEvenly(requests.DeepCopy(), total, opts)
	var sumFree int64
	for i, id := range ids {
		for _, h := range hint {
			if h == id {
				sumFree += free[i]
			}
		}
	}
	where := fmt.Sprintf("ids=%v free=%v hint=%v %s request=%d(milli=%v)", ids, free, hint, resName, req, milli)
	if len(reasons) == 0 {
		c.Count("split_ok", 1)
		c06CheckSplit(c, where, corev1.ResourceList{resName: mk(req)}, freeCopy, hint, result)
		if sumFree < req {
			c.Fail("C06/numa-split/over-commit", "%s: succeeded although the hinted nodes have only %d free", where, sumFree)
		}
	} else {
		c.Count("split_refused", 1)
		if sumFree >= req {
			c.Fail("C06/numa-split/incomplete", "%s: refused (%v) although the hinted NUMA nodes together have %d free of a freely divisible resource", where, reasons, sumFree)
		}
	}
	if len(hint) > 0 && hint[0] != ids[0] {
		c.Count("hints_not_starting_at_first_node", 1)
	}
	for i, id := range ids {
		// the input map must not be consumed by the call (it is the scheduler's view of free resources)
		q := total[id][resName]
		w := mk(free[i])
		if q.Cmp(w) != 0 {
			c.Count("input_free_map_mutated", 1)
		}
	}
}

// c06DistributeMulti: one request for 2-4 resources (memory, milli-CPU without binding, hugepages, a resource no NUMA
// node reports), each with its own free vector over the NUMA nodes (a node may not report a resource at all).
// Soundness per resource; completeness: refused => at least one reported resource lacks free amount over the hint.
func c06DistributeMulti(c *kit.Case, r *kit.Rand, ids []int, hint []int, n int) {
	names := []corev1.ResourceName{corev1.ResourceMemory, corev1.ResourceCPU, c06Hugepages}
	kit.Shuffle(r, names)
	names = names[:r.Range(2, 3)]
	total := map[int]corev1.ResourceList{}
	for _, id := range ids {
		total[id] = corev1.ResourceList{}
	}
	requests := corev1.ResourceList{}
	mk := func(name corev1.ResourceName, v int64) resource.Quantity {
		if name == corev1.ResourceCPU {
			return *resource.NewMilliQuantity(v, resource.DecimalSI)
		}
		return *resource.NewQuantity(v, resource.BinarySI)
	}
	desc := ""
	for _, name := range names {
		var sum int64
		frees := make([]int64, len(ids))
		for i, id := range ids {
			if r.Pct(12) {
				frees[i] = -1 // this NUMA node does not report the resource
				continue
			}
			frees[i] = int64(kit.Pick(r, []int{0, 0, 1, 2, 3, 7, 1000, 1024, 4000, 65536}))
			total[id][name] = mk(name, frees[i])
			for _, h := range hint {
				if h == id {
					sum += frees[i]
				}
			}
		}
		req := sum
		switch r.Intn(5) {
		case 0:
			req = sum + 1
		case 1:
			req = sum - 1
		case 2:
			req = r.Int63n(sum + 1)
		case 3:
			req = sum/2 + 1
		}
		if req < 0 {
			req = 0
		}
		requests[name] = mk(name, req)
		desc += fmt.Sprintf("%s: free=%v req=%d; ", name, frees, req)
	}
	if r.Pct(25) {
		requests[corev1.ResourceEphemeralStorage] = *resource.NewQuantity(5, resource.BinarySI) // reported by no NUMA node: not split, never a reason to refuse
	}
	freeCopy := map[int]corev1.ResourceList{}
	for id, rl := range total {
		freeCopy[id] = rl.DeepCopy()
	}
	m, err := bitmask.NewBitMask(hint...)
	if err != nil {
		c.Harness("bitmask: %v", err)
	}
	c.Op("multi ids=%v hint=%v %s", ids, hint, desc)
	opts := &ResourceOptions{hint: topologymanager.NUMATopologyHint{NUMANodeAffinity: m}}
	result, reasons := tryBestToDistributeEvenly(requests.DeepCopy(), total, opts)
	enough := c06DivisibleEnough(requests, freeCopy, hint)
	where := fmt.Sprintf("multi ids=%v hint=%v %s", ids, hint, desc)
	c.Seen("multi", n, len(hint), len(names), enough, len(reasons) == 0)
	c.Count("split_multi_resource", 1)
	if len(reasons) == 0 {
		c.Count("split_ok", 1)
		c06CheckSplit(c, where, requests, freeCopy, hint, result)
		if !enough {
			c.Fail("C06/numa-split/over-commit", "%s: succeeded although the hinted nodes do not have enough of every requested resource", where)
		}
	} else {
		c.Count("split_refused", 1)
		if enough {
			c.Fail("C06/numa-split/incomplete", "%s: refused (%v) although the hinted NUMA nodes together have enough free of every requested (freely divisible) resource", where, reasons)
		}
	}
}

func c06Subsets(ids []int) [][]int {
	var out [][]int
	for m := 1; m < 1<<len(ids); m++ {
		var s []int
		for i, id := range ids {
			if m&(1<<i) != 0 {
				s = append(s, id)
			}
		}
		out = append(out, s)
	}
	return out
}

// Exhaustive: N in 2..4 NUMA nodes (ids 0..N-1), free in {0,1,2,5,10}^N, every non-empty hint,
// request 0..20, memory. One kit case = one (N, free vector); 25+125+625 = 775 cases.
func TestVerifC06DistributeExhaustive(t *testing.T) {
	const space = 25 + 125 + 625
	kit.Run(t, kit.Config{Property: "C06", Unit: "distribute-exhaustive", Quick: space, Thorough: space, Exhaustive: true,
		Rule: "exhaustive: 2-4 NUMA nodes x free amount in {0,1,2,5,10} per node x every non-empty hint subset x memory request 0..20, run on the real tryBestToDistributeEvenly; distinct = (sorted free multiset restricted to the hint, request, outcome); every input is checked for soundness and, memory being freely divisible, completeness"},
		func(c *kit.Case) {
			k := c.K
			n := 2
			switch {
			case k < 25:
			case k < 150:
				n, k = 3, k-25
			default:
				n, k = 4, k-150
			}
			free := make([]int64, n)
			ids := make([]int, n)
			for i := 0; i < n; i++ {
				free[i] = c06FreeVals[k%5]
				k /= 5
				ids[i] = i
			}
			cnt := 0
			for _, hint := range c06Subsets(ids) {
				var hf []int64
				for _, h := range hint {
					hf = append(hf, free[h])
				}
				sort.Slice(hf, func(i, j int) bool { return hf[i] < hf[j] })
				for req := int64(0); req <= 20; req++ {
					c06Distribute(c, ids, free, hint, corev1.ResourceMemory, req, false)
					cnt++
					c.Seen(hf, req)
				}
			}
			c.Evals(cnt - 1)
			c.NonTrivial()
			if c.K == 777%space || c.K == 30 {
				c.Sample(map[string]any{"numa_ids": ids, "free": free, "hints": "every non-empty subset", "requests": "0..20", "resource": "memory"})
			}
		})
}

func TestVerifC06DistributeSampled(t *testing.T) {
	kit.Run(t, kit.Config{Property: "C06", Unit: "distribute-sampled", Quick: 20000, Thorough: 600000,
		Rule: "sampled: 2-6 (8%: 7-10) NUMA nodes with arbitrary (sparse, unordered) ids out of 0..11 or 0..63, free amounts boundary-biased up to 2^40, random non-empty hint subset (12%: also naming a node id without known free amounts), memory or non-bound milli-CPU, request around the hinted free sum (sum-1, sum, sum+1, random); 30%: one request for 2-3 resources (memory, milli-CPU, hugepages; a node may not report a resource; sometimes plus a resource no node reports) with independent free vectors; distinct = (#nodes, |hint|, hint starts at lowest id?, resource, request class, outcome); non-trivial = hint not starting at the lowest node id"},
		func(c *kit.Case) {
			r := c.R
			n := r.Range(2, 6)
			if r.Pct(8) {
				n = r.Range(7, 10)
			}
			pool := r.Perm(12)
			if r.Pct(35) {
				pool = r.Perm(64) // the bit mask has 64 positions
			}
			ids := append([]int(nil), pool[:n]...)
			if r.Pct(50) {
				sort.Ints(ids)
			}
			free := make([]int64, n)
			for i := range free {
				switch r.Intn(6) {
				case 0:
					free[i] = 0
				case 1:
					free[i] = int64(r.Range(1, 10))
				case 2:
					free[i] = int64(r.Range(1, 4000))
				case 3:
					free[i] = 1 << uint(r.Range(10, 40))
				case 4:
					free[i] = (1 << uint(r.Range(10, 40))) - 1
				default:
					free[i] = int64(r.Range(0, 64)) * 1000
				}
			}
			var hint []int
			var sum int64
			for i, id := range ids {
				if r.Pct(55) {
					hint = append(hint, id)
					sum += free[i]
				}
			}
			if len(hint) == 0 {
				i := r.Intn(n)
				hint = []int{ids[i]}
				sum = free[i]
			}
			var req int64
			cls := r.Intn(5)
			switch cls {
			case 0:
				req = sum
			case 1:
				req = sum - 1
			case 2:
				req = sum + 1
			case 3:
				req = r.Int63n(sum + 1)
			default:
				req = sum/2 + 1
			}
			if req < 0 {
				req = 0
			}
			resName := corev1.ResourceMemory
			milli := false
			if r.Pct(40) {
				resName = corev1.ResourceCPU
				milli = true
			}
			minID := ids[0]
			for _, id := range ids {
				if id < minID {
					minID = id
				}
			}
			sort.Ints(hint)
			startsLow := hint[0] == minID
			if !startsLow {
				c.NonTrivial()
			}
			// 12%: the hint also names a node id for which no free amount is known (a Restricted reservation offers
			// amounts on its own NUMA nodes only, the hint comes from the whole node): nothing is free there
			if r.Pct(12) {
				for _, cand := range pool[n:] {
					hint = append(hint, cand)
					c.Count("split_hint_names_unknown_node", 1)
					break
				}
				sort.Ints(hint)
			}
			if r.Pct(30) {
				// several resources in one request, each with its own free vector; every one of them is freely divisible
				c06DistributeMulti(c, r, ids, hint, n)
				return
			}
			c.Op("ids=%v free=%v hint=%v res=%s req=%d", ids, free, hint, resName, req)
			c.Seen(n, len(hint), startsLow, resName, cls, sum >= req)
			c06Distribute(c, ids, free, hint, resName, req, milli)
			if c.K < 2 {
				c.Sample(map[string]any{"numa_ids": ids, "free": free, "hint": hint, "resource": resName, "request": req})
			}
		})
}

// ---------------------------------------------------------------------------------------------
// (d) allocations delivered before the node's topology (scheduler restart), then concurrent use.
//
// After a restart a bound pod can reach the resource manager before the NodeResourceTopology of its
// node; the manager keeps such allocations and applies them once the topology is valid. In this unit
// the informer goroutine (queries + Release of deleted pods, Update of late pods) races the scheduling
// goroutine (GetAvailableCPUs / GetAllocatedCPUSet) right after the topology arrived. Causal rules:
// every pod is delivered once; a pod is released only after it was delivered; cpusets of the pods are
// disjoint (they were allocated by a correct scheduler before the restart). Oracle at quiescence: the
// ledger equals the pods that were delivered and not released, whatever the interleaving was (every
// serial order of these calls gives that same end state). Function-entry yield points (tools/instr)
// in GetTopologyOptions / NodeAllocation.update / release widen the windows between the manager's
// critical sections.
func TestVerifC06PendingConcurrent(t *testing.T) {
	kit.Run(t, kit.Config{Property: "C06", Unit: "pending-conc", Quick: 2500, Thorough: 60000,
		Rule: "restart replay: 2-6 bound pods with disjoint cpusets (sharing limit 2 in 25%: neighbours share up to two CPUs) and per-NUMA cpu/memory amounts are delivered (Update) before the node's topology is valid, optionally after an event that created the node's allocation entry early; then the topology arrives and 3 goroutines race: scheduler reads (GetAvailableCPUs, GetAllocatedCPUSet), informer releases of a subset of the pods, informer delivery of late pods; yields at function entries; oracle at quiescence = ledger (pods, cpu ref counts, per-NUMA amounts, free CPUs) equals delivered-and-not-released pods; distinct = interleaving signature; non-trivial = at least one release raced a read"},
		func(c *kit.Case) {
			r := c.R
			tp := c06GenTopo(r)
			topo := tp.topo
			c06CountTopo(c, tp)
			all := topo.CPUDetails.CPUs().ToSlice()
			if len(all) < 4 {
				return
			}
			tom := NewTopologyOptionsManager()
			const nodeName = "n0"
			rm := &resourceManager{numaAllocateStrategy: kit.Pick(r, c06Strategies), topologyOptionsManager: tom, nodeAllocations: map[string]*NodeAllocation{}}
			npods := r.Range(2, 6)
			perm := r.Perm(len(all))
			type pendPod struct {
				alloc    *PodAllocation
				late     bool // delivered by the informer goroutine after the topology arrived
				released bool
			}
			pods := make([]*pendPod, 0, npods)
			next := 0
			// sharing limit of the node (another plugin may raise MaxRefCount): with 2, a pod may also hold up to two
			// CPUs of the previous pod's own set (every CPU then has at most 2 holders); only half of the CPUs are
			// handed out so that the per-NUMA cpu amounts stay within the capacity
			maxRef := kit.Pick(r, []int{1, 1, 1, 2})
			share := len(all) / npods / maxRef
			var prevOwn []int
			for i := 0; i < npods && next < len(all); i++ {
				k := r.Range(1, maxInt(1, share))
				b := cpuset.NewCPUSetBuilder()
				var own []int
				for j := 0; j < k && next < len(all); j++ {
					b.Add(all[perm[next]])
					own = append(own, all[perm[next]])
					next++
				}
				if maxRef > 1 && r.Pct(50) {
					for j := 0; j < len(prevOwn) && j < 2; j++ {
						b.Add(prevOwn[j])
					}
				}
				prevOwn = own
				set := b.Result()
				// per-NUMA amounts as the scheduler booked them: the cpus of the set per node, some memory
				perNode := map[int]int{}
				for _, id := range set.ToSliceNoSort() {
					perNode[topo.CPUDetails[id].NodeID]++
				}
				var nrs []NUMANodeResource
				if r.Pct(70) {
					for _, n := range tp.nodeIDs {
						if perNode[n] > 0 {
							rl := corev1.ResourceList{corev1.ResourceCPU: *resource.NewMilliQuantity(int64(perNode[n])*1000, resource.DecimalSI)}
							if m := r.Range(0, 8); m > 0 {
								rl[corev1.ResourceMemory] = *resource.NewQuantity(int64(m), resource.BinarySI)
							}
							nrs = append(nrs, NUMANodeResource{Node: n, Resources: rl})
						}
					}
				}
				pods = append(pods, &pendPod{alloc: &PodAllocation{UID: types.UID(fmt.Sprintf("pod-%d", i)), Name: fmt.Sprintf("pod-%d", i), Namespace: "default", CPUSet: set, NUMANodeResources: nrs}, late: r.Pct(20)})
			}
			early := r.Pct(50)
			if early {
				// an event that touches the node before its topology is known (terminated pod of the initial list,
				// delete of an unknown pod): creates the node's allocation entry early
				rm.Release(nodeName, types.UID("ghost"))
				c.Op("release ghost (entry created before topology)")
			}
			for _, p := range pods {
				if !p.late {
					rm.Update(nodeName, p.alloc)
					c.Op("update %s %s (before topology)", p.alloc.UID, c06AllocStr(p.alloc))
				}
			}
			tom.UpdateTopologyOptions(nodeName, func(o *TopologyOptions) {
				o.CPUTopology = topo
				o.MaxRefCount = maxRef
				for _, n := range tp.nodeIDs {
					o.NUMANodeResources = append(o.NUMANodeResources, NUMANodeResource{Node: n, Resources: corev1.ResourceList{
						corev1.ResourceCPU:    *resource.NewMilliQuantity(int64(tp.cpusIn(n))*1000, resource.DecimalSI),
						corev1.ResourceMemory: *resource.NewQuantity(1<<20, resource.BinarySI)}})
				}
			})
			c.Op("topology arrives: %s maxRef=%d", tp, maxRef)
			var toRelease []*pendPod
			for _, p := range pods {
				if !p.late && r.Pct(50) {
					toRelease = append(toRelease, p)
				}
			}
			kit.EnableYield(r.Fork())
			var wg sync.WaitGroup
			start := make(chan struct{})
			reads := r.Range(1, 4)
			wg.Add(3)
			go func() { // scheduling goroutine
				defer wg.Done()
				<-start
				for i := 0; i < reads; i++ {
					rm.GetAvailableCPUs(nodeName)
					rm.GetAllocatedCPUSet(nodeName, pods[i%len(pods)].alloc.UID)
				}
			}()
			go func() { // pod informer: deletions
				defer wg.Done()
				<-start
				for _, p := range toRelease {
					rm.GetAllocatedCPUSet(nodeName, p.alloc.UID)
					rm.Release(nodeName, p.alloc.UID)
				}
			}()
			go func() { // pod informer: late deliveries
				defer wg.Done()
				<-start
				for _, p := range pods {
					if p.late {
						rm.Update(nodeName, p.alloc)
					}
				}
			}()
			close(start)
			wg.Wait()
			sig := kit.DisableYield()
			for _, p := range toRelease {
				p.released = true
				c.Op("released %s (concurrently)", p.alloc.UID)
			}
			c.Seen("pending-conc", sig)
			c.Count("pending_conc_rounds", 1)
			c.Count("pending_conc_releases", len(toRelease))
			if len(toRelease) > 0 {
				c.NonTrivial()
			}
			// quiescent oracle through the manager's API and the ledger
			avail, _, err := rm.GetAvailableCPUs(nodeName)
			if err != nil {
				c.Harness("GetAvailableCPUs: %v", err)
			}
			na := rm.GetNodeAllocation(nodeName)
			na.lock.RLock()
			defer na.lock.RUnlock()
			live := 0
			// holders of every cpu among the live pods; a cpu is free for a new pod iff it has fewer holders than the sharing limit
			liveHolders := map[int]int{}
			sumRes := map[int]corev1.ResourceList{}
			for _, p := range pods {
				if p.released {
					continue
				}
				for _, id := range p.alloc.CPUSet.ToSliceNoSort() {
					liveHolders[id]++
				}
				for n, rl := range c06NUMAAmounts(p.alloc) {
					if sumRes[n] == nil {
						sumRes[n] = corev1.ResourceList{}
					}
					for name, q := range rl {
						cur := sumRes[n][name]
						cur.Add(q)
						sumRes[n][name] = cur
					}
				}
			}
			shouldBeFree := func(set cpuset.CPUSet) cpuset.CPUSet {
				return set.Filter(func(id int) bool { return liveHolders[id] < maxRef })
			}
			for _, p := range pods {
				held, ok := na.allocatedPods[p.alloc.UID]
				if p.released {
					if ok {
						c.Fail("C06/pending/released-pod-still-recorded", "pod %s was released (deleted) but the ledger still records it with cpus %s", p.alloc.UID, held.CPUSet.String())
					}
					if !shouldBeFree(p.alloc.CPUSet).IsSubsetOf(avail) {
						c.Fail("C06/pending/released-cpus-not-free", "pod %s was released but its cpus %s are not available (available %s, sharing limit %d)", p.alloc.UID, p.alloc.CPUSet.String(), avail.String(), maxRef)
					}
					continue
				}
				live++
				if !ok {
					c.Fail("C06/pending/allocation-lost", "pod %s (cpus %s) was delivered and never released, but the ledger does not record it (available %s)", p.alloc.UID, p.alloc.CPUSet.String(), avail.String())
				}
				if !held.CPUSet.Equals(p.alloc.CPUSet) {
					c.Fail("C06/pending/wrong-cpus", "pod %s recorded with cpus %s, delivered %s", p.alloc.UID, held.CPUSet.String(), p.alloc.CPUSet.String())
				}
				if full := p.alloc.CPUSet.Difference(shouldBeFree(p.alloc.CPUSet)); !avail.Intersection(full).IsEmpty() {
					c.Fail("C06/pending/held-cpus-available", "cpus %s of live pod %s are reported available (%s) although they have reached the sharing limit %d", avail.Intersection(full).String(), p.alloc.UID, avail.String(), maxRef)
				}
				if n, name, differ := c06AmountsDiffer(c06NUMAAmounts(&held), c06NUMAAmounts(p.alloc)); differ {
					c.Fail("C06/pending/wrong-numa-amounts", "pod %s recorded with %s, delivered %s (NUMA node %d %s)", p.alloc.UID, c06AllocStr(&held), c06AllocStr(p.alloc), n, name)
				}
			}
			if len(na.allocatedPods) != live {
				c.Fail("C06/pending/ledger-pods", "ledger holds %d pods, %d are live", len(na.allocatedPods), live)
			}
			for id, info := range na.allocatedCPUs {
				holders := 0
				for _, p := range pods {
					if !p.released && p.alloc.CPUSet.Contains(id) {
						holders++
					}
				}
				if info.RefCount != holders {
					c.Fail("C06/pending/refcount", "cpu %d: ref count %d, held by %d live pods", id, info.RefCount, holders)
				}
			}
			for id, h := range liveHolders {
				if na.allocatedCPUs[id].RefCount != h {
					c.Fail("C06/pending/refcount", "cpu %d: ref count %d, held by %d live pods", id, na.allocatedCPUs[id].RefCount, h)
				}
			}
			led := map[int]corev1.ResourceList{}
			for n, res := range na.allocatedResources {
				if res != nil {
					led[n] = res.Resources
				}
			}
			if n, name, differ := c06AmountsDiffer(led, sumRes); differ {
				a, b := led[n][name], sumRes[n][name]
				c.Fail("C06/pending/numa-amount", "NUMA node %d ledger %s=%s, live pods hold %s", n, name, a.String(), b.String())
			}
			if maxRef > 1 {
				c.Count("pending_conc_rounds_shared_cpus", 1)
			}
			c.Count("pending_conc_checks", 1)
		})
}
