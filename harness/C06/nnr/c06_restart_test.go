//go:build verif

package nodenumaresource

// C06, unit ledger-restart: the allocation ledger across a scheduler restart, sequentially.
//
// A previous scheduler incarnation (a first resourceManager that knows the topology) books 3-8 pods
// through the real Allocate+Update. The scheduler restarts: a fresh resourceManager and a fresh
// TopologyOptionsManager. The pod informer, the NodeResourceTopology informer and everything else are
// started together (cmd/koord-scheduler/app/server.go), so the bound pods of the node can be delivered
// (Update) BEFORE the node's topology is known, and while it is unknown other things happen to the node:
// a pod of the node is deleted (Release), a reservation of the node is looked up by a scheduling cycle
// (GetAllocatedCPUSet / GetAllocatedNUMAResource), the debug service asks for the node's allocation
// (GetNodeAllocation), the NodeResourceTopology arrives without the CPU topology annotation (zones known,
// CPU topology still invalid). Then the topology arrives, the late pods are delivered, and the node is
// used normally (allocate / release / informer echoes).
//
// Causal rules of the generated histories: a pod is delivered with exactly the allocation the previous
// incarnation booked for it (that is what its annotations say); the events of one pod arrive in order
// (add/update before delete, nothing after delete); nothing is allocated while the CPU topology is
// invalid (the plugin's Filter refuses such nodes for cpuset pods; NUMA-only bookings in that window are
// deliberately not generated).
//
// Oracle (from the moment the topology is valid, after every step): the shared book check below - the
// ledger holds exactly the pods that were delivered/booked and not released, each with the allocation it
// was booked with; ref count of every CPU = number of live holders <= sharing limit; reserved CPUs
// untouched; per-NUMA ledger amounts = sum over the live pods; and the result checks of Allocate of the
// ledger unit (count, subset of the CPUs free before, required policy, NUMA split).

import (
	"fmt"
	"sort"
	"testing"

	corev1 "k8s.io/api/core/v1"
	"k8s.io/apimachinery/pkg/api/resource"
	metav1 "k8s.io/apimachinery/pkg/apis/meta/v1"
	"k8s.io/apimachinery/pkg/types"

	schedulingconfig "github.com/koordinator-sh/koordinator/pkg/scheduler/apis/config"
	"github.com/koordinator-sh/koordinator/pkg/scheduler/frameworkext/topologymanager"
	"github.com/koordinator-sh/koordinator/pkg/util/bitmask"
	"github.com/koordinator-sh/koordinator/pkg/util/cpuset"
	kit "github.com/koordinator-sh/koordinator/pkg/verifkit"
)

// ---------------------------------------------------------------------------------------------
// the harness's own book: deep copies of what every live pod was booked with

type c06Book struct {
	allocs  map[types.UID]*PodAllocation
	reserve map[types.UID]bool // reserve pods (placeholders of reservations), see the resv-cycle unit
}

func c06NewBook() *c06Book {
	return &c06Book{allocs: map[types.UID]*PodAllocation{}, reserve: map[types.UID]bool{}}
}

func c06CopyAlloc(a *PodAllocation) *PodAllocation {
	cp := *a
	cp.CPUSet = a.CPUSet.Clone()
	cp.NUMANodeResources = nil
	for _, nr := range a.NUMANodeResources {
		cp.NUMANodeResources = append(cp.NUMANodeResources, NUMANodeResource{Node: nr.Node, Resources: nr.Resources.DeepCopy()})
	}
	return &cp
}

func (b *c06Book) uids() []types.UID {
	out := make([]types.UID, 0, len(b.allocs))
	for uid := range b.allocs {
		out = append(out, uid)
	}
	sort.Slice(out, func(i, j int) bool { return out[i] < out[j] })
	return out
}

type c06LedgerSpec struct {
	topo     *CPUTopology
	maxRef   int
	reserved cpuset.CPUSet
	numaCap  []NUMANodeResource
	// capacity: assert ledger <= NUMA capacity. Off when reservations are booked: a reserve pod and the
	// owner pods allocated inside it are both in the ledger by design.
	capacity bool
}

func c06NUMAAmounts(a *PodAllocation) map[int]corev1.ResourceList {
	out := map[int]corev1.ResourceList{}
	for _, nr := range a.NUMANodeResources {
		if out[nr.Node] == nil {
			out[nr.Node] = corev1.ResourceList{}
		}
		for name, q := range nr.Resources {
			cur := out[nr.Node][name]
			cur.Add(q)
			out[nr.Node][name] = cur
		}
	}
	return out
}

func c06AmountsDiffer(a, b map[int]corev1.ResourceList) (int, corev1.ResourceName, bool) {
	nodes := map[int]bool{}
	for n := range a {
		nodes[n] = true
	}
	for n := range b {
		nodes[n] = true
	}
	ids := make([]int, 0, len(nodes))
	for n := range nodes {
		ids = append(ids, n)
	}
	sort.Ints(ids)
	for _, n := range ids {
		names := map[corev1.ResourceName]bool{}
		for name := range a[n] {
			names[name] = true
		}
		for name := range b[n] {
			names[name] = true
		}
		sorted := make([]string, 0, len(names))
		for name := range names {
			sorted = append(sorted, string(name))
		}
		sort.Strings(sorted)
		for _, name := range sorted {
			x, y := a[n][corev1.ResourceName(name)], b[n][corev1.ResourceName(name)]
			if x.Cmp(y) != 0 {
				return n, corev1.ResourceName(name), true
			}
		}
	}
	return 0, "", false
}

// c06CheckBook compares the node's ledger with the book. It is the ledger oracle of the ledger unit, with
// the book (independent deep copies) instead of the objects handed to Update, plus the per-pod records.
func c06CheckBook(c *kit.Case, rm *resourceManager, nodeName string, spec c06LedgerSpec, book *c06Book, where string) {
	na := rm.GetNodeAllocation(nodeName)
	na.lock.RLock()
	defer na.lock.RUnlock()
	holders := map[int]int{}
	podHolders := map[int]int{}
	sum := map[int]corev1.ResourceList{}
	for _, uid := range book.uids() {
		want := book.allocs[uid]
		rec, ok := na.allocatedPods[uid]
		if !ok {
			c.Fail("C06/ledger/pod-missing", "%s: live pod %s (booked %s) is not in the node's ledger", where, uid, c06AllocStr(want))
		}
		if !rec.CPUSet.Equals(want.CPUSet) {
			c.Fail("C06/ledger/pod-record", "%s: the ledger records pod %s with cpuset %s, it was booked with %s", where, uid, rec.CPUSet.String(), want.CPUSet.String())
		}
		if n, name, differ := c06AmountsDiffer(c06NUMAAmounts(&rec), c06NUMAAmounts(want)); differ {
			c.Fail("C06/ledger/pod-record", "%s: the ledger records pod %s with %s, it was booked with %s (NUMA node %d %s) and nothing updated it", where, uid, c06AllocStr(&rec), c06AllocStr(want), n, name)
		}
		for _, id := range want.CPUSet.ToSliceNoSort() {
			holders[id]++
			if !book.reserve[uid] {
				podHolders[id]++
			}
		}
		for n, rl := range c06NUMAAmounts(want) {
			if sum[n] == nil {
				sum[n] = corev1.ResourceList{}
			}
			for name, q := range rl {
				cur := sum[n][name]
				cur.Add(q)
				sum[n][name] = cur
			}
		}
	}
	if len(na.allocatedPods) != len(book.allocs) {
		c.Fail("C06/ledger/pods", "%s: ledger holds %d pods, %d are live", where, len(na.allocatedPods), len(book.allocs))
	}
	for id := range spec.topo.CPUDetails {
		h := holders[id]
		ref := 0
		if info, ok := na.allocatedCPUs[id]; ok {
			ref = info.RefCount
		}
		if ref != h {
			c.Fail("C06/ledger/refcount", "%s: cpu %d is held by %d live pods but the ledger's ref count is %d", where, id, h, ref)
		}
		if podHolders[id] > spec.maxRef {
			c.Fail("C06/ledger/over-shared", "%s: cpu %d is held by %d pods, sharing limit %d", where, id, podHolders[id], spec.maxRef)
		}
		if h > 0 && spec.reserved.Contains(id) {
			c.Fail("C06/ledger/reserved", "%s: reserved cpu %d is held by a pod", where, id)
		}
	}
	for id := range na.allocatedCPUs {
		if _, ok := spec.topo.CPUDetails[id]; !ok {
			c.Fail("C06/ledger/unknown-cpu", "%s: ledger holds cpu %d that is not in the topology", where, id)
		}
	}
	led := map[int]corev1.ResourceList{}
	for n, res := range na.allocatedResources {
		if res != nil {
			led[n] = res.Resources
		}
	}
	if n, name, differ := c06AmountsDiffer(led, sum); differ {
		a, b := led[n][name], sum[n][name]
		c.Fail("C06/ledger/numa-amount", "%s: NUMA node %d ledger %s=%s, live pods hold %s", where, n, name, a.String(), b.String())
	}
	if spec.capacity {
		for _, nr := range spec.numaCap {
			for name, capQ := range nr.Resources {
				a := led[nr.Node][name]
				if a.Cmp(capQ) > 0 {
					c.Fail("C06/ledger/numa-over", "%s: NUMA node %d ledger %s=%s exceeds its capacity %s", where, nr.Node, name, a.String(), capQ.String())
				}
			}
		}
	}
	c.Count("book_checks", 1)
}

// ---------------------------------------------------------------------------------------------
// node parameters and a world (one scheduler incarnation)

type c06Node struct {
	tp         c06Topo
	maxRef     int
	reserved   cpuset.CPUSet
	memPerNode int64
	numaRes    []NUMANodeResource
	strategy   schedulingconfig.NUMAAllocateStrategy
}

func c06GenNode(r *kit.Rand) c06Node {
	nd := c06Node{tp: c06GenTopo(r)}
	nd.maxRef = kit.Pick(r, []int{1, 1, 1, 1, 2, 2, 3, 4})
	nd.reserved = c06GenReserved(r, nd.tp)
	nd.memPerNode = int64(kit.Pick(r, []int{16, 64, 100, 1 << 20}))
	nd.numaRes = c06GenNUMARes(r, nd.tp, nd.reserved, nd.memPerNode)
	nd.strategy = kit.Pick(r, c06Strategies)
	return nd
}

func (nd c06Node) String() string {
	return fmt.Sprintf("topo=%s maxRef=%d reserved=%s numa=%s strategy=%s", nd.tp, nd.maxRef, nd.reserved.String(), c06NUMAResStr(nd.numaRes), nd.strategy)
}

func (nd c06Node) copyNUMARes() []NUMANodeResource {
	var out []NUMANodeResource
	for _, nr := range nd.numaRes {
		out = append(out, NUMANodeResource{Node: nr.Node, Resources: nr.Resources.DeepCopy()})
	}
	return out
}

const c06NodeName = "n0"

type c06World struct {
	c    *kit.Case
	nd   c06Node
	name string // node name
	tom  TopologyOptionsManager
	rm   *resourceManager
	node *corev1.Node
	book *c06Book
	tag  string
	// share of pods without cpu binding among the requests of this world
	numaOnlyPct int
}

func c06NewWorld(c *kit.Case, nd c06Node, tag string) *c06World {
	tom := NewTopologyOptionsManager()
	rm := &resourceManager{numaAllocateStrategy: nd.strategy, topologyOptionsManager: tom, nodeAllocations: map[string]*NodeAllocation{}}
	return c06NewWorldOn(c, nd, tag, c06NodeName, rm, tom)
}

// c06NewWorldOn: another node of the same scheduler (same resourceManager and TopologyOptionsManager).
func c06NewWorldOn(c *kit.Case, nd c06Node, tag, name string, rm *resourceManager, tom TopologyOptionsManager) *c06World {
	return &c06World{c: c, nd: nd, name: name, tom: tom, rm: rm, tag: tag, book: c06NewBook(),
		node: &corev1.Node{ObjectMeta: metav1.ObjectMeta{Name: name}}}
}

func (w *c06World) installTopology() {
	w.tom.UpdateTopologyOptions(w.name, func(o *TopologyOptions) {
		o.CPUTopology = w.nd.tp.topo
		o.MaxRefCount = w.nd.maxRef
		o.ReservedCPUs = w.nd.reserved
		o.NUMANodeResources = w.nd.copyNUMARes()
	})
}

func (w *c06World) spec() c06LedgerSpec {
	return c06LedgerSpec{topo: w.nd.tp.topo, maxRef: w.nd.maxRef, reserved: w.nd.reserved, numaCap: w.nd.numaRes, capacity: true}
}

func (w *c06World) check(where string) {
	c06CheckBook(w.c, w.rm, w.name, w.spec(), w.book, w.tag+" "+where)
}

// allocate draws one request (cpuset, or 20% NUMA amounts only), runs the real Allocate, checks the result as
// the ledger unit does and, on success, commits it with Update (as Reserve does) and books a deep copy.
func (w *c06World) allocate(uid types.UID) bool {
	c, r, tp, topo := w.c, w.c.R, w.nd.tp, w.nd.tp.topo
	cpuBind := !r.Pct(w.numaOnlyPct)
	ncpu := r.Range(1, maxInt(1, topo.NumCPUs/3))
	exactFill := cpuBind && r.Pct(15)
	bind := kit.Pick(r, c06BindPolicies)
	required := r.Pct(30) && (bind == schedulingconfig.CPUBindPolicyFullPCPUs || bind == schedulingconfig.CPUBindPolicySpreadByPCPUs)
	excl := kit.Pick(r, c06ExclPolicies)
	mem := int64(r.Range(0, int(minI64(w.nd.memPerNode, 48))))
	var opts *ResourceOptions
	var reqs corev1.ResourceList
	if cpuBind {
		opts = &ResourceOptions{
			numCPUsNeeded:         ncpu,
			requestCPUBind:        true,
			requiredCPUBindPolicy: required,
			cpuBindPolicy:         bind,
			cpuExclusivePolicy:    excl,
			topologyOptions:       w.tom.GetTopologyOptions(w.name),
		}
		reqs = corev1.ResourceList{corev1.ResourceCPU: *resource.NewQuantity(int64(ncpu), resource.DecimalSI)}
	} else {
		ncpu, required = 0, false
		opts = &ResourceOptions{cpuBindPolicy: bind, topologyOptions: w.tom.GetTopologyOptions(w.name)}
		reqs = corev1.ResourceList{corev1.ResourceCPU: *resource.NewMilliQuantity(int64(kit.Pick(r, []int{1000, 1000, 1000, 2000, 3000, 3000, 5000, 1, 250, 500, 1500, 2500})), resource.DecimalSI)}
	}
	if mem > 0 {
		reqs[corev1.ResourceMemory] = *resource.NewQuantity(mem, resource.BinarySI)
	}
	if r.Pct(12) {
		reqs[c06Hugepages] = *resource.NewQuantity(int64(r.Range(1, 10)), resource.BinarySI)
	}
	opts.requests = reqs.DeepCopy()
	opts.originalRequests = reqs.DeepCopy()
	var hintBits []int
	if r.Pct(65) || !cpuBind {
		for _, n := range tp.nodeIDs {
			if r.Pct(60) {
				hintBits = append(hintBits, n)
			}
		}
		if len(hintBits) == 0 {
			hintBits = []int{kit.Pick(r, tp.nodeIDs)}
		}
		m, _ := bitmask.NewBitMask(hintBits...)
		opts.hint = topologymanager.NUMATopologyHint{NUMANodeAffinity: m}
	}
	pod := &corev1.Pod{ObjectMeta: metav1.ObjectMeta{UID: uid, Name: string(uid), Namespace: "default"}}
	availBefore, _, _ := w.rm.GetAvailableCPUs(w.name)
	freeBefore, _, _ := w.rm.getAvailableNUMANodeResources(w.name, opts.topologyOptions, nil)
	var liveAllocs []*PodAllocation
	for _, u := range w.book.uids() {
		liveAllocs = append(liveAllocs, w.book.allocs[u])
	}
	modelFree := c06ModelFree(w.nd.numaRes, liveAllocs)
	if exactFill && len(hintBits) > 0 {
		if n := c06WholeCPUsFree(modelFree, hintBits); n > 0 {
			ncpu = n
			opts.numCPUsNeeded = n
			reqs[corev1.ResourceCPU] = *resource.NewQuantity(int64(n), resource.DecimalSI)
			opts.requests = reqs.DeepCopy()
			opts.originalRequests = reqs.DeepCopy()
		}
	}
	alloc, status := w.rm.Allocate(w.node, pod, opts)
	_, existing := w.book.allocs[uid]
	c.Op("%s allocate %s cpuBind=%v cpus=%d reqs=%s bind=%s required=%v excl=%s hint=%v (existing=%v) -> ok=%v %s", w.tag, uid, cpuBind, ncpu, c06RL(reqs), bind, required, excl, hintBits, existing, status.IsSuccess(), c06AllocStr(alloc))
	if !status.IsSuccess() {
		c.Count("restart_allocate_refused", 1)
		if !cpuBind && c06DivisibleEnough(reqs, modelFree, hintBits) {
			c.Fail("C06/numa-split/incomplete", "Allocate of a pod without cpu binding refused (%s) although the hinted NUMA nodes %v have enough free of every requested resource: request %s, free %s", status.Message(), hintBits, c06RL(reqs), c06FreeStr(modelFree))
		}
		return false
	}
	c.Count("restart_allocate_ok", 1)
	if alloc.CPUSet.Size() != ncpu {
		c.Fail("C06/allocate/wrong-count", "Allocate succeeded with cpuset %s (%d CPUs), requested %d", alloc.CPUSet.String(), alloc.CPUSet.Size(), ncpu)
	}
	if !alloc.CPUSet.IsSubsetOf(availBefore) {
		c.Fail("C06/allocate/not-free", "Allocate returned %s, CPUs free for this pod were %s", alloc.CPUSet.String(), availBefore.String())
	}
	if required && bind == schedulingconfig.CPUBindPolicyFullPCPUs && !c06FullCores(topo, alloc.CPUSet) {
		if tp.regular() {
			c.Fail("C06/allocate/fullpcpus-not-satisfied", "required FullPCPUs reported satisfied but %s does not consist of whole cores", alloc.CPUSet.String())
		}
		c.Count("irregular_topology_policy_mismatch", 1)
	}
	if required && bind == schedulingconfig.CPUBindPolicySpreadByPCPUs && !c06OnePerCore(topo, alloc.CPUSet) {
		if tp.regular() {
			c.Fail("C06/allocate/spread-not-satisfied", "required SpreadByPCPUs reported satisfied but %s has two CPUs of one core", alloc.CPUSet.String())
		}
		c.Count("irregular_topology_policy_mismatch", 1)
	}
	if opts.hint.NUMANodeAffinity != nil {
		c06CheckSplit(c, "allocate", reqs, freeBefore, hintBits, alloc.NUMANodeResources)
		c06CheckSplit(c, "allocate (free recomputed from the live pods)", reqs, modelFree, hintBits, alloc.NUMANodeResources)
	}
	w.book.allocs[uid] = c06CopyAlloc(alloc)
	w.rm.Update(w.name, alloc)
	return true
}

func (w *c06World) release(uid types.UID) {
	_, live := w.book.allocs[uid]
	w.c.Op("%s release %s (live=%v)", w.tag, uid, live)
	w.rm.Release(w.name, uid)
	delete(w.book.allocs, uid)
}

// deliver is the pod informer's add/update event of a bound pod: a PodAllocation freshly built from the
// pod's annotations.
func (w *c06World) deliver(a *PodAllocation, note string) {
	w.c.Op("%s deliver %s %s (%s)", w.tag, a.UID, c06AllocStr(a), note)
	w.book.allocs[a.UID] = c06CopyAlloc(a)
	w.rm.Update(w.name, c06CopyAlloc(a))
}

// ---------------------------------------------------------------------------------------------

func TestVerifC06LedgerRestart(t *testing.T) {
	kit.Run(t, kit.Config{Property: "C06", Unit: "ledger-restart", Quick: 450, Thorough: 15000,
		Rule: "scheduler restart, sequential, node parameters as in the ledger unit (all topology dimensions, maxRefCount 1-4, reserved modes, cpu/memory/hugepages zones, cpuset and NUMA-amount-only requests): a previous incarnation books 3-8 pods through the real Allocate+Update; 30%: a second node on the same manager whose pods also arrive before its topology and must stay untouched; a fresh resourceManager then receives a random part of them BEFORE the node's topology, interleaved with the things that touch the node meanwhile (Release of a delivered / never-seen pod, GetAllocatedCPUSet, GetAllocatedNUMAResource, GetNodeAllocation, free-amount lookups, re-delivery; 25%: the NodeResourceTopology first arrives without a valid CPU topology); then the topology arrives, the late pods are delivered and 10-40 allocate/release/echo operations follow; oracle from the topology's arrival on after every step; distinct = (topology, maxRef, #early, #touches by kind class, invalid-first, op, outcome); non-trivial = at least one pod was delivered before the topology and the node was touched between that delivery and the topology's arrival"},
		func(c *kit.Case) {
			r := c.R
			nd := c06GenNode(r)
			if nd.tp.topo.NumCPUs-nd.reserved.Size() < 2 {
				return
			}
			c.Op("%s", nd)
			c06CountTopo(c, nd.tp)
			// ---- previous incarnation
			numaOnlyPct := kit.Pick(r, []int{0, 0, 20, 20, 40})
			w0 := c06NewWorld(c, nd, "[before restart]")
			w0.numaOnlyPct = numaOnlyPct
			w0.installTopology()
			npods := r.Range(3, 8)
			uids := make([]types.UID, npods)
			for i := range uids {
				uids[i] = types.UID(fmt.Sprintf("pod-%d", i))
			}
			for i, n := 0, r.Range(4, 14); i < n; i++ {
				uid := kit.Pick(r, uids)
				if r.Pct(80) {
					w0.allocate(uid)
				} else {
					w0.release(uid)
				}
				w0.check(fmt.Sprintf("after op %d", i))
			}
			running := w0.book.uids()
			if len(running) == 0 {
				return
			}
			// ---- restart
			w := c06NewWorld(c, nd, "[restarted]")
			w.numaOnlyPct = numaOnlyPct
			c.Op("---- restart: %d running pods", len(running))
			kit.Shuffle(r, running)
			// 30%: a second node of the cluster (same hardware) on the same manager; its pods reach the manager
			// before its topology too, and nothing that happens to n0 may change what is booked on it
			var bystander *c06World
			bystanderTopoAt := 0
			if r.Pct(30) {
				bystander = c06NewWorldOn(c, nd, "[restarted, node n1]", "n1", w.rm, w.tom)
				bystanderTopoAt = r.Intn(3) // 0 before n0's events, 1 after n0's topology, 2 at the end
				for _, uid := range running[:r.Range(1, len(running))] {
					a := c06CopyAlloc(w0.book.allocs[uid])
					a.UID, a.Name = "n1-"+uid, "n1-"+string(uid)
					bystander.deliver(a, "other node, before its topology")
				}
				if bystanderTopoAt == 0 {
					bystander.installTopology()
					c.Op("[restarted, node n1] topology arrives")
					bystander.check("after its topology arrived")
				}
				c.Count("restart_rounds_with_second_node", 1)
			}
			nEarly := r.Range(1, len(running))
			if r.Pct(15) {
				nEarly = 0 // usual order: topology first
			}
			early, late := running[:nEarly], running[nEarly:]
			invalidFirst := r.Pct(25)
			invalidAt := -1
			nTouch := r.Range(0, 5)
			// event list before the (valid) topology: deliveries of the early pods and touches, shuffled
			type ev struct {
				kind int // 0 deliver, 1 touch
				uid  types.UID
			}
			var evs []ev
			for _, uid := range early {
				evs = append(evs, ev{0, uid})
			}
			for i := 0; i < nTouch; i++ {
				evs = append(evs, ev{kind: 1})
			}
			kit.Shuffle(r, evs)
			if invalidFirst {
				invalidAt = r.Intn(len(evs) + 1)
			}
			delivered := map[types.UID]bool{}
			deleted := map[types.UID]bool{}
			touchedAfterDelivery := false
			touchKinds := map[string]bool{}
			zonesKnown := false
			for i, e := range evs {
				if i == invalidAt {
					w.tom.UpdateTopologyOptions(c06NodeName, func(o *TopologyOptions) {
						o.CPUTopology = NewCPUTopologyBuilder().Result() // no CPU topology reported yet
						o.NUMANodeResources = nd.copyNUMARes()
					})
					zonesKnown = true
					c.Op("[restarted] NodeResourceTopology arrives without a CPU topology (zones known)")
				}
				if e.kind == 0 {
					w.deliver(w0.book.allocs[e.uid], "before topology")
					delivered[e.uid] = true
					continue
				}
				var livePending []types.UID
				for _, uid := range early {
					if delivered[uid] && !deleted[uid] {
						livePending = append(livePending, uid)
					}
				}
				if len(livePending) > 0 {
					touchedAfterDelivery = true
				}
				target := types.UID("reserve-pod-of-some-reservation")
				if len(livePending) > 0 && r.Pct(50) {
					target = kit.Pick(r, livePending)
				}
				switch k := r.Weighted(25, 10, 20, 15, 10, 10, 10); k {
				case 0: // a pod the manager never saw is deleted / is terminated in the initial list
					c.Op("[restarted] release never-seen pod (before topology)")
					w.rm.Release(c06NodeName, types.UID("pod-gone"))
					touchKinds["release-other"] = true
				case 1: // a delivered pod is deleted before the topology arrives
					if len(livePending) > 0 {
						uid := kit.Pick(r, livePending)
						w.release(uid)
						deleted[uid] = true
						touchKinds["release-delivered"] = true
					}
				case 2:
					set, ok := w.rm.GetAllocatedCPUSet(c06NodeName, target)
					c.Op("[restarted] GetAllocatedCPUSet(%s) -> %s %v (before topology)", target, set.String(), ok)
					touchKinds["get"] = true
				case 3:
					_, ok := w.rm.GetAllocatedNUMAResource(c06NodeName, target)
					c.Op("[restarted] GetAllocatedNUMAResource(%s) -> %v (before topology)", target, ok)
					touchKinds["get"] = true
				case 4:
					w.rm.GetNodeAllocation(c06NodeName)
					c.Op("[restarted] GetNodeAllocation (before topology)")
					touchKinds["get"] = true
				case 5:
					if zonesKnown {
						w.rm.getAvailableNUMANodeResources(c06NodeName, w.tom.GetTopologyOptions(c06NodeName), nil)
						c.Op("[restarted] free NUMA amounts looked up (zones known, CPU topology invalid)")
					} else {
						_, _, err := w.rm.GetAvailableCPUs(c06NodeName)
						c.Op("[restarted] GetAvailableCPUs -> err=%v (before topology)", err)
					}
					touchKinds["free"] = true
				case 6: // update event of a delivered pod
					if len(livePending) > 0 {
						uid := kit.Pick(r, livePending)
						w.deliver(w0.book.allocs[uid], "update event, before topology")
						touchKinds["redeliver"] = true
					}
				}
				c.Count("restart_touches_before_topology", 1)
			}
			w.installTopology()
			c.Op("[restarted] topology arrives")
			w.check("after the topology arrived")
			if bystander != nil {
				if bystanderTopoAt == 1 {
					bystander.installTopology()
					c.Op("[restarted, node n1] topology arrives")
				}
				if bystanderTopoAt <= 1 {
					bystander.check("after n0's topology arrived")
				}
			}
			kinds := make([]string, 0, len(touchKinds))
			for k := range touchKinds {
				kinds = append(kinds, k)
			}
			sort.Strings(kinds)
			c.Seen("restart", nd.tp.Class(), nd.maxRef, nEarly, kinds, invalidFirst, bystander != nil)
			c.Count("restart_rounds", 1)
			c.Count("restart_pods_before_topology", len(delivered))
			if touchedAfterDelivery {
				c.NonTrivial()
				c.Count("restart_touched_after_delivery", 1)
			}
			for _, uid := range late {
				w.deliver(w0.book.allocs[uid], "after topology")
				w.check("after late delivery of " + string(uid))
			}
			// ---- normal life of the restarted scheduler
			fresh := []types.UID{"new-0", "new-1", "new-2"}
			everyone := append(append([]types.UID{}, uids...), fresh...)
			for i, n := 0, r.Range(10, 40); i < n; i++ {
				uid := kit.Pick(r, everyone)
				switch k := r.Weighted(50, 35, 10, 5); k {
				case 0:
					ok := w.allocate(uid)
					c.Seen("restart-op", nd.tp.Class(), nd.maxRef, "alloc", ok, len(w.book.allocs))
				case 1:
					w.release(uid)
				case 2:
					if a := w.book.allocs[uid]; a != nil {
						w.deliver(a, "informer echo")
					}
				case 3:
					c.Op("[restarted] release never-seen pod")
					w.rm.Release(c06NodeName, types.UID("ghost"))
				}
				w.check(fmt.Sprintf("after op %d", i))
				if bystander != nil && bystanderTopoAt <= 1 && i%4 == 3 {
					bystander.check(fmt.Sprintf("after op %d on n0", i))
				}
			}
			if bystander != nil && bystanderTopoAt == 2 {
				bystander.installTopology()
				c.Op("[restarted, node n1] topology arrives")
				bystander.check("after its topology arrived")
			}
			for _, uid := range w.book.uids() {
				w.release(uid)
			}
			w.check("after releasing everything")
			na := w.rm.GetNodeAllocation(c06NodeName)
			if len(na.allocatedCPUs) != 0 || len(na.allocatedPods) != 0 {
				c.Fail("C06/ledger/not-empty", "after releasing every pod the ledger still holds %d CPUs / %d pods", len(na.allocatedCPUs), len(na.allocatedPods))
			}
			if bystander != nil {
				bystander.check("after everything on n0 was released")
				for _, uid := range bystander.book.uids() {
					bystander.release(uid)
				}
				bystander.check("after releasing everything")
			}
			if c.K < 2 {
				ops := c.Ops()
				if len(ops) > 14 {
					ops = ops[:14]
				}
				c.Sample(ops)
			}
		})
}
