//go:build verif

package cpusuppress

// C12 monitor, unit "besuppress": the BE cpuset two-phase rewrite applyCPUSetWithNonePolicy
// (union of old and new written top-down, then the new set written bottom-up).
//
// What runs: the real CPUSuppress.applyCPUSetWithNonePolicy on a temp cgroup root (cgroup v1 and
// v2) holding a kubepods-besteffort tree (BE root, pods, containers). Its executor is c12Exec, a
// ResourceUpdateExecutor that forwards the updaters ONE AT A TIME to the real
// ResourceUpdateExecutorImpl and snapshots the tree after each; one updater = at most one file
// write, so the snapshots are exactly the prefixes of the write sequence = the crash points.
//
// Oracle (from the statement): at every snapshot each child's cpuset is contained in its parent's;
// when the function returns every cpuset file holds the target set; a file whose start value
// already equals the target is never written (writes are detected through mtimes that are reset to
// a fixed date in 2001 after every snapshot).
//
// In-domain rules of the generator:
//   * the start tree is hierarchy-valid (every pod/container cpuset within its parent's); it is
//     either uniform (every cgroup holds the BE root's set - what a completed earlier suppression
//     leaves), non-uniform (children hold subsets - new pods/containers, other writers) or the
//     state at a crash point of the previous rewrite of the same case;
//   * oldCPUSet is what adjustByCPUSet passes: the BE root's current cpuset read through the
//     package's CgroupReader (cpuset.cpus on v1, cpuset.cpus.effective on v2, which the harness
//     keeps equal to the root's cpuset.cpus as a kernel whose ancestors are wider does);
//   * the target is one non-empty cpu list for the whole BE tree, in any order;
//   * the rewritten tree is BE root / 0-8 pods / 0-5 containers (the function stops at container
//     depth); a cgroup nested below a container may exist, then every target of the case contains
//     its cpus (otherwise the target assignment itself would be invalid) and it must never be
//     written; a pod dir without cpuset.cpus file may exist; directory names follow the systemd or the
//     cgroupfs driver; cpu ids come from a per-case table (1-64 cpus; dense, offset, holes, blocks);
//   * a v2 cpuset.cpus may start empty (the cgroup inherits): valid under any parent; children are
//     checked against the nearest ancestor that has cpus; cpuset.cpus.effective of every cgroup is
//     recomputed after each write as the kernel does;
//   * an empty target list (no eligible cpu) is passed now and then: the function skips, nothing may
//     be written; ResourceForceUpdateSeconds is either far in the future or 0;
//   * the ResourceCache holds only what koordlet wrote itself: cold, warm from an earlier
//     suppression round, cold again after a simulated crash (new process); files are re-displayed
//     in the kernel's canonical range format between rounds;
//   * force-update period and cache expiry are far in the future: no wall clock matters.

import (
	"fmt"
	"os"
	"path/filepath"
	"strconv"
	"strings"
	"testing"
	"time"

	corev1 "k8s.io/api/core/v1"
	"k8s.io/klog/v2"

	"github.com/koordinator-sh/koordinator/pkg/koordlet/resourceexecutor"
	koordletutil "github.com/koordinator-sh/koordinator/pkg/koordlet/util"
	"github.com/koordinator-sh/koordinator/pkg/koordlet/util/system"
	"github.com/koordinator-sh/koordinator/pkg/util/cache"
	kit "github.com/koordinator-sh/koordinator/pkg/verifkit"
)

func init() {
	klog.SetOutput(c12Discard{})
	klog.LogToStderr(false)
}

type c12Discard struct{}

func (c12Discard) Write(p []byte) (int, error) { return len(p), nil }

var c12Epoch = time.Date(2001, 1, 1, 0, 0, 0, 0, time.UTC)

// c12CPUIDs is the cpu id table of the running case: bit i of a cpuset mask stands for the logical
// cpu c12CPUIDs[i] (ascending). Ids need not start at 0 nor be contiguous. Cases run one at a time.
var c12CPUIDs []int

func c12GenCPUIDs(r *kit.Rand) []int {
	n := kit.Pick(r, []int{1, 2, 2, 4, 4, 8, 8, 16, 16, 32, 64})
	ids := make([]int, n)
	switch r.Weighted(55, 15, 18, 12) {
	case 0:
		for i := range ids {
			ids[i] = i
		}
	case 1:
		off := kit.Pick(r, []int{1, 7, 64, 200, 960})
		for i := range ids {
			ids[i] = off + i
		}
	case 2:
		id := r.Intn(3)
		for i := range ids {
			ids[i] = id
			id++
			if r.Pct(35) {
				id += r.Range(1, 5)
			}
		}
	default:
		gap := kit.Pick(r, []int{64, 128, 512})
		for i := range ids {
			if i < (n+1)/2 {
				ids[i] = i
			} else {
				ids[i] = gap + i - (n+1)/2
			}
		}
	}
	return ids
}

func c12IDsOf(mask uint64) []int {
	var out []int
	for i, id := range c12CPUIDs {
		if mask&(1<<uint(i)) != 0 {
			out = append(out, id)
		}
	}
	return out
}

func c12Ranges(mask uint64) string {
	ids := c12IDsOf(mask)
	var parts []string
	for i := 0; i < len(ids); i++ {
		j := i
		for j+1 < len(ids) && ids[j+1] == ids[j]+1 {
			j++
		}
		if j == i {
			parts = append(parts, strconv.Itoa(ids[i]))
		} else {
			parts = append(parts, fmt.Sprintf("%d-%d", ids[i], ids[j]))
		}
		i = j
	}
	return strings.Join(parts, ",")
}

func c12ParseSet(raw string) (uint64, bool) {
	s := strings.TrimSpace(raw)
	if s == "" {
		return 0, false
	}
	bit := map[int]int{}
	for i, id := range c12CPUIDs {
		bit[id] = i
	}
	var m uint64
	for _, part := range strings.Split(s, ",") {
		lohi := strings.Split(part, "-")
		if len(lohi) > 2 {
			return 0, false
		}
		lo, err := strconv.Atoi(lohi[0])
		if err != nil || lo < 0 || lo > 8192 {
			return 0, false
		}
		hi := lo
		if len(lohi) == 2 {
			hi, err = strconv.Atoi(lohi[1])
			if err != nil || hi < lo || hi > 8192 {
				return 0, false
			}
		}
		for i := lo; i <= hi; i++ {
			b, ok := bit[i]
			if !ok {
				return 0, false // a cpu the node does not have
			}
			m |= 1 << uint(b)
		}
	}
	return m, true
}

func c12Bits(mask uint64) []int {
	var b []int
	for i := 0; i < 64; i++ {
		if mask&(1<<uint(i)) != 0 {
			b = append(b, i)
		}
	}
	return b
}

func c12Subset(r *kit.Rand, mask uint64) uint64 {
	bits := c12Bits(mask)
	if len(bits) <= 1 {
		return mask
	}
	switch r.Intn(5) {
	case 0:
		return mask
	case 1:
		return mask &^ (1 << uint(kit.Pick(r, bits)))
	case 2:
		return 1 << uint(kit.Pick(r, bits))
	}
	var m uint64
	for _, b := range bits {
		if r.Bool() {
			m |= 1 << uint(b)
		}
	}
	if m == 0 {
		m = 1 << uint(kit.Pick(r, bits))
	}
	return m
}

func c12Show(m uint64) string { return "{" + c12Ranges(m) + "}" }

type c12File struct {
	node   int
	path   string
	eff    string // cpuset.cpus.effective (v2 only), kept equal to cpuset.cpus by the harness's "kernel"
	cur    uint64 // 0 = empty cpuset.cpus (v2: the cgroup inherits its parent's effective cpus)
	start  uint64
	target uint64
	writes int
	deep   bool // below container depth: applyCPUSetWithNonePolicy never touches it
}

type c12World struct {
	c          *kit.Case
	v2         bool
	universe   uint64
	rootDir    string // relative parent dir of the BE root
	parent     []int
	depth      []int
	dirs       []string // relative parent dirs
	files      []*c12File
	monitor    bool
	nl         string
	startClass string
	calls      int
	trace      [][]uint64
}

func (w *c12World) ver() string {
	if w.v2 {
		return "v2"
	}
	return "v1"
}

func (w *c12World) short(n int) string {
	s := strings.TrimPrefix(w.dirs[n], w.rootDir)
	if s == "" {
		return "<be-root>"
	}
	return "<be-root>" + s
}

func (w *c12World) dump() string {
	var sb strings.Builder
	for n, f := range w.files {
		fmt.Fprintf(&sb, " %s=%s", w.short(n), c12Show(f.cur))
	}
	return sb.String()
}

func (w *c12World) flat() []uint64 {
	s := make([]uint64, len(w.files))
	for i, f := range w.files {
		s[i] = f.cur
	}
	return s
}

func (w *c12World) setRaw(path, content string) {
	if err := os.MkdirAll(filepath.Dir(path), 0o777); err != nil {
		w.c.Harness("mkdir: %v", err)
	}
	if err := os.WriteFile(path, []byte(content), 0o644); err != nil {
		w.c.Harness("write: %v", err)
	}
	if err := os.Chtimes(path, c12Epoch, c12Epoch); err != nil {
		w.c.Harness("chtimes: %v", err)
	}
}

// redisplay shows every value as the kernel does (canonical range list; effective cpus of the root).
func (w *c12World) redisplay() {
	for _, f := range w.files {
		d := c12Ranges(f.cur)
		if d != "" {
			d += w.nl
		}
		w.setRaw(f.path, d)
	}
	w.refreshEffective()
}

// effective is the kernel's cpuset.cpus.effective: the configured cpus cut to the parent's effective
// ones, or the parent's effective ones when cpuset.cpus is empty; the BE root's ancestors are wider.
func (w *c12World) effective(n int) uint64 {
	f := w.files[n]
	if w.parent[n] < 0 {
		return f.cur
	}
	pe := w.effective(w.parent[n])
	if f.cur == 0 {
		return pe
	}
	return f.cur & pe
}

func (w *c12World) refreshEffective() {
	if !w.v2 {
		return
	}
	for n, f := range w.files {
		w.setRaw(f.eff, c12Ranges(w.effective(n))+w.nl)
	}
}

// holder returns the nearest ancestor-or-self with a non-empty cpuset.cpus.
func (w *c12World) holder(n int) int {
	for w.files[n].cur == 0 && w.parent[n] >= 0 {
		n = w.parent[n]
	}
	return n
}

func (w *c12World) addNode(parent int, name string, v uint64) int {
	id := len(w.dirs)
	dir := w.rootDir
	d := 0
	if parent >= 0 {
		dir = filepath.Join(w.dirs[parent], name)
		d = w.depth[parent] + 1
	}
	rsc, err := system.GetCgroupResource(system.CPUSetCPUSName)
	if err != nil {
		w.c.Harness("resource: %v", err)
	}
	w.parent = append(w.parent, parent)
	w.depth = append(w.depth, d)
	w.dirs = append(w.dirs, dir)
	f := &c12File{node: id, path: rsc.Path(dir), cur: v, start: v, target: v}
	if w.v2 {
		eff, ok := system.DefaultRegistry.Get(system.CgroupVersionV2, system.CPUSetCPUSEffectiveName)
		if !ok {
			w.c.Harness("no cpuset.cpus.effective resource")
		}
		f.eff = eff.Path(dir)
	}
	w.files = append(w.files, f)
	return id
}

func (w *c12World) scan() []*c12File {
	var written []*c12File
	for _, f := range w.files {
		st, err := os.Lstat(f.path)
		if err != nil {
			w.c.Harness("stat %s: %v", f.path, err)
		}
		if st.ModTime().Equal(c12Epoch) {
			continue
		}
		raw, err := os.ReadFile(f.path)
		if err != nil {
			w.c.Harness("read: %v", err)
		}
		v, ok := c12ParseSet(string(raw))
		if !ok {
			w.c.Fail("C12/besuppress/unparseable-content/cpuset", "cpuset of %s now holds %q, which the kernel would not accept", w.short(f.node), string(raw))
		}
		f.cur = v
		f.writes++
		if err := os.Chtimes(f.path, c12Epoch, c12Epoch); err != nil {
			w.c.Harness("chtimes: %v", err)
		}
		written = append(written, f)
		w.c.Op("    wrote %s cpuset = %q", w.short(f.node), string(raw))
	}
	if w.v2 {
		for _, f := range w.files {
			if st, err := os.Lstat(f.eff); err != nil || !st.ModTime().Equal(c12Epoch) {
				w.c.Fail("C12/besuppress/wrote-read-only-file", "cpuset.cpus.effective of %s was written (%v)", w.short(f.node), err)
			}
		}
	}
	return written
}

func (w *c12World) checkValid(where string) {
	for n, f := range w.files {
		p := w.parent[n]
		if p < 0 {
			continue
		}
		p = w.holder(p) // an empty v2 parent passes on what its own parent allows
		if f.cur&^w.files[p].cur != 0 {
			w.c.Fail("C12/besuppress/mid-rewrite-invalid/cpuset",
				"%s (cgroup %s): cpuset of child %s = %s is not contained in parent %s = %s (child start %s, parent start %s, target %s)\n%s",
				where, w.ver(), w.short(n), c12Show(f.cur), w.short(p), c12Show(w.files[p].cur), c12Show(f.start), c12Show(w.files[p].start), c12Show(f.target), w.dump())
		}
	}
}

func (w *c12World) snapshot(path, value string) {
	if !w.monitor {
		return
	}
	w.calls++
	w.c.Op("  #%d updater %s <- %q", w.calls, strings.TrimPrefix(path, system.Conf.CgroupRootDir), value)
	written := w.scan()
	if len(written) > 1 {
		w.c.Harness("one updater wrote %d files; crash points are not enumerated completely", len(written))
	}
	for _, wf := range written {
		if wf.path != path {
			w.c.Harness("updater of %s wrote %s", path, wf.path)
		}
	}
	where := fmt.Sprintf("after updater #%d (%s <- %s)", w.calls, strings.TrimPrefix(path, system.Conf.CgroupRootDir), value)
	if len(written) > 0 {
		w.refreshEffective() // the kernel recomputes the effective cpus at once
	}
	w.checkValid(where)
	w.c.Count("besuppress_crash_points_examined", 1)
	if len(written) > 0 {
		w.c.Count("besuppress_crash_points_after_a_write", 1)
		w.trace = append(w.trace, w.flat())
	}
	for _, wf := range written {
		if wf.start == wf.target {
			// values and hierarchy are still right: Report and go on, later oracles stay armed
			w.c.Count("besuppress_unchanged_files_rewritten", 1)
			w.c.Count("besuppress_unchanged_files_rewritten_start_"+w.startClass, 1)
			w.c.Report("C12/besuppress/unchanged-file-rewritten/cpuset",
				"%s (cgroup %s): cpuset of %s was written (now %s) although its start value %s already equals the target; BE root start %s",
				where, w.ver(), w.short(wf.node), c12Show(wf.cur), c12Show(wf.start), c12Show(w.files[0].start))
		}
	}
}

// c12Exec forwards every updater separately to the real executor and snapshots after each.
type c12Exec struct {
	real resourceexecutor.ResourceUpdateExecutor
	w    *c12World
}

func (e *c12Exec) Update(cacheable bool, u resourceexecutor.ResourceUpdater) (bool, error) {
	ok, err := e.real.Update(cacheable, u)
	e.w.snapshot(u.Path(), u.Value())
	return ok, err
}

func (e *c12Exec) UpdateBatch(cacheable bool, us ...resourceexecutor.ResourceUpdater) {
	for _, u := range us {
		e.real.UpdateBatch(cacheable, u)
		e.w.snapshot(u.Path(), u.Value())
	}
}

func (e *c12Exec) LeveledUpdateBatch(us [][]resourceexecutor.ResourceUpdater) {
	// not used by the BE cpuset rewrite; forwarded level by level, updater by updater is not possible
	// without changing its semantics, so forward as is and snapshot once
	e.real.LeveledUpdateBatch(us)
	e.w.c.Count("besuppress_unexpected_leveled_update_batch", 1)
	e.w.snapshot("", "")
}

func (e *c12Exec) Run(stopCh <-chan struct{}) { e.real.Run(stopCh) }

func c12NewSuppress(w *c12World, force0 bool) (*CPUSuppress, chan struct{}) {
	force := 1 << 30
	if force0 {
		force = 0
	}
	real := &resourceexecutor.ResourceUpdateExecutorImpl{
		Config:        &resourceexecutor.Config{ResourceForceUpdateSeconds: force},
		ResourceCache: cache.NewCache(100*365*24*time.Hour, 24*time.Hour),
	}
	s := &CPUSuppress{
		executor:               &c12Exec{real: real, w: w},
		cgroupReader:           resourceexecutor.NewCgroupReader(),
		suppressPolicyStatuses: map[string]suppressPolicyStatus{},
	}
	stop := make(chan struct{})
	s.init(stop)
	return s, stop
}

var c12Kinds = []string{"shrink", "grow", "shift", "unlimited", "same", "digits"}

// c12DigitsSet looks for a contiguous cpu range whose canonical string is a proper prefix or an
// extension of the canonical string of old ("0-15" <-> "0-1", "1" <-> "10-11"): the pairs a textual
// comparison gets wrong.
func c12DigitsSet(r *kit.Rand, old uint64) (uint64, bool) {
	cur := c12Ranges(old)
	var cands []uint64
	n := len(c12CPUIDs)
	for i := 0; i < n; i++ {
		var m uint64
		for j := i; j < n; j++ {
			if j > i && c12CPUIDs[j] != c12CPUIDs[j-1]+1 {
				break
			}
			m |= 1 << uint(j)
			t := c12Ranges(m)
			if t != cur && (strings.HasPrefix(t, cur) || strings.HasPrefix(cur, t)) {
				cands = append(cands, m)
			}
		}
	}
	if cur == "" || len(cands) == 0 {
		return 0, false
	}
	return kit.Pick(r, cands), true
}

func c12Target(r *kit.Rand, kind int, old, universe uint64) uint64 {
	switch kind {
	case 0:
		return c12Subset(r, old)
	case 1:
		var extra uint64
		for _, b := range c12Bits(universe) {
			if r.Pct(40) {
				extra |= 1 << uint(b)
			}
		}
		return old | extra
	case 2:
		var drop, add uint64
		for _, b := range c12Bits(universe) {
			if r.Pct(40) {
				drop |= 1 << uint(b)
			}
			if r.Pct(40) {
				add |= 1 << uint(b)
			}
		}
		t := (old &^ drop) | add
		if t == 0 {
			t = c12Subset(r, universe)
		}
		return t
	case 3:
		if old != universe {
			return universe
		}
		return c12Subset(r, universe)
	case 5:
		if t, ok := c12DigitsSet(r, old); ok {
			return t
		}
	}
	return old
}

func c12Classify(s, t uint64) string {
	switch {
	case s == t:
		return "unchanged"
	case t&^s == 0:
		return "shrunk"
	case s&^t == 0:
		return "grown"
	}
	return "shifted"
}

func TestVerifC12BESuppress(t *testing.T) {
	helper := system.NewFileTestUtil(t)
	defer helper.Cleanup()
	kit.Run(t, kit.Config{Property: "C12", Unit: "besuppress", Quick: 500, Thorough: 20000,
		Rule: "one case = one kubepods-besteffort cpuset tree (BE root, 0-8 pods, 0-5 containers per pod, occasionally a nested cgroup below a container or a dir without cpuset file, cgroup v1 or v2 with systemd or cgroupfs names, 1-64 cpus with dense/offset/sparse ids, v2 cgroups with an empty inheriting cpuset.cpus) with a hierarchy-valid start (uniform or with narrower children) and 1-6 successive runs of the real applyCPUSetWithNonePolicy to a generated target set (shrink/grow/shift/all-cpus/same; cache cold, pre-warmed or warm from the previous round; new pods appearing between rounds; optionally a restart from a crash point of the previous round); a snapshot after every single updater; distinct = (cgroup version, shape, start class, kind, cache state, #writes); non-trivial = the round wrote files on at least two levels"},
		func(c *kit.Case) {
			r := c.R
			w := &c12World{c: c, v2: r.Bool()}
			helper.SetCgroupsV2(w.v2)
			cleanup := func() {
				for _, sub := range []string{"", "cpuset"} {
					for _, parent := range []string{system.KubeRootNameSystemd, system.KubeRootNameCgroupfs} {
						_ = os.RemoveAll(filepath.Join(helper.TempDir, sub, parent))
					}
				}
			}
			cleanup()
			defer cleanup()
			// the kubelet's cgroup driver decides the directory names (kubepods.slice/kubepods-besteffort.slice
			// vs kubepods/besteffort)
			driver := system.Systemd
			if r.Pct(30) {
				driver = system.Cgroupfs
			}
			system.SetupCgroupPathFormatter(driver)
			defer system.SetupCgroupPathFormatter(system.Systemd)
			c12CPUIDs = c12GenCPUIDs(r)
			ncpu := len(c12CPUIDs)
			w.universe = ^uint64(0)
			if ncpu < 64 {
				w.universe = (uint64(1) << uint(ncpu)) - 1
			}
			w.nl = "\n"
			if r.Pct(25) {
				w.nl = ""
			}
			force0 := r.Pct(12)
			emptyV2 := w.v2 && r.Pct(30) // some v2 cgroups have an empty cpuset.cpus (they inherit)
			anyEmpty := false
			w.rootDir = koordletutil.GetPodQoSRelativePath(corev1.PodQOSBestEffort)
			// tree + start assignment
			uniform := r.Pct(50)
			rootSet := c12Subset(r, w.universe)
			w.addNode(-1, "", rootSet)
			childSet := func(p int) uint64 {
				if w.files[p].cur == 0 || emptyV2 && r.Pct(35) {
					anyEmpty = true
					return 0 // empty, and so is everything below it
				}
				if uniform || r.Pct(40) {
					return w.files[p].cur
				}
				return c12Subset(r, w.files[p].cur)
			}
			npods := r.Range(1, 3)
			switch r.Weighted(5, 75, 20) {
			case 0:
				npods = 0 // no BE pod at the moment
			case 2:
				npods = r.Range(4, 8)
			}
			withContainers := r.Pct(75)
			podNames := r.Perm(12)
			var deepMask uint64 // cpus held by cgroups below container depth (never rewritten)
			var containers []int
			for i := 0; i < npods; i++ {
				p := w.addNode(0, fmt.Sprintf("kubepods-besteffort-pod%d.slice", podNames[i]), childSet(0))
				if withContainers {
					nc := r.Range(0, 3)
					if r.Pct(10) {
						nc = r.Range(4, 5)
					}
					for j := 0; j < nc; j++ {
						containers = append(containers, w.addNode(p, fmt.Sprintf("cri-containerd-%d.scope", j), childSet(p)))
					}
				}
			}
			if len(containers) > 0 && r.Pct(10) {
				// a cgroup nested inside a container (below the depth the function walks). Its cpuset stays as
				// it is, so every target of this case contains it - otherwise the target would be invalid.
				q := kit.Pick(r, containers)
				if w.files[q].cur != 0 {
					bits := c12Bits(w.files[q].cur)
					d := w.addNode(q, "nested", uint64(1)<<uint(kit.Pick(r, bits)))
					w.files[d].deep = true
					deepMask |= w.files[d].cur
					c.Count("besuppress_cases_with_cgroup_below_container_depth", 1)
				}
			}
			if npods > 0 && r.Pct(10) {
				// a pod dir that has no cpuset.cpus (yet): the walk lists it, the write is ignored
				rsc, _ := system.GetCgroupResource(system.CPUSetCPUSName)
				if err := os.MkdirAll(filepath.Dir(rsc.Path(filepath.Join(w.rootDir, "kubepods-besteffort-podzz.slice"))), 0o777); err != nil {
					c.Harness("mkdir: %v", err)
				}
				c.Count("besuppress_cases_with_dir_without_cpuset_file", 1)
			}
			w.redisplay()
			startClass := "uniform"
			if !uniform {
				startClass = "narrower-children"
			}
			if anyEmpty {
				startClass = "v2-empty-children"
			}
			c.Op("cgroup=%s driver=%s cpu-ids=%v force-update-0=%v newline=%v start:%s", w.ver(), driver, c12CPUIDs, force0, w.nl != "", w.dump())
			if driver == system.Cgroupfs {
				c.Count("besuppress_cases_cgroupfs_driver", 1)
			}
			if force0 {
				c.Count("besuppress_cases_force_update_0", 1)
			}
			if npods == 0 {
				c.Count("besuppress_cases_without_pods", 1)
			}
			if len(w.files) > 12 {
				c.Count("besuppress_cases_more_than_12_cgroups", 1)
			}
			if c12CPUIDs[len(c12CPUIDs)-1] != len(c12CPUIDs)-1 {
				c.Count("besuppress_cases_sparse_or_offset_cpu_ids", 1)
			}

			s, stop := c12NewSuppress(w, force0)
			defer func() { close(stop) }()
			cacheState := "cold"
			if uniform && !anyEmpty && deepMask == 0 && r.Pct(50) {
				// an earlier suppression round of this process left the root's set everywhere
				paths, err := koordletutil.GetBECPUSetPathsByMaxDepth(koordletutil.ContainerCgroupPathRelativeDepth)
				if err != nil {
					c.Harness("paths: %v", err)
				}
				w.monitor = false
				s.writeBECgroupsCPUSet(paths, c12Ranges(rootSet), false)
				for _, f := range w.files {
					raw, _ := os.ReadFile(f.path)
					if v, ok := c12ParseSet(string(raw)); !ok || v != f.cur {
						c.Harness("pre-warming changed %s to %q", f.path, string(raw))
					}
				}
				w.redisplay()
				cacheState = "warm-all"
			}
			nrounds := r.Range(1, 3)
			if r.Pct(10) {
				nrounds = r.Range(4, 6)
			}
			var target uint64
			for i := 0; i < nrounds; i++ {
				kindName := "resume"
				if i > 0 && len(w.trace) > 1 && r.Pct(30) {
					// koordlet died at a crash point of the previous round; new process, cold cache
					j := r.Intn(len(w.trace) - 1)
					for k, f := range w.files {
						f.cur = w.trace[j][k]
					}
					w.redisplay()
					close(stop)
					s, stop = c12NewSuppress(w, force0)
					cacheState = "cold-after-crash"
					startClass = "crash-point"
					c.Count("besuppress_rounds_resumed_from_crash_point", 1)
					if r.Pct(40) {
						kind := r.Intn(len(c12Kinds))
						kindName = "resume+" + c12Kinds[kind]
						target = c12Target(r, kind, w.files[0].cur, w.universe)
					}
				} else {
					if i > 0 && r.Pct(35) {
						// a pod (with containers) appeared since the last round; its cpusets are within the root's
						p := w.addNode(0, fmt.Sprintf("kubepods-besteffort-podn%d.slice", i), 0)
						uniform = r.Pct(50)
						anyEmpty = false
						w.files[p].cur = childSet(0)
						if withContainers {
							q := w.addNode(p, "cri-containerd-0.scope", 0)
							w.files[q].cur = childSet(p)
						}
						w.redisplay()
						c.Count("besuppress_pods_added_between_rounds", 1)
						startClass = "new-pod"
						if anyEmpty {
							startClass = "v2-empty-children"
						}
					}
					kind := r.Weighted(24, 24, 24, 14, 8, 6)
					kindName = c12Kinds[kind]
					target = c12Target(r, kind, w.files[0].cur, w.universe)
				}
				target |= deepMask
				emptyTarget := kindName != "resume" && r.Pct(4) // nothing eligible: the caller passes no cpu at all
				for _, f := range w.files {
					f.start, f.target, f.writes = f.cur, target, 0
					if f.deep || emptyTarget {
						f.target = f.cur
					}
				}
				w.calls = 0
				w.trace = w.trace[:0]
				// what adjustByCPUSet does: read the BE root's current cpuset
				oldSet, err := s.cgroupReader.ReadCPUSet(w.rootDir)
				if err != nil {
					c.Harness("read old cpuset: %v", err)
				}
				old := oldSet.ToInt32Slice()
				var cpus []int32
				for _, id := range c12IDsOf(target) {
					cpus = append(cpus, int32(id))
				}
				if emptyTarget {
					cpus = nil
					kindName = "empty-target"
					c.Count("besuppress_rounds_with_empty_target_skipped_by_the_function", 1)
				}
				if r.Bool() {
					kit.Shuffle(r, cpus)
				}
				c.Op("round %d kind=%s cache=%s start-class=%s old=%v target=%v state:%s", i, kindName, cacheState, startClass, old, cpus, w.dump())
				w.checkValid("at the start of the round (harness premise)")
				w.monitor = true
				w.startClass = startClass
				err = s.applyCPUSetWithNonePolicy(cpus, old)
				w.monitor = false
				if err != nil {
					c.Fail("C12/besuppress/apply-error", "applyCPUSetWithNonePolicy returned %v", err)
				}
				if late := w.scan(); len(late) > 0 {
					c.Harness("%d files written outside any updater", len(late))
				}
				c.Count("besuppress_rewrites", 1)
				c.Count("besuppress_rewrites_cgroup_"+w.ver(), 1)
				c.Count("besuppress_rewrite_kind_"+strings.TrimPrefix(kindName, "resume+"), 1)
				c.Count("besuppress_cache_"+cacheState, 1)
				c.Count("besuppress_start_"+startClass, 1)
				levels := map[int]bool{}
				totalWrites := 0
				for n, f := range w.files {
					if f.cur != f.target {
						c.Fail("C12/besuppress/final-not-target/cpuset",
							"round %d (cgroup %s): after applyCPUSetWithNonePolicy returned cpuset of %s holds %s, target %s (start %s, %d writes)\n%s",
							i, w.ver(), w.short(n), c12Show(f.cur), c12Show(f.target), c12Show(f.start), f.writes, w.dump())
					}
					cl := c12Classify(f.start, f.target)
					c.Count("besuppress_files_"+cl, 1)
					if cl == "unchanged" && f.writes == 0 {
						c.Count("besuppress_files_unchanged_not_rewritten", 1)
					}
					if f.writes > 0 {
						levels[w.depth[n]] = true
					}
					if f.writes >= 2 {
						c.Count("besuppress_files_written_twice_union_then_target", 1)
					}
					totalWrites += f.writes
				}
				c.Count("besuppress_file_writes", totalWrites)
				if len(levels) >= 2 {
					c.NonTrivial()
				}
				if totalWrites > 8 {
					totalWrites = 8
				}
				c.Seen(w.v2, npods, withContainers, startClass, kindName, cacheState, totalWrites, driver, force0)
				if !emptyTarget {
					cacheState = "warm-previous-round"
					startClass = "uniform"
				}
				w.redisplay()
			}
			if c.K < 2 {
				ops := c.Ops()
				if len(ops) > 8 {
					ops = ops[:8]
				}
				for i, o := range ops {
					if len(o) > 300 {
						ops[i] = o[:300] + "..."
					}
				}
				c.Sample(ops)
			}
		})
}
