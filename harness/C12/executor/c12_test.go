//go:build verif

package resourceexecutor

// C12 monitor, unit "executor": LeveledUpdateBatch on generated cgroup trees.
//
// What runs: the real ResourceUpdateExecutorImpl.LeveledUpdateBatch with the real updaters of
// DefaultCgroupUpdaterFactory (cpuset.cpus, cpu.cfs_quota_us / cpu.max, memory.min/low/high) on a
// temp cgroup root (the package's FileTestUtil), cgroup v1 and v2. Every updater handed to the
// executor is wrapped by c12Updater, which forwards MergeUpdate()/update() to the real updater and
// takes a snapshot of the whole tree after EACH such call. One updater call performs at most one
// file write, so the snapshots are exactly the prefixes of the write sequence = the crash points.
//
// Oracle (from the statement, not from the algorithm):
//   (1) at every snapshot, for every resource and every parent/child pair: cpuset child ⊆ parent,
//       limit/protection child <= parent (-1 / "max" / MaxInt64 = infinity);
//   (2) when LeveledUpdateBatch returns every file holds its target value (semantic comparison:
//       set equality for cpusets, numeric equality with the infinity spellings identified);
//   (3) a file whose target equals its start value is never written. Writes are detected through
//       mtimes: every file's mtime is set to a fixed date in 2001 after each snapshot, so any
//       write (also of identical bytes) shows as a changed mtime at the next snapshot.
//
// In-domain rules of the generator (the property's premise):
//   * the start assignment and the target assignment are both hierarchy-valid, including the files
//     that are not part of the batch (they keep their start value);
//   * start contents are in the format the kernel displays: cpuset as a canonical range list,
//     cpu.cfs_quota_us "-1"|N, cpu.max "max 100000"|"N 100000", memory.* "max"|N (page multiples);
//     between two rewrites of one case the files are re-displayed in that format (a real kernel
//     never shows what was written verbatim for cpu.max / MaxInt64 / unordered cpu lists);
//   * target strings are what the real callers pass: canonical or plain comma cpu lists, "-1" for
//     an unlimited cfs quota, "9223372036854775807" (cgreconcile) or "max" for unlimited memory.*;
//   * LeveledUpdateBatch gets [][]ResourceUpdater with level i = all updaters of the cgroups at
//     depth i (parents first), all resource types mixed within a level, any order within a level -
//     this is how the runtimehooks rules (pod, container) call it; levels/files may be missing from
//     the batch (e.g. cfs quota only for pods+containers, an empty level), updaters of cgroups that
//     vanished meanwhile may be present;
//   * "qos shape" cases build the batch exactly like cgreconcile: level 0 = kubepods (the Guaranteed
//     QoS dir) FOLLOWED BY its child QoS dirs (burstable, besteffort) in that order, level 1 = every
//     pod (guaranteed pods hang directly under kubepods), level 2 = every container; only the
//     resources cgreconcile passes there (memory.min/low on every level, memory.high on containers);
//   * cpu ids come from a per-case table (1-64 cpus; dense, offset, with holes, two far blocks);
//     cfs quotas from 1000 us to 2^44, memory from 0 to 2^62 bytes; memory.* values are whole pages,
//     but a caller may pass an unaligned byte count (cgreconcile: request*percent/100) which the
//     kernel rounds down - whether re-writing such a value is a "rewrite of an unchanged file" is not
//     decided by the statement and only counted; a v2 cpuset.cpus may start empty (the cgroup
//     inherits): it is valid under any parent and children are checked against the nearest ancestor
//     that has cpus; ResourceForceUpdateSeconds is either far in the future or 0 (always update);
//   * the ResourceCache only ever holds values that koordlet itself wrote through the executor
//     (cold, pre-warmed through the real UpdateBatch/LeveledUpdateBatch, or warm from the previous
//     rewrite of the case); after a simulated crash the cache is cold (new process);
//   * ResourceForceUpdateSeconds and the cache expiry are far in the future: no wall clock matters.

import (
	"fmt"
	"math"
	"os"
	"path/filepath"
	"sort"
	"strconv"
	"strings"
	"testing"
	"time"

	"k8s.io/klog/v2"

	"github.com/koordinator-sh/koordinator/pkg/koordlet/audit"
	sysutil "github.com/koordinator-sh/koordinator/pkg/koordlet/util/system"
	"github.com/koordinator-sh/koordinator/pkg/util/cache"
	kit "github.com/koordinator-sh/koordinator/pkg/verifkit"
)

func init() {
	klog.SetOutput(c12Discard{})
	klog.LogToStderr(false)
}

type c12Discard struct{}

func (c12Discard) Write(p []byte) (int, error) { return len(p), nil }

const (
	c12CPUSet = iota
	c12CFS
	c12MemMin
	c12MemLow
	c12MemHigh
	c12NRes
)

const c12Inf = uint64(math.MaxInt64)

var (
	c12ResTypes = []sysutil.ResourceType{sysutil.CPUSetCPUSName, sysutil.CPUCFSQuotaName, sysutil.MemoryMinName, sysutil.MemoryLowName, sysutil.MemoryHighName}
	c12ResNames = []string{"cpuset", "cfs-quota", "memory.min", "memory.low", "memory.high"}
	c12Epoch    = time.Date(2001, 1, 1, 0, 0, 0, 0, time.UTC)
)

const (
	c12KShrink = iota
	c12KGrow
	c12KShift
	c12KUnlimited
	c12KMixed
	c12KSame
	c12KDigits
)

var c12KindNames = []string{"shrink", "grow", "shift", "unlimited", "mixed", "same", "digits"}

// c12DigitsUp is the direction of the running "digits" rewrite: the target's decimal string is an
// extension (up) or a proper prefix (down) of the file's current content - 100000 -> 10000,
// 40960000 -> 4096000, cpus "0-15" -> "0-1" - the pairs a textual comparison gets wrong.
var c12DigitsUp bool

// c12DigitsSet looks for a contiguous cpu range within ub whose canonical string is a proper prefix
// or an extension of the canonical string of start.
func c12DigitsSet(r *kit.Rand, start, ub uint64) (uint64, bool) {
	cur := c12Ranges(start)
	if cur == "" {
		return 0, false
	}
	var cands []uint64
	n := len(c12CPUIDs)
	for i := 0; i < n; i++ {
		var m uint64
		for j := i; j < n; j++ {
			if j > i && c12CPUIDs[j] != c12CPUIDs[j-1]+1 {
				break
			}
			m |= 1 << uint(j)
			if m&^ub != 0 {
				break
			}
			t := c12Ranges(m)
			if t == cur {
				continue
			}
			if c12DigitsUp && strings.HasPrefix(t, cur) || !c12DigitsUp && strings.HasPrefix(cur, t) {
				cands = append(cands, m)
			}
		}
	}
	if len(cands) == 0 {
		return 0, false
	}
	return kit.Pick(r, cands), true
}

// ---------------------------------------------------------------------------------------------
// value model: a cpuset is a bitmask, a limit is a number with c12Inf = unlimited

func c12Leq(res int, a, b uint64) bool {
	if res == c12CPUSet {
		return a&^b == 0
	}
	return a <= b
}

func c12Join(res int, a, b uint64) uint64 {
	if res == c12CPUSet {
		return a | b
	}
	if a > b {
		return a
	}
	return b
}

// c12CPUIDs is the cpu id table of the running case: bit i of a cpuset mask stands for the logical
// cpu c12CPUIDs[i] (ascending). Ids need not start at 0 nor be contiguous. Cases run one at a time.
var c12CPUIDs []int

func c12GenCPUIDs(r *kit.Rand) []int {
	n := kit.Pick(r, []int{1, 2, 2, 4, 4, 8, 8, 16, 16, 32, 64})
	ids := make([]int, n)
	switch r.Weighted(55, 15, 18, 12) {
	case 0: // 0..n-1
		for i := range ids {
			ids[i] = i
		}
	case 1: // offset
		off := kit.Pick(r, []int{1, 7, 64, 200, 960})
		for i := range ids {
			ids[i] = off + i
		}
	case 2: // holes
		id := r.Intn(3)
		for i := range ids {
			ids[i] = id
			id++
			if r.Pct(35) {
				id += r.Range(1, 5)
			}
		}
	default: // two blocks (e.g. hyper-thread siblings far apart)
		gap := kit.Pick(r, []int{64, 128, 512})
		for i := range ids {
			if i < (n+1)/2 {
				ids[i] = i
			} else {
				ids[i] = gap + i - (n+1)/2
			}
		}
	}
	return ids
}

func c12IDsOf(mask uint64) []int {
	var out []int
	for i, id := range c12CPUIDs {
		if mask&(1<<uint(i)) != 0 {
			out = append(out, id)
		}
	}
	return out
}

// c12Ranges is the canonical (kernel) cpu list of the mask.
func c12Ranges(mask uint64) string {
	ids := c12IDsOf(mask)
	var parts []string
	for i := 0; i < len(ids); i++ {
		j := i
		for j+1 < len(ids) && ids[j+1] == ids[j]+1 {
			j++
		}
		if j == i {
			parts = append(parts, strconv.Itoa(ids[i]))
		} else {
			parts = append(parts, fmt.Sprintf("%d-%d", ids[i], ids[j]))
		}
		i = j
	}
	return strings.Join(parts, ",")
}

// c12List is a plain comma list; style 1 = unordered, style 2 = unordered with a duplicate.
func c12List(r *kit.Rand, mask uint64, style int) string {
	ids := c12IDsOf(mask)
	if style >= 1 {
		kit.Shuffle(r, ids)
	}
	if style == 2 && len(ids) > 0 {
		ids = append(ids, ids[0])
	}
	parts := make([]string, len(ids))
	for i, id := range ids {
		parts[i] = strconv.Itoa(id)
	}
	return strings.Join(parts, ",")
}

func c12Show(res int, v uint64) string {
	if res == c12CPUSet {
		return "{" + c12Ranges(v) + "}"
	}
	if v == c12Inf {
		return "inf"
	}
	return strconv.FormatUint(v, 10)
}

// c12Display is what the kernel shows for the value.
func c12Display(res int, v uint64, v2 bool) string {
	switch res {
	case c12CPUSet:
		return c12Ranges(v)
	case c12CFS:
		if v2 {
			if v == c12Inf {
				return "max 100000"
			}
			return fmt.Sprintf("%d 100000", v)
		}
		if v == c12Inf {
			return "-1"
		}
		return strconv.FormatUint(v, 10)
	default:
		if v == c12Inf {
			return "max"
		}
		return strconv.FormatUint(v, 10)
	}
}

// c12Caller is the string a koordlet caller passes for the value.
func c12Caller(r *kit.Rand, res int, v uint64, slack uint64) string {
	switch res {
	case c12CPUSet:
		switch r.Weighted(70, 18, 8, 4) {
		case 1:
			return c12List(r, v, 0)
		case 2:
			return c12List(r, v, 1)
		case 3:
			return c12List(r, v, 2)
		}
		return c12Ranges(v)
	case c12CFS:
		if v == c12Inf {
			return "-1"
		}
		return strconv.FormatUint(v, 10)
	default:
		if v == c12Inf {
			if r.Pct(25) {
				return "max"
			}
			return "9223372036854775807"
		}
		return strconv.FormatUint(v+slack, 10)
	}
}

// c12Parse reads a file content semantically (independent of the code under test).
func c12Parse(res int, raw string) (uint64, bool) {
	s := strings.TrimSpace(raw)
	switch res {
	case c12CPUSet:
		if s == "" {
			return 0, false
		}
		bit := map[int]int{}
		for i, id := range c12CPUIDs {
			bit[id] = i
		}
		var m uint64
		for _, part := range strings.Split(s, ",") {
			lohi := strings.Split(part, "-")
			if len(lohi) > 2 {
				return 0, false
			}
			lo, err := strconv.Atoi(lohi[0])
			if err != nil || lo < 0 || lo > 8192 {
				return 0, false
			}
			hi := lo
			if len(lohi) == 2 {
				hi, err = strconv.Atoi(lohi[1])
				if err != nil || hi < lo || hi > 8192 {
					return 0, false
				}
			}
			for i := lo; i <= hi; i++ {
				b, ok := bit[i]
				if !ok {
					return 0, false // a cpu the node does not have
				}
				m |= 1 << uint(b)
			}
		}
		return m, true
	case c12CFS:
		f := strings.Fields(s)
		if len(f) < 1 || len(f) > 2 {
			return 0, false
		}
		if f[0] == "max" || f[0] == "-1" {
			return c12Inf, true
		}
		n, err := strconv.ParseInt(f[0], 10, 64)
		if err != nil || n <= 0 {
			return 0, false
		}
		return uint64(n), true
	default:
		if s == "max" {
			return c12Inf, true
		}
		n, err := strconv.ParseInt(s, 10, 64)
		if err != nil || n < 0 {
			return 0, false
		}
		if uint64(n) == c12Inf {
			return c12Inf, true
		}
		return uint64(n) - uint64(n)%4096, true // what the kernel keeps: whole pages
	}
}

// ---------------------------------------------------------------------------------------------
// generators

func c12Bits(mask uint64) []int {
	var b []int
	for i := 0; i < 64; i++ {
		if mask&(1<<uint(i)) != 0 {
			b = append(b, i)
		}
	}
	return b
}

// c12Subset returns a random non-empty subset of a non-empty mask.
func c12Subset(r *kit.Rand, mask uint64) uint64 {
	bits := c12Bits(mask)
	if len(bits) <= 1 {
		return mask
	}
	switch r.Intn(5) {
	case 0:
		return mask
	case 1: // drop one
		return mask &^ (1 << uint(kit.Pick(r, bits)))
	case 2: // a single cpu
		return 1 << uint(kit.Pick(r, bits))
	}
	var m uint64
	for _, b := range bits {
		if r.Bool() {
			m |= 1 << uint(b)
		}
	}
	if m == 0 {
		m = 1 << uint(kit.Pick(r, bits))
	}
	return m
}

// Limits: cfs quota is any number >= 1000 us (the kernel's minimum, unit 1); the semantic value of
// memory.* is a whole number of pages (the kernel stores pages and shows the rounded-down bytes) - a
// caller may still pass an unaligned byte count, see c12File.slack.
func c12Unit(res int) uint64 {
	if res == c12CFS {
		return 1
	}
	return 4096
}

func c12LoUnits(res int) uint64 {
	if res == c12CFS {
		return 1000 // CFSQuotaMinValue
	}
	return 0
}

func c12HiUnits(res int) uint64 {
	if res == c12CFS {
		return 1 << 44 // far above any real quota, still an int64 in ns
	}
	return 1 << 50 // pages = 2^62 bytes
}

// c12PickUnits picks a number of units in [lo,hi]: biased to the ends and to the usual magnitudes
// (a few cpus, MiB..TiB), cfs mostly multiples of 1000 us, with a modest share of 64-bit-scale values.
func c12PickUnits(r *kit.Rand, res int, lo, hi uint64) uint64 {
	if hi <= lo {
		return lo
	}
	switch r.Intn(10) {
	case 0:
		return lo
	case 1:
		return hi
	case 2:
		return hi - 1
	case 3:
		return lo + 1
	case 4, 5: // round decimal values: d x 10^k (100000, 2000000; 4096 x 50000 bytes)
		v := uint64(r.Range(1, 9))
		for k := r.Range(2, 7); k > 0 && v <= hi/10; k-- {
			v *= 10
		}
		if v >= lo && v <= hi {
			return v
		}
	}
	var caps []uint64
	if res == c12CFS {
		caps = []uint64{lo + 64, 400000, 6400000, 6400000, 1 << 32, hi}
	} else {
		caps = []uint64{lo + 64, 1 << 8, 1 << 18, 1 << 22, 1 << 28, 1 << 28, (1 << 41) + 1, hi}
	}
	m := kit.Pick(r, caps)
	if m > hi {
		m = hi
	}
	if m <= lo {
		return lo
	}
	v := lo + uint64(r.Int63n(int64(m-lo)+1))
	if res == c12CFS && r.Pct(70) {
		if a := v - v%1000; a >= lo {
			v = a
		}
	}
	return v
}

// c12GenStartSet / c12GenStartLim: a value <= bound (bound = universe / c12Inf for the root).
func c12GenStart(r *kit.Rand, res int, bound uint64, root bool) uint64 {
	if res == c12CPUSet {
		if !root && r.Pct(45) {
			return bound
		}
		return c12Subset(r, bound)
	}
	unit := c12Unit(res)
	if bound == c12Inf {
		if r.Pct(35) {
			return c12Inf
		}
		return c12PickUnits(r, res, c12LoUnits(res), c12HiUnits(res)) * unit
	}
	if r.Pct(35) {
		return bound
	}
	return c12PickUnits(r, res, c12LoUnits(res), bound/unit) * unit
}

// c12GenTarget produces a value <= ub of the wanted kind relative to start (before the lower bound
// imposed by frozen descendants is joined in by the caller).
func c12GenTarget(r *kit.Rand, res, kind int, start, ub, universe uint64) uint64 {
	if kind == c12KMixed {
		kind = r.Intn(4)
	}
	if res == c12CPUSet {
		switch kind {
		case c12KShrink:
			base := start & ub
			if base == 0 {
				base = ub
			}
			return c12Subset(r, base)
		case c12KGrow:
			extra := uint64(0)
			for _, b := range c12Bits(universe) {
				if r.Pct(40) {
					extra |= 1 << uint(b)
				}
			}
			cand := (start | extra) & ub
			if cand == 0 {
				cand = c12Subset(r, ub)
			}
			return cand
		case c12KShift:
			var drop, add uint64
			for _, b := range c12Bits(universe) {
				if r.Pct(40) {
					drop |= 1 << uint(b)
				}
				if r.Pct(40) {
					add |= 1 << uint(b)
				}
			}
			cand := ((start &^ drop) | add) & ub
			if cand == 0 {
				cand = c12Subset(r, ub)
			}
			return cand
		case c12KUnlimited:
			if start != ub || r.Pct(50) {
				return ub // as wide as allowed (root: every cpu)
			}
			return c12Subset(r, ub)
		case c12KDigits:
			if t, ok := c12DigitsSet(r, start, ub); ok {
				return t
			}
			fallthrough
		default: // same
			if start != 0 && start&^ub == 0 {
				return start
			}
			return c12Subset(r, ub)
		}
	}
	unit := c12Unit(res)
	lo, hi := c12LoUnits(res), c12HiUnits(res)
	if ub != c12Inf {
		hi = ub / unit
	}
	if kind == c12KDigits {
		// bytes = units*unit and unit is 1 or 4096, so dropping / appending a decimal digit of the
		// unit count does the same to the byte string whenever the dropped digit is 0
		su := start / unit
		switch {
		case start == c12Inf:
		case c12DigitsUp && su > 0 && su <= hi/10:
			t := su * 10
			if res == c12CFS && t+9 <= hi {
				t += uint64(r.Intn(10))
			}
			return t * unit
		case !c12DigitsUp && su/10 >= lo && su >= 10 && (res == c12CFS || su%10 == 0):
			t := su / 10
			if t%10 == 0 && t/10 >= lo && t >= 10 && r.Pct(30) {
				t /= 10 // two digits
			}
			if t <= hi {
				return t * unit
			}
		}
		kind = c12KSame
	}
	switch kind {
	case c12KShrink:
		if start == c12Inf {
			if ub == c12Inf && r.Pct(25) {
				return c12Inf
			}
			return c12PickUnits(r, res, lo, hi) * unit
		}
		h := start / unit
		if hi < h {
			h = hi
		}
		return c12PickUnits(r, res, lo, h) * unit
	case c12KGrow:
		if start == c12Inf {
			return ub // c12Inf when the parent allows it, else the parent's value
		}
		if ub == c12Inf && r.Pct(30) {
			return c12Inf
		}
		l := start / unit
		if l > hi {
			l = hi
		}
		return c12PickUnits(r, res, l, hi) * unit
	case c12KShift:
		if ub == c12Inf && r.Pct(25) {
			return c12Inf
		}
		return c12PickUnits(r, res, lo, hi) * unit
	case c12KUnlimited:
		if start != c12Inf {
			return ub
		}
		return c12PickUnits(r, res, lo, hi) * unit
	default:
		if start <= ub {
			return start
		}
		return ub
	}
}

// ---------------------------------------------------------------------------------------------
// world

type c12File struct {
	node    int
	res     int
	path    string
	cur     uint64
	start   uint64
	target  uint64
	frozen  bool
	inBatch bool
	writes  int
	// slack: the caller passes target+slack bytes for memory.* (cgreconcile passes request*percent/100,
	// not a page multiple); the kernel keeps the whole pages = target. One slack per resource and
	// rewrite, so that the byte counts passed are hierarchy-valid too.
	slack uint64
	// mergeSelf: MergeUpdate wrote a merged value different from the target but returned the
	// updater that carries the target value (which the executor then records as last written)
	mergeSelf bool
}

type c12World struct {
	c        *kit.Case
	unit     string
	v2       bool
	universe uint64
	parent   []int
	depth    []int
	dirs     []string
	kids     [][]int
	maxDepth int
	level    []int // batch level of each node (= depth unless qosShape)
	nLevels  int
	// qosShape: the batch is built like cgreconcile's: level 0 holds the kubepods root (the Guaranteed
	// QoS dir) followed by its child QoS dirs, level 1 every pod, level 2 every container
	qosShape bool
	nl       string // what the kernel appends when a file is read ("\n" on a real kernel)
	force0   bool   // ResourceForceUpdateSeconds = 0: every updater always needs an update
	res      []int
	files    [][]*c12File // [node][index into res]
	calls    int
	crash    int
	trace    [][]uint64 // state after each updater call of the current rewrite (flattened node-major)
}

func (w *c12World) all() []*c12File {
	var out []*c12File
	for _, fs := range w.files {
		out = append(out, fs...)
	}
	return out
}

func (w *c12World) ver() string {
	if w.v2 {
		return "v2"
	}
	return "v1"
}

func (w *c12World) flat() []uint64 {
	var s []uint64
	for _, f := range w.all() {
		s = append(s, f.cur)
	}
	return s
}

func (w *c12World) dump() string {
	var sb strings.Builder
	for ri, res := range w.res {
		sb.WriteString(c12ResNames[res] + ":")
		for n := range w.dirs {
			f := w.files[n][ri]
			fmt.Fprintf(&sb, " %s=%s", w.dirs[n], c12Show(res, f.cur))
		}
		sb.WriteString("\n")
	}
	return sb.String()
}

// setFile writes content as "the kernel" (not a koordlet write): mtime goes back to the epoch.
func (w *c12World) setFile(f *c12File, content string) {
	if err := os.MkdirAll(filepath.Dir(f.path), 0o777); err != nil {
		w.c.Harness("mkdir: %v", err)
	}
	if err := os.WriteFile(f.path, []byte(content), 0o644); err != nil {
		w.c.Harness("write: %v", err)
	}
	if err := os.Chtimes(f.path, c12Epoch, c12Epoch); err != nil {
		w.c.Harness("chtimes: %v", err)
	}
}

// redisplay puts every file into the kernel's display format of its current value.
func (w *c12World) redisplay() {
	for _, f := range w.all() {
		d := c12Display(f.res, f.cur, w.v2)
		if d != "" {
			d += w.nl
		}
		w.setFile(f, d)
	}
}

// scan finds the files written since the last scan (mtime != epoch), re-reads them and resets
// their mtime. Returns the written files.
func (w *c12World) scan() []*c12File {
	var written []*c12File
	for _, f := range w.all() {
		st, err := os.Lstat(f.path)
		if err != nil {
			w.c.Harness("stat %s: %v", f.path, err)
		}
		if st.ModTime().Equal(c12Epoch) {
			continue
		}
		raw, err := os.ReadFile(f.path)
		if err != nil {
			w.c.Harness("read %s: %v", f.path, err)
		}
		v, ok := c12Parse(f.res, string(raw))
		if !ok {
			w.c.Fail("C12/"+w.unit+"/unparseable-content/"+c12ResNames[f.res], "%s of %s now holds %q, which the kernel would not accept", c12ResNames[f.res], w.dirs[f.node], string(raw))
		}
		f.cur = v
		f.writes++
		if err := os.Chtimes(f.path, c12Epoch, c12Epoch); err != nil {
			w.c.Harness("chtimes: %v", err)
		}
		written = append(written, f)
		w.c.Op("    wrote %s %s = %q", w.dirs[f.node], c12ResNames[f.res], string(raw))
	}
	return written
}

func (w *c12World) checkValid(where string) {
	for ri, res := range w.res {
		for n := range w.dirs {
			p := w.parent[n]
			if p < 0 {
				continue
			}
			if res == c12CPUSet {
				// an empty v2 cpuset.cpus passes on what the next ancestor with cpus allows
				for w.files[p][ri].cur == 0 && w.parent[p] >= 0 {
					p = w.parent[p]
				}
			}
			ch, pa := w.files[n][ri], w.files[p][ri]
			if !c12Leq(res, ch.cur, pa.cur) {
				sig := "C12/" + w.unit + "/mid-rewrite-invalid/" + c12ResNames[res]
				if w.level[n] == w.level[p] {
					// cgreconcile's shape: parent (kubepods) and child (burstable/besteffort) are handed
					// over in one level, parent first
					sig += "/parent-and-child-in-one-level"
				} else if res == c12CPUSet && ch.mergeSelf && ch.cur == ch.start|ch.target && ch.cur != ch.target && ch.target&^pa.cur == 0 {
					// the child still holds the union written by its MergeUpdate, which returned the
					// updater carrying the target value, while the parent is already being narrowed
					sig += "/child-left-at-union-of-old-and-new"
				}
				w.c.Fail(sig,
					"%s (cgroup %s): %s of child %s = %s is not within parent %s = %s (child start %s target %s, parent start %s target %s)\n%s",
					where, w.ver(), c12ResNames[res], w.dirs[n], c12Show(res, ch.cur), w.dirs[p], c12Show(res, pa.cur),
					c12Show(res, ch.start), c12Show(res, ch.target), c12Show(res, pa.start), c12Show(res, pa.target), w.dump())
			}
		}
	}
}

// snapshot is called after every single updater call: it is one crash point.
func (w *c12World) snapshot(call string, f *c12File, err error) {
	w.calls++
	w.c.Op("  #%d %s %s %s err=%v", w.calls, call, w.dirs[f.node], c12ResNames[f.res], err)
	if err != nil {
		w.c.Count("executor_updater_call_errors", 1)
	}
	written := w.scan()
	if len(written) > 1 {
		w.c.Harness("one updater call wrote %d files; crash points are not enumerated completely", len(written))
	}
	for _, wf := range written {
		if wf != f {
			w.c.Harness("updater of %s %s wrote %s %s", w.dirs[f.node], c12ResNames[f.res], w.dirs[wf.node], c12ResNames[wf.res])
		}
	}
	where := fmt.Sprintf("after call #%d (%s of %s %s)", w.calls, call, w.dirs[f.node], c12ResNames[f.res])
	w.checkValid(where)
	w.crash++
	w.c.Count("executor_crash_points_examined", 1)
	if len(written) > 0 {
		w.c.Count("executor_crash_points_after_a_write", 1)
		w.trace = append(w.trace, w.flat())
	}
	for _, wf := range written {
		if wf.start == wf.target && wf.slack != 0 {
			// the caller passed more bytes than the kernel shows (page rounding): whether re-writing
			// them counts as "unchanged" is not decided by the statement - counted, not asserted
			w.c.Count("executor_unaligned_same_pages_rewritten_not_asserted", 1)
		} else if wf.start == wf.target {
			// The hierarchy and the values are still right, so the case goes on (Report, not Fail):
			// the later oracles of this case are not masked by this finding.
			w.c.Count("executor_unchanged_files_rewritten", 1)
			w.c.Report("C12/"+w.unit+"/unchanged-file-rewritten/"+c12ResNames[wf.res]+"/"+w.ver(),
				"%s (cgroup %s): %s of %s was written although its target %s equals its start value (content before %q, value passed %s semantics, now %s; in batch=%v)",
				where, w.ver(), c12ResNames[wf.res], w.dirs[wf.node], c12Show(wf.res, wf.target), c12Display(wf.res, wf.start, w.v2), c12Show(wf.res, wf.target), c12Show(wf.res, wf.cur), wf.inBatch)
		}
	}
}

// c12Updater wraps a real updater; the executor only ever sees the wrapper.
type c12Updater struct {
	ResourceUpdater
	w *c12World
	f *c12File
}

func (u *c12Updater) MergeUpdate() (ResourceUpdater, error) {
	before := u.f.writes
	m, err := u.ResourceUpdater.MergeUpdate()
	u.w.snapshot("MergeUpdate", u.f, err)
	if m == u.ResourceUpdater && u.f.writes > before && u.f.cur != u.f.target {
		u.f.mergeSelf = true
	}
	if m == nil {
		return nil, err
	}
	if m == u.ResourceUpdater {
		return u, err
	}
	return m, err
}

func (u *c12Updater) update() error {
	err := u.ResourceUpdater.update()
	u.w.snapshot("update", u.f, err)
	return err
}

func (u *c12Updater) Clone() ResourceUpdater {
	return &c12Updater{ResourceUpdater: u.ResourceUpdater.Clone(), w: u.w, f: u.f}
}

func c12NewExecutor(force0 bool) (*ResourceUpdateExecutorImpl, chan struct{}) {
	force := 1 << 30
	if force0 {
		force = 0
	}
	e := &ResourceUpdateExecutorImpl{
		ResourceCache: cache.NewCache(100*365*24*time.Hour, 24*time.Hour),
		Config:        &Config{ResourceForceUpdateSeconds: force},
	}
	stop := make(chan struct{})
	e.Run(stop)
	return e, stop
}

// ---------------------------------------------------------------------------------------------

// c12BuildTree builds the tree with the directory names the kubelet uses (systemd driver:
// kubepods.slice / kubepods-burstable.slice / kubepods-burstable-pod<uid>.slice /
// cri-containerd-<id>.scope; cgroupfs driver: kubepods / burstable / pod<uid> / <id>): how a cgroup's
// path compares with its parent's resource file path ("…/kubepods-burstable.slice/memory.min" sorts
// before "…/memory.min", "…/kubepods-pod1.slice/cpu.cfs_quota_us" after "…/cpu.cfs_quota_us") is
// part of the input.
func c12BuildTree(r *kit.Rand, w *c12World, base string) {
	w.maxDepth = r.Range(1, 3)
	cgroupfs := r.Pct(30)
	w.qosShape = w.maxDepth >= 2 && r.Pct(30)
	nq := r.Range(1, 2)
	qosFirst := r.Intn(2) // which QoS dir comes first when only one is present
	const (
		kRoot = iota
		kQoS
		kPod
		kContainer
		kNested
	)
	kinds := []int{kRoot}
	qosOf := []string{""} // QoS infix of the subtree ("burstable" / "besteffort" / "" for guaranteed)
	name := func(kind int, qos string, i int) string {
		id := fmt.Sprintf("%08x", r.Uint64()&0xffffffff)
		switch kind {
		case kQoS:
			if cgroupfs {
				return qos
			}
			return "kubepods-" + qos + ".slice"
		case kPod:
			if cgroupfs {
				return "pod" + id
			}
			if qos == "" {
				return "kubepods-pod" + id + ".slice"
			}
			return "kubepods-" + qos + "-pod" + id + ".slice"
		case kContainer:
			if cgroupfs {
				return id + id
			}
			return "cri-containerd-" + id + id + ".scope"
		}
		return fmt.Sprintf("nested%d", i)
	}
	rootName := "kubepods.slice"
	if cgroupfs {
		rootName = "kubepods"
	}
	w.parent = []int{-1}
	w.depth = []int{0}
	w.dirs = []string{filepath.Join(base, rootName)}
	w.kids = [][]int{nil}
	frontier := []int{0}
	wide := -1
	if r.Pct(12) {
		wide = r.Range(1, w.maxDepth) // one node of this depth has many children (a node has many pods)
	}
	for d := 1; d <= w.maxDepth; d++ {
		var next []int
		for pi, p := range frontier {
			nk := r.Range(1, 3)
			if d == 3 && r.Pct(50) {
				nk = 1 // keep the widest trees rare
			}
			if wide > 0 {
				nk = r.Range(1, 2)
				if d == wide && pi == 0 {
					nk = r.Range(4, 8)
				}
			}
			for k := 0; k < nk && len(w.dirs) < 45; k++ {
				id := len(w.dirs)
				w.parent = append(w.parent, p)
				w.depth = append(w.depth, d)
				kind, qos := kinds[p]+1, qosOf[p]
				if kinds[p] == kRoot {
					// the first one or two children of kubepods are QoS dirs (always in the reconciler's
					// shape, else only when there is room for pods below them), the others guaranteed pods
					if k < 2 && (w.qosShape && k < nq || !w.qosShape && w.maxDepth >= 2 && r.Pct(60)) {
						kind, qos = kQoS, []string{"burstable", "besteffort"}[(k+qosFirst)%2]
						if w.qosShape && nq == 2 {
							qos = []string{"burstable", "besteffort"}[k] // cgreconcile: Burstable, then BestEffort
						}
					} else {
						kind = kPod
					}
				}
				if kind > kNested {
					kind = kNested
				}
				kinds = append(kinds, kind)
				qosOf = append(qosOf, qos)
				w.dirs = append(w.dirs, filepath.Join(w.dirs[p], name(kind, qos, k)))
				w.kids = append(w.kids, nil)
				w.kids[p] = append(w.kids[p], id)
				next = append(next, id)
			}
		}
		frontier = next
	}
	// batch levels
	w.level = append([]int(nil), w.depth...)
	if w.qosShape {
		for i, k := range w.kids[0] {
			if i < nq {
				w.level[k] = 0 // burstable / besteffort: same level as their parent kubepods
			} else {
				w.level[k] = 1 // a guaranteed pod directly under kubepods
			}
		}
		for n := 1; n < len(w.dirs); n++ { // parents have smaller ids than their children
			if p := w.parent[n]; p > 0 {
				w.level[n] = w.level[p] + 1
			}
		}
	}
	for _, l := range w.level {
		if l+1 > w.nLevels {
			w.nLevels = l + 1
		}
	}
}

// topo returns the nodes in an order in which children come after parents.
func (w *c12World) topo() []int {
	ids := make([]int, len(w.dirs))
	for i := range ids {
		ids[i] = i
	}
	sort.SliceStable(ids, func(a, b int) bool { return w.depth[ids[a]] < w.depth[ids[b]] })
	return ids
}

// c12GenTargets chooses frozen files, then a valid target assignment for resource index ri.
func (w *c12World) genTargets(r *kit.Rand, ri, kind int) {
	res := w.res[ri]
	n := len(w.dirs)
	c12DigitsUp = r.Pct(35)
	// frozen files keep their start value (some of them are also left out of the batch)
	mode := r.Weighted(40, 30, 20, 10)
	lvl := r.Intn(w.maxDepth + 1)
	for i := 0; i < n; i++ {
		f := w.files[i][ri]
		switch mode {
		case 0:
			f.frozen = false
		case 1:
			f.frozen = r.Pct(25)
		case 2:
			f.frozen = w.depth[i] == lvl
		default:
			f.frozen = w.depth[i] != lvl
		}
		if kind == c12KSame {
			f.frozen = f.frozen || r.Pct(50)
		}
		if res == c12CPUSet && f.start == 0 {
			f.frozen = false // an empty (inheriting) v2 cpuset is always given a real target
		}
	}
	slack := uint64(0)
	if res >= c12MemMin && r.Pct(25) {
		slack = uint64(r.Range(1, 4095))
		w.c.Count("executor_rewrites_with_unaligned_memory_bytes", 1)
	}
	if kind == c12KDigits {
		slack = 0 // the byte string itself is what matters here
	}
	if w.qosShape && res == c12MemHigh {
		for i := 0; i < n; i++ {
			if w.level[i] < 2 {
				w.files[i][ri].frozen = true // cgreconcile writes memory.high for containers only
			}
		}
	}
	levelOut := mode == 2 && r.Pct(50) // the whole frozen level is missing from the batch (an empty level)
	// lower bound: join of the start values of frozen descendants
	lb := make([]uint64, n)
	order := w.topo()
	for k := n - 1; k >= 0; k-- {
		i := order[k]
		f := w.files[i][ri]
		if f.frozen {
			lb[i] = c12Join(res, lb[i], f.start)
		}
		if p := w.parent[i]; p >= 0 {
			lb[p] = c12Join(res, lb[p], lb[i])
		}
	}
	for _, i := range order {
		f := w.files[i][ri]
		if f.frozen {
			f.target = f.start
			f.slack = 0
			f.inBatch = r.Pct(50) && !levelOut && !(w.qosShape && res == c12MemHigh)
			continue
		}
		ub := c12Inf
		if res == c12CPUSet {
			ub = w.universe
		}
		if p := w.parent[i]; p >= 0 {
			ub = w.files[p][ri].target
		}
		f.target = c12Join(res, c12GenTarget(r, res, kind, f.start, ub, w.universe), lb[i])
		f.inBatch = true
		f.slack = 0
		if f.target != c12Inf {
			f.slack = slack
		}
	}
	// the premise, re-checked
	for i := 0; i < n; i++ {
		if p := w.parent[i]; p >= 0 && !c12Leq(res, w.files[i][ri].target, w.files[p][ri].target) {
			w.c.Harness("generator produced an invalid target for %s: %s=%s parent=%s", c12ResNames[res], w.dirs[i], c12Show(res, w.files[i][ri].target), c12Show(res, w.files[p][ri].target))
		}
		if res == c12CPUSet && w.files[i][ri].target == 0 {
			w.c.Harness("generator produced an empty cpuset target")
		}
	}
}

func (w *c12World) newUpdater(r *kit.Rand, f *c12File, v uint64, wrap bool) ResourceUpdater {
	var eh *audit.EventHelper
	if r.Pct(30) {
		eh = &audit.EventHelper{}
	}
	slack := uint64(0)
	if wrap {
		slack = f.slack
	}
	u, err := DefaultCgroupUpdaterFactory.New(c12ResTypes[f.res], w.dirs[f.node], c12Caller(r, f.res, v, slack), eh)
	if err != nil {
		w.c.Harness("factory: %v", err)
	}
	if u.Path() != f.path {
		w.c.Harness("updater path %s != file path %s", u.Path(), f.path)
	}
	if !wrap {
		return u
	}
	return &c12Updater{ResourceUpdater: u, w: w, f: f}
}

// levels builds the [][]ResourceUpdater a caller passes: level = depth, any order within a level
// (qosShape: level 0 = kubepods followed by its child QoS dirs, in that order).
func (w *c12World) levels(r *kit.Rand, wrap bool, pick func(f *c12File) (uint64, bool)) [][]ResourceUpdater {
	out := make([][]ResourceUpdater, w.nLevels)
	for n := range w.dirs { // parents have smaller ids than their children
		for _, f := range w.files[n] {
			v, ok := pick(f)
			if !ok {
				continue
			}
			out[w.level[n]] = append(out[w.level[n]], w.newUpdater(r, f, v, wrap))
		}
	}
	for i, l := range out {
		if w.qosShape && i == 0 {
			continue // cgreconcile's order: kubepods (Guaranteed) first, then Burstable, BestEffort
		}
		kit.Shuffle(r, l)
	}
	if wrap && r.Pct(15) {
		// a pod/container that vanished between listing and writing: its cgroup dir is gone, the
		// updaters are still in the batch (the executor ignores "cgroup dir not exist")
		p := r.Intn(len(w.dirs))
		lvl := w.level[p] + 1
		if lvl < len(out) {
			for _, f := range w.files[p] {
				u, err := DefaultCgroupUpdaterFactory.New(c12ResTypes[f.res], filepath.Join(w.dirs[p], "gone"), c12Caller(r, f.res, f.target, 0), nil)
				if err != nil {
					w.c.Harness("factory: %v", err)
				}
				out[lvl] = append(out[lvl], u)
				w.c.Count("executor_updaters_for_vanished_cgroups", 1)
			}
			if !w.qosShape || lvl > 0 {
				kit.Shuffle(r, out[lvl])
			}
		}
	}
	return out
}

func (w *c12World) classify(f *c12File) string {
	s, t := f.start, f.target
	switch {
	case s == t:
		return "unchanged"
	case f.res == c12CPUSet:
		switch {
		case t&^s == 0:
			return "shrunk"
		case s&^t == 0:
			return "grown"
		}
		return "shifted"
	case t == c12Inf:
		return "to_unlimited"
	case s == c12Inf:
		return "from_unlimited"
	case t < s:
		return "shrunk"
	}
	return "grown"
}

// rewrite runs one monitored LeveledUpdateBatch from the current file state to the targets already
// stored in the files and applies the end-of-rewrite oracles.
func (w *c12World) rewrite(r *kit.Rand, e *ResourceUpdateExecutorImpl, label string) {
	c := w.c
	w.calls = 0
	w.trace = w.trace[:0]
	for _, f := range w.all() {
		f.start = f.cur
		f.writes = 0
		f.mergeSelf = false
	}
	for ri, res := range w.res {
		var sb strings.Builder
		for n := range w.dirs {
			f := w.files[n][ri]
			fmt.Fprintf(&sb, " %s:%s->%s", w.dirs[n], c12Show(res, f.start), c12Show(res, f.target))
			if !f.inBatch {
				sb.WriteString("(not in batch)")
			}
		}
		c.Op("%s %s %s:%s", label, w.ver(), c12ResNames[res], sb.String())
	}
	w.checkValid("at the start of the rewrite (harness premise)")
	batch := w.levels(r, true, func(f *c12File) (uint64, bool) { return f.target, f.inBatch })
	e.LeveledUpdateBatch(batch)
	if late := w.scan(); len(late) > 0 {
		c.Harness("%d files were written outside any updater call", len(late))
	}
	c.Count("executor_rewrites", 1)
	c.Count("executor_rewrites_cgroup_"+w.ver(), 1)
	parentAndChildChanged := false
	for ri, res := range w.res {
		for n := range w.dirs {
			f := w.files[n][ri]
			if f.cur != f.target {
				sig := "C12/" + w.unit + "/final-not-target/" + c12ResNames[res]
				if res == c12CPUSet && f.mergeSelf && f.cur == f.start|f.target {
					sig += "/left-at-union-of-old-and-new"
				}
				c.Fail(sig,
					"%s (cgroup %s): after LeveledUpdateBatch returned %s of %s holds %s, target %s (start %s, %d writes)\n%s",
					label, w.ver(), c12ResNames[res], w.dirs[n], c12Show(res, f.cur), c12Show(res, f.target), c12Show(res, f.start), f.writes, w.dump())
			}
			cl := w.classify(f)
			c.Count("executor_files_"+cl, 1)
			if cl == "unchanged" {
				if f.writes == 0 {
					c.Count("executor_files_unchanged_not_rewritten", 1)
				}
				if !f.inBatch {
					c.Count("executor_files_not_in_batch", 1)
				}
			} else {
				c.Count("executor_file_writes", f.writes)
				if f.writes >= 2 {
					c.Count("executor_files_written_twice_merge_then_exact", 1)
				}
				if p := w.parent[n]; p >= 0 && w.files[p][ri].start != w.files[p][ri].target {
					parentAndChildChanged = true
				}
			}
		}
	}
	if parentAndChildChanged {
		c.NonTrivial()
	}
}

func TestVerifC12Executor(t *testing.T) {
	helper := sysutil.NewFileTestUtil(t)
	defer helper.Cleanup()
	kit.Run(t, kit.Config{Property: "C12", Unit: "executor", Quick: 500, Thorough: 20000,
		Rule: "one case = one cgroup tree (depth 1-3, 1-3 children per node and occasionally one node with 4-8, 1-5 of the resources cpuset/cfs quota/memory.min/low/high, cgroup v1 or v2, 1-64 cpus with dense/offset/sparse ids, limits from the kernel minimum to 2^62 aligned or not, batch levels = depth or cgreconcile's shape with kubepods and its QoS children in level 0) with a hierarchy-valid start assignment and 1-6 successive rewrites through the real LeveledUpdateBatch to generated hierarchy-valid targets (per resource shrink/grow/shift/unlimited/mixed/same; frozen or left-out files; cache cold, pre-warmed or warm from the previous rewrite; optionally a restart from a crash point of the previous rewrite); a snapshot after every single MergeUpdate()/update() call; distinct = (cgroup version, depth, resource, kind, cache state, #writes); non-trivial = a parent and one of its children both change for the same resource"},
		func(c *kit.Case) {
			r := c.R
			w := &c12World{c: c, unit: "executor", v2: r.Bool()}
			helper.SetCgroupsV2(w.v2)
			helper.SetAnolisOSResourcesSupported(true)
			base := fmt.Sprintf("c12x/k%d", c.K)
			defer func() {
				for _, sub := range []string{"", "cpu", "cpuset", "memory"} {
					_ = os.RemoveAll(filepath.Join(helper.TempDir, sub, "c12x"))
				}
			}()
			c12CPUIDs = c12GenCPUIDs(r)
			ncpu := len(c12CPUIDs)
			w.universe = ^uint64(0)
			if ncpu < 64 {
				w.universe = (uint64(1) << uint(ncpu)) - 1
			}
			w.nl = "\n"
			if r.Pct(25) {
				w.nl = "" // the package's own tests prepare files without the trailing newline
			}
			w.force0 = r.Pct(12)
			emptyV2 := w.v2 && r.Pct(30) // some v2 cgroups have an empty cpuset.cpus (they inherit)
			c12BuildTree(r, w, base)
			// resources of this case
			switch r.Weighted(40, 30, 30) {
			case 0:
				w.res = []int{r.Intn(c12NRes)}
			case 1:
				p := r.Perm(c12NRes)
				w.res = []int{p[0], p[1]}
				sort.Ints(w.res)
			default:
				w.res = []int{c12CPUSet, c12CFS, c12MemMin, c12MemLow, c12MemHigh}
			}
			if w.qosShape {
				// cgreconcile: memory.min / memory.low on every level, memory.high on containers
				w.res = [][]int{{c12MemMin}, {c12MemLow}, {c12MemMin, c12MemLow}, {c12MemMin, c12MemLow, c12MemHigh}}[r.Intn(4)]
			}
			// files + start assignment (top-down, valid)
			w.files = make([][]*c12File, len(w.dirs))
			for _, n := range w.topo() {
				for ri, res := range w.res {
					rsc, err := sysutil.GetCgroupResource(c12ResTypes[res])
					if err != nil {
						c.Harness("resource: %v", err)
					}
					f := &c12File{node: n, res: res, path: rsc.Path(w.dirs[n])}
					bound := c12Inf
					if res == c12CPUSet {
						bound = w.universe
					}
					if p := w.parent[n]; p >= 0 {
						bound = w.files[p][ri].cur
					}
					f.cur = c12GenStart(r, res, bound, w.parent[n] < 0)
					if res == c12CPUSet && w.parent[n] >= 0 && (bound == 0 || emptyV2 && r.Pct(35)) {
						f.cur = 0 // empty, and so is everything below it
						c.Count("executor_v2_empty_cpusets_at_start", 1)
					}
					w.files[n] = append(w.files[n], f)
				}
			}
			w.redisplay()
			c.Op("tree cgroup=%s cpu-ids=%v dirs=%v levels=%v qos-shape=%v resources=%v force-update-0=%v newline=%v", w.ver(), c12CPUIDs, w.dirs, w.level, w.qosShape, w.res, w.force0, w.nl != "")
			if w.qosShape {
				c.Count("executor_cases_qos_shape", 1)
			}
			if w.force0 {
				c.Count("executor_cases_force_update_0", 1)
			}
			if len(w.dirs) > 20 {
				c.Count("executor_cases_more_than_20_cgroups", 1)
			}
			if c12CPUIDs[len(c12CPUIDs)-1] != len(c12CPUIDs)-1 {
				c.Count("executor_cases_sparse_or_offset_cpu_ids", 1)
			}

			e, stop := c12NewExecutor(w.force0)
			defer func() { close(stop) }()
			// cache state before the first rewrite
			cacheState := []string{"cold", "warm-all", "warm-some"}[r.Weighted(40, 35, 25)]
			if cacheState != "cold" {
				some := cacheState == "warm-some"
				pre := w.levels(r, false, func(f *c12File) (uint64, bool) {
					if f.res == c12CPUSet && f.cur == 0 {
						return 0, false // koordlet never wrote an empty cpuset
					}
					return f.cur, !some || r.Bool()
				})
				if r.Bool() {
					e.LeveledUpdateBatch(pre)
				} else {
					for _, l := range pre {
						e.UpdateBatch(true, l...)
					}
				}
				// koordlet wrote the values the files already had; show them as the kernel does
				for _, f := range w.all() {
					raw, _ := os.ReadFile(f.path)
					if f.res == c12CPUSet && f.cur == 0 && len(raw) == 0 {
						continue
					}
					if v, ok := c12Parse(f.res, string(raw)); !ok || v != f.cur {
						c.Harness("pre-warming changed %s to %q", f.path, string(raw))
					}
				}
				w.redisplay()
			}
			nrew := r.Range(1, 3)
			if r.Pct(10) {
				nrew = r.Range(4, 6)
			}
			for i := 0; i < nrew; i++ {
				resume := i > 0 && len(w.trace) > 1 && r.Pct(30)
				if resume {
					// koordlet died at a crash point of the previous rewrite; the new process (cold cache)
					// reconciles towards the same targets
					j := r.Intn(len(w.trace) - 1)
					st := w.trace[j]
					for k, f := range w.all() {
						f.cur = st[k]
					}
					w.redisplay()
					close(stop)
					e, stop = c12NewExecutor(w.force0)
					cacheState = "cold-after-crash"
					c.Count("executor_rewrites_resumed_from_crash_point", 1)
					for _, f := range w.all() {
						f.start = f.cur
						c.Seen(w.v2, w.maxDepth, w.qosShape, c12ResNames[f.res], "resume", w.classify(f))
					}
					w.rewrite(r, e, fmt.Sprintf("rewrite %d (restart from crash point %d of the previous one, cold cache)", i, j))
				} else {
					kinds := make([]int, len(w.res))
					for _, f := range w.all() {
						f.start = f.cur
					}
					for ri := range w.res {
						kinds[ri] = r.Weighted(18, 18, 18, 14, 18, 5, 14)
						w.genTargets(r, ri, kinds[ri])
						c.Count("executor_rewrite_kind_"+c12KindNames[kinds[ri]], 1)
					}
					w.rewrite(r, e, fmt.Sprintf("rewrite %d (cache %s)", i, cacheState))
					for ri, res := range w.res {
						wr := 0
						for n := range w.dirs {
							wr += w.files[n][ri].writes
						}
						if wr > 6 {
							wr = 6
						}
						c.Seen(w.v2, w.maxDepth, w.qosShape, w.force0, c12ResNames[res], c12KindNames[kinds[ri]], cacheState, wr)
					}
				}
				c.Count("executor_cache_"+cacheState, 1)
				cacheState = "warm-previous-rewrite"
				w.redisplay()
			}
			if c.K < 2 {
				ops := c.Ops()
				if len(ops) > 8 {
					ops = ops[:8]
				}
				for i, o := range ops {
					if len(o) > 300 {
						ops[i] = o[:300] + "..."
					}
				}
				c.Sample(ops)
			}
		})
}
