//go:build verif

package midresource

// C09 monitors for the mid tier: the real Plugin.Calculate (isDegradeNeeded/Reset, getUnallocated,
// resutil.CalculateMidResourceByPolicy / CalculateMidResourceByStaticMode) on generated inputs.
// The property statement speaks about the batch amount; for the mid tier it gives only the title
// ("reclaimed (batch/mid) capacity is never over-promised") and the anchor "mid-tier bounds". The
// verdicts here are therefore limited to: never negative, never above Mid<Res>ThresholdPercent of
// capacity, never above the amount the API type documents for the configured mode
//     static : capacity x MidStatic<Res>ReservedPercent
//     dynamic: max(0, min(prodReclaimable, capacity - nodeUsage))
//              + MidUnallocatedPercent x max(0, capacity - max(system usage, reservation) - sum(prod requests))
// (upper bound only, exact rational, one unit of slack), and stale/missing node metric => reset items.
// Monotonicity under raised consumption inputs is evaluated but only counted (mid_probe_raised_amount),
// because the statement asserts it for the batch amount.
//
// Terms: system usage = reported system usage + host applications above mid priority (prod);
// reservation = larger of kubelet (capacity - allocatable) and annotation reservation; prod pod = phase
// Running/Pending and priority class neither mid, batch nor free.
// Causal rules: NodeMetric pointer never nil; a status with an update time has status.nodeMetric;
// unique pod names; whole milli-CPUs / bytes; capacity <= 512 CPU / 4 TiB.

import (
	"encoding/json"
	"fmt"
	"math/big"
	"testing"
	"time"

	corev1 "k8s.io/api/core/v1"
	"k8s.io/apimachinery/pkg/api/resource"
	metav1 "k8s.io/apimachinery/pkg/apis/meta/v1"
	"k8s.io/klog/v2"
	fakeclock "k8s.io/utils/clock/testing"

	"github.com/koordinator-sh/koordinator/apis/configuration"
	"github.com/koordinator-sh/koordinator/apis/extension"
	slov1alpha1 "github.com/koordinator-sh/koordinator/apis/slo/v1alpha1"
	"github.com/koordinator-sh/koordinator/pkg/slo-controller/noderesource/framework"
	kit "github.com/koordinator-sh/koordinator/pkg/verifkit"
)

func init() {
	klog.SetOutput(c09Discard{})
	klog.LogToStderr(false)
}

type c09Discard struct{}

func (c09Discard) Write(p []byte) (int, error) { return len(p), nil }

var c09ResName = [2]string{"cpu", "memory"}

type c09Res [2]int64 // milli-CPU, bytes

type c09Pod struct {
	Name    string
	Class   extension.PriorityClass // ground truth
	Repr    int                     // 0 priority-class label, 1 spec.priority band, 2 QoS-label default (prod<-LS, batch<-BE)
	Phase   corev1.PodPhase
	Request c09Res // sum over the containers (split over one or two of them)
	Init    c09Res // one init container, zero = none
	Split   bool   // two containers
}

func (p c09Pod) request() c09Res {
	return c09Res{c09Max(p.Request[0], p.Init[0]), c09Max(p.Request[1], p.Init[1])}
}

type c09App struct {
	Name  string
	Prio  extension.PriorityClass
	QoS   extension.QoSClass // qos field of the entry; may disagree with Prio (the statement goes by the priority)
	Usage c09Res
}

type c09Input struct {
	Cap, KubeletReserved c09Res
	AnnoHas              [2]bool
	AnnoRes              c09Res
	AnnoCPUSet           bool   // the CPU reservation is written as reservedCPUs (whole CPUs)
	AnnoPolicy           string // applyPolicy; ReservedCPUsOnly is left out of the oracle's reservation (weaker bound)
	Pods                 []c09Pod
	HostApps             []c09App
	Sys                  c09Res
	NodeUsage            c09Res
	NodeUsageHas         [2]bool
	Reclaimable          c09Res
	ReclaimableSet       bool
	ReclaimableOmit      [2]bool  // prod-reclaimable reported without this key
	Static               int      // 0 mode nil, 1 "static", 2 some other mode string
	ThrPct               [2]int64 // Mid<Res>ThresholdPercent, -1 nil (default 100)
	UnallocPct           int64    // MidUnallocatedPercent, -1 nil (default 0)
	StaticPct            [2]int64 // MidStatic<Res>ReservedPercent, -1 nil (default 0)
	DegradeMin           int64
	AgeNanos             int64
	MetricKind           int // 0 complete, 1 no update time, 2 empty object
}

func (in *c09Input) clone() *c09Input {
	o := *in
	o.Pods = append([]c09Pod(nil), in.Pods...)
	o.HostApps = append([]c09App(nil), in.HostApps...)
	return &o
}

func c09Max(a, b int64) int64 {
	if a > b {
		return a
	}
	return b
}

func c09Def(v, def int64) int64 {
	if v < 0 {
		return def
	}
	return v
}

func (in *c09Input) stale() (bool, bool) {
	if in.MetricKind != 0 {
		return true, false
	}
	lim := in.DegradeMin * int64(time.Minute)
	return in.AgeNanos > lim, in.AgeNanos == lim
}

// c09Upper returns the documented upper bound for one resource (nil when the documentation gives none
// for this input: dynamic mode without a usable node usage).
func c09Upper(in *c09Input, res int) (thr, mode *big.Rat) {
	capacity := in.Cap[res]
	thr = big.NewRat(capacity*c09Def(in.ThrPct[res], 100), 100)
	if in.Static == 1 {
		return thr, big.NewRat(capacity*c09Def(in.StaticPct[res], 0), 100)
	}
	if !in.NodeUsageHas[0] || !in.NodeUsageHas[1] {
		return thr, nil
	}
	sys := in.Sys[res]
	for _, h := range in.HostApps {
		if h.Prio == extension.PriorityProd {
			sys += h.Usage[res]
		}
	}
	reserved := in.KubeletReserved[res]
	if in.AnnoHas[res] && in.AnnoPolicy != string(extension.NodeReservationApplyPolicyReservedCPUsOnly) {
		reserved = c09Max(reserved, in.AnnoRes[res])
	}
	var prodReq int64
	for _, p := range in.Pods {
		if p.Phase != corev1.PodRunning && p.Phase != corev1.PodPending {
			continue
		}
		if p.Class == extension.PriorityMid || p.Class == extension.PriorityBatch || p.Class == extension.PriorityFree {
			continue
		}
		prodReq += p.request()[res]
	}
	unalloc := c09Max(0, capacity-c09Max(sys, reserved)-prodReq)
	var reclaim int64
	if in.ReclaimableSet {
		if in.ReclaimableOmit[res] { // what a missing key means is not documented: no formula bound
			return thr, nil
		}
		reclaim = in.Reclaimable[res]
	}
	a := c09Max(0, func() int64 {
		if u := capacity - in.NodeUsage[res]; u < reclaim {
			return u
		}
		return reclaim
	}())
	mode = new(big.Rat).SetInt64(a)
	mode.Add(mode, big.NewRat(unalloc*c09Def(in.UnallocPct, 0), 100))
	return thr, mode
}

func c09Q(res int, v int64) resource.Quantity {
	if res == 0 {
		return *resource.NewMilliQuantity(v, resource.DecimalSI)
	}
	return *resource.NewQuantity(v, resource.BinarySI)
}

func c09RL(v c09Res) corev1.ResourceList {
	return corev1.ResourceList{corev1.ResourceCPU: c09Q(0, v[0]), corev1.ResourceMemory: c09Q(1, v[1])}
}

func c09Ptr[T any](v T) *T { return &v }

const c09NodeName = "c09-node"

var c09Now = time.Date(2026, 1, 1, 0, 0, 0, 0, time.UTC)

func (in *c09Input) build() (*configuration.ColocationStrategy, *corev1.Node, *corev1.PodList, *framework.ResourceMetrics) {
	alloc := c09Res{in.Cap[0] - in.KubeletReserved[0], in.Cap[1] - in.KubeletReserved[1]}
	node := &corev1.Node{ObjectMeta: metav1.ObjectMeta{Name: c09NodeName, Annotations: map[string]string{}},
		Status: corev1.NodeStatus{Capacity: c09RL(in.Cap), Allocatable: c09RL(alloc)}}
	if in.AnnoHas[0] || in.AnnoHas[1] {
		nr := extension.NodeReservation{Resources: corev1.ResourceList{}, ApplyPolicy: extension.NodeReservationApplyPolicy(in.AnnoPolicy)}
		if in.AnnoHas[0] && in.AnnoCPUSet {
			nr.ReservedCPUs = fmt.Sprintf("0-%d", in.AnnoRes[0]/1000-1)
			if in.AnnoRes[0] == 1000 {
				nr.ReservedCPUs = "0"
			}
		} else if in.AnnoHas[0] {
			nr.Resources[corev1.ResourceCPU] = c09Q(0, in.AnnoRes[0])
		}
		if in.AnnoHas[1] {
			nr.Resources[corev1.ResourceMemory] = c09Q(1, in.AnnoRes[1])
		}
		b, _ := json.Marshal(nr)
		node.Annotations[extension.AnnotationNodeReservation] = string(b)
	}
	s := &configuration.ColocationStrategy{
		Enable:                        c09Ptr(true),
		DegradeTimeMinutes:            c09Ptr(in.DegradeMin),
		UpdateTimeThresholdSeconds:    c09Ptr(int64(300)),
		ResourceDiffThreshold:         c09Ptr(0.1),
		CPUReclaimThresholdPercent:    c09Ptr(int64(65)),
		MemoryReclaimThresholdPercent: c09Ptr(int64(65)),
	}
	switch in.Static {
	case 1:
		s.MidReclaimMode = c09Ptr(configuration.MidReclaimModeStatic)
	case 2:
		s.MidReclaimMode = c09Ptr(configuration.MidReclaimMode("dynamic"))
	}
	if in.ThrPct[0] >= 0 {
		s.MidCPUThresholdPercent = c09Ptr(in.ThrPct[0])
	}
	if in.ThrPct[1] >= 0 {
		s.MidMemoryThresholdPercent = c09Ptr(in.ThrPct[1])
	}
	if in.UnallocPct >= 0 {
		s.MidUnallocatedPercent = c09Ptr(in.UnallocPct)
	}
	if in.StaticPct[0] >= 0 {
		s.MidStaticCPUReservedPercent = c09Ptr(in.StaticPct[0])
	}
	if in.StaticPct[1] >= 0 {
		s.MidStaticMemoryReservedPercent = c09Ptr(in.StaticPct[1])
	}
	pods := &corev1.PodList{}
	for _, p := range in.Pods {
		pod := corev1.Pod{ObjectMeta: metav1.ObjectMeta{Name: p.Name, Namespace: "c09", Labels: map[string]string{}},
			Spec:   corev1.PodSpec{NodeName: c09NodeName, Containers: []corev1.Container{{Name: "c", Resources: corev1.ResourceRequirements{Requests: c09RL(p.Request)}}}},
			Status: corev1.PodStatus{Phase: p.Phase}}
		if p.Split {
			a := c09Res{p.Request[0] / 3, p.Request[1] / 3}
			b := c09Res{p.Request[0] - a[0], p.Request[1] - a[1]}
			pod.Spec.Containers = []corev1.Container{{Name: "a", Resources: corev1.ResourceRequirements{Requests: c09RL(a)}}, {Name: "b", Resources: corev1.ResourceRequirements{Requests: c09RL(b)}}}
		}
		if p.Init != (c09Res{}) {
			pod.Spec.InitContainers = []corev1.Container{{Name: "init", Resources: corev1.ResourceRequirements{Requests: c09RL(p.Init)}}}
		}
		switch p.Repr {
		case 0:
			pod.Labels[extension.LabelPodPriorityClass] = string(p.Class)
		case 1:
			v := map[extension.PriorityClass]int32{extension.PriorityProd: 9000, extension.PriorityMid: 7999, extension.PriorityBatch: 5500, extension.PriorityFree: 3000}[p.Class]
			pod.Spec.Priority = &v
		case 2:
			pod.Labels[extension.LabelPodQoS] = map[extension.PriorityClass]string{extension.PriorityProd: "LS", extension.PriorityBatch: "BE"}[p.Class]
		}
		pods.Items = append(pods.Items, pod)
	}
	nm := &slov1alpha1.NodeMetric{ObjectMeta: metav1.ObjectMeta{Name: c09NodeName}}
	if in.MetricKind != 2 {
		info := &slov1alpha1.NodeMetricInfo{SystemUsage: slov1alpha1.ResourceMap{ResourceList: c09RL(in.Sys)}}
		usage := corev1.ResourceList{}
		if in.NodeUsageHas[0] {
			usage[corev1.ResourceCPU] = c09Q(0, in.NodeUsage[0])
		}
		if in.NodeUsageHas[1] {
			usage[corev1.ResourceMemory] = c09Q(1, in.NodeUsage[1])
		}
		if in.NodeUsageHas[0] || in.NodeUsageHas[1] {
			info.NodeUsage = slov1alpha1.ResourceMap{ResourceList: usage}
		}
		nm.Status.NodeMetric = info
		for _, h := range in.HostApps {
			nm.Status.HostApplicationMetric = append(nm.Status.HostApplicationMetric, &slov1alpha1.HostApplicationMetricInfo{Name: h.Name,
				Usage: slov1alpha1.ResourceMap{ResourceList: c09RL(h.Usage)}, Priority: h.Prio, QoS: h.QoS})
		}
		if in.ReclaimableSet {
			rl := c09RL(in.Reclaimable)
			if in.ReclaimableOmit[0] {
				delete(rl, corev1.ResourceCPU)
			}
			if in.ReclaimableOmit[1] {
				delete(rl, corev1.ResourceMemory)
			}
			nm.Status.ProdReclaimableMetric = &slov1alpha1.ReclaimableMetric{Resource: slov1alpha1.ResourceMap{ResourceList: rl}}
		}
		if in.MetricKind == 0 {
			nm.Status.UpdateTime = &metav1.Time{Time: c09Now.Add(-time.Duration(in.AgeNanos))}
		}
	}
	return s, node, pods, &framework.ResourceMetrics{NodeMetric: nm}
}

type c09Out struct {
	reset bool
	v     [2]int64
}

func c09Run(c *kit.Case, in *c09Input, tag string) c09Out {
	s, node, pods, rm := in.build()
	items, err := (&Plugin{}).Calculate(s, node, pods, rm)
	if err != nil {
		c.Fail("C09/mid-output/error", "%s: Calculate returned an error on a complete input: %v", tag, err)
	}
	var by [2]*framework.ResourceItem
	for i := range items {
		switch items[i].Name {
		case extension.MidCPU:
			by[0] = &items[i]
		case extension.MidMemory:
			by[1] = &items[i]
		}
	}
	if len(items) != 2 || by[0] == nil || by[1] == nil {
		c.Fail("C09/mid-output/items", "%s: expected one item for mid-cpu and one for mid-memory, got %d", tag, len(items))
	}
	var out c09Out
	if by[0].Reset != by[1].Reset {
		c.Fail("C09/mid-output/half-reset", "%s: mid-cpu reset=%v, mid-memory reset=%v", tag, by[0].Reset, by[1].Reset)
	}
	if by[0].Reset {
		for res := 0; res < 2; res++ {
			if by[res].Quantity != nil {
				c.Fail("C09/mid-degrade/reset-with-number", "%s: item %s is a reset but carries a quantity", tag, by[res].Name)
			}
		}
		c.Op("%s -> RESET", tag)
		return c09Out{reset: true}
	}
	for res := 0; res < 2; res++ {
		q := by[res].Quantity
		if q == nil {
			c.Fail("C09/mid-output/no-quantity", "%s: item %s is neither a reset nor a number", tag, by[res].Name)
		}
		if q.MilliValue() != q.Value()*1000 {
			c.Fail("C09/mid-output/not-integral", "%s: %s = %s is not a whole number of published units", tag, by[res].Name, q.String())
		}
		out.v[res] = q.Value()
	}
	c.Op("%s -> mid-cpu=%d mid-memory=%d", tag, out.v[0], out.v[1])
	return out
}

func c09Check(c *kit.Case, in *c09Input, out c09Out, tag string) {
	if out.reset {
		return
	}
	one := big.NewRat(1, 1)
	for res := 0; res < 2; res++ {
		v := new(big.Rat).SetInt64(out.v[res])
		what := fmt.Sprintf("%s: mid-%s = %d", tag, c09ResName[res], out.v[res])
		if out.v[res] < 0 {
			c.Fail("C09/mid-bound/negative", "%s is negative", what)
		}
		thr, mode := c09Upper(in, res)
		if v.Cmp(new(big.Rat).Add(thr, one)) > 0 {
			c.Fail("C09/mid-bound/exceeds-threshold-percent", "%s exceeds %d%% of capacity %d = %s", what, c09Def(in.ThrPct[res], 100), in.Cap[res], thr.RatString())
		}
		if new(big.Rat).Sub(thr, v).Cmp(one) < 0 {
			c.Count("mid_threshold_binding", 1)
		}
		if mode == nil {
			c.Count("mid_no_documented_bound_invalid_node_usage", 1)
			if out.v[res] > 0 {
				c.Count("mid_positive_without_node_usage", 1)
			}
			continue
		}
		if v.Cmp(new(big.Rat).Add(mode, one)) > 0 {
			sig := "C09/mid-bound/exceeds-dynamic-formula"
			if in.Static == 1 {
				sig = "C09/mid-bound/exceeds-static-percent"
			}
			c.Fail(sig, "%s exceeds the documented amount %s (static=%v)", what, mode.RatString(), in.Static == 1)
		}
		if out.v[res] > 0 && new(big.Rat).Sub(mode, v).Cmp(one) < 0 {
			c.Count("mid_formula_tight", 1)
		}
		if out.v[res] == 0 {
			c.Count("mid_zero", 1)
		}
	}
}

func c09Amt(r *kit.Rand, scale int64, loPm, hiPm int) int64 {
	v := scale * int64(r.Range(loPm, hiPm)) / 1000
	if r.Pct(30) {
		v += int64(r.Range(-3, 3))
	}
	if v < 0 {
		v = 0
	}
	return v
}

func c09Gen(r *kit.Rand) *c09Input {
	in := &c09Input{}
	in.Cap[0] = int64(kit.Pick(r, []int{1, 2, 4, 8, 16, 32, 64, 96, 128, 256, 512, r.Range(1, 512)})) * 1000
	if r.Pct(10) {
		in.Cap[0] -= int64(r.Range(1, 999))
	}
	switch r.Intn(3) {
	case 0:
		in.Cap[1] = 1 << uint(r.Range(28, 42))
	case 1:
		in.Cap[1] = int64(r.Range(1, 4000)) * 1000000000
	default:
		in.Cap[1] = 1<<28 + r.Int63n(1<<42-1<<28)
	}
	pair := func(lo, hi int) c09Res { return c09Res{c09Amt(r, in.Cap[0], lo, hi), c09Amt(r, in.Cap[1], lo, hi)} }
	if r.Pct(50) {
		in.KubeletReserved = pair(0, 200)
	}
	if r.Pct(40) {
		in.AnnoHas = [2]bool{r.Pct(80), r.Pct(80)}
		in.AnnoRes = pair(0, 250)
		if r.Pct(30) { // reservedCPUs: whole CPUs
			in.AnnoCPUSet = true
			in.AnnoRes[0] = int64(r.Range(1, int(c09Max(1, in.Cap[0]/4000)))) * 1000
		}
		in.AnnoPolicy = []string{"", string(extension.NodeReservationApplyPolicyDefault), string(extension.NodeReservationApplyPolicyReservedCPUsOnly)}[r.Weighted(60, 25, 15)]
	}
	n := []int{0, r.Range(1, 4), r.Range(5, 12), r.Range(13, 40)}[r.Weighted(10, 48, 37, 5)]
	per := []int{500, 1000, 1600}[r.Weighted(45, 35, 20)]/(n+1) + 1
	for i := 0; i < n; i++ {
		p := c09Pod{Name: fmt.Sprintf("pod-%d", i)}
		p.Class = []extension.PriorityClass{extension.PriorityProd, extension.PriorityMid, extension.PriorityBatch, extension.PriorityFree}[r.Weighted(55, 20, 20, 5)]
		p.Repr = r.Intn(2)
		if (p.Class == extension.PriorityProd || p.Class == extension.PriorityBatch) && r.Pct(30) {
			p.Repr = 2
		}
		p.Phase = []corev1.PodPhase{corev1.PodRunning, corev1.PodPending, corev1.PodSucceeded, corev1.PodFailed, corev1.PodUnknown}[r.Weighted(62, 20, 7, 7, 4)]
		p.Request = pair(0, 2*per)
		p.Split = r.Pct(30)
		if r.Pct(12) {
			p.Init = c09Res{c09Amt(r, p.Request[0]+10, 300, 2000), c09Amt(r, p.Request[1]+10, 300, 2000)}
		}
		in.Pods = append(in.Pods, p)
	}
	if r.Pct(30) {
		for i, k := 0, []int{r.Range(1, 2), r.Range(3, 4)}[r.Weighted(85, 15)]; i < k; i++ {
			in.HostApps = append(in.HostApps, c09App{Name: fmt.Sprintf("app-%d", i),
				Prio:  []extension.PriorityClass{extension.PriorityProd, extension.PriorityMid, extension.PriorityBatch, extension.PriorityFree, extension.PriorityNone}[r.Weighted(48, 20, 24, 5, 3)],
				Usage: pair(0, 150), QoS: kit.Pick(r, []extension.QoSClass{extension.QoSNone, extension.QoSNone, extension.QoSLS, extension.QoSBE, extension.QoSBE, extension.QoSLSR})})
		}
	}
	in.Sys = pair(0, 250)
	in.NodeUsage = pair(0, 1100)
	in.NodeUsageHas = [2]bool{r.Pct(95), r.Pct(95)}
	in.ReclaimableSet = r.Pct(85)
	in.Reclaimable = pair(0, 600)
	if in.ReclaimableSet && r.Pct(4) {
		in.ReclaimableOmit[r.Intn(2)] = true
	}
	in.Static = r.Weighted(45, 40, 15)
	pct := func(nilPct int) int64 {
		if r.Pct(nilPct) {
			return -1
		}
		return kit.Pick(r, []int64{0, 1, 10, 33, 50, 99, 100, int64(r.Range(0, 100)), int64(r.Range(0, 100))})
	}
	in.ThrPct = [2]int64{pct(30), pct(30)}
	in.UnallocPct = pct(25)
	in.StaticPct = [2]int64{pct(20), pct(20)}
	in.DegradeMin = kit.Pick(r, []int64{1, 5, 15, 15, 60, 1440, int64(r.Range(1, 10000)), 525600})
	d := in.DegradeMin * int64(time.Minute)
	switch r.Weighted(80, 3, 3, 3, 3, 2, 2, 2, 2) {
	case 0:
		in.AgeNanos = r.Int63n(in.DegradeMin*60) * int64(time.Second)
	case 1:
		in.AgeNanos = d
	case 2:
		in.AgeNanos = d + 1
	case 3:
		in.AgeNanos = d + int64(time.Second)
	case 4:
		in.AgeNanos = 10 * d
	case 5:
		in.AgeNanos = -int64(time.Minute)
	case 6:
		in.MetricKind = 1
	case 7:
		in.MetricKind = 2
	default:
		in.AgeNanos = d - int64(time.Second)
	}
	return in
}

func TestVerifC09Mid(t *testing.T) {
	oldClk := clk
	clk = fakeclock.NewFakeClock(c09Now)
	t.Cleanup(func() { clk = oldClk })
	kit.Run(t, kit.Config{Property: "C09", Unit: "mid", Quick: 10000, Thorough: 500000,
		Rule: "random node, reservations, 0-12 pods over priority class x phase, host applications, system/node usage (5% without a cpu or memory key), prod-reclaimable present/absent, mode nil/static/other, all mid percentages present/absent, metric age around the degrade time or missing; each fresh input is followed by 2 probes raising one consumption input (counted, not a verdict); distinct = (mode, percentages set, node usage valid, reclaimable set, outcome class per resource); non-trivial = fresh metric and a positive mid amount"},
		func(c *kit.Case) {
			r := c.R
			in := c09Gen(r)
			c.Op("input %+v", *in)
			out := c09Run(c, in, "base")
			stale, boundary := in.stale()
			switch {
			case stale:
				if !out.reset {
					c.Fail("C09/mid-degrade/stale-metric-not-reset", "node metric stale or missing (kind %d, age %s, degrade after %d min) but mid-cpu=%d mid-memory=%d are published",
						in.MetricKind, time.Duration(in.AgeNanos), in.DegradeMin, out.v[0], out.v[1])
				}
				c.Count("mid_stale_reset", 1)
				c.Seen("stale", in.MetricKind, in.DegradeMin > 1440)
				return
			case boundary:
				c.Count("mid_age_exactly_at_degrade_time", 1)
			case out.reset:
				c.Count("converse_misses_fresh_but_reset", 1)
			}
			if out.reset {
				return
			}
			c.Count("mid_fresh_numbers", 1)
			for _, h := range in.HostApps {
				if h.Prio == extension.PriorityProd && h.QoS == extension.QoSBE {
					c.Count("dim_mid_hostapp_prod_with_be_qos", 1)
				}
			}
			c09Check(c, in, out, "base")
			cls := func(res int) string {
				thr, mode := c09Upper(in, res)
				switch {
				case out.v[res] == 0:
					return "zero"
				case new(big.Rat).Sub(thr, new(big.Rat).SetInt64(out.v[res])).Cmp(big.NewRat(1, 1)) < 0:
					return "threshold"
				case mode == nil:
					return "nousage"
				}
				return "formula"
			}
			c.Seen(in.Static, in.ThrPct[0] >= 0, in.ThrPct[1] >= 0, in.UnallocPct > 0, in.StaticPct[0] > 0, in.NodeUsageHas, in.ReclaimableSet, cls(0), cls(1), len(in.HostApps) > 0)
			if out.v[0] > 0 || out.v[1] > 0 {
				c.NonTrivial()
			}
			if c.K < 2 {
				c.Sample(map[string]any{"capacity": in.Cap, "mode": in.Static, "pods": len(in.Pods), "published": out.v})
			}
			for i := 0; i < 2; i++ {
				p := in.clone()
				res := r.Intn(2)
				d := c09Max(1, c09Amt(r, in.Cap[res], 0, 300))
				var desc string
				switch r.Intn(4) {
				case 0:
					p.Sys[res] += d
					desc = "system usage"
				case 1:
					p.NodeUsage[res] += d
					desc = "node usage"
				case 2:
					p.KubeletReserved[res] = c09Max(p.KubeletReserved[res], 0) + d
					if p.KubeletReserved[res] > p.Cap[res] {
						p.KubeletReserved[res] = p.Cap[res]
					}
					desc = "kubelet reservation"
				default:
					if len(p.Pods) == 0 {
						continue
					}
					j := r.Intn(len(p.Pods))
					p.Pods[j].Request[res] += d
					desc = "request of " + p.Pods[j].Name + " (" + string(p.Pods[j].Class) + ")"
				}
				tag := fmt.Sprintf("probe %d: %s %s += %d", i, desc, c09ResName[res], d)
				po := c09Run(c, p, tag)
				c.Evals(1)
				c09Check(c, p, po, tag)
				for k := 0; k < 2; k++ {
					if !po.reset && po.v[k] > out.v[k] {
						c.Count("mid_probe_raised_amount", 1)
					} else {
						c.Count("mid_probe_not_raised", 1)
					}
				}
			}
		})
}
