//go:build verif

package batchresource

// C09 monitors for the batch tier: the real Plugin.Calculate (calculateOnNode + calculateOnNUMALevel +
// resutil.CalculateBatchResourceByPolicy + isDegradeNeeded/Reset) is executed on generated
// (strategy, node, pod list, node metric, host applications, NodeResourceTopology) inputs; the oracle
// recomputes the statement's bound from the *generator's own description of the input* (never from
// the objects handed to the plugin and never with the plugin's helpers) in exact rational arithmetic.
// See /verif/DESIGN.md section 4, C09.
//
// Meaning of the statement's terms, as established from the code and the API documentation and then
// recomputed independently here (units: milli-CPU and bytes, as published):
//
//   capacity          node.status.capacity[cpu|memory]; per zone: the zone's amount in the NRT object
//   safety margin     capacity x (100 - <res>ReclaimThresholdPercent)/100 (may be negative: the package's
//                     own tests use thresholds of 120 and 150). The threshold may also be delivered by
//                     the node labels node.koordinator.sh/{cpu,memory}-reclaim-ratio.
//   system usage      nodeMetric.status.nodeMetric.systemUsage + usage of host applications whose
//                     priority class is above batch (prod, mid)
//   node reservation  the larger of (capacity - allocatable), the kubelet's reservation, and the
//                     node.koordinator.sh/reservation annotation (resources, or the size of reservedCPUs)
//   high-priority pod phase Running or Pending and koordinator priority class not batch/free (class from
//                     the priority-class label, else the spec.priority band, else the default of the QoS
//                     label, else the default of the kubernetes QoS class)
//   HP(policy)        per pod: no metric -> request (every policy); usage -> usage; request -> request;
//                     maxUsageRequest -> max(usage, request). Metrics of pods that are not in the pod list
//                     ("dangling") with priority prod/mid -> usage (not charged under the request policy:
//                     their request is unknown). CPU policy in {usage, maxUsageRequest} (the API type
//                     documents "request" as unsupported for CPU), memory policy in all three.
//   cap               Batch<Res>ThresholdPercent x capacity / 100
//   stale             now - status.updateTime > DegradeTimeMinutes, or no updateTime at all
//   zone share        system usage / reservation / dangling usage: 1/Z per zone; a pod bound to NUMA
//                     nodes S by its resource-status annotation: 1/|S| in each zone of S; otherwise 1/Z.
//
// Rounding allowed (exactly what truncating float arithmetic of a correct implementation produces):
// the published margin is int64(float64(capacity) * float64(100-thr)/100). For capacity <= 2^42 the
// float product is within 2^-9 of the exact value cap*k/100, whose fractional part is a multiple of
// 1/100, so the truncation is floor(exact) or - only if exact is an integer - exact-1. The oracle
// therefore uses marginLow = ceil(exact)-1 for k>0 (0 for k=0, exact for k<0 where truncation goes
// towards zero, i.e. to the safe side). The percentage cap is compared as an exact rational with one
// unit of slack. Zone shares are rounded *up* by the code (safe side), so they need no slack.
//
// Causal rules of the generator (in-domain inputs only):
//   * the NodeMetric pointer is never nil (the controller passes an empty object when none exists);
//     a status with an updateTime always has status.nodeMetric (koordlet writes both together);
//   * pod names are unique; a pod has at most one metric entry; the priority/QoS in a metric entry of
//     a listed pod are the pod's own;
//   * an LSE pod (exclusive cpuset, request == limit) never uses more CPU than it requests;
//   * NRT zones are listed in NUMA id order (node-0, node-1, ...) with cpu and memory in every zone and
//     capacity == allocatable == available; NUMA ids in resource-status annotations are valid;
//   * amounts are whole milli-CPUs / bytes, capacity and every single amount <= 4 TiB / 512 CPUs;
//   * host applications carry one of the four koordinator priority classes.

import (
	"context"
	"encoding/json"
	"fmt"
	"math/big"
	"sort"
	"testing"
	"time"

	topologyv1alpha1 "github.com/k8stopologyawareschedwg/noderesourcetopology-api/pkg/apis/topology/v1alpha1"
	corev1 "k8s.io/api/core/v1"
	apierrors "k8s.io/apimachinery/pkg/api/errors"
	"k8s.io/apimachinery/pkg/api/resource"
	metav1 "k8s.io/apimachinery/pkg/apis/meta/v1"
	"k8s.io/apimachinery/pkg/runtime/schema"
	"k8s.io/klog/v2"
	fakeclock "k8s.io/utils/clock/testing"
	ctrlclient "sigs.k8s.io/controller-runtime/pkg/client"

	"github.com/koordinator-sh/koordinator/apis/configuration"
	"github.com/koordinator-sh/koordinator/apis/extension"
	slov1alpha1 "github.com/koordinator-sh/koordinator/apis/slo/v1alpha1"
	"github.com/koordinator-sh/koordinator/pkg/slo-controller/noderesource/framework"
	koordutil "github.com/koordinator-sh/koordinator/pkg/util"
	"github.com/koordinator-sh/koordinator/pkg/util/sloconfig"
	kit "github.com/koordinator-sh/koordinator/pkg/verifkit"
)

func init() {
	klog.SetOutput(c09Discard{})
	klog.LogToStderr(false)
}

type c09Discard struct{}

func (c09Discard) Write(p []byte) (int, error) { return len(p), nil }

// ---------------------------------------------------------------------------------------------
// input model (the generator's description of one input; the oracle reads only this)

const (
	c09CPU = 0
	c09Mem = 1

	c09PolNil     = 0
	c09PolUsage   = 1
	c09PolRequest = 2
	c09PolMax     = 3

	c09NodeName = "c09-node"
	c09NS       = "c09"
)

var c09ResName = [2]string{"cpu", "memory"}

// c09Res is an amount pair: [0] milli-CPU, [1] bytes.
type c09Res [2]int64

type c09Pod struct {
	NS           string
	Name         string
	Class        extension.PriorityClass // ground truth: the pod's koordinator priority class
	QoSLabel     extension.QoSClass      // value of the koordinator.sh/qosClass label ("" = no label)
	Repr         int                     // how Class is expressed: 0 label, 1 spec.priority band, 2 default of the QoS label, 3 default of the kubernetes QoS
	PrioVal      int64                   // spec.priority (-1 = nil)
	Phase        corev1.PodPhase
	Containers   []c09Res // requests per container
	Init         c09Res   // request of one (non-restartable) init container, zero = none
	Sidecar      c09Res   // request of one restartable init container (sidecar), zero = none
	SidecarFirst bool     // the sidecar is declared before the plain init container
	PodLevel     c09Res   // pod-level requests (spec.resources.requests)
	PodLevelHas  [2]bool
	Overhead     c09Res
	HasMetric    bool
	Usage        c09Res  // a key omitted from the reported usage counts as 0 here
	UsageOmit    [2]bool // the metric entry carries no key for this resource
	Terminating  bool    // deletionTimestamp set (phase unchanged)
	StatusQoS    bool    // status.qosClass filled in (as kubelet does)
	NUMA         []int   // NUMA nodes of the resource-status annotation (nil = none)
	NUMABroken   bool    // the resource-status annotation is not valid JSON (code and oracle: no binding)
}

// request is the pod's effective request as Kubernetes defines it: max(sum(containers) + sidecars, the peak while
// the init containers run one after the other with the sidecars declared before them still running); a pod-level
// request replaces the container aggregate of that resource; the overhead is added.
func (p *c09Pod) request() c09Res {
	var s c09Res
	for _, c := range p.Containers {
		s[0] += c[0]
		s[1] += c[1]
	}
	for i := 0; i < 2; i++ {
		s[i] += p.Sidecar[i]
		peak := c09Max(p.Init[i], p.Sidecar[i])
		if p.SidecarFirst && p.Init != (c09Res{}) {
			peak = p.Init[i] + p.Sidecar[i]
		}
		if peak > s[i] {
			s[i] = peak
		}
		if p.PodLevelHas[i] {
			s[i] = p.PodLevel[i]
		}
		s[i] += p.Overhead[i]
	}
	return s
}

func (p *c09Pod) live() bool { return p.Phase == corev1.PodRunning || p.Phase == corev1.PodPending }
func (p *c09Pod) hp() bool {
	return p.Class != extension.PriorityBatch && p.Class != extension.PriorityFree
}
func (p *c09Pod) lse() bool { return p.QoSLabel == extension.QoSLSE }

type c09Metric struct {
	NS    string
	Name  string
	QoS   extension.QoSClass // host applications: the qos field of the entry ("" = not reported); may disagree with Prio
	Prio  extension.PriorityClass
	Usage c09Res
}

type c09Input struct {
	Cap             c09Res
	KubeletReserved c09Res // capacity - allocatable
	AnnoKind        int    // 0 none, 1 resources, 2 reservedCPUs (+ optional memory resource)
	AnnoRes         c09Res
	AnnoHas         [2]bool
	AnnoPolicy      string // applyPolicy of the reservation annotation ("" / Default / ReservedCPUsOnly)
	AnnoBroken      bool   // the reservation annotation is not valid JSON (nothing is reserved by it)
	AnnoHoles       bool   // reservedCPUs is written as a list with holes instead of one range
	Pods            []c09Pod
	Dangling        []c09Metric // metrics of pods that are not in the list
	HostApps        []c09Metric
	Sys             c09Res
	SysEmpty        bool     // systemUsage reported without a resource list
	SysOmit         [2]bool  // systemUsage reported without this key (Sys is 0 there)
	Zones           []c09Res // capacity of the i-th LISTED zone; nil = no NodeResourceTopology object
	ZoneIDs         []int    // NUMA id of the i-th listed zone (its name is node-<id>); nil = 0..n-1 in order

	Thr          [2]int64 // <res>ReclaimThresholdPercent
	ThrViaLabel  [2]bool  // delivered by the node label (ratio = Thr/100) instead of the strategy field
	Layer        int      // where the strategy values live: 0 the strategy handed over, 1 node annotation over a cluster default, 2 nodeConfigs entry selected by a node label
	Policy       [2]int
	CapPct       [2]int64 // Batch<Res>ThresholdPercent, -1 = nil
	DegradeMin   int64
	AgeNanos     int64 // now - status.updateTime
	MetricKind   int   // 0 complete, 1 status without updateTime, 2 empty NodeMetric object
	DiffPermille int64 // ResourceDiffThreshold x 1000 (0 = the default 0.1); read by NeedSync / PreUpdate only
	UpdateSec    int64 // UpdateTimeThresholdSeconds (0 = the default 300); read by PreUpdate only
}

func (in *c09Input) clone() *c09Input {
	o := *in
	o.Pods = make([]c09Pod, len(in.Pods))
	for i, p := range in.Pods {
		p.Containers = append([]c09Res(nil), p.Containers...)
		p.NUMA = append([]int(nil), p.NUMA...)
		o.Pods[i] = p
	}
	o.Dangling = append([]c09Metric(nil), in.Dangling...)
	o.HostApps = append([]c09Metric(nil), in.HostApps...)
	o.Zones = append([]c09Res(nil), in.Zones...)
	o.ZoneIDs = append([]int(nil), in.ZoneIDs...)
	return &o
}

// zoneID is the NUMA id of the i-th listed zone; a zone's identity is its name node-<id> (what the scheduler parses
// and what pods' resource-status annotations refer to), not its position in the list.
func (in *c09Input) zoneID(i int) int {
	if in.ZoneIDs == nil {
		return i
	}
	return in.ZoneIDs[i]
}

func (in *c09Input) zoneName(i int) string { return fmt.Sprintf("node-%d", in.zoneID(i)) }

func (in *c09Input) effPolicy(res int) int {
	if in.Policy[res] == c09PolNil {
		return c09PolUsage
	}
	return in.Policy[res]
}

// systemUsed is the statement's "system usage": reported system usage plus host applications above batch.
func (in *c09Input) systemUsed() c09Res {
	var s c09Res
	if !in.SysEmpty {
		s = in.Sys
	}
	for _, h := range in.HostApps {
		if h.Prio == extension.PriorityProd || h.Prio == extension.PriorityMid {
			s[0] += h.Usage[0]
			s[1] += h.Usage[1]
		}
	}
	return s
}

// reserved is the statement's "node reservation": the larger of the kubelet's and the annotation's.
// (Taking the larger, not the sum, gives the weaker bound, so an implementation that adds them passes too.
// An annotation with applyPolicy ReservedCPUsOnly "does not affect the total amount of schedulable resources";
// whether it counts here is not decided by the statement, so the oracle takes the weaker bound and leaves it out.)
func (in *c09Input) reserved() c09Res {
	r := in.KubeletReserved
	for i := 0; i < 2; i++ {
		if in.AnnoKind != 0 && !in.AnnoBroken && in.AnnoPolicy != string(extension.NodeReservationApplyPolicyReservedCPUsOnly) && in.AnnoHas[i] && in.AnnoRes[i] > r[i] {
			r[i] = in.AnnoRes[i]
		}
	}
	return r
}

func (in *c09Input) stale() (stale, boundary bool) {
	if in.MetricKind != 0 {
		return true, false
	}
	lim := in.DegradeMin * int64(time.Minute)
	return in.AgeNanos > lim, in.AgeNanos == lim
}

// ---------------------------------------------------------------------------------------------
// oracle: the statement's bound, exact

func c09Int(v int64) *big.Rat { return new(big.Rat).SetInt64(v) }

// c09MarginLow is the smallest margin (in published units) that truncating float arithmetic of
// capacity x (100-thr)/100 can produce; see the rounding note at the top of the file.
func c09MarginLow(capacity, thr int64) *big.Rat {
	k := 100 - thr
	exact := new(big.Rat).SetFrac(new(big.Int).Mul(big.NewInt(capacity), big.NewInt(k)), big.NewInt(100))
	switch {
	case k == 0:
		return new(big.Rat)
	case k < 0:
		return exact
	}
	if exact.IsInt() {
		return exact.Sub(exact, c09Int(1))
	}
	fl := new(big.Int).Quo(exact.Num(), exact.Denom()) // floor for positive values
	return new(big.Rat).SetInt(fl)
}

type c09Variant struct {
	lseAtRequest bool // design reading: an LSE pod's CPU is exclusive, charged at request under the usage policy
	noMetricZero bool // diagnosis only: metric-less HP pods not charged under maxUsageRequest
	reservedOnly bool // diagnosis only: request policy subtracts the reservation, not max(system usage, reservation)
	byPosition   bool // diagnosis only: a pod's NUMA ids are matched against list positions instead of the zones' ids
}

// c09Share is the part of an amount attributed to a zone (zone < 0: the node itself); zoneID is the NUMA id of
// that zone, numa the NUMA ids the pod is bound to.
func c09Share(zones int, numa []int, zone, zoneID int) *big.Rat {
	if zone < 0 {
		return c09Int(1)
	}
	if len(numa) == 0 {
		return big.NewRat(1, int64(zones))
	}
	for _, n := range numa {
		if n == zoneID {
			return big.NewRat(1, int64(len(numa)))
		}
	}
	return new(big.Rat)
}

// c09SharePos is the diagnosis reading "NUMA ids are list positions": ids outside 0..zones-1 are dropped, a pod
// left without any id is spread over all zones.
func c09SharePos(zones int, numa []int, zone int) *big.Rat {
	valid, hit := 0, false
	for _, n := range numa {
		if n >= 0 && n < zones {
			valid++
			if n == zone {
				hit = true
			}
		}
	}
	switch {
	case valid == 0:
		return big.NewRat(1, int64(zones))
	case hit:
		return big.NewRat(1, int64(valid))
	}
	return new(big.Rat)
}

func c09MinI64(a, b int64) int64 {
	if a < b {
		return a
	}
	return b
}

// c09DegradeBucket abstracts the degrade time for the distinct-state evidence.
func c09DegradeBucket(m int64) string {
	switch {
	case m <= 1:
		return "1"
	case m <= 15:
		return "<=15"
	case m <= 1440:
		return "<=1d"
	case m <= 10000:
		return "<=1w"
	}
	return "years"
}

func c09Max(a, b int64) int64 {
	if a > b {
		return a
	}
	return b
}

// c09Bound = capacity - margin - max(system usage, reservation) - HP(policy), for the node (zone<0) or one zone.
func c09Bound(in *c09Input, res, zone int, v c09Variant) *big.Rat {
	z := len(in.Zones)
	capacity := in.Cap[res]
	if zone >= 0 {
		capacity = in.Zones[zone][res]
	}
	pol := in.effPolicy(res)
	b := c09Int(capacity)
	b.Sub(b, c09MarginLow(capacity, in.Thr[res]))
	top := c09Max(in.systemUsed()[res], in.reserved()[res])
	if v.reservedOnly && pol == c09PolRequest {
		top = in.reserved()[res]
	}
	zid := -1
	if zone >= 0 {
		zid = in.zoneID(zone)
	}
	b.Sub(b, new(big.Rat).Mul(c09Int(top), c09Share(z, nil, zone, zid)))
	for i := range in.Pods {
		p := &in.Pods[i]
		if !p.live() || !p.hp() {
			continue
		}
		req, use := p.request()[res], p.Usage[res]
		var charge int64
		switch {
		case !p.HasMetric:
			charge = req
			if v.noMetricZero && pol == c09PolMax {
				charge = 0
			}
		case pol == c09PolRequest:
			charge = req
		case pol == c09PolMax:
			charge = c09Max(req, use)
		default:
			charge = use
			if v.lseAtRequest && res == c09CPU && p.lse() {
				charge = req
			}
		}
		numa := p.NUMA
		if p.NUMABroken {
			numa = nil
		}
		share := c09Share(z, numa, zone, zid)
		if v.byPosition && zone >= 0 && len(numa) > 0 {
			share = c09SharePos(z, numa, zone)
		}
		b.Sub(b, new(big.Rat).Mul(c09Int(charge), share))
	}
	if pol != c09PolRequest {
		for _, d := range in.Dangling {
			if d.Prio == extension.PriorityProd || d.Prio == extension.PriorityMid {
				b.Sub(b, new(big.Rat).Mul(c09Int(d.Usage[res]), c09Share(z, nil, zone, zid)))
			}
		}
	}
	return b
}

func c09Pos(b *big.Rat) *big.Rat {
	if b.Sign() < 0 {
		return new(big.Rat)
	}
	return b
}

// ---------------------------------------------------------------------------------------------
// building the objects the plugin sees

func c09Q(res int, v int64) resource.Quantity {
	if res == c09CPU {
		return *resource.NewMilliQuantity(v, resource.DecimalSI)
	}
	return *resource.NewQuantity(v, resource.BinarySI)
}

func c09RLOmit(v c09Res, omit [2]bool) corev1.ResourceList {
	rl := corev1.ResourceList{}
	if !omit[0] {
		rl[corev1.ResourceCPU] = c09Q(c09CPU, v[0])
	}
	if !omit[1] {
		rl[corev1.ResourceMemory] = c09Q(c09Mem, v[1])
	}
	return rl
}

func c09RL(v c09Res) corev1.ResourceList {
	return corev1.ResourceList{corev1.ResourceCPU: c09Q(c09CPU, v[0]), corev1.ResourceMemory: c09Q(c09Mem, v[1])}
}

// c09ReqRL omits zero amounts (a container without that request) unless keepZero.
func c09ReqRL(v c09Res, keepZero bool) corev1.ResourceList {
	rl := corev1.ResourceList{}
	if v[0] != 0 || keepZero {
		rl[corev1.ResourceCPU] = c09Q(c09CPU, v[0])
	}
	if v[1] != 0 || keepZero {
		rl[corev1.ResourceMemory] = c09Q(c09Mem, v[1])
	}
	return rl
}

func (p *c09Pod) build() corev1.Pod {
	pod := corev1.Pod{
		ObjectMeta: metav1.ObjectMeta{Name: p.Name, Namespace: p.NS, Labels: map[string]string{"app": p.Name}},
		Spec:       corev1.PodSpec{NodeName: c09NodeName},
		Status:     corev1.PodStatus{Phase: p.Phase},
	}
	if p.QoSLabel != "" {
		pod.Labels[extension.LabelPodQoS] = string(p.QoSLabel)
	}
	if p.Repr == 0 {
		pod.Labels[extension.LabelPodPriorityClass] = string(p.Class)
	}
	if p.PrioVal >= 0 {
		v := int32(p.PrioVal)
		pod.Spec.Priority = &v
	}
	for i, c := range p.Containers {
		ct := corev1.Container{Name: fmt.Sprintf("c%d", i), Resources: corev1.ResourceRequirements{Requests: c09ReqRL(c, false)}}
		if p.Repr != 3 && (p.QoSLabel == extension.QoSLSE || p.QoSLabel == extension.QoSLSR) {
			ct.Resources.Limits = c09ReqRL(c, false)
		}
		pod.Spec.Containers = append(pod.Spec.Containers, ct)
	}
	if p.Init != (c09Res{}) {
		pod.Spec.InitContainers = []corev1.Container{{Name: "init", Resources: corev1.ResourceRequirements{Requests: c09ReqRL(p.Init, false)}}}
	}
	if p.Sidecar != (c09Res{}) {
		always := corev1.ContainerRestartPolicyAlways
		sc := corev1.Container{Name: "sidecar", RestartPolicy: &always, Resources: corev1.ResourceRequirements{Requests: c09ReqRL(p.Sidecar, false)}}
		if p.SidecarFirst {
			pod.Spec.InitContainers = append([]corev1.Container{sc}, pod.Spec.InitContainers...)
		} else {
			pod.Spec.InitContainers = append(pod.Spec.InitContainers, sc)
		}
	}
	if p.PodLevelHas[0] || p.PodLevelHas[1] {
		rl := corev1.ResourceList{}
		for res, n := range []corev1.ResourceName{corev1.ResourceCPU, corev1.ResourceMemory} {
			if p.PodLevelHas[res] {
				rl[n] = c09Q(res, p.PodLevel[res])
			}
		}
		pod.Spec.Resources = &corev1.ResourceRequirements{Requests: rl}
	}
	if p.Terminating {
		ts := metav1.NewTime(c09Now.Add(-time.Minute))
		grace := int64(30)
		pod.DeletionTimestamp, pod.DeletionGracePeriodSeconds = &ts, &grace
	}
	if p.StatusQoS {
		pod.Status.QOSClass = corev1.PodQOSBurstable
		if p.Class == extension.PriorityBatch {
			pod.Status.QOSClass = corev1.PodQOSBestEffort
		}
	}
	if p.Overhead != (c09Res{}) {
		pod.Spec.Overhead = c09ReqRL(p.Overhead, false)
	}
	if len(p.NUMA) > 0 {
		st := &extension.ResourceStatus{}
		for _, n := range p.NUMA {
			st.NUMANodeResources = append(st.NUMANodeResources, extension.NUMANodeResource{Node: int32(n)})
		}
		_ = extension.SetResourceStatus(&pod, st)
	}
	if p.NUMABroken {
		if pod.Annotations == nil {
			pod.Annotations = map[string]string{}
		}
		pod.Annotations[extension.AnnotationResourceStatus] = `{"numaNodeResources":[{"node":`
	}
	return pod
}

func joinComma(parts []string) string {
	out := ""
	for i, p := range parts {
		if i > 0 {
			out += ","
		}
		out += p
	}
	return out
}

func c09Ratio(pct int64) string { return fmt.Sprintf("%d.%02d", pct/100, pct%100) }

type c09Objects struct {
	strategy *configuration.ColocationStrategy
	node     *corev1.Node
	pods     *corev1.PodList
	metrics  *framework.ResourceMetrics
	nrt      *topologyv1alpha1.NodeResourceTopology
}

func c09Ptr[T any](v T) *T { return &v }

func (in *c09Input) build(now time.Time) c09Objects {
	var o c09Objects
	// node
	alloc := c09Res{in.Cap[0] - in.KubeletReserved[0], in.Cap[1] - in.KubeletReserved[1]}
	node := &corev1.Node{
		ObjectMeta: metav1.ObjectMeta{Name: c09NodeName, Labels: map[string]string{}, Annotations: map[string]string{}},
		Status:     corev1.NodeStatus{Capacity: c09RL(in.Cap), Allocatable: c09RL(alloc)},
	}
	node.Status.Capacity[corev1.ResourcePods] = resource.MustParse("110")
	node.Status.Allocatable[corev1.ResourcePods] = resource.MustParse("110")
	if in.AnnoKind != 0 {
		nr := extension.NodeReservation{ApplyPolicy: extension.NodeReservationApplyPolicy(in.AnnoPolicy)}
		if in.AnnoKind == 1 {
			nr.Resources = corev1.ResourceList{corev1.ResourceEphemeralStorage: resource.MustParse("10Gi")}
			if in.AnnoHas[0] {
				nr.Resources[corev1.ResourceCPU] = c09Q(c09CPU, in.AnnoRes[0])
			}
		} else {
			n := in.AnnoRes[0] / 1000
			switch {
			case n == 1:
				nr.ReservedCPUs = "0"
			case in.AnnoHoles: // every other CPU, then a tail range: "0,2,4,...," + "k-m"
				parts := []string{}
				half := n / 2
				for i := int64(0); i < half; i++ {
					parts = append(parts, fmt.Sprint(2*i))
				}
				lo := 2 * half
				parts = append(parts, fmt.Sprintf("%d-%d", lo, lo+(n-half)-1))
				if n-half == 1 {
					parts[len(parts)-1] = fmt.Sprint(lo)
				}
				nr.ReservedCPUs = joinComma(parts)
			default:
				nr.ReservedCPUs = fmt.Sprintf("0-%d", n-1)
			}
		}
		if in.AnnoHas[1] {
			if nr.Resources == nil {
				nr.Resources = corev1.ResourceList{}
			}
			nr.Resources[corev1.ResourceMemory] = c09Q(c09Mem, in.AnnoRes[1])
		}
		b, _ := json.Marshal(nr)
		node.Annotations[extension.AnnotationNodeReservation] = string(b)
		if in.AnnoBroken {
			node.Annotations[extension.AnnotationNodeReservation] = string(b[:len(b)-1])
		}
	}
	// strategy
	s := &configuration.ColocationStrategy{
		Enable:                        c09Ptr(true),
		DegradeTimeMinutes:            c09Ptr(in.DegradeMin),
		UpdateTimeThresholdSeconds:    c09Ptr(int64(300)),
		ResourceDiffThreshold:         c09Ptr(0.1),
		CPUReclaimThresholdPercent:    c09Ptr(in.Thr[0]),
		MemoryReclaimThresholdPercent: c09Ptr(in.Thr[1]),
	}
	if in.DiffPermille > 0 {
		s.ResourceDiffThreshold = c09Ptr(float64(in.DiffPermille) / 1000)
	}
	if in.UpdateSec > 0 {
		s.UpdateTimeThresholdSeconds = c09Ptr(in.UpdateSec)
	}
	pols := [4]configuration.CalculatePolicy{"", configuration.CalculateByPodUsage, configuration.CalculateByPodRequest, configuration.CalculateByPodMaxUsageRequest}
	if in.Policy[0] != c09PolNil {
		s.CPUCalculatePolicy = c09Ptr(pols[in.Policy[0]])
	}
	if in.Policy[1] != c09PolNil {
		s.MemoryCalculatePolicy = c09Ptr(pols[in.Policy[1]])
	}
	if in.CapPct[0] >= 0 {
		s.BatchCPUThresholdPercent = c09Ptr(in.CapPct[0])
	}
	if in.CapPct[1] >= 0 {
		s.BatchMemoryThresholdPercent = c09Ptr(in.CapPct[1])
	}
	if in.ThrViaLabel[0] || in.ThrViaLabel[1] || in.Layer != 0 {
		// the values travel through sloconfig.GetNodeColocationStrategy: cluster strategy < first matching nodeConfigs
		// entry < node annotation < reclaim-ratio labels
		cfg := &configuration.ColocationCfg{ColocationStrategy: *s}
		if in.Layer != 0 {
			upper := *s // the real values
			upper.Enable, upper.UpdateTimeThresholdSeconds, upper.ResourceDiffThreshold = nil, nil, nil
			cluster := configuration.ColocationStrategy{Enable: s.Enable, UpdateTimeThresholdSeconds: s.UpdateTimeThresholdSeconds, ResourceDiffThreshold: s.ResourceDiffThreshold,
				CPUReclaimThresholdPercent: c09Ptr(int64(100)), MemoryReclaimThresholdPercent: c09Ptr(int64(100)), DegradeTimeMinutes: c09Ptr(int64(100000000))}
			cfg.ColocationStrategy = cluster
			if in.Layer == 1 {
				b, _ := json.Marshal(upper)
				node.Annotations[extension.AnnotationNodeColocationStrategy] = string(b)
			} else {
				node.Labels["c09-pool"] = "a"
				decoy := configuration.ColocationStrategy{CPUReclaimThresholdPercent: c09Ptr(int64(100)), MemoryReclaimThresholdPercent: c09Ptr(int64(100)), BatchCPUThresholdPercent: c09Ptr(int64(1000))}
				cfg.NodeConfigs = []configuration.NodeColocationCfg{
					{NodeCfgProfile: configuration.NodeCfgProfile{Name: "other", NodeSelector: &metav1.LabelSelector{MatchLabels: map[string]string{"c09-pool": "b"}}}, ColocationStrategy: decoy},
					{NodeCfgProfile: configuration.NodeCfgProfile{Name: "mine", NodeSelector: &metav1.LabelSelector{MatchLabels: map[string]string{"c09-pool": "a"}}}, ColocationStrategy: upper},
					{NodeCfgProfile: configuration.NodeCfgProfile{Name: "later", NodeSelector: &metav1.LabelSelector{MatchLabels: map[string]string{"c09-pool": "a"}}}, ColocationStrategy: decoy},
				}
			}
		}
		if in.ThrViaLabel[0] {
			if in.Layer == 0 {
				cfg.CPUReclaimThresholdPercent = c09Ptr(int64(60))
			}
			node.Labels[extension.LabelCPUReclaimRatio] = c09Ratio(in.Thr[0])
		}
		if in.ThrViaLabel[1] {
			if in.Layer == 0 {
				cfg.MemoryReclaimThresholdPercent = c09Ptr(int64(65))
			}
			node.Labels[extension.LabelMemoryReclaimRatio] = c09Ratio(in.Thr[1])
		}
		s = sloconfig.GetNodeColocationStrategy(cfg, node)
	}
	o.strategy, o.node = s, node
	// pods and metrics
	o.pods = &corev1.PodList{}
	nm := &slov1alpha1.NodeMetric{ObjectMeta: metav1.ObjectMeta{Name: c09NodeName}}
	if in.MetricKind != 2 {
		info := &slov1alpha1.NodeMetricInfo{}
		var total c09Res
		if !in.SysEmpty {
			info.SystemUsage = slov1alpha1.ResourceMap{ResourceList: c09RLOmit(in.Sys, in.SysOmit)}
			total = in.Sys
		}
		for i := range in.Pods {
			p := &in.Pods[i]
			if p.HasMetric {
				qos := p.QoSLabel
				nm.Status.PodsMetric = append(nm.Status.PodsMetric, &slov1alpha1.PodMetricInfo{Name: p.Name, Namespace: p.NS,
					PodUsage: slov1alpha1.ResourceMap{ResourceList: c09RLOmit(p.Usage, p.UsageOmit)}, Priority: p.Class, QoS: qos})
				total[0] += p.Usage[0]
				total[1] += p.Usage[1]
			}
		}
		for _, d := range in.Dangling {
			nm.Status.PodsMetric = append(nm.Status.PodsMetric, &slov1alpha1.PodMetricInfo{Name: d.Name, Namespace: d.NS,
				PodUsage: slov1alpha1.ResourceMap{ResourceList: c09RL(d.Usage)}, Priority: d.Prio})
			total[0] += d.Usage[0]
			total[1] += d.Usage[1]
		}
		for _, h := range in.HostApps {
			nm.Status.HostApplicationMetric = append(nm.Status.HostApplicationMetric, &slov1alpha1.HostApplicationMetricInfo{Name: h.Name,
				Usage: slov1alpha1.ResourceMap{ResourceList: c09RL(h.Usage)}, Priority: h.Prio, QoS: h.QoS})
			total[0] += h.Usage[0]
			total[1] += h.Usage[1]
		}
		info.NodeUsage = slov1alpha1.ResourceMap{ResourceList: c09RL(total)}
		nm.Status.NodeMetric = info
		if in.MetricKind == 0 {
			nm.Status.UpdateTime = &metav1.Time{Time: now.Add(-time.Duration(in.AgeNanos))}
		}
	}
	for i := range in.Pods {
		o.pods.Items = append(o.pods.Items, in.Pods[i].build())
	}
	o.metrics = &framework.ResourceMetrics{NodeMetric: nm}
	// NRT
	if in.Zones != nil {
		nrt := &topologyv1alpha1.NodeResourceTopology{ObjectMeta: metav1.ObjectMeta{Name: c09NodeName}, TopologyPolicies: []string{string(topologyv1alpha1.None)}}
		for i, zc := range in.Zones {
			zone := topologyv1alpha1.Zone{Name: in.zoneName(i), Type: "Node"}
			for res := 0; res < 2; res++ {
				q := c09Q(res, zc[res])
				zone.Resources = append(zone.Resources, topologyv1alpha1.ResourceInfo{Name: c09ResName[res], Capacity: q, Allocatable: q, Available: q})
			}
			if i%2 == 1 { // resources the plugin does not manage
				hp := resource.MustParse("2Gi")
				zone.Resources = append(zone.Resources, topologyv1alpha1.ResourceInfo{Name: "hugepages-2Mi", Capacity: hp, Allocatable: hp, Available: hp})
			}
			nrt.Zones = append(nrt.Zones, zone)
		}
		o.nrt = nrt
	}
	return o
}

// c09Client is the API the plugin reads the NodeResourceTopology from (the environment, not the code under test).
type c09Client struct {
	ctrlclient.Client
	nrt     *topologyv1alpha1.NodeResourceTopology
	updates int
}

func (c *c09Client) Get(_ context.Context, key ctrlclient.ObjectKey, obj ctrlclient.Object, _ ...ctrlclient.GetOption) error {
	out, ok := obj.(*topologyv1alpha1.NodeResourceTopology)
	if !ok || c.nrt == nil || key.Name != c.nrt.Name {
		return apierrors.NewNotFound(schema.GroupResource{Group: "topology.node.k8s.io", Resource: "noderesourcetopologies"}, key.Name)
	}
	c.nrt.DeepCopyInto(out)
	return nil
}

func (c *c09Client) Update(_ context.Context, obj ctrlclient.Object, _ ...ctrlclient.UpdateOption) error {
	in, ok := obj.(*topologyv1alpha1.NodeResourceTopology)
	if !ok || c.nrt == nil || in.Name != c.nrt.Name {
		return apierrors.NewNotFound(schema.GroupResource{Group: "topology.node.k8s.io", Resource: "noderesourcetopologies"}, obj.GetName())
	}
	c.nrt = in.DeepCopy()
	c.updates++
	return nil
}

// ---------------------------------------------------------------------------------------------
// running the plugin and reading what it publishes

type c09Out struct {
	reset bool
	node  [2]*big.Rat              // published node amount in milli-CPU / bytes
	zone  [][2]*big.Rat            // per zone index; nil when no zone amounts were published
	items []framework.ResourceItem // what Calculate returned (handed on to Prepare by the prepare unit)
	objs  c09Objects
}

var c09Now = time.Date(2026, 1, 1, 0, 0, 0, 0, time.UTC)

func c09Amount(c *kit.Case, res int, q resource.Quantity, what string) *big.Rat {
	if res == c09CPU {
		// published as an integer count of milli-CPUs
		if q.MilliValue() != q.Value()*1000 {
			c.Fail("C09/output/cpu-not-integral", "%s: batch-cpu %s is not a whole number of milli-CPUs", what, q.String())
		}
		return c09Int(q.Value())
	}
	// bytes; zone amounts may carry a fraction of a byte (milli precision), keep it exactly
	return big.NewRat(q.MilliValue(), 1000)
}

func c09Run(c *kit.Case, in *c09Input, tag string) *c09Out {
	return c09RunAt(c, in, tag, c09Now, nil)
}

// c09RunAt evaluates the input at time now; with cl == nil the NRT reader is a fresh stub holding the
// input's NRT object, otherwise the given (persistent) API stub is used.
func c09RunAt(c *kit.Case, in *c09Input, tag string, now time.Time, cl *c09Client) *c09Out {
	o := in.build(now)
	if cl == nil {
		cl = &c09Client{nrt: o.nrt}
	}
	client = cl
	items, err := (&Plugin{}).Calculate(o.strategy, o.node, o.pods, o.metrics)
	if err != nil {
		c.Fail("C09/output/error", "%s: Calculate returned an error on a complete input: %v", tag, err)
	}
	out := &c09Out{items: items, objs: o}
	var byName [2]*framework.ResourceItem
	for i := range items {
		switch items[i].Name {
		case extension.BatchCPU:
			byName[0] = &items[i]
		case extension.BatchMemory:
			byName[1] = &items[i]
		}
	}
	if len(items) != 2 || byName[0] == nil || byName[1] == nil {
		c.Fail("C09/output/items", "%s: expected one item for batch-cpu and one for batch-memory, got %d items", tag, len(items))
	}
	if byName[0].Reset != byName[1].Reset {
		c.Fail("C09/output/half-reset", "%s: batch-cpu reset=%v but batch-memory reset=%v", tag, byName[0].Reset, byName[1].Reset)
	}
	if byName[0].Reset {
		out.reset = true
		for res := 0; res < 2; res++ {
			if byName[res].Quantity != nil || len(byName[res].ZoneQuantity) != 0 {
				c.Fail("C09/degrade/reset-with-number", "%s: item %s is a reset but still carries a quantity", tag, byName[res].Name)
			}
		}
		c.Op("%s -> RESET", tag)
		return out
	}
	for res := 0; res < 2; res++ {
		if byName[res].Quantity == nil {
			c.Fail("C09/output/no-quantity", "%s: item %s is neither a reset nor a number", tag, byName[res].Name)
		}
		out.node[res] = c09Amount(c, res, *byName[res].Quantity, tag)
	}
	desc := fmt.Sprintf("cpu=%s mem=%s", out.node[0].RatString(), out.node[1].RatString())
	if len(byName[0].ZoneQuantity) != 0 || len(byName[1].ZoneQuantity) != 0 {
		if in.Zones == nil {
			c.Fail("C09/output/zone-without-nrt", "%s: zone amounts published although the node has no NodeResourceTopology", tag)
		}
		out.zone = make([][2]*big.Rat, len(in.Zones))
		for res := 0; res < 2; res++ {
			if len(byName[res].ZoneQuantity) != len(in.Zones) {
				c.Fail("C09/output/zone-count", "%s: %d zones but %d zone amounts for %s", tag, len(in.Zones), len(byName[res].ZoneQuantity), byName[res].Name)
			}
			for z := range in.Zones {
				q, ok := byName[res].ZoneQuantity[in.zoneName(z)] // a zone's amount is the one published under the zone's NAME
				if !ok {
					c.Fail("C09/output/zone-count", "%s: no amount for zone %s of %s", tag, in.zoneName(z), byName[res].Name)
				}
				out.zone[z][res] = c09Amount(c, res, q, tag)
			}
		}
		for z := range out.zone {
			desc += fmt.Sprintf(" z%d=(%s,%s)", z, out.zone[z][0].RatString(), out.zone[z][1].RatString())
		}
	}
	c.Op("%s -> %s", tag, desc)
	return out
}

// c09CheckBounds applies the bound oracles to every published amount of one evaluation.
// Violations that match one of the two defects suspected at design time are reported (c.Report) under their
// own narrow signature and the case goes on, so that the rest of the oracle keeps being exercised; anything
// else ends the case.
func c09CheckBounds(c *kit.Case, in *c09Input, out *c09Out, tag string) {
	if out.reset {
		return
	}
	noMetricHP := 0
	for i := range in.Pods {
		p := &in.Pods[i]
		if p.live() && p.hp() && !p.HasMetric {
			noMetricHP++
		}
	}
	check := func(zone int, res int, v *big.Rat) {
		scope, area := "node", "bound"
		capacity := in.Cap[res]
		if zone >= 0 {
			scope, area = "zone "+in.zoneName(zone), "zone-bound"
			capacity = in.Zones[zone][res]
		}
		c.Count("amounts_checked_"+area, 1)
		what := fmt.Sprintf("%s: %s batch-%s = %s", tag, scope, c09ResName[res], v.RatString())
		if v.Sign() < 0 {
			c.Fail("C09/"+area+"/negative", "%s is negative", what)
		}
		if in.CapPct[res] >= 0 {
			capB := big.NewRat(capacity*in.CapPct[res], 100)
			if v.Cmp(capB) > 0 {
				c.Count("cap_exceeded_within_one_unit", 1)
			}
			if v.Cmp(new(big.Rat).Add(capB, c09Int(1))) > 0 {
				c.Fail("C09/"+area+"/exceeds-percentage-cap", "%s exceeds the cap of %d%% x capacity %d = %s", what, in.CapPct[res], capacity, capB.RatString())
			}
			if new(big.Rat).Sub(capB, v).Cmp(c09Int(1)) < 0 {
				c.Count("cap_binding", 1)
			}
		}
		stmt := c09Bound(in, res, zone, c09Variant{})
		limit := c09Pos(stmt)
		if stmt.Sign() <= 0 {
			c.Count("clamp_at_zero_"+c09ResName[res], 1)
		}
		if v.Cmp(limit) > 0 {
			pol := in.effPolicy(res)
			detail := fmt.Sprintf("%s exceeds capacity %d - margin(thr %d%%) %s - max(system usage %d, reservation %d)%s - HP(%s) = %s",
				what, capacity, in.Thr[res], c09MarginLow(capacity, in.Thr[res]).RatString(), in.systemUsed()[res], in.reserved()[res],
				map[bool]string{true: "/zones", false: ""}[zone >= 0], [4]string{"usage", "usage", "request", "maxUsageRequest"}[pol], stmt.RatString())
			// A violation is filed under one of the two signatures of the defects suspected at design time only
			// if the whole excess over the statement's bound disappears under that defect's reading of the
			// input (reservation instead of max(system usage, reservation) under the request policy; metric-less
			// pods uncharged under maxUsageRequest). Any excess beyond that keeps the generic signature. (The
			// published value can be *below* the defect's reading because the code is deliberately conservative
			// elsewhere - metrics without a priority, metrics of terminated pods, truncated label ratios - so the
			// attribution cannot demand equality without copying the implementation.)
			explained := func(alt *big.Rat) bool { return v.Cmp(c09Pos(alt)) <= 0 }
			switch {
			case pol == c09PolRequest && in.systemUsed()[res] > in.reserved()[res] &&
				explained(c09Bound(in, res, zone, c09Variant{reservedOnly: true})):
				c.Report("C09/"+area+"/request-policy-system-usage-above-reservation",
					"%s; it equals the bound only if the reservation is subtracted instead of the larger of system usage and reservation", detail)
				c.Count("known_request_policy_reservation_only", 1)
				return
			case zone >= 0 && in.ZoneIDs != nil && (explained(c09Bound(in, res, zone, c09Variant{byPosition: true})) ||
				explained(c09Bound(in, res, zone, c09Variant{byPosition: true, reservedOnly: true}))):
				c.Report("C09/zone-bound/numa-bound-pod-charged-by-list-position",
					"%s; zone %s is listed at position %d: the excess disappears if the pods' NUMA ids are matched against list positions instead of the zones' own ids", detail, in.zoneName(zone), zone)
				c.Count("zone_pod_charged_by_list_position", 1)
				return
			case pol == c09PolMax && noMetricHP > 0 &&
				explained(c09Bound(in, res, zone, c09Variant{noMetricZero: true})):
				sig := "C09/bound/no-metric-hp-pod-node-level"
				if zone >= 0 {
					sig = "C09/zone-bound/no-metric-hp-pod"
				}
				c.Report(sig, "%s; %d high-priority pod(s) without metrics are not charged at their request under maxUsageRequest", detail, noMetricHP)
				c.Count("known_no_metric_hp_pod_uncharged", 1)
				return
			}
			c.Fail(fmt.Sprintf("C09/%s/exceeds-%s", area, c09ResName[res]), "%s", detail)
		}
		if design := c09Pos(c09Bound(in, res, zone, c09Variant{lseAtRequest: true})); v.Cmp(design) > 0 {
			if zone >= 0 && in.ZoneIDs != nil && v.Cmp(c09Pos(c09Bound(in, res, zone, c09Variant{lseAtRequest: true, byPosition: true}))) <= 0 {
				c.Report("C09/zone-bound/numa-bound-pod-charged-by-list-position",
					"%s exceeds %s; zone %s is listed at position %d: the excess disappears if the pods' NUMA ids are matched against list positions instead of the zones' own ids", what, design.RatString(), in.zoneName(zone), zone)
				c.Count("zone_pod_charged_by_list_position", 1)
				return
			}
			c.Fail("C09/"+area+"/lse-cpu-charged-below-request", "%s exceeds %s: an LSE pod's exclusive CPUs are charged below its request", what, design.RatString())
		}
		if v.Sign() > 0 && new(big.Rat).Sub(limit, v).Cmp(c09Int(2)) < 0 {
			c.Count("bound_tight_"+c09ResName[res], 1)
		}
	}
	for res := 0; res < 2; res++ {
		check(-1, res, out.node[res])
	}
	for z := range out.zone {
		for res := 0; res < 2; res++ {
			check(z, res, out.zone[z][res])
		}
	}
}

// ---------------------------------------------------------------------------------------------
// generator

// c09Amt draws an amount between lo and hi permille of scale, with a little jitter off round values.
func c09Amt(r *kit.Rand, scale int64, loPm, hiPm int) int64 {
	v := scale * int64(r.Range(loPm, hiPm)) / 1000
	if r.Pct(30) {
		v += int64(r.Range(-3, 3))
	}
	if v < 0 {
		v = 0
	}
	return v
}

var c09QoSAll = []extension.QoSClass{extension.QoSLSE, extension.QoSLSR, extension.QoSLS, extension.QoSBE, extension.QoSSystem, extension.QoSNone}

func c09GenPod(r *kit.Rand, name string, cap c09Res, scalePm int, zones int) c09Pod {
	p := c09Pod{NS: c09NS, Name: name, PrioVal: -1}
	p.Class = []extension.PriorityClass{extension.PriorityProd, extension.PriorityMid, extension.PriorityBatch, extension.PriorityFree}[r.Weighted(50, 15, 25, 10)]
	if r.Pct(85) { // combinations the admission webhook accepts
		switch p.Class {
		case extension.PriorityProd:
			p.QoSLabel = []extension.QoSClass{extension.QoSLSE, extension.QoSLSR, extension.QoSLS, extension.QoSSystem, extension.QoSNone}[r.Weighted(20, 15, 45, 3, 17)]
		case extension.PriorityMid:
			p.QoSLabel = []extension.QoSClass{extension.QoSLS, extension.QoSBE, extension.QoSNone}[r.Weighted(60, 20, 20)]
		default:
			p.QoSLabel = []extension.QoSClass{extension.QoSBE, extension.QoSNone}[r.Weighted(80, 20)]
		}
	} else {
		p.QoSLabel = kit.Pick(r, c09QoSAll)
	}
	p.Phase = []corev1.PodPhase{corev1.PodRunning, corev1.PodPending, corev1.PodSucceeded, corev1.PodFailed, corev1.PodUnknown}[r.Weighted(62, 20, 7, 7, 4)]
	// requests
	var total c09Res
	for res := 0; res < 2; res++ {
		switch r.Weighted(10, 8, 72, 10) {
		case 0:
		case 1:
			total[res] = int64(r.Range(1, 10))
		case 2:
			total[res] = c09Amt(r, cap[res], 0, scalePm)
		default:
			total[res] = c09Amt(r, cap[res], scalePm, 3*scalePm+50)
		}
	}
	if p.lse() || p.QoSLabel == extension.QoSLSR { // whole CPUs
		total[0] = (total[0] + 999) / 1000 * 1000
	}
	nc := r.Range(1, 3)
	p.Containers = make([]c09Res, nc)
	for res := 0; res < 2; res++ {
		left := total[res]
		for i := 0; i < nc-1; i++ {
			part := r.Int63n(left + 1)
			p.Containers[i][res] = part
			left -= part
		}
		p.Containers[nc-1][res] = left
	}
	if r.Pct(15) {
		for res := 0; res < 2; res++ {
			p.Init[res] = c09Amt(r, total[res], 300, 2000)
		}
	}
	if r.Pct(8) { // a sidecar (restartable init container), before or after the plain init container
		for res := 0; res < 2; res++ {
			p.Sidecar[res] = c09Amt(r, total[res], 50, 600) + int64(r.Intn(2))
		}
		p.SidecarFirst = r.Bool()
	}
	if r.Pct(10) {
		p.Overhead = c09Res{int64(r.Range(0, 250)), int64(r.Range(0, 1<<27))}
	}
	p.Terminating = r.Pct(5)
	// how the priority class is expressed
	feasible := []int{0, 1}
	defQoS := map[extension.QoSClass]extension.PriorityClass{extension.QoSLSE: extension.PriorityProd, extension.QoSLSR: extension.PriorityProd,
		extension.QoSLS: extension.PriorityProd, extension.QoSSystem: extension.PriorityProd, extension.QoSBE: extension.PriorityBatch}
	if p.QoSLabel != "" && defQoS[p.QoSLabel] == p.Class {
		feasible = append(feasible, 2, 2)
	}
	if p.QoSLabel == "" {
		sumAll := total[0] + total[1] + p.Init[0] + p.Init[1] + p.Sidecar[0] + p.Sidecar[1]
		if p.Class == extension.PriorityProd && sumAll > 0 { // Burstable -> LS -> prod
			feasible = append(feasible, 3, 3)
		}
		if p.Class == extension.PriorityBatch && sumAll == 0 { // BestEffort -> BE -> batch
			feasible = append(feasible, 3, 3)
		}
	}
	p.Repr = kit.Pick(r, feasible)
	if p.Repr == 3 {
		p.StatusQoS = r.Bool()
	} else if r.Pct(4) { // pod-level requests: at least the container aggregate, replace it
		for res := 0; res < 2; res++ {
			if r.Pct(70) {
				p.PodLevelHas[res] = true
				p.PodLevel[res] = total[res] + p.Sidecar[res] + c09Amt(r, total[res]+1000, 0, 500)
			}
		}
	}
	switch p.Repr {
	case 1:
		band := map[extension.PriorityClass][2]int32{extension.PriorityProd: {9000, 9999}, extension.PriorityMid: {7000, 7999},
			extension.PriorityBatch: {5000, 5999}, extension.PriorityFree: {3000, 3999}}[p.Class]
		lo, hi := band[0], band[1]
		p.PrioVal = int64(kit.Pick(r, []int32{lo, hi, (lo + hi) / 2, lo + int32(r.Intn(1000))}))
	case 2, 3:
		// a priority value outside every koordinator band does not define a class
		p.PrioVal = kit.Pick(r, []int64{-1, -1, 0, 2000000000, 6500, 8500, 10000, 2999})
	case 0:
		if r.Pct(30) { // label wins over a (possibly contradicting) number
			p.PrioVal = kit.Pick(r, []int64{0, 9500, 5500, 3500, 7500})
		}
	}
	// metric
	switch p.Phase {
	case corev1.PodRunning:
		p.HasMetric = r.Pct(80)
	default:
		p.HasMetric = r.Pct(30)
	}
	req := p.request()
	for res := 0; res < 2; res++ {
		switch r.Weighted(10, 70, 10, 10) {
		case 0:
		case 1:
			p.Usage[res] = c09Amt(r, req[res], 0, 1400)
		case 2:
			p.Usage[res] = req[res] + int64(r.Range(-1, 1))
		default:
			p.Usage[res] = c09Amt(r, cap[res], 0, 2*scalePm+20)
		}
		if p.Usage[res] < 0 {
			p.Usage[res] = 0
		}
	}
	if p.lse() && p.Usage[0] > total[0] { // causal rule: exclusive cpuset, usage <= request
		p.Usage[0] = total[0] - r.Int63n(total[0]/4+1)
	}
	if r.Pct(5) { // a usage without one of the keys
		res := r.Intn(2)
		p.UsageOmit[res], p.Usage[res] = true, 0
	}
	if zones > 1 && r.Pct(35) {
		for z := 0; z < zones; z++ {
			if r.Pct(50) {
				p.NUMA = append(p.NUMA, z)
			}
		}
		if len(p.NUMA) == 0 {
			p.NUMA = []int{r.Intn(zones)}
		}
	} else if zones == 1 && r.Pct(20) {
		p.NUMA = []int{0}
	}
	p.NUMABroken = zones > 0 && r.Pct(2)
	return p
}

// c09HostAppQoS draws the qos field of a host application entry: not reported, the usual companion of the
// priority, or any class (the priority is what the statement goes by; mid + BE is a regular koordinator pairing).
func c09HostAppQoS(r *kit.Rand, prio extension.PriorityClass) extension.QoSClass {
	switch r.Weighted(40, 35, 25) {
	case 0:
		return extension.QoSNone
	case 1:
		switch prio {
		case extension.PriorityProd:
			return extension.QoSLS
		case extension.PriorityMid:
			return kit.Pick(r, []extension.QoSClass{extension.QoSLS, extension.QoSBE})
		case extension.PriorityBatch, extension.PriorityFree:
			return extension.QoSBE
		}
		return extension.QoSNone
	}
	return kit.Pick(r, []extension.QoSClass{extension.QoSLS, extension.QoSBE, extension.QoSBE, extension.QoSLSR, extension.QoSSystem})
}

// bindByID turns the list positions drawn by c09GenPod into the NUMA ids of those zones.
func (in *c09Input) bindByID(p *c09Pod) {
	for j, pos := range p.NUMA {
		p.NUMA[j] = in.zoneID(pos)
	}
}

func c09GenInput(r *kit.Rand) *c09Input {
	in := &c09Input{}
	cores := kit.Pick(r, []int64{1, 2, 4, 8, 16, 32, 64, 96, 128, 256, 512})
	if r.Pct(40) {
		cores = int64(r.Range(1, 512))
	}
	in.Cap[0] = cores * 1000
	if r.Pct(10) {
		in.Cap[0] -= int64(r.Range(1, 999))
	}
	switch r.Intn(4) {
	case 0:
		in.Cap[1] = 1 << uint(r.Range(28, 42))
	case 1:
		in.Cap[1] = int64(r.Range(1, 4000)) * 1000000000
	case 2:
		in.Cap[1] = (1 << uint(r.Range(28, 42))) - int64(r.Range(1, 1<<20))
	default:
		in.Cap[1] = 1<<28 + r.Int63n(1<<42-1<<28)
	}
	// NUMA zones
	switch r.Weighted(35, 10, 35, 20) {
	case 1:
		in.Zones = []c09Res{in.Cap}
	case 2, 3:
		z := 2
		if r.Pct(36) {
			z = kit.Pick(r, []int{4, 4, 4, 3, 8})
		}
		in.Zones = make([]c09Res, z)
		even := r.Pct(70)
		for res := 0; res < 2; res++ {
			left := in.Cap[res]
			for i := 0; i < z; i++ {
				part := in.Cap[res] / int64(z)
				if !even {
					part = c09Amt(r, in.Cap[res], 500/z, 1500/z)
				}
				if i == z-1 || part > left {
					part = left
				}
				in.Zones[i][res] = part
				left -= part
			}
		}
	}
	// zone identities: koordlet names zones node-<NUMA id> and sorts the list by NAME (so from 11 NUMA nodes on the
	// list is node-0,node-1,node-10,node-11,node-2,...); other NRT reporters list zones in their own order and NUMA
	// ids need not start at 0 (memory-less or offline nodes are not reported).
	if z := len(in.Zones); z >= 2 {
		switch r.Weighted(65, 12, 10, 10, 3) {
		case 1: // descending
			in.ZoneIDs = make([]int, z)
			for i := range in.ZoneIDs {
				in.ZoneIDs[i] = z - 1 - i
			}
		case 2: // ids start at 1 or have a hole
			in.ZoneIDs = make([]int, z)
			hole := r.Intn(z)
			for i := range in.ZoneIDs {
				in.ZoneIDs[i] = i
				if i >= hole {
					in.ZoneIDs[i] = i + 1
				}
			}
		case 3: // any order
			in.ZoneIDs = r.Perm(z)
		case 4: // 11-16 NUMA nodes in koordlet's name order
			z = kit.Pick(r, []int{11, 12, 16})
			names := make([]string, z)
			for i := range names {
				names[i] = fmt.Sprintf("node-%d", i)
			}
			sort.Strings(names)
			in.ZoneIDs = make([]int, z)
			in.Zones = make([]c09Res, z)
			for i, n := range names {
				fmt.Sscanf(n, "node-%d", &in.ZoneIDs[i])
				in.Zones[i] = c09Res{in.Cap[0] / int64(z), in.Cap[1] / int64(z)}
				if r.Pct(30) {
					in.Zones[i] = c09Res{c09Amt(r, in.Cap[0], 500/z, 1500/z), c09Amt(r, in.Cap[1], 500/z, 1500/z)}
				}
			}
		}
	}
	// pods: a load level decides how big requests are relative to the node
	n := []int{0, r.Range(1, 4), r.Range(5, 12), r.Range(13, 40)}[r.Weighted(5, 43, 47, 5)]
	level := []int{400, 900, 1600}[r.Weighted(40, 35, 25)]
	scalePm := level
	if n > 0 {
		scalePm = level/n + 1
	}
	for i := 0; i < n; i++ {
		in.Pods = append(in.Pods, c09GenPod(r, fmt.Sprintf("pod-%d", i), in.Cap, scalePm, len(in.Zones)))
		in.bindByID(&in.Pods[len(in.Pods)-1])
	}
	// namespaces: the metric of a pod is found by namespace/name; names repeat across namespaces
	nss := []string{c09NS, "c09-b", "kube-system"}
	used := map[string]bool{}
	for i := range in.Pods {
		p := &in.Pods[i]
		p.NS = nss[r.Weighted(70, 20, 10)]
		if i > 0 && r.Pct(12) {
			other := in.Pods[r.Intn(i)]
			for _, ns := range nss {
				if !used[ns+"/"+other.Name] {
					p.NS, p.Name = ns, other.Name
					break
				}
			}
		}
		used[p.NS+"/"+p.Name] = true
	}
	if r.Pct(35) {
		for i, k := 0, []int{r.Range(1, 3), r.Range(4, 6)}[r.Weighted(85, 15)]; i < k; i++ {
			d := c09Metric{NS: c09NS, Name: fmt.Sprintf("gone-%d", i)}
			if len(in.Pods) > 0 && r.Pct(30) { // same name as a listed pod, other namespace
				other := in.Pods[r.Intn(len(in.Pods))]
				for _, ns := range nss {
					if !used[ns+"/"+other.Name] {
						d.NS, d.Name = ns, other.Name
						break
					}
				}
			}
			used[d.NS+"/"+d.Name] = true
			d.Prio = []extension.PriorityClass{extension.PriorityProd, extension.PriorityMid, extension.PriorityBatch, extension.PriorityFree, extension.PriorityNone}[r.Weighted(45, 15, 25, 10, 5)]
			d.Usage = c09Res{c09Amt(r, in.Cap[0], 0, 150), c09Amt(r, in.Cap[1], 0, 150)}
			in.Dangling = append(in.Dangling, d)
		}
	}
	if r.Pct(25) {
		for i, k := 0, []int{r.Range(1, 2), r.Range(3, 4)}[r.Weighted(85, 15)]; i < k; i++ {
			h := c09Metric{Name: fmt.Sprintf("hostapp-%d", i)}
			h.Prio = []extension.PriorityClass{extension.PriorityProd, extension.PriorityMid, extension.PriorityBatch, extension.PriorityFree, extension.PriorityNone}[r.Weighted(48, 15, 29, 5, 3)]
			h.Usage = c09Res{c09Amt(r, in.Cap[0], 0, 150), c09Amt(r, in.Cap[1], 0, 150)}
			h.QoS = c09HostAppQoS(r, h.Prio)
			in.HostApps = append(in.HostApps, h)
		}
	}
	in.Sys = c09Res{c09Amt(r, in.Cap[0], 0, 250), c09Amt(r, in.Cap[1], 0, 250)}
	in.SysEmpty = r.Pct(5)
	if !in.SysEmpty && r.Pct(4) {
		res := r.Intn(2)
		in.SysOmit[res], in.Sys[res] = true, 0
	}
	if r.Pct(50) {
		in.KubeletReserved = c09Res{c09Amt(r, in.Cap[0], 0, 200), c09Amt(r, in.Cap[1], 0, 200)}
		if r.Pct(20) {
			in.KubeletReserved[r.Intn(2)] = 0
		}
	}
	switch r.Weighted(50, 35, 15) {
	case 1:
		in.AnnoKind = 1
		in.AnnoRes = c09Res{c09Amt(r, in.Cap[0], 0, 250), c09Amt(r, in.Cap[1], 0, 250)}
		in.AnnoHas = [2]bool{r.Pct(80), r.Pct(80)}
	case 2:
		in.AnnoKind = 2
		nres := int64(r.Range(1, int(c09Max(1, (in.Cap[0]/1000)/4))))
		in.AnnoRes = c09Res{nres * 1000, c09Amt(r, in.Cap[1], 0, 250)}
		in.AnnoHas = [2]bool{true, r.Pct(50)}
		in.AnnoHoles = r.Pct(40)
	}
	if in.AnnoKind != 0 {
		in.AnnoPolicy = []string{"", string(extension.NodeReservationApplyPolicyDefault), string(extension.NodeReservationApplyPolicyReservedCPUsOnly)}[r.Weighted(60, 25, 15)]
		in.AnnoBroken = r.Pct(2)
	}
	if r.Pct(5) { // tie: system usage exactly at the reservation
		res := r.Intn(2)
		if v := in.reserved()[res] - (in.systemUsed()[res] - in.Sys[res]); !in.SysEmpty && !in.SysOmit[res] && v >= 0 {
			in.Sys[res] = v
		}
	}
	// strategy
	for res := 0; res < 2; res++ {
		switch r.Weighted(40, 40, 15, 5) {
		case 0:
			in.Thr[res] = kit.Pick(r, []int64{50, 60, 65, 70, 80, 90, 99, 100})
		case 1:
			in.Thr[res] = int64(r.Range(30, 100))
		case 2:
			in.Thr[res] = kit.Pick(r, []int64{0, 1, int64(r.Range(0, 30)), int64(r.Range(0, 30))})
		default:
			in.Thr[res] = kit.Pick(r, []int64{101, 120, 150, 200})
		}
		in.ThrViaLabel[res] = r.Pct(15)
		in.CapPct[res] = -1
		if r.Pct(40) {
			in.CapPct[res] = kit.Pick(r, []int64{0, 1, 10, 25, 50, 80, 100, 150, int64(r.Range(0, 100)), int64(r.Range(0, 100))})
		}
	}
	in.Policy[0] = []int{c09PolNil, c09PolUsage, c09PolMax}[r.Weighted(20, 40, 40)]
	in.Policy[1] = []int{c09PolNil, c09PolUsage, c09PolRequest, c09PolMax}[r.Weighted(10, 30, 30, 30)]
	in.DegradeMin = kit.Pick(r, []int64{1, 5, 15, 15, 60, 1440, int64(r.Range(1, 10000)), 525600, 100000000})
	in.AgeNanos = r.Int63n(in.DegradeMin*60) * int64(time.Second) // fresh
	in.Layer = r.Weighted(76, 12, 12)
	return in
}

// c09Steer moves the system usage so that the statement's bound of one resource lands within one unit of
// zero (the clamp boundary), when the system usage is what counts.
func c09Steer(r *kit.Rand, in *c09Input) bool {
	res := r.Intn(2)
	b := c09Bound(in, res, -1, c09Variant{lseAtRequest: true})
	fl := new(big.Int).Quo(b.Num(), b.Denom()).Int64()
	shift := fl + int64(r.Range(-1, 1))
	if in.SysEmpty || in.SysOmit[res] || in.systemUsed()[res] < in.reserved()[res] || in.Sys[res]+shift < 0 {
		return false
	}
	if in.systemUsed()[res]+shift < in.reserved()[res] {
		return false
	}
	in.Sys[res] += shift
	return true
}

// ---------------------------------------------------------------------------------------------
// metamorphic probes: raise ONE consumption input (or add a batch/free pod)

func c09Delta(r *kit.Rand, scale int64) int64 {
	switch r.Weighted(25, 25, 50) {
	case 0:
		return 1
	case 1:
		return int64(r.Range(2, 1000))
	}
	return c09Max(1, c09Amt(r, scale, 1, 300))
}

// c09Probe returns a modified copy of the input, the kind of change and a description; ok=false when the
// chosen kind does not apply to this input.
func c09Probe(r *kit.Rand, base *c09Input, kind int) (in *c09Input, name, desc string, ok bool) {
	in = base.clone()
	res := r.Intn(2)
	pickPod := func(pred func(p *c09Pod) bool) *c09Pod {
		var idx []int
		for i := range in.Pods {
			if pred(&in.Pods[i]) {
				idx = append(idx, i)
			}
		}
		if len(idx) == 0 {
			return nil
		}
		return &in.Pods[kit.Pick(r, idx)]
	}
	switch kind {
	case 0:
		name = "pod-usage"
		p := pickPod(func(p *c09Pod) bool { return p.live() && p.hp() && p.HasMetric })
		if p == nil {
			return
		}
		d := c09Delta(r, in.Cap[res])
		if res == c09CPU && p.lse() {
			var own int64
			for _, ct := range p.Containers {
				own += ct[0]
			}
			if room := own - p.Usage[0]; room <= 0 {
				res, d = c09Mem, c09Delta(r, in.Cap[c09Mem])
			} else if d > room {
				d = room
			}
		}
		p.Usage[res] += d
		p.UsageOmit[res] = false
		desc = fmt.Sprintf("usage of %s/%s %s += %d", p.NS, p.Name, c09ResName[res], d)
	case 1:
		name = "pod-request"
		p := pickPod(func(p *c09Pod) bool { return p.live() && p.hp() })
		if p == nil {
			return
		}
		d := c09Delta(r, in.Cap[res])
		if res == c09CPU && (p.lse() || p.QoSLabel == extension.QoSLSR) {
			d = (d + 999) / 1000 * 1000
		}
		ci := r.Intn(len(p.Containers))
		p.Containers[ci][res] += d
		desc = fmt.Sprintf("request of %s container %d %s += %d", p.Name, ci, c09ResName[res], d)
	case 2:
		name = "system-usage"
		d := c09Delta(r, in.Cap[res])
		if in.SysEmpty {
			in.SysEmpty = false
			in.Sys = c09Res{}
		}
		in.Sys[res] += d
		in.SysOmit[res] = false
		desc = fmt.Sprintf("system usage %s += %d", c09ResName[res], d)
	case 3:
		name = "hostapp-usage"
		d := c09Delta(r, in.Cap[res])
		var idx []int
		for i, h := range in.HostApps {
			if h.Prio == extension.PriorityProd || h.Prio == extension.PriorityMid {
				idx = append(idx, i)
			}
		}
		if len(idx) == 0 || r.Pct(25) { // a high-priority host application appears
			h := c09Metric{Name: fmt.Sprintf("hostapp-new-%d", len(in.HostApps)), Prio: kit.Pick(r, []extension.PriorityClass{extension.PriorityProd, extension.PriorityMid})}
			h.QoS = c09HostAppQoS(r, h.Prio)
			h.Usage[res] = d
			in.HostApps = append(in.HostApps, h)
			desc = fmt.Sprintf("new %s host application using %s %d", h.Prio, c09ResName[res], d)
		} else {
			i := kit.Pick(r, idx)
			in.HostApps[i].Usage[res] += d
			desc = fmt.Sprintf("usage of host application %s %s += %d", in.HostApps[i].Name, c09ResName[res], d)
		}
	case 4:
		name = "reservation"
		d := c09Delta(r, in.Cap[res])
		if r.Bool() { // kubelet reservation (allocatable shrinks)
			if in.KubeletReserved[res]+d > in.Cap[res] {
				d = in.Cap[res] - in.KubeletReserved[res]
			}
			if d <= 0 {
				return
			}
			in.KubeletReserved[res] += d
			desc = fmt.Sprintf("kubelet reservation %s += %d", c09ResName[res], d)
		} else {
			switch {
			case in.AnnoKind == 0:
				in.AnnoKind = 1
				in.AnnoRes, in.AnnoHas = c09Res{}, [2]bool{}
				in.AnnoRes[res], in.AnnoHas[res] = d, true
			case in.AnnoKind == 2 && res == c09CPU:
				d = (d + 999) / 1000 * 1000
				if in.AnnoRes[0]+d > (in.Cap[0]+999)/1000*1000 {
					return
				}
				in.AnnoRes[0] += d
			case !in.AnnoHas[res]:
				in.AnnoRes[res], in.AnnoHas[res] = d, true
			default:
				in.AnnoRes[res] += d
			}
			desc = fmt.Sprintf("annotation reservation %s += %d", c09ResName[res], d)
		}
	case 5:
		name = "margin"
		if in.Thr[res] == 0 {
			res = 1 - res
		}
		if in.Thr[res] == 0 {
			return
		}
		d := int64(r.Range(1, int(c09Max(1, in.Thr[res]/2))))
		if r.Pct(30) {
			d = 1
		}
		in.Thr[res] -= d
		desc = fmt.Sprintf("%s reclaim threshold -= %d points (margin += %d%% of capacity)", c09ResName[res], d, d)
	case 6:
		name = "dangling-usage"
		var idx []int
		for i, m := range in.Dangling {
			if m.Prio == extension.PriorityProd || m.Prio == extension.PriorityMid {
				idx = append(idx, i)
			}
		}
		if len(idx) == 0 {
			return
		}
		i := kit.Pick(r, idx)
		d := c09Delta(r, in.Cap[res])
		in.Dangling[i].Usage[res] += d
		desc = fmt.Sprintf("usage of vanished pod %s %s += %d", in.Dangling[i].Name, c09ResName[res], d)
	case 7:
		name = "add-batch-pod"
		p := c09GenPod(r, fmt.Sprintf("lp-%d", len(in.Pods)), in.Cap, 300, len(in.Zones))
		p.Class = kit.Pick(r, []extension.PriorityClass{extension.PriorityBatch, extension.PriorityFree})
		p.QoSLabel = kit.Pick(r, []extension.QoSClass{extension.QoSBE, extension.QoSBE, extension.QoSNone})
		p.Repr, p.PrioVal = r.Intn(2), -1
		if p.Repr == 1 {
			p.PrioVal = map[extension.PriorityClass]int64{extension.PriorityBatch: 5000 + int64(r.Intn(1000)), extension.PriorityFree: 3000 + int64(r.Intn(1000))}[p.Class]
		} else if p.Class == extension.PriorityBatch && r.Pct(30) && p.QoSLabel == extension.QoSBE {
			p.Repr, p.PrioVal = 2, -1
		}
		in.bindByID(&p)
		in.Pods = append(in.Pods, p)
		desc = fmt.Sprintf("new pod %+v", p)
	}
	return in, name, desc, true
}

func c09Compare(c *kit.Case, name, desc string, base, probe *c09Out) {
	if base.reset != probe.reset {
		c.Fail("C09/monotone/reset-flips", "%s: reset=%v before, %v after", desc, base.reset, probe.reset)
	}
	if base.reset {
		return
	}
	cmp := func(what string, res int, b, p *big.Rat) {
		d := p.Cmp(b)
		if name == "add-batch-pod" {
			if d != 0 {
				c.Fail("C09/monotone/batch-pod-changes-amount", "adding a batch/free pod changed %s batch-%s from %s to %s (%s)", what, c09ResName[res], b.RatString(), p.RatString(), desc)
			}
			c.Count("batch_pod_added_unchanged", 1)
			return
		}
		if d > 0 {
			c.Fail("C09/monotone/"+name+"-raises-amount", "%s raised %s batch-%s from %s to %s", desc, what, c09ResName[res], b.RatString(), p.RatString())
		}
		if d < 0 {
			c.Count("monotone_strictly_lower", 1)
		} else {
			c.Count("monotone_equal", 1)
		}
	}
	for res := 0; res < 2; res++ {
		cmp("node", res, base.node[res], probe.node[res])
	}
	if (base.zone == nil) != (probe.zone == nil) || len(base.zone) != len(probe.zone) {
		c.Fail("C09/monotone/zones-flip", "%s: zone amounts published before=%v after=%v", desc, base.zone != nil, probe.zone != nil)
	}
	for z := range base.zone {
		for res := 0; res < 2; res++ {
			cmp(fmt.Sprintf("zone %d", z), res, base.zone[z][res], probe.zone[z][res])
		}
	}
}

// ---------------------------------------------------------------------------------------------
// units

func c09Setup(t *testing.T) {
	oldClock, oldClient, oldCtx := Clock, client, nrtSyncContext
	Clock = fakeclock.NewFakeClock(c09Now)
	nrtSyncContext = framework.NewSyncContext()
	t.Cleanup(func() { Clock, client, nrtSyncContext = oldClock, oldClient, oldCtx })
}

func TestVerifC09Calculate(t *testing.T) {
	c09Setup(t)
	kit.Run(t, kit.Config{Property: "C09", Unit: "calculate", Quick: 10000, Thorough: 600000,
		Rule: "random node (1-512 CPU, up to 4 TiB, kubelet/annotation reservations), 0-12 pods over priority class x QoS x phase x with/without metric x NUMA binding (class expressed by label, priority band, QoS default or kube-QoS default), dangling metrics, host applications, system usage, 0/1/2/4 NUMA zones, cpu policy usage/maxUsageRequest x memory policy usage/request/maxUsageRequest x reclaim thresholds 0-200 (field or node label) x percentage caps present/absent; fresh metric; 15% steered so that a bound lands within one unit of zero; each input is followed by 3 monotonicity probes (one consumption input raised, or a batch/free pod added), each probe result is bound-checked too; distinct = (cpu policy, mem policy, caps set, no-metric HP pods?, LSE?, dangling?, host apps?, zones, system usage above reservation per resource, clamp hit per resource); non-trivial = at least one high-priority pod and a node amount strictly between zero and capacity"},
		func(c *kit.Case) {
			r := c.R
			in := c09GenInput(r)
			steered := false
			if r.Pct(15) {
				steered = c09Steer(r, in)
			}
			c.Op("input steered=%v %+v", steered, *in)
			base := c09Run(c, in, "base")
			if base.reset {
				c.Fail("C09/output/reset-on-fresh-metric", "fresh node metric (age %s, degrade after %d min) but the items are resets", time.Duration(in.AgeNanos), in.DegradeMin)
			}
			if in.Zones != nil && base.zone == nil {
				c.Count("zones_not_published", 1)
			}
			c09CheckBounds(c, in, base, "base")
			// evidence
			hp, noMetric, lse := 0, 0, 0
			for i := range in.Pods {
				p := &in.Pods[i]
				if p.live() && p.hp() {
					hp++
					if !p.HasMetric {
						noMetric++
					} else if p.lse() {
						lse++
					}
				}
			}
			c.Count("hp_pods", hp)
			// evidence that the widened dimensions are reached, and a self-check of the generator's model of a pod's
			// request against the Kubernetes helper that defines it (a mismatch is a harness error, not a verdict)
			names := map[string]int{}
			for i := range in.Pods {
				p := &in.Pods[i]
				names[p.Name]++
				got := koordutil.GetPodRequest(&base.objs.pods.Items[i], corev1.ResourceCPU, corev1.ResourceMemory)
				if want := p.request(); got.Cpu().MilliValue() != want[0] || got.Memory().Value() != want[1] {
					c.Harness("model of pod request is wrong for %+v: model %v, kubernetes helper cpu=%d mem=%d", *p, want, got.Cpu().MilliValue(), got.Memory().Value())
				}
				if p.Sidecar != (c09Res{}) {
					c.Count("dim_pods_with_sidecar", 1)
				}
				if p.PodLevelHas[0] || p.PodLevelHas[1] {
					c.Count("dim_pods_with_pod_level_request", 1)
				}
				if p.Terminating {
					c.Count("dim_pods_terminating", 1)
				}
				if p.UsageOmit[0] || p.UsageOmit[1] {
					c.Count("dim_usage_key_omitted", 1)
				}
				if p.NUMABroken {
					c.Count("dim_numa_annotation_broken", 1)
				}
			}
			for _, n := range names {
				if n > 1 {
					c.Count("dim_pod_name_shared_across_namespaces", 1)
				}
			}
			for _, d := range in.Dangling {
				if names[d.Name] > 0 {
					c.Count("dim_dangling_name_of_listed_pod", 1)
				}
			}
			if len(in.Pods) > 12 {
				c.Count("dim_more_than_12_pods", 1)
			}
			if in.ZoneIDs != nil {
				c.Count("dim_zones_not_listed_as_0_to_n", 1)
				if len(in.Zones) >= 11 {
					c.Count("dim_zones_11_or_more_in_name_order", 1)
				}
				for i := range in.Pods {
					if p := &in.Pods[i]; p.live() && p.hp() && len(p.NUMA) > 0 && !p.NUMABroken {
						c.Count("dim_bound_hp_pod_with_unordered_zones", 1)
					}
				}
			}
			if len(in.Zones) == 3 || len(in.Zones) == 8 {
				c.Count("dim_zones_3_or_8", 1)
			}
			if in.AnnoKind != 0 && in.AnnoPolicy == string(extension.NodeReservationApplyPolicyReservedCPUsOnly) {
				c.Count("dim_reservation_reservedcpusonly", 1)
			}
			if in.AnnoBroken {
				c.Count("dim_reservation_annotation_broken", 1)
			}
			if in.AnnoKind == 2 && in.AnnoHoles {
				c.Count("dim_reservedcpus_with_holes", 1)
			}
			c.Count(fmt.Sprintf("dim_strategy_layer_%d", in.Layer), 1)
			for _, h := range in.HostApps {
				if (h.Prio == extension.PriorityProd || h.Prio == extension.PriorityMid) && h.QoS == extension.QoSBE {
					c.Count("dim_hostapp_hp_priority_with_be_qos", 1)
				}
				if h.QoS != extension.QoSNone {
					c.Count("dim_hostapp_with_qos", 1)
				}
			}
			if in.DegradeMin > 100000 {
				c.Count("dim_degrade_time_years", 1)
			}
			if in.SysOmit[0] || in.SysOmit[1] {
				c.Count("dim_system_usage_key_omitted", 1)
			}
			for res := 0; res < 2; res++ {
				if in.systemUsed()[res] == in.reserved()[res] && in.reserved()[res] > 0 {
					c.Count("dim_system_usage_equals_reservation", 1)
				}
			}
			c.Count("hp_pods_without_metric", noMetric)
			c.Count("hp_lse_pods_with_metric", lse)
			if steered {
				c.Count("steered_to_clamp_boundary", 1)
			}
			sysAbove := [2]bool{in.systemUsed()[0] > in.reserved()[0], in.systemUsed()[1] > in.reserved()[1]}
			clamp := [2]bool{base.node[0].Sign() == 0, base.node[1].Sign() == 0}
			c.Seen(in.effPolicy(0), in.effPolicy(1), in.CapPct[0] >= 0, in.CapPct[1] >= 0, noMetric > 0, lse > 0, len(in.Dangling) > 0,
				len(in.HostApps) > 0, len(in.Zones), sysAbove, clamp, in.Thr[0] > 100 || in.Thr[1] > 100)
			for res := 0; res < 2; res++ {
				if hp > 0 && base.node[res].Sign() > 0 && base.node[res].Cmp(c09Int(in.Cap[res])) < 0 {
					c.NonTrivial()
				}
			}
			if c.K < 2 {
				c.Sample(map[string]any{"capacity": in.Cap, "pods": len(in.Pods), "hp_pods": hp, "policy": in.Policy, "thresholds": in.Thr, "caps": in.CapPct,
					"zones": len(in.Zones), "published": []string{base.node[0].RatString(), base.node[1].RatString()}})
			}
			// probes
			done := 0
			for attempt := 0; attempt < 12 && done < 3; attempt++ {
				kind := r.Weighted(16, 16, 14, 8, 14, 12, 6, 14)
				pin, name, desc, ok := c09Probe(r, in, kind)
				if !ok {
					continue
				}
				done++
				tag := fmt.Sprintf("probe %d %s", done, name)
				c.Op("%s: %s", tag, desc)
				pout := c09Run(c, pin, tag)
				c.Count("probe_"+name, 1)
				c09Compare(c, name, desc, base, pout)
				c09CheckBounds(c, pin, pout, tag)
			}
			c.Evals(done)
		})
}

func TestVerifC09Degrade(t *testing.T) {
	c09Setup(t)
	kit.Run(t, kit.Config{Property: "C09", Unit: "degrade", Quick: 3000, Thorough: 200000,
		Rule: "same input generator; the node metric's age is placed around the degrade time (d-1s, d, d+1ns, d+1s, 2d, years, 0, from the future) or the status has no update time / the NodeMetric object is empty; stale or missing => both items must be resets without quantities; fresh results are bound-checked; distinct = (degrade minutes, age class, metric kind, outcome); non-trivial = stale or missing metric"},
		func(c *kit.Case) {
			r := c.R
			in := c09GenInput(r)
			d := in.DegradeMin * int64(time.Minute)
			cls := r.Intn(10)
			switch cls {
			case 0:
				in.AgeNanos = d - int64(time.Second)
			case 1:
				in.AgeNanos = d
			case 2:
				in.AgeNanos = d + 1
			case 3:
				in.AgeNanos = d + int64(time.Second)
			case 4:
				in.AgeNanos = d + c09MinI64(d, 10*365*24*int64(time.Hour))
			case 5:
				in.AgeNanos = int64(r.Range(1, 20)) * 365 * 24 * int64(time.Hour)
			case 6:
				in.AgeNanos = 0
			case 7:
				in.AgeNanos = -int64(r.Range(1, 3600)) * int64(time.Second) // clock skew: stamped in the future
			case 8:
				in.MetricKind = 1
			default:
				in.MetricKind = 2
			}
			c.Op("input ageClass=%d %+v", cls, *in)
			out := c09Run(c, in, "eval")
			stale, boundary := in.stale()
			c.Seen(c09DegradeBucket(in.DegradeMin), cls, in.MetricKind, out.reset)
			switch {
			case stale:
				c.NonTrivial()
				if !out.reset {
					c.Fail("C09/degrade/stale-metric-not-reset", "node metric is stale or missing (kind %d, age %s, degrade after %d min) but numbers are published: cpu=%s mem=%s",
						in.MetricKind, time.Duration(in.AgeNanos), in.DegradeMin, out.node[0].RatString(), out.node[1].RatString())
				}
				c.Count("stale_reset", 1)
			case boundary:
				c.Count("age_exactly_at_degrade_time", 1)
				if out.reset {
					c.Count("boundary_reset", 1)
				}
			default:
				if out.reset {
					c.Count("converse_misses_fresh_but_reset", 1)
				} else {
					c.Count("fresh_numbers", 1)
				}
			}
			c09CheckBounds(c, in, out, "eval")
		})
}

// ---------------------------------------------------------------------------------------------
// hand-written minimal inputs (exhaustive over the list): the smallest input for each clause of the
// statement, so that a violation of a clause has a replay file a human can read in one line.

func c09MinimalInputs() []struct {
	name string
	in   *c09Input
} {
	const gi = int64(1) << 30
	base := func() *c09Input {
		return &c09Input{Cap: c09Res{100000, 100 * gi}, Thr: [2]int64{100, 100}, CapPct: [2]int64{-1, -1}, DegradeMin: 15}
	}
	prod := func(name string, qos extension.QoSClass, req, usage c09Res, metric bool) c09Pod {
		return c09Pod{Name: name, Class: extension.PriorityProd, QoSLabel: qos, Repr: 0, PrioVal: -1, Phase: corev1.PodRunning,
			Containers: []c09Res{req}, HasMetric: metric, Usage: usage}
	}
	var out []struct {
		name string
		in   *c09Input
	}
	add := func(name string, f func(in *c09Input)) {
		in := base()
		f(in)
		out = append(out, struct {
			name string
			in   *c09Input
		}{name, in})
	}
	add("one prod pod (10 CPU, 10Gi) without metrics, cpu+memory policy maxUsageRequest, no margin/system usage/reservation", func(in *c09Input) {
		in.Pods = []c09Pod{prod("p", extension.QoSLS, c09Res{10000, 10 * gi}, c09Res{}, false)}
		in.Policy = [2]int{c09PolMax, c09PolMax}
	})
	add("the same pod under the usage policy", func(in *c09Input) {
		in.Pods = []c09Pod{prod("p", extension.QoSLS, c09Res{10000, 10 * gi}, c09Res{}, false)}
		in.Policy = [2]int{c09PolUsage, c09PolUsage}
	})
	add("the same pod with a metric (2 CPU, 2Gi) under maxUsageRequest", func(in *c09Input) {
		in.Pods = []c09Pod{prod("p", extension.QoSLS, c09Res{10000, 10 * gi}, c09Res{2000, 2 * gi}, true)}
		in.Policy = [2]int{c09PolMax, c09PolMax}
	})
	add("no pods, system usage 20Gi, no reservation, memory policy request", func(in *c09Input) {
		in.Sys = c09Res{0, 20 * gi}
		in.Policy = [2]int{c09PolUsage, c09PolRequest}
	})
	add("the same with two NUMA zones", func(in *c09Input) {
		in.Sys = c09Res{0, 20 * gi}
		in.Policy = [2]int{c09PolUsage, c09PolRequest}
		in.Zones = []c09Res{{50000, 50 * gi}, {50000, 50 * gi}}
	})
	add("system usage 20Gi below an annotation reservation of 30Gi, memory policy request", func(in *c09Input) {
		in.Sys = c09Res{0, 20 * gi}
		in.AnnoKind, in.AnnoRes, in.AnnoHas = 1, c09Res{0, 30 * gi}, [2]bool{false, true}
		in.Policy = [2]int{c09PolUsage, c09PolRequest}
	})
	add("LSE pod requesting 10 CPU and using 2, usage policy", func(in *c09Input) {
		in.Pods = []c09Pod{prod("p", extension.QoSLSE, c09Res{10000, 10 * gi}, c09Res{2000, 2 * gi}, true)}
	})
	add("metric of a vanished prod pod (5 CPU, 5Gi) and a prod host application (3 CPU, 3Gi), reservation 2 CPU", func(in *c09Input) {
		in.Dangling = []c09Metric{{Name: "gone", Prio: extension.PriorityProd, Usage: c09Res{5000, 5 * gi}}}
		in.HostApps = []c09Metric{{Name: "app", Prio: extension.PriorityProd, Usage: c09Res{3000, 3 * gi}}}
		in.KubeletReserved = c09Res{2000, 0}
	})
	add("percentage cap 10% with an idle node, thresholds 65", func(in *c09Input) {
		in.Thr = [2]int64{65, 65}
		in.CapPct = [2]int64{10, 10}
	})
	add("pods requesting more than the node has (clamp at zero)", func(in *c09Input) {
		in.Pods = []c09Pod{prod("p", extension.QoSLS, c09Res{120000, 120 * gi}, c09Res{110000, 110 * gi}, true)}
		in.Policy = [2]int{c09PolMax, c09PolRequest}
	})
	add("two zones of 50 CPU / 50Gi listed as node-1, node-0; one prod pod (10 CPU, 10Gi, using all of it) bound to NUMA node 0", func(in *c09Input) {
		in.Zones = []c09Res{{50000, 50 * gi}, {50000, 50 * gi}}
		in.ZoneIDs = []int{1, 0}
		pd := prod("p", extension.QoSLSR, c09Res{10000, 10 * gi}, c09Res{10000, 10 * gi}, true)
		pd.NUMA = []int{0}
		in.Pods = []c09Pod{pd}
	})
	add("the same zones listed as node-0, node-1", func(in *c09Input) {
		in.Zones = []c09Res{{50000, 50 * gi}, {50000, 50 * gi}}
		pd := prod("p", extension.QoSLSR, c09Res{10000, 10 * gi}, c09Res{10000, 10 * gi}, true)
		pd.NUMA = []int{0}
		in.Pods = []c09Pod{pd}
	})
	add("node metric one second older than the degrade time", func(in *c09Input) {
		in.AgeNanos = in.DegradeMin*int64(time.Minute) + int64(time.Second)
	})
	add("no NodeMetric object yet", func(in *c09Input) { in.MetricKind = 2 })
	return out
}

func TestVerifC09Minimal(t *testing.T) {
	c09Setup(t)
	inputs := c09MinimalInputs()
	kit.Run(t, kit.Config{Property: "C09", Unit: "minimal", Quick: len(inputs), Thorough: len(inputs), Exhaustive: true,
		Rule: "exhaustive over a hand-written list of minimal inputs, one per clause of the statement (metric-less pod under each policy, request policy with system usage above/below the reservation, with zones, LSE pod, dangling metric + host application, percentage cap, clamp, stale and missing metric); same oracles as the generated units; every input counts as distinct and non-trivial"},
		func(c *kit.Case) {
			m := inputs[c.K]
			in := m.in
			c.Op("%s: %+v", m.name, *in)
			out := c09Run(c, in, "eval")
			c.Seen(c.K)
			c.NonTrivial()
			if stale, _ := in.stale(); stale {
				if !out.reset {
					c.Fail("C09/degrade/stale-metric-not-reset", "%s: numbers are published: cpu=%s mem=%s", m.name, out.node[0].RatString(), out.node[1].RatString())
				}
				c.Count("stale_reset", 1)
				return
			}
			if out.reset {
				c.Fail("C09/output/reset-on-fresh-metric", "%s: fresh node metric but the items are resets", m.name)
			}
			c.Sample(map[string]any{"input": m.name, "published_cpu_milli": out.node[0].RatString(), "published_memory_bytes": out.node[1].RatString()})
			c09CheckBounds(c, in, out, m.name)
		})
}

// ---------------------------------------------------------------------------------------------
// Prepare: what is finally PUBLISHED is what Plugin.Prepare writes into node.status (capacity and
// allocatable of kubernetes.io/batch-cpu / batch-memory) from the framework.NodeResource that holds
// the calculated items. The controller prepares the same NodeResource several times per reconcile
// (once on a copy of the cached node for the sync check, again on the node it actually writes, again
// on every conflict retry, and once more for the metadata patch), so the unit does the same.
//
// CPU normalization (docs/proposals/scheduling/20230831-cpu-normalization.md, plugins/cpunormalization):
// the ratio reaches Prepare as NodeResource.Annotations[node.koordinator.sh/cpu-normalization-ratio],
// written by the cpunormalization plugin as strconv.FormatFloat(ratio, 'f', 2, 64) with 1.00 <= ratio
// <= 5.00 ("The float value must >= 1", defaultMinRatio/defaultMaxRatio). Rule: batch-cpu is amplified
// by the ratio, batch-memory is not. An extended resource must be an integer, so calculated x ratio
// (at most two decimals) is rounded to a neighbouring integer; the oracle grants the upper neighbour:
// written <= ceil(calculated x ratio), i.e. written/ratio exceeds the already bound-checked calculated
// amount by less than 1/ratio of a milli-CPU. Only the upper direction is a verdict (an implementation
// that publishes less never over-promises); "below the expected amount" is counted as converse_misses_*.
// The third-party allocation annotation (batch priority) is subtracted by Prepare from allocatable and
// capacity; that only lowers the amount, so the upper oracle stays valid with it.

func c09NRSnapshot(nr *framework.NodeResource) string {
	b, err := json.Marshal(nr)
	if err != nil {
		return "marshal error: " + err.Error()
	}
	var names []string
	for n, q := range nr.Resources { // the JSON form normalises quantities; keep the literal state too
		if q == nil {
			names = append(names, string(n)+"=nil")
		} else {
			names = append(names, fmt.Sprintf("%s=%d/%s", n, q.MilliValue(), q.Format))
		}
	}
	sort.Strings(names)
	return string(b) + fmt.Sprint(names)
}

func TestVerifC09Prepare(t *testing.T) {
	c09Setup(t)
	kit.Run(t, kit.Config{Property: "C09", Unit: "prepare", Quick: 6000, Thorough: 300000,
		Rule: "same input generator (12% stale/missing metric); after the real Calculate the items are put into a framework.NodeResource as the controller does, with the cpu-normalization ratio annotation absent / 1.00 / 1.01 / 1.20 / 1.50 / 2.00 / 3.00 / 5.00 / random two-decimal value in [1,5]; the real Plugin.Prepare is then run 1-4 times on the SAME NodeResource against fresh copies of the node (60% carrying batch amounts of an earlier reconcile, 20% a third-party batch allocation), NeedSync after each; oracle: written capacity/allocatable/origin annotation <= ceil(calculated x ratio) for batch-cpu and <= calculated for batch-memory, k-th call writes what the first wrote, memory identical with and without ratio, reset items remove the resources from the node; mutation of the NodeResource is counted; distinct = (ratio, calls, old amounts?, third party?, reset?, zero amount?); non-trivial = ratio > 1, at least two calls and a positive batch-cpu amount"},
		func(c *kit.Case) {
			r := c.R
			in := c09GenInput(r)
			if r.Pct(12) {
				if r.Bool() {
					in.AgeNanos = in.DegradeMin*int64(time.Minute) + c09MinI64(in.DegradeMin*int64(time.Minute), 10*365*24*int64(time.Hour))
				} else {
					in.MetricKind = 2
				}
			}
			ratioPct := int64(-1)
			switch r.Weighted(20, 10, 50, 20) {
			case 1:
				ratioPct = 100
			case 2:
				ratioPct = kit.Pick(r, []int64{101, 120, 150, 200, 300, 500})
			case 3:
				ratioPct = int64(r.Range(100, 500))
			}
			calls := r.Range(1, 4)
			var old, third c09Res
			hasOld, hasThird := r.Pct(60), r.Pct(20)
			if hasOld {
				old = c09Res{c09Amt(r, in.Cap[0], 0, 3000), c09Amt(r, in.Cap[1], 0, 1000)}
			}
			if hasThird {
				third = c09Res{c09Amt(r, in.Cap[0], 0, 600), c09Amt(r, in.Cap[1], 0, 600)}
			}
			c.Op("input ratioPct=%d calls=%d old=%v(%v) thirdParty=%v(%v) %+v", ratioPct, calls, old, hasOld, third, hasThird, *in)
			out := c09Run(c, in, "calculate")
			c09CheckBounds(c, in, out, "calculate")
			stale, _ := in.stale()
			if stale && !out.reset {
				c.Fail("C09/degrade/stale-metric-not-reset", "stale or missing node metric but numbers are calculated")
			}

			// the node as the controller holds it
			node := out.objs.node.DeepCopy()
			batchNames := [2]corev1.ResourceName{extension.BatchCPU, extension.BatchMemory}
			if hasOld {
				for res := 0; res < 2; res++ {
					q := *resource.NewQuantity(old[res], resource.DecimalSI)
					node.Status.Capacity[batchNames[res]] = q
					node.Status.Allocatable[batchNames[res]] = q
				}
			}
			if hasThird {
				if err := slov1alpha1.SetThirdPartyAllocation(node.Annotations, "c09-third-party", extension.PriorityBatch, corev1.ResourceList{
					extension.BatchCPU:    *resource.NewQuantity(third[0], resource.DecimalSI),
					extension.BatchMemory: *resource.NewQuantity(third[1], resource.BinarySI)}); err != nil {
					c.Harness("SetThirdPartyAllocation: %v", err)
				}
			}
			// the NodeResource as calculateNodeResource builds it (plus the cpunormalization plugin's annotation)
			nr := framework.NewNodeResource(out.items...)
			plain := framework.NewNodeResource() // same amounts, private quantities, no ratio
			for _, it := range out.items {
				cp := it
				if it.Quantity != nil {
					q := it.Quantity.DeepCopy()
					cp.Quantity = &q
				}
				plain.Set(cp)
			}
			if ratioPct >= 0 {
				nr.Annotations[extension.AnnotationCPUNormalizationRatio] = c09Ratio(ratioPct)
			}
			before := c09NRSnapshot(nr)
			// expected upper amounts
			var upper [2]*big.Rat
			if !out.reset {
				upper[0] = new(big.Rat).Set(out.node[0])
				if ratioPct > 100 {
					x := new(big.Rat).Mul(out.node[0], big.NewRat(ratioPct, 100))
					up := new(big.Int).Quo(x.Num(), x.Denom())
					if !x.IsInt() {
						up.Add(up, big.NewInt(1))
					}
					upper[0] = new(big.Rat).SetInt(up)
				}
				m := out.node[1]
				up := new(big.Int).Quo(m.Num(), m.Denom())
				if !m.IsInt() {
					up.Add(up, big.NewInt(1))
				}
				upper[1] = new(big.Rat).SetInt(up)
			}
			type written struct {
				present [2][3]bool
				v       [2][3]*big.Rat // per resource: capacity, allocatable, origin annotation
			}
			fields := [3]string{"capacity", "allocatable", "origin-annotation"}
			read := func(n *corev1.Node) written {
				var w written
				origin, err := slov1alpha1.GetOriginExtendedAllocatable(n.Annotations)
				if err != nil {
					c.Fail("C09/prepare/origin-annotation-unreadable", "origin allocatable annotation cannot be parsed: %v", err)
				}
				for res := 0; res < 2; res++ {
					lists := [3]corev1.ResourceList{n.Status.Capacity, n.Status.Allocatable, nil}
					if origin != nil {
						lists[2] = origin.Resources
					}
					for f := 0; f < 3; f++ {
						if q, ok := lists[f][batchNames[res]]; ok {
							w.present[res][f] = true
							w.v[res][f] = big.NewRat(q.MilliValue(), 1000)
						}
					}
				}
				return w
			}
			p := &Plugin{}
			var first written
			mutated := false
			for j := 1; j <= calls; j++ {
				nodeCopy := node.DeepCopy()
				if err := p.Prepare(out.objs.strategy, nodeCopy, nr); err != nil {
					c.Fail("C09/prepare/error", "Prepare call %d returned an error: %v", j, err)
				}
				c.Count("prepare_calls", 1)
				if j > 1 {
					c.Count("prepare_repeated", 1)
				}
				w := read(nodeCopy)
				desc := ""
				for res := 0; res < 2; res++ {
					for f := 0; f < 2; f++ {
						if w.present[res][f] {
							desc += fmt.Sprintf(" %s.%s=%s", c09ResName[res], fields[f], w.v[res][f].RatString())
						} else {
							desc += fmt.Sprintf(" %s.%s=absent", c09ResName[res], fields[f])
						}
					}
				}
				need, _ := p.NeedSync(out.objs.strategy, node, nodeCopy)
				c.Op("prepare call %d ->%s needSync=%v", j, desc, need)
				if need {
					c.Count("needsync_true", 1)
				} else {
					c.Count("needsync_false", 1)
				}
				for res := 0; res < 2; res++ {
					for f := 0; f < 3; f++ {
						what := fmt.Sprintf("Prepare call %d of %d (ratio %s): node %s of batch-%s", j, calls, map[bool]string{true: c09Ratio(ratioPct), false: "absent"}[ratioPct >= 0], fields[f], c09ResName[res])
						if out.reset {
							// stale/missing metric: the resource must be withdrawn from node.status, whatever was there before
							if f < 2 && w.present[res][f] {
								c.Fail("C09/prepare/reset-not-withdrawn", "%s is still %s although the calculated item is a reset (amount of an earlier reconcile: %v)", what, w.v[res][f].RatString(), hasOld)
							}
							if f < 2 {
								c.Count("prepare_reset_withdrawn", 1)
							}
							continue
						}
						if !w.present[res][f] {
							c.Count("converse_misses_prepare_amount_absent", 1)
							continue
						}
						v := w.v[res][f]
						if v.Sign() < 0 {
							c.Fail("C09/prepare/negative", "%s = %s is negative", what, v.RatString())
						}
						if !v.IsInt() {
							c.Count("prepare_written_not_integral", 1)
						}
						if v.Cmp(upper[res]) > 0 {
							if res == c09CPU {
								c.Fail("C09/prepare/amplified-above-ratio", "%s = %s exceeds the calculated amount %s x ratio rounded up = %s", what, v.RatString(), out.node[0].RatString(), upper[0].RatString())
							}
							c.Fail("C09/prepare/memory-above-calculated", "%s = %s exceeds the calculated amount %s (memory is not amplified)", what, v.RatString(), out.node[1].RatString())
						}
						if j > 1 && (!first.present[res][f] || v.Cmp(first.v[res][f]) != 0) {
							c.Fail("C09/prepare/repeated-call-changes-amount", "%s = %s, the first call on the same NodeResource wrote %v", what, v.RatString(), first.v[res][f])
						}
						if !hasThird || f == 2 {
							if v.Cmp(upper[res]) == 0 || (res == c09CPU && new(big.Rat).Sub(upper[res], v).Cmp(c09Int(1)) <= 0) {
								c.Count("prepare_written_equals_expected", 1)
							} else {
								c.Count("converse_misses_prepare_below_expected", 1)
							}
						}
					}
				}
				if j == 1 {
					first = w
				}
				if !mutated && c09NRSnapshot(nr) != before {
					mutated = true
					c.Count("prepare_mutated_noderesource", 1) // counted: the statement does not speak about the argument
				}
			}
			// memory must not depend on the ratio
			if !out.reset {
				nodeCopy := node.DeepCopy()
				if err := p.Prepare(out.objs.strategy, nodeCopy, plain); err != nil {
					c.Fail("C09/prepare/error", "Prepare without ratio returned an error: %v", err)
				}
				c.Count("prepare_calls", 1)
				w := read(nodeCopy)
				for f := 0; f < 3; f++ {
					if w.present[1][f] != first.present[1][f] || (w.present[1][f] && w.v[1][f].Cmp(first.v[1][f]) != 0) {
						c.Fail("C09/prepare/ratio-changes-memory", "node %s of batch-memory is %v with ratio %d%% and %v without", fields[f], first.v[1][f], ratioPct, w.v[1][f])
					}
				}
				c.Count("prepare_memory_same_without_ratio", 1)
			}
			if ratioPct > 100 {
				c.Count("ratio_gt1_cases", 1)
			}
			zero := !out.reset && out.node[0].Sign() == 0
			c.Seen(ratioPct, calls, hasOld, hasThird, out.reset, zero)
			if ratioPct > 100 && calls >= 2 && !out.reset && out.node[0].Sign() > 0 {
				c.NonTrivial()
			}
			if c.K < 2 && !out.reset {
				c.Sample(map[string]any{"calculated_batch_cpu": out.node[0].RatString(), "ratio_percent": ratioPct, "prepare_calls": calls,
					"written_allocatable_cpu": fmt.Sprint(first.v[0][1]), "written_allocatable_memory": fmt.Sprint(first.v[1][1])})
			}
		})
}

// ---------------------------------------------------------------------------------------------
// NRT histories: the zone amounts are PUBLISHED on the NodeResourceTopology object by Plugin.PreUpdate
// (prepareForNodeResourceTopology -> resutil.UpdateNRTZoneListIfNeeded -> client.Update). The unit replays
// what the controller does per reconcile (Reconcile: Calculate -> NodeResource -> updateNodeResource:
// PreUpdate -> Prepare -> update) over a history of rounds against one persistent API stub, with the
// package clock advanced between rounds: fresh rounds publish zone amounts, then the node metric stops
// being refreshed (or the NodeMetric object disappears) and the clock passes the degrade time.
// Oracle (statement: "stale node metrics withdraw the resource instead of freezing an old value;
// NUMA-zone amounts obey the same bounds per zone"): after a degraded round every zone of the stored NRT
// has no batch-cpu / batch-memory entry or one whose capacity, allocatable and available are zero -
// exactly as the node-level amounts are withdrawn from node.status by Prepare in the same round.
// After a fresh round a zone amount that is newly added to the NRT (no earlier entry, so the controller's
// ResourceDiffThreshold hysteresis cannot apply) must not exceed the calculated zone amount x ratio;
// entries that existed before are only counted when they stay above the calculated amount, because the
// documented diff-threshold hysteresis keeps values that moved by less than the threshold.
// Causal rules: rounds are sequential; the metric's update time never moves backwards; the NRT keeps its
// cpu/memory zone entries for the whole history; a controller restart (30%) empties the in-memory sync
// context but not the NRT object.

func c09NRTBatch(nrt *topologyv1alpha1.NodeResourceTopology, zone int, res int) (present bool, vals [3]*big.Rat) {
	name := string([2]corev1.ResourceName{extension.BatchCPU, extension.BatchMemory}[res])
	for _, ri := range nrt.Zones[zone].Resources {
		if ri.Name == name {
			return true, [3]*big.Rat{big.NewRat(ri.Capacity.MilliValue(), 1000), big.NewRat(ri.Allocatable.MilliValue(), 1000), big.NewRat(ri.Available.MilliValue(), 1000)}
		}
	}
	return false, vals
}

func TestVerifC09NRTHistory(t *testing.T) {
	c09Setup(t)
	kit.Run(t, kit.Config{Property: "C09", Unit: "nrt-history", Quick: 4000, Thorough: 200000,
		Rule: "same input generator with 1/2/3/4/8 NUMA zones forced; histories of 1-6 reconcile rounds (Calculate -> PreUpdate -> Prepare on a node copy) against one persistent NRT stub and an advancing fake clock: fresh rounds (inputs perturbed between rounds), then rounds in which the metric is older than the degrade time or the NodeMetric object is gone, optionally a recovery round; 30% start from an NRT that already carries batch amounts of an earlier controller lifetime, 30% restart the controller (empty sync context) before a round, cpu-normalization ratio absent or 1.00-3.00; oracle after every round; distinct = (zones, round kinds, preexisting, restart, ratio>1, amounts on NRT before the degraded round); non-trivial = a degraded round that starts with non-zero batch amounts on the NRT"},
		func(c *kit.Case) {
			r := c.R
			in := c09GenInput(r)
			minimal := c.K == 0 // case 0 is the hand-written minimal history: idle node, two zones, fresh round then stale round
			if minimal {
				const gi = int64(1) << 30
				in = &c09Input{Cap: c09Res{100000, 100 * gi}, Zones: []c09Res{{50000, 50 * gi}, {50000, 50 * gi}}, Thr: [2]int64{100, 100}, CapPct: [2]int64{-1, -1}, DegradeMin: 15}
			}
			if in.Zones == nil {
				z := kit.Pick(r, []int{1, 2, 2, 4, 3, 8})
				in.Zones = make([]c09Res, z)
				for i := range in.Zones {
					in.Zones[i] = c09Res{in.Cap[0] / int64(z), in.Cap[1] / int64(z)}
				}
			}
			zn := len(in.Zones)
			if in.DegradeMin > 100000 { // keep the history inside the range of time.Duration
				in.DegradeMin = 60
				in.AgeNanos = 0
			}
			if !minimal && r.Pct(50) {
				in.DiffPermille = kit.Pick(r, []int64{1, 50, 100, 500, 1000})
				in.UpdateSec = kit.Pick(r, []int64{1, 60, 300, 3600})
			}
			ratioPct := int64(-1)
			if r.Pct(35) {
				ratioPct = kit.Pick(r, []int64{100, 101, 120, 150, 200, 300, 500})
			}
			// round kinds: f fresh, s stale (metric not refreshed), m NodeMetric object gone
			kinds := kit.Pick(r, []string{"fs", "fs", "fm", "ffs", "fsf", "fss", "fsfs", "s", "m", "ffm", "fsfsfs", "ffffs", "fffsf", "fmf", "fsmf"})
			preexisting := r.Pct(30) || kinds == "s" || kinds == "m"
			if minimal {
				ratioPct, kinds, preexisting = -1, "fs", false
			}
			cl := &c09Client{nrt: in.build(c09Now).nrt}
			if preexisting {
				for z := range cl.nrt.Zones {
					for res := 0; res < 2; res++ {
						q := *resource.NewQuantity(c09Amt(r, in.Zones[z][res], 1, 900)+1, resource.DecimalSI)
						cl.nrt.Zones[z].Resources = append(cl.nrt.Zones[z].Resources, topologyv1alpha1.ResourceInfo{
							Name: string([2]corev1.ResourceName{extension.BatchCPU, extension.BatchMemory}[res]), Capacity: q, Allocatable: q, Available: q})
					}
					sort.Slice(cl.nrt.Zones[z].Resources, func(a, b int) bool { return cl.nrt.Zones[z].Resources[a].Name < cl.nrt.Zones[z].Resources[b].Name })
				}
			}
			nrtSyncContext = framework.NewSyncContext()
			fc := Clock.(*fakeclock.FakeClock)
			defer fc.SetTime(c09Now)
			now := c09Now
			lastUpdate := now.Add(-time.Duration(r.Range(0, 50)) * time.Second)
			c.Op("history kinds=%s zones=%d ratioPct=%d preexisting=%v input %+v", kinds, zn, ratioPct, preexisting, *in)
			p := &Plugin{}
			restarted := false
			nontrivial := false
			for round, k := range kinds {
				// time passes between reconciles
				if round > 0 {
					now = now.Add(time.Duration(r.Range(1, 600)) * time.Second)
				}
				cur := in.clone()
				switch k {
				case 'f':
					if round > 0 && !minimal { // the node's load moved and koordlet reported again
						if pin, _, _, ok := c09Probe(r, in, r.Intn(7)); ok {
							cur = pin
						}
						in = cur.clone()
					}
					lastUpdate = now.Add(-time.Duration(r.Range(0, 50)) * time.Second)
					cur.MetricKind, cur.AgeNanos = 0, int64(now.Sub(lastUpdate))
				case 's':
					now = now.Add(time.Duration(in.DegradeMin)*time.Minute + time.Duration(r.Range(1, 7200))*time.Second)
					cur.MetricKind, cur.AgeNanos = 0, int64(now.Sub(lastUpdate))
				default:
					cur.MetricKind = 2
				}
				if r.Pct(30) && !minimal {
					nrtSyncContext = framework.NewSyncContext()
					restarted = true
				}
				fc.SetTime(now)
				var had bool // non-zero batch amounts on the NRT before this round
				prevPresent := make([][2]bool, zn)
				for z := 0; z < zn; z++ {
					for res := 0; res < 2; res++ {
						present, vals := c09NRTBatch(cl.nrt, z, res)
						prevPresent[z][res] = present
						if present && (vals[0].Sign() != 0 || vals[1].Sign() != 0 || vals[2].Sign() != 0) {
							had = true
						}
					}
				}
				tag := fmt.Sprintf("round %d (t=+%s, node metric last updated %s ago, degrade after %dm)", round, now.Sub(c09Now), time.Duration(cur.AgeNanos), cur.DegradeMin)
				if k == 'm' {
					tag = fmt.Sprintf("round %d (t=+%s, the NodeMetric object is gone)", round, now.Sub(c09Now))
				}
				out := c09RunAt(c, cur, tag, now, cl)
				degraded, _ := cur.stale()
				if degraded && !out.reset {
					c.Fail("C09/degrade/stale-metric-not-reset", "%s: numbers are calculated", tag)
				}
				if !degraded && out.reset {
					c.Fail("C09/output/reset-on-fresh-metric", "%s: items are resets", tag)
				}
				c09CheckBounds(c, cur, out, tag)
				nr := framework.NewNodeResource(out.items...)
				if ratioPct >= 0 {
					nr.Annotations[extension.AnnotationCPUNormalizationRatio] = c09Ratio(ratioPct)
				}
				upd := cl.updates
				if err := p.PreUpdate(out.objs.strategy, out.objs.node, nr); err != nil {
					c.Fail("C09/nrt/preupdate-error", "%s: PreUpdate failed: %v", tag, err)
				}
				nodeCopy := out.objs.node.DeepCopy()
				for _, n := range []corev1.ResourceName{extension.BatchCPU, extension.BatchMemory} { // amounts of the earlier round
					nodeCopy.Status.Capacity[n] = *resource.NewQuantity(1000, resource.DecimalSI)
					nodeCopy.Status.Allocatable[n] = *resource.NewQuantity(1000, resource.DecimalSI)
				}
				if err := p.Prepare(out.objs.strategy, nodeCopy, nr); err != nil {
					c.Fail("C09/prepare/error", "%s: Prepare failed: %v", tag, err)
				}
				desc := ""
				for z := 0; z < zn; z++ {
					for res := 0; res < 2; res++ {
						if present, vals := c09NRTBatch(cl.nrt, z, res); present {
							desc += fmt.Sprintf(" z%d.%s=%s/%s/%s", z, c09ResName[res], vals[0].RatString(), vals[1].RatString(), vals[2].RatString())
						} else {
							desc += fmt.Sprintf(" z%d.%s=absent", z, c09ResName[res])
						}
					}
				}
				c.Op("%s: NRT updates=%d ->%s", tag, cl.updates-upd, desc)
				if degraded {
					c.Count("nrt_rounds_degraded", 1)
					if had {
						c.Count("nrt_degraded_with_amounts_on_nrt", 1)
						nontrivial = true
						c.NonTrivial()
					}
					for _, n := range []corev1.ResourceName{extension.BatchCPU, extension.BatchMemory} {
						if _, ok := nodeCopy.Status.Allocatable[n]; ok {
							c.Fail("C09/prepare/reset-not-withdrawn", "%s: node allocatable still carries %s", tag, n)
						}
					}
					for z := 0; z < zn; z++ {
						for res := 0; res < 2; res++ {
							present, vals := c09NRTBatch(cl.nrt, z, res)
							c.Count("nrt_zone_withdrawal_checked", 1)
							if !present {
								continue
							}
							for f, v := range vals {
								if v.Sign() != 0 {
									c.Fail("C09/degrade/zone-amounts-frozen-on-nrt", "%s: the node-level batch amounts are withdrawn but zone %s of the NodeResourceTopology still publishes batch-%s %s = %s (preexisting=%v, restarted=%v, NRT updates in this round: %d)",
										tag, in.zoneName(z), c09ResName[res], [3]string{"capacity", "allocatable", "available"}[f], v.RatString(), preexisting, restarted, cl.updates-upd)
								}
							}
						}
					}
					continue
				}
				c.Count("nrt_rounds_fresh", 1)
				if out.zone == nil {
					c.Count("nrt_fresh_round_without_zone_amounts", 1)
					continue
				}
				for z := 0; z < zn; z++ {
					for res := 0; res < 2; res++ {
						present, vals := c09NRTBatch(cl.nrt, z, res)
						if !present {
							c.Count("converse_misses_nrt_zone_amount_absent", 1)
							continue
						}
						c.Count("nrt_zone_amounts_published", 1)
						upper := new(big.Rat).Set(out.zone[z][res])
						if res == c09CPU && ratioPct > 100 {
							upper.Mul(upper, big.NewRat(ratioPct, 100))
						}
						for f, v := range vals {
							if v.Sign() < 0 {
								c.Fail("C09/nrt/zone-amount-negative", "%s: zone %s batch-%s = %s", tag, in.zoneName(z), c09ResName[res], v.RatString())
							}
							if v.Cmp(upper) > 0 {
								if !prevPresent[z][res] {
									c.Fail("C09/nrt/zone-amount-above-calculated", "%s: zone %s batch-%s %s newly written to the NRT = %s exceeds the calculated zone amount %s x ratio = %s",
										tag, in.zoneName(z), c09ResName[res], [3]string{"capacity", "allocatable", "available"}[f], v.RatString(), out.zone[z][res].RatString(), upper.RatString())
								}
								c.Count("nrt_zone_kept_above_calculated_hysteresis", 1)
							}
						}
					}
				}
			}
			c.Seen(zn, kinds, preexisting, restarted, ratioPct > 100, nontrivial)
			if nontrivial {
				c.NonTrivial()
			}
			if c.K < 2 {
				ops := c.Ops()
				c.Sample(ops[len(ops)-1])
			}
		})
}
