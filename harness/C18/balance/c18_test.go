//go:build verif

package loadaware

// C18 monitor: low-node-load balancing. A real LowNodeLoad (built by NewLowNodeLoad over a fake
// handle) is run for 1-7 successive Balance rounds over generated clusters; a recording evictor
// with scripted refusals observes every Evict(pod). After each round the monitor recomputes the
// usage/threshold table from the NodeMetric objects, the pod lists and the pool configuration and
// checks every Evict call against the statement. See /verif/DESIGN.md section 4, C18.
//
// Oracle conventions (all from the statement, none from the implementation): "above the high
// threshold" is strict; a node exactly on a low threshold counts as under it; an unschedulable node
// cannot receive load; an eviction is accepted if EITHER the whole-node or the prod pass justifies
// it (node over in that pass' running estimate, another node under that pass' low thresholds,
// that pass' headroom positive); unmeasured rounds neither extend nor break an over-threshold
// streak; only Evict calls are judged (an over-loaded node that is not relieved is counted as
// converse_misses_*, never a verdict). Signature suffixes .../on-threshold-float-truncated,
// .../pod-count-ignores-metricless-evictions, .../after-interrupted-streak and
// .../after-qualified-streak are diagnostics computed from the inputs that name the identifying
// fact of a violation; they do not change what is a violation.
//
// Causal rules of the generator (what the real system can produce):
//   * a NodeMetric reports NodeUsage = SystemUsage + sum of PodsMetric usages (no host applications);
//     all usages are whole milli-CPU / bytes and never exceed the node's allocatable;
//   * a pod that was evicted successfully in round k is gone from the pod list and from the metrics
//     of every later round; pods keep their node; new pods may appear between rounds;
//   * a pod may have no entry in PodsMetric (new pod) and a NodeMetric may contain an entry of a pod
//     that is no longer listed (metric lag); a NodeMetric may be missing, have no status, or be stale;
//   * fresh metrics are stamped "now", stale ones one hour ago (expiration 180 s): no decision is
//     taken near a deadline; detector cache timeout and anomaly timeout are one hour, so no detector
//     state expires during a case (rounds follow each other faster than every timeout);
//   * node pools select disjoint node sets; every pod carries an explicit koordinator priority class.

import (
	"context"
	"fmt"
	"math/big"
	"sort"
	"strconv"
	"strings"
	"testing"
	"time"

	corev1 "k8s.io/api/core/v1"
	"k8s.io/apimachinery/pkg/api/resource"
	metav1 "k8s.io/apimachinery/pkg/apis/meta/v1"
	"k8s.io/client-go/tools/cache"
	"k8s.io/klog/v2"

	apiext "github.com/koordinator-sh/koordinator/apis/extension"
	slov1alpha1 "github.com/koordinator-sh/koordinator/apis/slo/v1alpha1"
	koordfake "github.com/koordinator-sh/koordinator/pkg/client/clientset/versioned/fake"
	koordslolisters "github.com/koordinator-sh/koordinator/pkg/client/listers/slo/v1alpha1"
	deschedulerconfig "github.com/koordinator-sh/koordinator/pkg/descheduler/apis/config"
	"github.com/koordinator-sh/koordinator/pkg/descheduler/framework"
	"github.com/koordinator-sh/koordinator/pkg/descheduler/test"
	kit "github.com/koordinator-sh/koordinator/pkg/verifkit"
)

func init() {
	klog.SetOutput(c18Discard{})
	klog.LogToStderr(false)
}

type c18Discard struct{}

func (c18Discard) Write(p []byte) (int, error) { return len(p), nil }

const (
	c18PoolLabel     = "c18/pool"
	c18AnnoFilter    = "c18/filter-until"
	c18AnnoRefuse    = "c18/refuse"
	c18PassNode      = 0
	c18PassProd      = 1
	c18RoleOver      = 0
	c18RoleUnder     = 1
	c18RoleMid       = 2
	c18MetricFresh   = 0
	c18MetricMissing = 1
	c18MetricNoInfo  = 2
	c18MetricNoTime  = 3
	c18MetricStale   = 4
)

var (
	c18Res       = []corev1.ResourceName{corev1.ResourceCPU, corev1.ResourceMemory, corev1.ResourcePods}
	c18PassName  = []string{"node", "prod"}
	c18StateName = []string{"fresh", "missing", "no-status", "no-update-time", "stale"}
	c18Clientset = koordfake.NewSimpleClientset()
)

// ---------------------------------------------------------------------------------------------
// world

type c18Pod struct {
	name, node  string
	prod        bool
	filterUntil int // -1 always passes the evictor's filter, k >= 0: passes only while fewer than k Evict calls were made this round
	refuse      bool
	obj         *corev1.Pod
	hasMetric   bool
	m           map[corev1.ResourceName]int64 // reported usage this round (cpu milli, memory bytes)
}

type c18Node struct {
	name, pool  string
	alloc       map[corev1.ResourceName]int64
	obj         *corev1.Node
	role        [2]int
	metricState int
	nm          *slov1alpha1.NodeMetric
	// oracle bookkeeping over rounds
	streak           int  // consecutive measured rounds (this one included) in which the node was over a high threshold
	overBeforeGap    bool // was over in an earlier round that is not part of the current streak
	maxRunBefore     int  // longest completed earlier run of consecutive over-threshold rounds
	evictedEarlier   bool // an Evict call was made for a pod of this node in an earlier round
	truncOnThreshold bool // in an earlier round of the current history the node sat exactly on a high threshold that the shipped float formula truncates
	bridgedUnmeasure bool
}

type c18PoolCfg struct {
	name     string
	selector string // "" = no selector
	dev      bool
	pct      [2][2]map[corev1.ResourceName]int // [pass][0 low,1 high][resource] -> percentage (absolute) or deviation
	anomaly  *deschedulerconfig.LoadAnomalyCondition
	need     int
	base     map[corev1.ResourceName]int // deviation mode: per-round aim of the mean, generator only
}

func (p *c18PoolCfg) res(pass int) []corev1.ResourceName {
	var out []corev1.ResourceName
	for _, r := range c18Res {
		if _, ok := p.pct[pass][0][r]; ok {
			out = append(out, r)
		}
	}
	return out
}

type c18Event struct {
	pod, node   string
	callsBefore int
	ok          bool
	reason      string
}

type c18World struct {
	c      *kit.Case
	nodes  []*c18Node
	pods   []*c18Pod // live pods in creation order
	byName map[string]*c18Pod
	// evictor state of the running round
	calls, okCount, okLimit int
	filterCalls             int
	events                  []c18Event
	nextPod                 int
}

func (w *c18World) podsAssignedToNode(nodeName string, filter framework.FilterFunc) ([]*corev1.Pod, error) {
	out := make([]*corev1.Pod, 0)
	for _, p := range w.pods {
		if p.node == nodeName && (filter == nil || filter(p.obj)) {
			out = append(out, p.obj)
		}
	}
	return out, nil
}

// evictor (framework.Evictor): scripted by the pod's annotations, records every Evict call.
type c18Evictor struct{ w *c18World }

func c18FilterPasses(pod *corev1.Pod, evictCalls int) bool {
	k, err := strconv.Atoi(pod.Annotations[c18AnnoFilter])
	if err != nil || k < 0 {
		return true
	}
	return evictCalls < k
}

func (e *c18Evictor) Filter(pod *corev1.Pod) bool {
	e.w.filterCalls++
	return c18FilterPasses(pod, e.w.calls)
}

func (e *c18Evictor) PreEvictionFilter(pod *corev1.Pod) bool { return true }

func (e *c18Evictor) Evict(ctx context.Context, pod *corev1.Pod, opts framework.EvictOptions) bool {
	w := e.w
	ok := pod.Annotations[c18AnnoRefuse] != "true" && w.okCount < w.okLimit
	w.events = append(w.events, c18Event{pod: pod.Name, node: pod.Spec.NodeName, callsBefore: w.calls, ok: ok, reason: opts.Reason})
	w.calls++
	if ok {
		w.okCount++
	}
	return ok
}

type c18Handle struct {
	framework.Handle
	w *c18World
}

func (h *c18Handle) Evictor() framework.Evictor { return &c18Evictor{w: h.w} }
func (h *c18Handle) GetPodsAssignedToNodeFunc() framework.GetPodsAssignedToNodeFunc {
	return h.w.podsAssignedToNode
}

// ---------------------------------------------------------------------------------------------
// generation

func c18PickPct(r *kit.Rand, lo, hi int) int {
	if lo > hi {
		lo = hi
	}
	if r.Pct(25) {
		// percentages whose product with 0.01 is not exactly representable below the true value
		var cand []int
		for _, v := range []int{29, 58} {
			if v >= lo && v <= hi {
				cand = append(cand, v)
			}
		}
		if len(cand) > 0 {
			return kit.Pick(r, cand)
		}
	}
	return r.Range(lo, hi)
}

func c18GenPool(r *kit.Rand, name, selector string) *c18PoolCfg {
	p := &c18PoolCfg{name: name, selector: selector, dev: r.Pct(30)}
	for pass := 0; pass < 2; pass++ {
		p.pct[pass][0] = map[corev1.ResourceName]int{}
		p.pct[pass][1] = map[corev1.ResourceName]int{}
	}
	nodeRes := map[corev1.ResourceName]bool{corev1.ResourceCPU: r.Pct(85), corev1.ResourceMemory: r.Pct(55), corev1.ResourcePods: r.Pct(25)}
	prodOn := r.Pct(45)
	prodRes := map[corev1.ResourceName]bool{corev1.ResourceCPU: prodOn && r.Pct(80), corev1.ResourceMemory: prodOn && r.Pct(50), corev1.ResourcePods: prodOn && r.Pct(10)}
	for _, res := range c18Res {
		if nodeRes[res] {
			var lo, hi int
			switch {
			case p.dev && res == corev1.ResourcePods:
				lo = r.Range(1, 2)
				hi = r.Range(lo, 4)
			case p.dev:
				lo = r.Range(1, 15)
				hi = r.Range(lo, 20)
			case res == corev1.ResourcePods:
				hi = r.Range(3, 12)
				lo = r.Range(2, hi)
			default:
				hi = c18PickPct(r, 20, 90)
				switch r.Intn(6) {
				case 0:
					lo = hi
				case 1:
					lo = hi - 1
				default:
					lo = c18PickPct(r, 5, hi)
				}
			}
			p.pct[c18PassNode][0][res], p.pct[c18PassNode][1][res] = lo, hi
		}
		if prodRes[res] {
			maxHi := 90
			if p.dev {
				maxHi = 20
			}
			if res == corev1.ResourcePods {
				maxHi = 12
				if p.dev {
					maxHi = 4
				}
			}
			if h, ok := p.pct[c18PassNode][1][res]; ok {
				maxHi = h // validation: prodHigh <= high
			}
			minHi := 10
			if p.dev || res == corev1.ResourcePods {
				minHi = 1
			}
			if minHi > maxHi {
				minHi = maxHi
			}
			hi := c18PickPct(r, minHi, maxHi)
			lo := c18PickPct(r, 1, hi)
			if r.Pct(15) {
				lo = hi
			}
			p.pct[c18PassProd][0][res], p.pct[c18PassProd][1][res] = lo, hi
		}
	}
	// need: the configured number of consecutive over-threshold rounds (1 when no condition is set)
	p.need = []int{1, 1, 2, 3}[r.Weighted(10, 35, 35, 20)]
	if p.need > 1 || r.Pct(78) {
		p.anomaly = &deschedulerconfig.LoadAnomalyCondition{
			Timeout:                  metav1.Duration{Duration: time.Hour},
			ConsecutiveAbnormalities: uint32(p.need),
			ConsecutiveNormalities:   uint32(r.Range(1, 3)),
		}
	}
	return p
}

func (p *c18PoolCfg) thresholds(pass, which int) deschedulerconfig.ResourceThresholds {
	if len(p.pct[pass][which]) == 0 {
		return nil
	}
	out := deschedulerconfig.ResourceThresholds{}
	for _, res := range c18Res {
		if v, ok := p.pct[pass][which][res]; ok {
			out[res] = deschedulerconfig.Percentage(v)
		}
	}
	return out
}

func (p *c18PoolCfg) String() string {
	s := fmt.Sprintf("pool %s selector=%q deviation=%v need=%d", p.name, p.selector, p.dev, p.need)
	if p.anomaly == nil {
		s += " anomaly=nil"
	} else {
		s += fmt.Sprintf(" anomaly={abn:%d norm:%d}", p.anomaly.ConsecutiveAbnormalities, p.anomaly.ConsecutiveNormalities)
	}
	for pass := 0; pass < 2; pass++ {
		for _, res := range p.res(pass) {
			s += fmt.Sprintf(" %s.%s=%d..%d", c18PassName[pass], res, p.pct[pass][0][res], p.pct[pass][1][res])
		}
	}
	return s
}

func c18Clamp(v, lo, hi int64) int64 {
	if v < lo {
		return lo
	}
	if v > hi {
		return hi
	}
	return v
}

// c18Place draws a usage for one resource relative to the (aimed) low/high thresholds tl <= th.
func c18Place(r *kit.Rand, role int, tl, th, alloc int64) int64 {
	one := alloc / 100
	var v int64
	switch role {
	case c18RoleUnder:
		switch r.Intn(4) {
		case 0:
			v = tl
		case 1:
			v = tl - 1
		case 2:
			v = tl - one
		default:
			v = r.Int63n(tl + 1)
		}
	case c18RoleMid:
		if tl >= th {
			v = tl
			break
		}
		switch r.Intn(4) {
		case 0:
			v = tl + 1
		case 1:
			v = th
		case 2:
			v = th - 1
		default:
			v = tl + 1 + r.Int63n(th-tl)
		}
		if v <= tl {
			v = tl + 1
		}
	default:
		if th >= alloc {
			v = alloc
			break
		}
		switch r.Intn(4) {
		case 0:
			v = th + 1
		case 1:
			v = th + one
		case 2:
			v = th + 1 + r.Int63n(alloc-th)
		default:
			v = th + 1 + r.Int63n((alloc-th+3)/4)
		}
	}
	return c18Clamp(v, 0, alloc)
}

// c18Split cuts total into k non-negative parts.
func c18Split(r *kit.Rand, total int64, k int) []int64 {
	if k == 0 {
		return nil
	}
	cuts := make([]int64, 0, k+1)
	cuts = append(cuts, 0)
	for i := 0; i < k-1; i++ {
		cuts = append(cuts, r.Int63n(total+1))
	}
	cuts = append(cuts, total)
	sort.Slice(cuts, func(i, j int) bool { return cuts[i] < cuts[j] })
	out := make([]int64, k)
	for i := 0; i < k; i++ {
		out[i] = cuts[i+1] - cuts[i]
	}
	return out
}

func (w *c18World) addPod(r *kit.Rand, n *c18Node) {
	p := &c18Pod{name: fmt.Sprintf("p%d", w.nextPod), node: n.name, prod: r.Bool(), refuse: r.Pct(12)}
	w.nextPod++
	p.filterUntil = []int{-1, 0, 1, 2}[r.Weighted(70, 15, 8, 7)]
	reqCPU := int64(r.Range(0, 50))
	reqMem := int64(r.Range(0, 200))
	if r.Pct(5) {
		reqCPU = n.alloc[corev1.ResourceCPU] // does not fit anywhere else
	}
	p.obj = test.BuildTestPod(p.name, reqCPU, reqMem, n.name, func(pod *corev1.Pod) {
		cls := apiext.PriorityBatch
		if p.prod {
			cls = apiext.PriorityProd
		}
		pod.Labels = map[string]string{apiext.LabelPodPriorityClass: string(cls)}
		pod.Annotations = map[string]string{c18AnnoFilter: strconv.Itoa(p.filterUntil), c18AnnoRefuse: strconv.FormatBool(p.refuse)}
		pod.Status.Phase = corev1.PodRunning
	})
	w.pods = append(w.pods, p)
	w.byName[p.name] = p
}

func (w *c18World) livePods(node string) []*c18Pod {
	var out []*c18Pod
	for _, p := range w.pods {
		if p.node == node {
			out = append(out, p)
		}
	}
	return out
}

// genMetrics draws this round's usages for one node and builds its NodeMetric object.
func (w *c18World) genMetrics(r *kit.Rand, n *c18Node, pool *c18PoolCfg) {
	pods := w.livePods(n.name)
	var prodM, otherM []*c18Pod
	for _, p := range pods {
		p.hasMetric = r.Pct(80)
		p.m = nil
		if p.hasMetric {
			p.m = map[corev1.ResourceName]int64{}
			if p.prod {
				prodM = append(prodM, p)
			} else {
				otherM = append(otherM, p)
			}
		}
	}
	ghost := r.Pct(5)
	sys := map[corev1.ResourceName]int64{}
	ghostM := map[corev1.ResourceName]int64{}
	for _, res := range []corev1.ResourceName{corev1.ResourceCPU, corev1.ResourceMemory} {
		alloc := n.alloc[res]
		aim := func(pass int, role int, overThis bool) int64 {
			if pool == nil {
				return r.Int63n(alloc + 1)
			}
			lo, ok := pool.pct[pass][0][res]
			if !ok {
				return r.Int63n(alloc + 1)
			}
			hi := pool.pct[pass][1][res]
			if pool.dev {
				lo, hi = pool.base[res]-lo, pool.base[res]+hi
			}
			tl := c18Clamp(int64(lo), 0, 100) * alloc / 100
			th := c18Clamp(int64(hi), 0, 100) * alloc / 100
			if role == c18RoleOver && !overThis {
				role = kit.Pick(r, []int{c18RoleUnder, c18RoleMid})
			}
			return c18Place(r, role, tl, th, alloc)
		}
		total := aim(c18PassNode, n.role[c18PassNode], r.Pct(65))
		up := aim(c18PassProd, n.role[c18PassProd], r.Pct(65))
		if up > total {
			if r.Bool() {
				up = total
			} else {
				total = up
			}
		}
		if len(prodM) == 0 {
			up = 0
		}
		parts := c18Split(r, up, len(prodM))
		for i, p := range prodM {
			p.m[res] = parts[i]
		}
		nOther := len(otherM)
		if ghost {
			nOther++
		}
		var wsum int64
		if nOther > 0 {
			wsum = r.Int63n(total - up + 1)
			if r.Pct(30) {
				wsum = total - up // no system usage at all
			}
		}
		parts = c18Split(r, wsum, nOther)
		for i, p := range otherM {
			p.m[res] = parts[i]
		}
		if ghost {
			ghostM[res] = parts[nOther-1]
		}
		sys[res] = total - up - wsum
		// aim at a landing exactly on the high threshold after one eviction
		if pool != nil && !pool.dev && n.role[c18PassNode] == c18RoleOver && len(prodM)+len(otherM) > 0 && r.Pct(35) {
			if hi, ok := pool.pct[c18PassNode][1][res]; ok {
				th := int64(hi) * alloc / 100
				cand := append(append([]*c18Pod{}, prodM...), otherM...)
				pj := kit.Pick(r, cand)
				want := th + pj.m[res]
				if pj.m[res] > 0 && want <= alloc && want-up-wsum >= 0 {
					sys[res] = want - up - wsum
				}
			}
		}
	}
	if r.Pct(6) {
		// a pod that reports only one of the two resources
		for _, p := range pods {
			if p.hasMetric && r.Pct(30) {
				delete(p.m, corev1.ResourceMemory)
			}
		}
	}
	n.metricState = []int{c18MetricFresh, c18MetricMissing, c18MetricNoInfo, c18MetricNoTime, c18MetricStale}[r.Weighted(86, 4, 3, 3, 4)]
	n.nm = nil
	if n.metricState == c18MetricMissing {
		return
	}
	nm := &slov1alpha1.NodeMetric{ObjectMeta: metav1.ObjectMeta{Name: n.name}}
	switch n.metricState {
	case c18MetricFresh, c18MetricNoInfo:
		nm.Status.UpdateTime = &metav1.Time{Time: time.Now()}
	case c18MetricStale:
		nm.Status.UpdateTime = &metav1.Time{Time: time.Now().Add(-time.Hour)}
	}
	rl := func(m map[corev1.ResourceName]int64) corev1.ResourceList {
		out := corev1.ResourceList{}
		if v, ok := m[corev1.ResourceCPU]; ok {
			out[corev1.ResourceCPU] = *resource.NewMilliQuantity(v, resource.DecimalSI)
		}
		if v, ok := m[corev1.ResourceMemory]; ok {
			out[corev1.ResourceMemory] = *resource.NewQuantity(v, resource.BinarySI)
		}
		return out
	}
	tot := map[corev1.ResourceName]int64{corev1.ResourceCPU: sys[corev1.ResourceCPU], corev1.ResourceMemory: sys[corev1.ResourceMemory]}
	for _, p := range pods {
		if !p.hasMetric {
			continue
		}
		for res, v := range p.m {
			tot[res] += v
		}
		nm.Status.PodsMetric = append(nm.Status.PodsMetric, &slov1alpha1.PodMetricInfo{Namespace: "default", Name: p.name, PodUsage: slov1alpha1.ResourceMap{ResourceList: rl(p.m)}})
	}
	if ghost {
		for res, v := range ghostM {
			tot[res] += v
		}
		nm.Status.PodsMetric = append(nm.Status.PodsMetric, &slov1alpha1.PodMetricInfo{Namespace: "default", Name: "gone-" + n.name, PodUsage: slov1alpha1.ResourceMap{ResourceList: rl(ghostM)}})
	}
	if n.metricState != c18MetricNoInfo {
		nm.Status.NodeMetric = &slov1alpha1.NodeMetricInfo{
			NodeUsage:   slov1alpha1.ResourceMap{ResourceList: rl(tot)},
			SystemUsage: slov1alpha1.ResourceMap{ResourceList: rl(sys)},
		}
	}
	n.nm = nm
}

// ---------------------------------------------------------------------------------------------
// oracle: usage / threshold table recomputed from the objects handed to the plugin

type c18Row struct {
	n        *c18Node
	measured bool
	unsched  bool
	u        [2]map[corev1.ResourceName]int64 // measured usage at the start of the round
	est      [2]map[corev1.ResourceName]int64 // running estimate
	lo, hi   [2]map[corev1.ResourceName]*big.Rat
	over0    [2]bool
	under    [2]bool
	podM     map[string]map[corev1.ResourceName]int64
	pods     []*c18Pod
	// diagnostics
	metriclessEvicted int
	attempts          int
}

type c18Table struct {
	cfg  *c18PoolCfg
	rows []*c18Row
	res  [2][]corev1.ResourceName
	head [2]map[corev1.ResourceName]int64
	// diagnostics
	metriclessHead [2]int
	evictCalls     int
}

func c18QVal(res corev1.ResourceName, rl corev1.ResourceList) int64 {
	q, ok := rl[res]
	if !ok {
		return 0
	}
	if res == corev1.ResourceCPU {
		return q.MilliValue()
	}
	return q.Value()
}

// c18Cmp compares an integral usage with a threshold. ambiguous: the threshold is not integral but
// within 1e-6 of the integer the usage sits on (only possible for deviation thresholds); the
// comparison is then resolved in favour of the code under test.
func c18Cmp(u int64, t *big.Rat) (int, bool) {
	c := new(big.Rat).SetInt64(u).Cmp(t)
	if t.IsInt() {
		return c, false
	}
	d := new(big.Rat).Sub(t, new(big.Rat).SetInt64(u))
	d.Abs(d)
	return c, d.Cmp(big.NewRat(1, 1000000)) < 0
}

func c18Ceil(t *big.Rat) int64 {
	q := new(big.Int).Div(t.Num(), t.Denom()) // floor for positive denominators (Euclidean)
	if !t.IsInt() {
		q.Add(q, big.NewInt(1))
	}
	return q.Int64()
}

func (row *c18Row) overNow(tab *c18Table, pass int) bool {
	for _, res := range tab.res[pass] {
		if c, amb := c18Cmp(row.est[pass][res], row.hi[pass][res]); c > 0 || amb {
			return true
		}
	}
	return false
}

func c18BuildTable(w *c18World, cfg *c18PoolCfg) *c18Table {
	tab := &c18Table{cfg: cfg}
	tab.res[0], tab.res[1] = cfg.res(0), cfg.res(1)
	for _, n := range w.nodes {
		if n.pool != cfg.selector && cfg.selector != "" {
			continue
		}
		row := &c18Row{n: n, unsched: n.obj.Spec.Unschedulable, pods: w.livePods(n.name), podM: map[string]map[corev1.ResourceName]int64{}}
		row.measured = n.nm != nil && n.nm.Status.NodeMetric != nil && n.metricState == c18MetricFresh
		tab.rows = append(tab.rows, row)
		if !row.measured {
			continue
		}
		for pass := 0; pass < 2; pass++ {
			row.u[pass] = map[corev1.ResourceName]int64{}
			row.est[pass] = map[corev1.ResourceName]int64{}
			row.lo[pass] = map[corev1.ResourceName]*big.Rat{}
			row.hi[pass] = map[corev1.ResourceName]*big.Rat{}
		}
		prodPods := map[string]bool{}
		for _, p := range row.pods {
			if p.prod {
				prodPods[p.name] = true
				row.u[c18PassProd][corev1.ResourcePods]++
			}
			row.u[c18PassNode][corev1.ResourcePods]++
		}
		for _, res := range []corev1.ResourceName{corev1.ResourceCPU, corev1.ResourceMemory} {
			row.u[c18PassNode][res] = c18QVal(res, n.nm.Status.NodeMetric.SystemUsage.ResourceList)
		}
		for _, pm := range n.nm.Status.PodsMetric {
			m := map[corev1.ResourceName]int64{}
			for _, res := range []corev1.ResourceName{corev1.ResourceCPU, corev1.ResourceMemory} {
				v := c18QVal(res, pm.PodUsage.ResourceList)
				m[res] = v
				row.u[c18PassNode][res] += v
				if prodPods[pm.Name] {
					row.u[c18PassProd][res] += v
				}
			}
			row.podM[pm.Name] = m
		}
		// the generator's promise: the measured usage equals the reported NodeUsage
		for _, res := range []corev1.ResourceName{corev1.ResourceCPU, corev1.ResourceMemory} {
			if row.u[c18PassNode][res] != c18QVal(res, n.nm.Status.NodeMetric.NodeUsage.ResourceList) {
				w.c.Harness("node %s: system+pods usage %d differs from NodeUsage", n.name, row.u[c18PassNode][res])
			}
			if row.u[c18PassNode][res] > n.alloc[res] {
				w.c.Harness("node %s: usage above allocatable", n.name)
			}
		}
		for pass := 0; pass < 2; pass++ {
			for res, v := range row.u[pass] {
				row.est[pass][res] = v
			}
		}
	}
	// thresholds
	nMeasured := int64(0)
	for _, row := range tab.rows {
		if row.measured {
			nMeasured++
		}
	}
	for pass := 0; pass < 2; pass++ {
		for _, res := range tab.res[pass] {
			avg := new(big.Rat)
			if cfg.dev && nMeasured > 0 {
				for _, row := range tab.rows {
					if row.measured {
						avg.Add(avg, big.NewRat(row.u[pass][res]*100, row.n.alloc[res]))
					}
				}
				avg.Quo(avg, new(big.Rat).SetInt64(nMeasured))
			}
			for _, row := range tab.rows {
				if !row.measured {
					continue
				}
				for which := 0; which < 2; which++ {
					pct := new(big.Rat).SetInt64(int64(cfg.pct[pass][which][res]))
					if cfg.dev {
						if which == 0 {
							pct.Sub(avg, pct)
						} else {
							pct.Add(avg, pct)
						}
						if pct.Sign() < 0 {
							pct.SetInt64(0)
						}
						if pct.Cmp(big.NewRat(100, 1)) > 0 {
							pct.SetInt64(100)
						}
					}
					t := new(big.Rat).Mul(pct, big.NewRat(row.n.alloc[res], 100))
					if which == 0 {
						row.lo[pass][res] = t
					} else {
						row.hi[pass][res] = t
					}
				}
			}
		}
	}
	for _, row := range tab.rows {
		if !row.measured {
			continue
		}
		for pass := 0; pass < 2; pass++ {
			row.over0[pass] = row.overNow(tab, pass)
			under := !row.unsched
			for _, res := range tab.res[pass] {
				if c, amb := c18Cmp(row.u[pass][res], row.lo[pass][res]); c > 0 && !amb {
					under = false
				}
			}
			row.under[pass] = under
		}
	}
	for pass := 0; pass < 2; pass++ {
		tab.head[pass] = map[corev1.ResourceName]int64{}
		for _, row := range tab.rows {
			if row.measured && row.under[pass] {
				for _, res := range tab.res[pass] {
					tab.head[pass][res] += c18Ceil(row.hi[pass][res]) - row.u[pass][res]
				}
			}
		}
	}
	return tab
}

func (tab *c18Table) row(node string) *c18Row {
	for _, r := range tab.rows {
		if r.n.name == node {
			return r
		}
	}
	return nil
}

func (tab *c18Table) otherUnder(row *c18Row, pass int) bool {
	for _, r := range tab.rows {
		if r != row && r.measured && r.under[pass] {
			return true
		}
	}
	return false
}

func (tab *c18Table) headPositive(pass int) bool {
	for _, res := range tab.res[pass] {
		if tab.head[pass][res] <= 0 {
			return false
		}
	}
	return true
}

func c18RatStr(t *big.Rat) string {
	if t == nil {
		return "-"
	}
	if t.IsInt() {
		return t.Num().String()
	}
	return t.FloatString(4)
}

func (tab *c18Table) dump() string {
	var b strings.Builder
	fmt.Fprintf(&b, "%s\n", tab.cfg)
	for _, row := range tab.rows {
		fmt.Fprintf(&b, "  %s measured=%v unschedulable=%v streak=%d", row.n.name, row.measured, row.unsched, row.n.streak)
		if row.measured {
			for pass := 0; pass < 2; pass++ {
				fmt.Fprintf(&b, " | %s over=%v under=%v", c18PassName[pass], row.over0[pass], row.under[pass])
				for _, res := range tab.res[pass] {
					fmt.Fprintf(&b, " %s: used=%d now=%d low=%s high=%s alloc=%d", res, row.u[pass][res], row.est[pass][res], c18RatStr(row.lo[pass][res]), c18RatStr(row.hi[pass][res]), row.n.alloc[res])
				}
			}
		}
		b.WriteString("\n")
	}
	fmt.Fprintf(&b, "  headroom left: node=%v prod=%v", tab.head[0], tab.head[1])
	return b.String()
}

// c18FloatTruncated: does the shipped formula int64(pct*0.01*capacity) differ from the exact
// percentage of the capacity? (diagnostic for the signature only)
func c18FloatTruncated(pct int, alloc int64) bool {
	return int64(float64(pct)*0.01*float64(alloc)) != int64(pct)*alloc/100
}

// checkRound applies the statement to every Evict call of the round.
func (w *c18World) checkRound(round int, pools []*c18PoolCfg) {
	c := w.c
	tabs := make([]*c18Table, len(pools))
	for i, cfg := range pools {
		tabs[i] = c18BuildTable(w, cfg)
	}
	find := func(node string) (*c18Table, *c18Row) {
		for _, tab := range tabs {
			if row := tab.row(node); row != nil {
				return tab, row
			}
		}
		return nil, nil
	}
	// streaks (measured state only, before looking at any eviction)
	for _, tab := range tabs {
		defer func(tab *c18Table) {
			line := fmt.Sprintf("round %d oracle pool %s:", round, tab.cfg.name)
			for _, row := range tab.rows {
				st := "unmeasured"
				if row.measured {
					st = fmt.Sprintf("node(over=%v under=%v) prod(over=%v under=%v) over-streak=%d/%d", row.over0[0], row.under[0], row.over0[1], row.under[1], row.n.streak, tab.cfg.need)
				}
				line += fmt.Sprintf(" %s[%s]", row.n.name, st)
			}
			c.Op("%s", line)
		}(tab)
		for _, row := range tab.rows {
			n := row.n
			switch {
			case !row.measured:
				if n.streak > 0 {
					n.bridgedUnmeasure = true
				}
				c.Count("unmeasured_node_rounds", 1)
			case row.over0[0] || row.over0[1]:
				n.streak++
			default:
				if n.streak > 0 {
					n.overBeforeGap = true
				}
				if n.streak > n.maxRunBefore {
					n.maxRunBefore = n.streak
				}
				n.streak = 0
			}
			if row.measured {
				for pass := 0; pass < 2; pass++ {
					for _, res := range tab.res[pass] {
						if cmp, _ := c18Cmp(row.u[pass][res], row.hi[pass][res]); cmp == 0 {
							c.Count("threshold_exact_high", 1)
							if !tab.cfg.dev && c18FloatTruncated(tab.cfg.pct[pass][1][res], n.alloc[res]) {
								c.Count("threshold_exact_high_float_truncated", 1)
								if !row.over0[0] && !row.over0[1] {
									n.truncOnThreshold = true
								}
							}
						} else if d := new(big.Rat).Sub(new(big.Rat).SetInt64(row.u[pass][res]), row.hi[pass][res]); d.Cmp(big.NewRat(1, 1)) == 0 {
							c.Count("threshold_high_plus_one", 1)
						}
						if cmp, _ := c18Cmp(row.u[pass][res], row.lo[pass][res]); cmp == 0 {
							c.Count("threshold_exact_low", 1)
						}
					}
				}
			}
		}
	}
	for _, ev := range w.events {
		pod := w.byName[ev.pod]
		c.Count("evict_calls_checked", 1)
		if ev.ok {
			c.Count("evict_ok", 1)
		} else {
			c.Count("evict_refused", 1)
		}
		if pod == nil || pod.node != ev.node {
			c.Fail("C18/evict/unknown-pod", "round %d: Evict(%s on %s): no such live pod on that node", round, ev.pod, ev.node)
		}
		tab, row := find(ev.node)
		if tab == nil {
			c.Fail("C18/evict/node-outside-pools", "round %d: Evict(%s): node %s is selected by no node pool", round, ev.pod, ev.node)
		}
		tab.evictCalls++
		row.attempts++
		where := fmt.Sprintf("round %d: Evict(%s prod=%v reported=%v) on %s [reason given: %s]", round, ev.pod, pod.prod, row.podM[ev.pod], ev.node, ev.reason)
		if !row.measured {
			c.Fail("C18/evict/unmeasured-node", "%s: the node has no valid (fresh) NodeMetric (%s), so no measured usage above a threshold\n%s", where, c18StateName[row.n.metricState], tab.dump())
		}
		overNow := [2]bool{row.overNow(tab, 0), row.overNow(tab, 1)}
		// identifying facts that narrow the signatures below (diagnostics, not part of the oracle): in a
		// pass in which the node is not over, does it sit exactly on a high threshold (one that the
		// shipped float formula truncates?), or would it be over if evictions of pods without a pod
		// metric were not counted in the pod count?
		onThr, trunc, podCount := false, false, false
		for pass := 0; pass < 2; pass++ {
			if overNow[pass] {
				continue
			}
			for _, res := range tab.res[pass] {
				if cmp, _ := c18Cmp(row.est[pass][res], row.hi[pass][res]); cmp == 0 {
					onThr = true
					if !tab.cfg.dev && c18FloatTruncated(tab.cfg.pct[pass][1][res], row.n.alloc[res]) {
						trunc = true
					}
				}
			}
			if hi, ok := row.hi[pass][corev1.ResourcePods]; ok && row.metriclessEvicted > 0 {
				if cmp, _ := c18Cmp(row.est[pass][corev1.ResourcePods]+int64(row.metriclessEvicted), hi); cmp > 0 {
					podCount = true
				}
			}
		}
		diag := ""
		switch {
		case podCount:
			diag = "/pod-count-ignores-metricless-evictions"
		case trunc:
			diag = "/on-threshold-float-truncated"
		}
		if !overNow[0] && !overNow[1] {
			kind := "continued-after-back-under"
			if !row.over0[0] && !row.over0[1] {
				kind = "never-over"
			}
			sig := "C18/evict/not-over/" + kind + diag
			if diag == "" && onThr {
				sig += "/on-threshold"
			}
			c.Fail(sig, "%s: the node's usage (measured at the start of the round minus the reported usage of the pods already evicted from it) is above no high threshold, neither whole-node nor prod\n%s", where, tab.dump())
		}
		if row.n.streak < tab.cfg.need && !row.n.truncOnThreshold && row.n.maxRunBefore >= tab.cfg.need {
			// An earlier run WAS long enough ("has been so for the required consecutive rounds" was true
			// when the anomaly opened); a measured not-over round lies between it and now. The API's
			// LoadAnomalyCondition.ConsecutiveNormalities documents a hysteresis that keeps an opened
			// anomaly open across such rounds, and the statement does not say when a qualified run
			// expires. Counted, not a verdict (decision recorded in DESIGN.md, C18).
			c.Count("anomaly_open_kept_across_not_over_round", 1)
		} else if row.n.streak < tab.cfg.need {
			sig := "C18/anomaly/short-streak"
			switch {
			case row.n.truncOnThreshold:
				sig += "/on-threshold-float-truncated"
			case row.n.overBeforeGap:
				// no run was ever long enough: over-threshold rounds separated by not-over rounds add up
				sig += "/after-interrupted-streak"
			}
			c.Fail(sig, "%s: anomaly detection requires %d consecutive over-threshold rounds, the node has been over its high threshold for only %d consecutive round(s) (earlier over-threshold rounds before a measured not-over round: %v, longest such earlier run: %d; evicted from in an earlier round: %v; sat exactly on a float-truncated high threshold in an earlier round: %v)\n%s",
				where, tab.cfg.need, row.n.streak, row.n.overBeforeGap, row.n.maxRunBefore, row.n.evictedEarlier, row.n.truncOnThreshold, tab.dump())
		}
		var withUnder, justified []int
		for pass := 0; pass < 2; pass++ {
			if overNow[pass] && tab.otherUnder(row, pass) {
				withUnder = append(withUnder, pass)
				if tab.headPositive(pass) {
					justified = append(justified, pass)
				}
			}
		}
		if len(withUnder) == 0 {
			c.Fail("C18/evict/no-underused-node"+diag, "%s: no other schedulable node of the pool is under all low thresholds of the pass in which this node is over (node over=%v, prod over=%v)\n%s", where, overNow[0], overNow[1], tab.dump())
		}
		if len(justified) == 0 {
			sig := "C18/evict/headroom-exhausted" + diag
			for _, pass := range withUnder {
				if diag != "" {
					break
				}
				if _, ok := tab.head[pass][corev1.ResourcePods]; ok && tab.metriclessHead[pass] > 0 {
					only := true
					for _, res := range tab.res[pass] {
						h := tab.head[pass][res]
						if res == corev1.ResourcePods {
							h += int64(tab.metriclessHead[pass])
						}
						if h <= 0 {
							only = false
						}
					}
					if only {
						sig += "/pod-count-ignores-metricless-evictions"
					}
				}
			}
			c.Fail(sig, "%s: the headroom of the under-used nodes (sum of high threshold minus usage, minus the reported usage of the pods evicted so far) is not positive in every thresholded resource\n%s", where, tab.dump())
		}
		if !c18FilterPasses(pod.obj, ev.callsBefore) {
			c.Fail("C18/evict/filtered-pod", "%s: the evictor's Filter rejects this pod at that moment (filter-until=%d, %d Evict calls before)", where, pod.filterUntil, ev.callsBefore)
		}
		switch {
		case len(justified) == 2:
			c.Count("justified_by_both", 1)
		case justified[0] == c18PassNode:
			c.Count("justified_by_node_usage", 1)
		default:
			c.Count("justified_by_prod_usage", 1)
		}
		if pod.filterUntil > 0 {
			c.Count("evicted_pods_with_time_varying_filter", 1)
		}
		c.Seen("ev", tab.cfg.dev, len(tab.res[0]), len(tab.res[1]), tab.cfg.need, c18Cap(row.n.streak, 4), overNow, pod.prod, ev.ok, row.podM[ev.pod] != nil, c18Cap(row.attempts, 3), c18Cap(len(tab.rows), 5))
		// the eviction's effect on the running estimates
		if !ev.ok {
			continue
		}
		m, reported := row.podM[ev.pod]
		srcPass := c18PassProd
		if row.over0[c18PassNode] {
			srcPass = c18PassNode
		}
		if !reported {
			row.metriclessEvicted++
			tab.metriclessHead[srcPass]++
			c.Count("evicted_without_pod_metric", 1)
		}
		for _, res := range c18Res {
			var v int64
			if res == corev1.ResourcePods {
				v = 1
			} else if reported {
				v = m[res]
			}
			row.est[c18PassNode][res] -= v
			if pod.prod {
				row.est[c18PassProd][res] -= v
			}
			// the load moved consumes the headroom of the pass the node is a source of; a node that
			// was over its whole-node thresholds at the start is a source of the whole-node pass.
			if srcPass == c18PassNode || pod.prod {
				if _, ok := tab.head[srcPass][res]; ok {
					tab.head[srcPass][res] -= v
				}
			}
		}
		for pass := 0; pass < 2; pass++ {
			if !row.over0[pass] {
				continue
			}
			if !row.overNow(tab, pass) {
				c.Count("node_brought_back_under", 1)
				for _, res := range tab.res[pass] {
					if cmp, _ := c18Cmp(row.est[pass][res], row.hi[pass][res]); cmp == 0 {
						c.Count("estimate_landed_exactly_on_high", 1)
					}
				}
			}
		}
	}
	// round-level statement: evict nothing when no node is over, none is under, or all are under
	for _, tab := range tabs {
		anyOver, anyUnder, allUnder, gateOK, nMeasured := false, false, len(tab.rows) > 0, false, 0
		for _, row := range tab.rows {
			if !row.measured {
				allUnder = false
				continue
			}
			nMeasured++
			if row.over0[0] || row.over0[1] {
				anyOver = true
				if row.n.streak >= tab.cfg.need {
					gateOK = true
				}
			}
			for pass := 0; pass < 2; pass++ {
				if len(tab.res[pass]) > 0 && row.under[pass] {
					anyUnder = true
				}
				if len(tab.res[pass]) > 0 && !row.under[pass] {
					allUnder = false
				}
			}
		}
		c.Count("pool_rounds", 1)
		if tab.evictCalls > 0 {
			c.Count("pool_rounds_with_evictions", 1)
			if !anyOver {
				c.Fail("C18/evict-nothing/no-node-over", "round %d: %d Evict calls although no node of the pool is over a high threshold\n%s", round, tab.evictCalls, tab.dump())
			}
			if !anyUnder {
				c.Fail("C18/evict-nothing/no-node-under", "round %d: %d Evict calls although no node of the pool is under the low thresholds\n%s", round, tab.evictCalls, tab.dump())
			}
			if allUnder {
				c.Fail("C18/evict-nothing/all-nodes-under", "round %d: %d Evict calls although every node of the pool is under the low thresholds\n%s", round, tab.evictCalls, tab.dump())
			}
		} else {
			switch {
			case nMeasured == 0:
				c.Count("zero_evictions_no_measured_node", 1)
			case allUnder:
				c.Count("zero_evictions_all_nodes_under", 1)
			case !anyOver:
				c.Count("zero_evictions_no_node_over", 1)
			case !anyUnder:
				c.Count("zero_evictions_no_node_under", 1)
			case !gateOK:
				c.Count("zero_evictions_anomaly_gate", 1)
			default:
				c.Count("zero_evictions_other", 1)
			}
		}
		// how the round ended for the sources
		for pass := 0; pass < 2; pass++ {
			exhausted := len(tab.res[pass]) > 0 && !tab.headPositive(pass)
			for _, row := range tab.rows {
				if !row.measured || !row.over0[pass] || row.n.streak < tab.cfg.need || !tab.otherUnder(row, pass) {
					continue
				}
				if pass == c18PassProd && row.over0[c18PassNode] {
					continue
				}
				still := row.overNow(tab, pass)
				candidates := 0
				for _, p := range row.pods {
					if (pass == c18PassNode || p.prod) && c18FilterPasses(p.obj, w.calls) && !p.refuse {
						evicted := false
						for _, ev := range w.events {
							if ev.pod == p.name {
								evicted = true
							}
						}
						if !evicted {
							candidates++
						}
					}
				}
				switch {
				case still && exhausted:
					c.Count("headroom_exhaustion_stops", 1)
				case still && candidates > 0 && w.okCount < w.okLimit:
					c.Count("converse_misses_source_left_over_with_candidates", 1)
				case !still && candidates > 0 && row.attempts > 0:
					c.Count("stops_with_candidates_left_after_back_under", 1)
				}
				c.Seen("end", tab.cfg.dev, pass, still, exhausted, c18Cap(candidates, 2), c18Cap(row.attempts, 3), tab.cfg.need)
			}
		}
		c.Seen("pool", tab.cfg.dev, len(tab.res[0]), len(tab.res[1]), c18Cap(len(tab.rows), 8), c18Cap(nMeasured, 8), anyOver, anyUnder, allUnder, gateOK, c18Cap(tab.evictCalls, 4), round)
	}
	for _, ev := range w.events {
		if _, row := find(ev.node); row != nil {
			row.n.evictedEarlier = true
		}
	}
}

func c18Cap(v, m int) int {
	if v > m {
		return m
	}
	return v
}

// ---------------------------------------------------------------------------------------------
// the unit

func TestVerifC18Balance(t *testing.T) {
	kit.Run(t, kit.Config{Property: "C18", Unit: "balance", Quick: 1500, Thorough: 400000,
		Rule: "one case = one generated cluster (2-8 nodes, allocatable in multiples of 100 units, 1-2 node pools with absolute or deviation thresholds over cpu/memory/pods, optional prod thresholds, anomaly condition nil/1/2/3, NodeFit on/off, NumberOfNodes 0-2) balanced for 1-7 successive rounds by one real LowNodeLoad; per round every node draws a sticky role per pass (over/under/between) and usages are placed on, one unit beside, 1 % beside or at random distance from the thresholds; NodeMetrics missing/stale/without status; 0-10 pods per node with/without pod metrics, prod/batch, scripted evictor (filter never / until k-th eviction, Evict refused per pod or after a cap). distinct = (threshold mode, thresholded resources, anomaly need, streak, over-by pass, pod kind, outcome, attempts) per Evict call plus the end state per source node and the per-pool classification; non-trivial = a case in which at least one Evict call was checked"},
		func(c *kit.Case) { c18Case(c) })
}

func c18Case(c *kit.Case) {
	r := c.R
	w := &c18World{c: c, byName: map[string]*c18Pod{}}
	// pools
	var pools []*c18PoolCfg
	switch r.Weighted(50, 20, 30) {
	case 0:
		pools = []*c18PoolCfg{c18GenPool(r, "all", "")}
	case 1:
		pools = []*c18PoolCfg{c18GenPool(r, "a", "a")}
	default:
		pools = []*c18PoolCfg{c18GenPool(r, "a", "a"), c18GenPool(r, "b", "b")}
	}
	args := &deschedulerconfig.LowNodeLoadArgs{
		NodeFit:                     r.Bool(),
		NumberOfNodes:               int32([]int{0, 1, 2}[r.Weighted(80, 12, 8)]),
		NodeMetricExpirationSeconds: func() *int64 { v := int64(180); return &v }(),
		DetectorCacheTimeout:        &metav1.Duration{Duration: time.Hour},
	}
	for _, p := range pools {
		np := deschedulerconfig.LowNodeLoadNodePool{
			Name:                   p.name,
			UseDeviationThresholds: p.dev,
			LowThresholds:          p.thresholds(0, 0),
			HighThresholds:         p.thresholds(0, 1),
			ProdLowThresholds:      p.thresholds(1, 0),
			ProdHighThresholds:     p.thresholds(1, 1),
			ResourceWeights:        map[corev1.ResourceName]int64{corev1.ResourceCPU: int64(r.Range(1, 3)), corev1.ResourceMemory: int64(r.Range(1, 3)), corev1.ResourcePods: 1},
			AnomalyCondition:       p.anomaly,
		}
		if p.selector != "" {
			np.NodeSelector = &metav1.LabelSelector{MatchLabels: map[string]string{c18PoolLabel: p.selector}}
		}
		args.NodePools = append(args.NodePools, np)
		c.Op("%s", p)
	}
	c.Op("args nodeFit=%v numberOfNodes=%d", args.NodeFit, args.NumberOfNodes)
	// nodes
	nNodes := r.Range(2, 8)
	for i := 0; i < nNodes; i++ {
		n := &c18Node{name: fmt.Sprintf("n%d", i), alloc: map[corev1.ResourceName]int64{}}
		n.alloc[corev1.ResourceCPU] = 100 * int64(r.Range(10, 640))
		switch r.Intn(3) {
		case 0:
			n.alloc[corev1.ResourceMemory] = 100 * int64(r.Range(100, 10000))
		case 1:
			n.alloc[corev1.ResourceMemory] = 100 * (int64(r.Range(1, 512)) << 20)
		default:
			n.alloc[corev1.ResourceMemory] = 100 * int64(r.Range(10000000, 2000000000))
		}
		n.alloc[corev1.ResourcePods] = int64(kit.Pick(r, []int{100, 100, 200}))
		switch len(pools) {
		case 1:
			n.pool = pools[0].selector
			if n.pool != "" && r.Pct(15) {
				n.pool = "none"
			}
		default:
			n.pool = []string{"a", "b", "none"}[r.Weighted(50, 42, 8)]
		}
		n.obj = test.BuildTestNode(n.name, n.alloc[corev1.ResourceCPU], n.alloc[corev1.ResourceMemory], n.alloc[corev1.ResourcePods], func(node *corev1.Node) {
			node.Labels[c18PoolLabel] = n.pool
			node.Status.Allocatable[corev1.ResourceMemory] = *resource.NewQuantity(n.alloc[corev1.ResourceMemory], resource.BinarySI)
		})
		n.obj.Spec.Unschedulable = r.Pct(8)
		n.role = [2]int{r.Weighted(35, 40, 25), r.Weighted(25, 45, 30)}
		w.nodes = append(w.nodes, n)
		for k := r.Range(0, 10); k > 0; k-- {
			w.addPod(r, n)
		}
		c.Op("node %s pool=%q alloc cpu=%dm memory=%d pods=%d", n.name, n.pool, n.alloc[corev1.ResourceCPU], n.alloc[corev1.ResourceMemory], n.alloc[corev1.ResourcePods])
	}
	poolOf := func(n *c18Node) *c18PoolCfg {
		for _, p := range pools {
			if p.selector == "" || p.selector == n.pool {
				return p
			}
		}
		return nil
	}
	// the plugin: the package's constructor over the fake handle; its informer-backed NodeMetric
	// lister is replaced by a lister over an indexer the harness fills synchronously each round.
	ctx, cancel := context.WithCancel(context.Background())
	cancel() // the constructor's informers are never needed
	plugin, err := NewLowNodeLoad(ctx, args, &fakeFrameworkHandle{Handle: &c18Handle{w: w}, Interface: c18Clientset})
	if err != nil {
		c.Harness("NewLowNodeLoad rejected generated args: %v", err)
	}
	pl := plugin.(*LowNodeLoad)
	rounds := r.Range(1, 4)
	if r.Pct(15) {
		rounds = r.Range(5, 6)
	}
	if need := pools[0].need; need > 1 && rounds < need+1 && r.Pct(70) {
		rounds = r.Range(need+1, 7) // enough rounds for the anomaly detectors to open
	}
	var nodeObjs []*corev1.Node
	for _, n := range w.nodes {
		nodeObjs = append(nodeObjs, n.obj)
	}
	checkedBefore := 0
	for round := 1; round <= rounds; round++ {
		// what changed since the last round
		if round > 1 {
			for _, n := range w.nodes {
				if r.Pct(30) {
					n.role[0] = r.Weighted(35, 40, 25)
				}
				if r.Pct(30) {
					n.role[1] = r.Weighted(25, 45, 30)
				}
				if r.Pct(4) {
					n.obj.Spec.Unschedulable = !n.obj.Spec.Unschedulable
				}
				for k := r.Weighted(70, 20, 10); k > 0; k-- {
					if len(w.livePods(n.name)) < 12 {
						w.addPod(r, n)
					}
				}
			}
		}
		bias := r.Weighted(65, 13, 11, 11)
		for _, p := range pools {
			p.base = map[corev1.ResourceName]int{corev1.ResourceCPU: r.Range(25, 65), corev1.ResourceMemory: r.Range(25, 65)}
		}
		indexer := cache.NewIndexer(cache.MetaNamespaceKeyFunc, cache.Indexers{})
		for _, n := range w.nodes {
			saved := n.role
			switch bias {
			case 1: // everything under
				n.role = [2]int{c18RoleUnder, c18RoleUnder}
			case 2: // nothing over
				for i := range n.role {
					if n.role[i] == c18RoleOver {
						n.role[i] = kit.Pick(r, []int{c18RoleUnder, c18RoleMid})
					}
				}
			case 3: // nothing under
				for i := range n.role {
					if n.role[i] == c18RoleUnder {
						n.role[i] = kit.Pick(r, []int{c18RoleOver, c18RoleMid})
					}
				}
			}
			w.genMetrics(r, n, poolOf(n))
			n.role = saved
			if n.nm != nil {
				if err := indexer.Add(n.nm); err != nil {
					c.Harness("indexer: %v", err)
				}
			}
			line := fmt.Sprintf("round %d node %s unschedulable=%v metric=%s", round, n.name, n.obj.Spec.Unschedulable, c18StateName[n.metricState])
			if n.nm != nil && n.nm.Status.NodeMetric != nil {
				line += fmt.Sprintf(" system={cpu:%dm memory:%d}", c18QVal(corev1.ResourceCPU, n.nm.Status.NodeMetric.SystemUsage.ResourceList), c18QVal(corev1.ResourceMemory, n.nm.Status.NodeMetric.SystemUsage.ResourceList))
			}
			for _, p := range w.livePods(n.name) {
				line += fmt.Sprintf(" %s[prod=%v filterUntil=%d refuse=%v", p.name, p.prod, p.filterUntil, p.refuse)
				if p.hasMetric {
					line += fmt.Sprintf(" cpu=%dm", p.m[corev1.ResourceCPU])
					if v, ok := p.m[corev1.ResourceMemory]; ok {
						line += fmt.Sprintf(" memory=%d", v)
					}
				} else {
					line += " no-metric"
				}
				line += "]"
			}
			if n.nm != nil {
				for _, pm := range n.nm.Status.PodsMetric {
					if w.byName[pm.Name] == nil {
						line += fmt.Sprintf(" stale-entry %s[cpu=%dm memory=%d]", pm.Name, c18QVal(corev1.ResourceCPU, pm.PodUsage.ResourceList), c18QVal(corev1.ResourceMemory, pm.PodUsage.ResourceList))
					}
				}
			}
			c.Op("%s", line)
		}
		pl.nodeMetricLister = koordslolisters.NewNodeMetricLister(indexer)
		w.calls, w.okCount, w.filterCalls, w.events = 0, 0, 0, nil
		w.okLimit = []int{1 << 30, 1, 2, 3}[r.Weighted(80, 7, 7, 6)]
		c.Op("round %d Balance (evictor accepts at most %d evictions)", round, w.okLimit)
		status := pl.Balance(context.Background(), nodeObjs)
		for _, ev := range w.events {
			c.Op("round %d   Evict(%s on %s) -> %v  reason=%q", round, ev.pod, ev.node, ev.ok, ev.reason)
		}
		c.Op("round %d Balance returned %v: %d Evict calls, %d Filter calls", round, status, len(w.events), w.filterCalls)
		c.Count("rounds", 1)
		c.Count("filter_calls", w.filterCalls)
		w.checkRound(round, pools)
		// evicted pods are gone
		gone := map[string]bool{}
		for _, ev := range w.events {
			if ev.ok {
				gone[ev.pod] = true
			}
		}
		if len(gone) > 0 {
			kept := w.pods[:0]
			for _, p := range w.pods {
				if gone[p.name] {
					delete(w.byName, p.name)
					continue
				}
				kept = append(kept, p)
			}
			w.pods = kept
		}
		checkedBefore += len(w.events)
	}
	if checkedBefore > 0 {
		c.NonTrivial()
	}
	if c.K < 2 {
		ops := c.Ops()
		if len(ops) > 14 {
			ops = ops[:14]
		}
		c.Sample(ops)
	}
}
